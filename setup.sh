#!/bin/sh
# setup_cmd: build the framework offline from files on disk (Coq project, Go harness).
set -e
cd "$(dirname "$0")"
export GOFLAGS=-mod=mod GOPROXY=off GOSUMDB=off GOTOOLCHAIN=local CGO_ENABLED=0
mkdir -p bin run replay evidence
cp /repo/go.sum harness/go.sum
(cd harness && go build -tags verif -o ../bin/harness .)
if VERIF_ROOT="$(pwd)" ./bin/harness gen -repo /repo -out coq >/dev/null 2>&1; then :; fi
python3 -c "import sys; sys.path.insert(0,'lib'); import vlib; vlib.gen_coqproject()"
(cd coq && coq_makefile -f _CoqProject -o Makefile && timeout 600 make Lib.vo >/dev/null)
# C11: obligations lia cannot prove are taken out of Gen_C11.v (reported by ./check C11), needs Lib.vo
python3 lib/c11.py "$(pwd)/coq" >/dev/null 2>&1 || true
(cd coq && timeout 3000 make -j16 >/dev/null)
echo setup ok
