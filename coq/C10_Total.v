(* C10 — universal termination and totality of the parser model.
   For EVERY token list (ill-formed ones included) parse_tokens, run with an explicit fuel, never
   returns PFuel (out of fuel) and never PPanic:
   - [b = false]: the tokens hold no import directive (no token whose text, as written or after
     environment expansion, is `import`): fuel = tokens + 4;
   - [b = true]: arbitrary tokens, imports executed through an arbitrary world oracle whose glob
     answers splice at most L0 tokens, at most [maxi] imports (the too-many-imports error beyond):
     fuel = tokens + 4 + L0 * (2^maxi - 1).
   One potential serves both: W st = (tokens - cursor) + pot st, where pot is what the remaining
   imports may still add.  Every loop iteration of parseAll / addresses / directives / directive /
   snippetTokens lowers W by at least one; an import lowers it by two. *)
Require Import V.Lib V.GoPath V.C10_Model.
From Coq Require Import Lia ZArith List Bool.
Import ListNotations.
Open Scope Z_scope.

Definition fresh_from (env : list (bytes * bytes)) (i : nat) (toks : list token) : Prop :=
  forall j t, (i <= j)%nat -> nth_error toks j = Some t -> noimpb env t = true.

Section Total.
Variable env : list (bytes * bytes).
Variable maxi : N.
Variable globs : list ((N * bytes) * list N).
Variable files : list (N * option (list token)).
Variable b : bool.
Variable L0 : Z.
Hypothesis L0_nonneg : 0 <= L0.
Hypothesis Hfiles : b = true -> forall f pat ids ts, lookup_g globs f pat = Some ids ->
  import_files files ids = POk ts -> Z.of_nat (length ts) <= L0.

Definition Lc (st : pst) : Z := L0 * 2 ^ Z.of_N (p_imports st).
Definition Lm : Z := L0 * 2 ^ Z.of_N maxi.
Definition pot (st : pst) : Z := if b then Lm - Lc st else 0.
Definition W (st : pst) : Z := plen st - p_cursor st + pot st.

Definition Inv (st : pst) : Prop :=
  (-1 <= p_cursor st <= plen st) /\
  (b = true -> (p_imports st <= maxi)%N /\ plen st <= Lc st /\
               Forall (fun e => Z.of_nat (length (snd e)) <= Lc st) (p_snips st)) /\
  (b = false -> fresh_from env (Z.to_nat (p_cursor st + 1)) (p_tokens st)).
Definition InvA (st : pst) : Prop :=
  Inv st /\ 0 <= p_cursor st /\ (b = false -> fresh_from env (Z.to_nat (p_cursor st)) (p_tokens st)).

Definition fine {A} (r : pres A) (Q : A -> Prop) : Prop :=
  match r with POk v => Q v | PErr _ => True | PUnknown => b = true | PFuel => False | PPanic => False end.

Lemma fine_impl {A} (r : pres A) (Q Q' : A -> Prop) : (forall v, Q v -> Q' v) -> fine r Q -> fine r Q'.
Proof. destruct r; simpl; auto. Qed.

(* ---- arithmetic of the potential ---- *)
Lemma Lc_pos st : 0 <= Lc st.
Proof. unfold Lc. apply Z.mul_nonneg_nonneg; [exact L0_nonneg|]. apply Z.pow_nonneg. lia. Qed.
Lemma L0_le_Lc st : L0 <= Lc st.
Proof.
  unfold Lc. assert (1 <= 2 ^ Z.of_N (p_imports st)) by (apply Z.pow_le_mono_r with (a:=2) (b:=0) (c:=Z.of_N (p_imports st)); lia).
  nia.
Qed.
Lemma Lc_le_Lm st : (p_imports st <= maxi)%N -> Lc st <= Lm.
Proof.
  intro H. unfold Lc, Lm. apply Z.mul_le_mono_nonneg_l; [exact L0_nonneg|].
  apply Z.pow_le_mono_r; lia.
Qed.
Lemma pot_nonneg st : Inv st -> 0 <= pot st.
Proof.
  intros (_ & Hb & _). unfold pot. destruct b; [|lia].
  destruct (Hb eq_refl) as (Hi & _). pose proof (Lc_le_Lm st Hi). lia.
Qed.
Lemma W_nonneg st : Inv st -> 0 <= W st.
Proof. intro H. pose proof (pot_nonneg st H). destruct H as ((_ & ?) & _). unfold W. lia. Qed.

(* ---- invariants depend on four fields only ---- *)
Lemma Inv_fields st st' : p_tokens st' = p_tokens st -> p_cursor st' = p_cursor st ->
  p_snips st' = p_snips st -> p_imports st' = p_imports st -> Inv st -> Inv st'.
Proof. destruct st, st'; simpl; intros -> -> -> ->; unfold Inv, plen, Lc; simpl; auto. Qed.
Lemma InvA_fields st st' : p_tokens st' = p_tokens st -> p_cursor st' = p_cursor st ->
  p_snips st' = p_snips st -> p_imports st' = p_imports st -> InvA st -> InvA st'.
Proof. destruct st, st'; simpl; intros -> -> -> ->; unfold InvA, Inv, plen, Lc; simpl; auto. Qed.
Lemma W_fields st st' : p_tokens st' = p_tokens st -> p_cursor st' = p_cursor st ->
  p_imports st' = p_imports st -> W st' = W st.
Proof. destruct st, st'; simpl; intros -> -> ->; unfold W, pot, plen, Lc; simpl; auto. Qed.

Lemma fresh_mono i j toks : (i <= j)%nat -> fresh_from env i toks -> fresh_from env j toks.
Proof. intros Hij H k t Hk. apply H. lia. Qed.

Lemma InvA_Inv st : InvA st -> Inv st.
Proof. intros (H & _); exact H. Qed.

(* ---- cursor moves ---- *)
Lemma next_true st st1 : p_next st = (true, st1) ->
  st1 = set_cursor st (p_cursor st + 1) /\ p_cursor st + 1 <= plen st - 1.
Proof.
  unfold p_next. destruct (Z.ltb_spec (p_cursor st) (plen st - 1)) as [Hlt|Hlt]; intro HH; try discriminate HH; injection HH as <-; split; [reflexivity|simpl; lia].
Qed.
Lemma next_false st st1 : p_next st = (false, st1) -> st1 = st /\ plen st - 1 <= p_cursor st.
Proof.
  unfold p_next. destruct (Z.ltb_spec (p_cursor st) (plen st - 1)) as [Hlt|Hlt]; intro HH; try discriminate HH; injection HH as <-; split; [reflexivity|simpl; lia].
Qed.

Lemma Inv_fwd st : Inv st -> p_cursor st + 1 <= plen st - 1 ->
  InvA (set_cursor st (p_cursor st + 1)) /\ W (set_cursor st (p_cursor st + 1)) = W st - 1.
Proof.
  intros ((Hc1 & Hc2) & Hb & Hf) Hn. split.
  - unfold InvA, Inv. unfold plen, Lc in *. simpl. repeat split; try lia; auto.
    + apply Hb; auto. + apply Hb; auto. + apply Hb; auto.
    + intro Hbf. eapply fresh_mono; [|apply Hf; exact Hbf]. lia.
  - unfold W, pot, plen, Lc. simpl. lia.
Qed.

Lemma Inv_back st : InvA st -> Inv (set_cursor st (p_cursor st - 1)) /\ W (set_cursor st (p_cursor st - 1)) = W st + 1.
Proof.
  intros (((Hc1 & Hc2) & Hb & Hf) & H0 & HfA). split.
  - unfold Inv. unfold plen, Lc in *. simpl. repeat split; try lia; auto.
    + apply Hb; auto. + apply Hb; auto. + apply Hb; auto.
    + intro Hbf. replace (p_cursor st - 1 + 1) with (p_cursor st) by lia. auto.
  - unfold W, pot, plen, Lc. simpl. lia.
Qed.

Lemma tok_at_some st c : 0 <= c -> c < plen st -> exists t, tok_at st c = Some t.
Proof.
  intros H0 H1. unfold tok_at. destruct (Z.ltb_spec c 0); [lia|].
  destruct (nth_error (p_tokens st) (Z.to_nat c)) eqn:E; [eauto|].
  apply nth_error_None in E. unfold plen in H1. lia.
Qed.
Lemma tok_at_lt st c t : tok_at st c = Some t -> 0 <= c < plen st.
Proof.
  unfold tok_at. destruct (Z.ltb_spec c 0); [discriminate|]. intro E.
  assert (nth_error (p_tokens st) (Z.to_nat c) <> None) by congruence.
  apply nth_error_Some in H0. unfold plen. lia.
Qed.

(* ---- set_tok_text ---- *)
Lemma upd_length {A} (f : A -> A) : forall i (l : list A),
  length (firstn i l ++ match skipn i l with t :: r => f t :: r | [] => [] end) = length l.
Proof. induction i; destruct l; simpl; auto. Qed.
Lemma upd_nth {A} (f : A -> A) : forall i (l : list A) j, j <> i ->
  nth_error (firstn i l ++ match skipn i l with t :: r => f t :: r | [] => [] end) j = nth_error l j.
Proof.
  induction i; destruct l; simpl; intros j Hj; auto.
  - destruct j; [lia|reflexivity].
  - destruct j; [reflexivity|]. simpl. apply IHi. lia.
Qed.

Lemma Inv_set_text st txt dir t' : InvA st ->
  Inv (push_tok (set_tok_text st (p_cursor st) txt) dir t') /\
  W (push_tok (set_tok_text st (p_cursor st) txt) dir t') = W st.
Proof.
  intros (((Hc1 & Hc2) & Hb & Hf) & H0 & HfA).
  assert (Hl : plen (push_tok (set_tok_text st (p_cursor st) txt) dir t') = plen st).
  { unfold plen. simpl. rewrite upd_length. reflexivity. }
  split.
  - unfold Inv. rewrite Hl. unfold Lc. simpl. repeat split; try lia; auto.
    + apply Hb; auto. + apply Hb; auto. + apply Hb; auto.
    + intros Hbf j t Hj Hn. rewrite upd_nth in Hn by lia. eapply (Hf Hbf); eauto.
  - unfold W. rewrite Hl. unfold pot, Lc. simpl. reflexivity.
Qed.

(* ---- imports ---- *)
Lemma renv_nil : renv env [] = [].
Proof. reflexivity. Qed.

Lemma lookup_s_In l k v : lookup_s l k = Some v -> In v (map snd l).
Proof.
  induction l as [|[k' v'] l IH]; simpl; [discriminate|].
  destruct (beq k' k); intro H; [inversion H; auto|auto].
Qed.

Lemma imported_len st pat imp : b = true -> Inv st ->
  imported_tokens globs files st pat = POk imp -> Z.of_nat (length imp) <= Lc st.
Proof.
  intros Hbt (_ & Hb & _) H. destruct (Hb Hbt) as (_ & _ & Hs).
  unfold imported_tokens in H. destruct (lookup_s (p_snips st) pat) eqn:E.
  - inversion H; subst. apply lookup_s_In in E. apply in_map_iff in E as (e & <- & Hin).
    rewrite Forall_forall in Hs. apply Hs; exact Hin.
  - destruct (negb (glob_ok pat)); [discriminate|].
    destruct (lookup_g globs _ pat) as [ids|] eqn:G; [|discriminate].
    pose proof (L0_le_Lc st). pose proof (Lc_pos st).
    destruct ids as [|i ids].
    + destruct (has_glob_char pat); inversion H; simpl; lia.
    + pose proof (Hfiles Hbt _ _ _ _ G H). lia.
Qed.

Lemma import_files_class ids : import_files files ids <> PFuel /\ import_files files ids <> PPanic.
Proof.
  induction ids as [|i r IH]; simpl; [split; discriminate|].
  destruct (lookup_f files i) as [[ts|]|]; try (split; discriminate).
  destruct (import_files files r); try (split; discriminate); destruct IH; split; congruence.
Qed.
Lemma imported_class st pat : imported_tokens globs files st pat <> PFuel /\ imported_tokens globs files st pat <> PPanic.
Proof.
  unfold imported_tokens. destruct (lookup_s (p_snips st) pat); [split; discriminate|].
  destruct (negb (glob_ok pat)); [split; discriminate|].
  destruct (lookup_g globs _ pat) as [[|i ids]|]; try (split; discriminate).
  - destruct (has_glob_char pat); split; discriminate.
  - apply import_files_class.
Qed.

Lemma zslice_to_ok {A} (l : list A) hi : 0 <= hi <= Z.of_nat (length l) ->
  zslice_to l hi = Ok (firstn (Z.to_nat hi) l).
Proof.
  intro H. unfold zslice_to. destruct (Z.ltb_spec hi 0); [lia|]. unfold slice. simpl.
  destruct (Nat.leb_spec (Z.to_nat hi) (length l)); [|lia]. rewrite Nat.sub_0_r. reflexivity.
Qed.
Lemma zslice_from_ok {A} (l : list A) lo : 0 <= lo <= Z.of_nat (length l) ->
  zslice_from l lo = Ok (skipn (Z.to_nat lo) l).
Proof.
  intro H. unfold zslice_from. destruct (Z.ltb_spec lo 0); [lia|]. unfold slice_from.
  destruct (Nat.leb_spec (Z.to_nat lo) (length l)); [|lia]. reflexivity.
Qed.

Lemma next_arg_true st st1 : 0 <= p_cursor st -> next_arg st = (true, st1) ->
  st1 = set_cursor st (p_cursor st + 1) /\ p_cursor st + 1 < plen st.
Proof.
  intros H0. unfold next_arg. destruct (Z.ltb_spec (p_cursor st) 0); [lia|].
  destruct (p_cursor st >=? plen st); [discriminate|].
  destruct (tok_at st (p_cursor st)); [|discriminate].
  destruct (tok_at st (p_cursor st + 1)) eqn:E; [|discriminate].
  destruct (same_line t t0); intro H1; inversion H1. split; [reflexivity|].
  apply tok_at_lt in E. lia.
Qed.

Lemma Lc_succ st st' : p_imports st' = (p_imports st + 1)%N -> Lc st' = 2 * Lc st.
Proof.
  intro H. unfold Lc. rewrite H. rewrite N2Z.inj_add. simpl Z.of_N.
  rewrite Z.pow_add_r by lia. change (2 ^ 1) with 2. ring.
Qed.

Lemma import_fine st : InvA st ->
  (beq (pval st) IMPORT = true \/ beq (renv env (pval st)) IMPORT = true) ->
  fine (do_import env maxi globs files st) (fun st' => InvA st' /\ W st' + 2 <= W st).
Proof.
  intros HA Himp. destruct (Bool.bool_dec b true) as [Hbb|Hbb].
  2:{ apply not_true_is_false in Hbb.
    (* no import directive among the tokens at and after the cursor *)
    exfalso. destruct HA as (_ & H0 & HfA). specialize (HfA Hbb).
    unfold pval in Himp. destruct (tok_at st (p_cursor st)) as [t|] eqn:E.
    - unfold tok_at in E. destruct (Z.ltb_spec (p_cursor st) 0); [lia|].
      pose proof (HfA _ _ (Nat.le_refl _) E) as Hn. unfold noimpb in Hn.
      apply andb_true_iff in Hn as (Hn1 & Hn2). apply negb_true_iff in Hn1, Hn2.
      destruct Himp as [Hi|Hi]; congruence.
    - rewrite renv_nil in Himp. destruct Himp as [Hi|Hi]; discriminate Hi. }
  pose proof HA as (((Hc1 & Hc2) & Hb & Hf) & H0 & HfA).
  destruct (Hb Hbb) as (Hi & Hlen & Hs).
  unfold do_import. destruct (next_arg st) as [has st1] eqn:E1. destruct has; simpl; [|exact I].
  apply next_arg_true in E1 as (-> & Harg); [|exact H0].
  set (st1 := set_cursor st (p_cursor st + 1)).
  destruct (renv env (pval st1)) as [|p0 pat0] eqn:Ep; [exact I|]. rewrite <- Ep. set (pat := renv env (pval st1)).
  destruct (N.ltb_spec maxi (p_imports st1 + 1)) as [|Hmax]; [exact I|].
  destruct (next_arg st1) as [has2 st2]. destruct has2; [exact I|].
  change (p_cursor st1) with (p_cursor st + 1). change (p_tokens st1) with (p_tokens st).
  unfold plen in *.
  rewrite zslice_to_ok by lia. rewrite zslice_from_ok by lia.
  destruct (imported_tokens globs files st1 pat) as [imp| | | |] eqn:Ei; simpl; auto;
    try (destruct (imported_class st1 pat); congruence).
  assert (Hil : Z.of_nat (length imp) <= Lc st).
  { assert (Inv st1) as Hst1.
    { eapply Inv_fields with (st := set_cursor st (p_cursor st + 1)); try reflexivity.
      apply Inv_fwd; [apply InvA_Inv; exact HA| unfold plen; lia]. }
    exact (imported_len st1 pat imp Hbb Hst1 Ei). }
  match goal with |- InvA ?S /\ _ => set (st' := S) end.
  assert (Hl' : Z.of_nat (length (p_tokens st')) = Z.of_nat (length (p_tokens st)) - 2 + Z.of_nat (length imp)).
  { unfold st'. simpl. rewrite !app_length, map_length, firstn_length, skipn_length. lia. }
  assert (HLc : Lc st' = 2 * Lc st) by (apply Lc_succ; reflexivity).
  pose proof (Lc_pos st).
  split.
  - unfold InvA, Inv, plen. rewrite Hl', HLc.
    replace (p_cursor st') with (p_cursor st) by (unfold st'; simpl; lia).
    repeat split; try lia; try discriminate.
    + unfold st'. simpl. unfold st1 in Hmax. simpl in Hmax. first [exact Hmax | lia].
    + change (p_snips st') with (p_snips st). eapply Forall_impl; [|exact Hs]. intros a Ha. cbv beta in *. lia.
    + congruence.
    + congruence.
  - unfold W, pot, plen. rewrite Hbb, Hl', HLc.
    replace (p_cursor st') with (p_cursor st) by (unfold st'; simpl; lia). lia.
Qed.

(* ---- the loops ---- *)
Ltac fin Hd := cbn [fine] in Hd |- *; try contradiction; auto.

Lemma dl_fine : forall fuel st dir nest, Inv st -> W st + 1 <= Z.of_nat fuel ->
  fine (directive_loop env maxi globs files fuel st dir nest) (fun st' => Inv st' /\ W st' <= W st).
Proof.
  induction fuel as [|f IH]; intros st dir nest HI HW.
  - pose proof (W_nonneg st HI). lia.
  - cbn [directive_loop]. destruct (p_next st) as [has st1] eqn:E. destruct has.
    + apply next_true in E as (-> & Hn). destruct (Inv_fwd st HI Hn) as (HA1 & HW1).
      set (st1 := set_cursor st (p_cursor st + 1)) in *.
      cbn [negb].
      assert (Hst2 : forall txt t', Inv (push_tok (set_tok_text st1 (p_cursor st1) txt) dir t') /\
                                   W (push_tok (set_tok_text st1 (p_cursor st1) txt) dir t') = W st - 1).
      { intros. destruct (Inv_set_text st1 txt dir t' HA1). split; [auto|lia]. }
      assert (Hleaf : forall txt t' n', fine (directive_loop env maxi globs files f (push_tok (set_tok_text st1 (p_cursor st1) txt) dir t') dir n')
                                           (fun st' => Inv st' /\ W st' <= W st)).
      { intros. destruct (Hst2 txt t') as (Hi2 & Hw2).
        eapply fine_impl; [|apply IH; [exact Hi2|lia]]. intros v (? & ?). split; [assumption|lia]. }
      destruct (tok_at_some st1 (p_cursor st1)) as (t & Et).
      { destruct HA1 as (_ & ? & _). lia. }
      { unfold st1 at 1. simpl. unfold plen in *. simpl. lia. }
      rewrite Et.
      destruct (beq (pval st1) LBRACE); [apply Hleaf|].
      destruct (is_new_line st1 && (nest =? 0)).
      { cbn [fine]. destruct (Inv_back st1 HA1). split; [auto|lia]. }
      destruct (beq (pval st1) RBRACE && (0 <? nest)); [apply Hleaf|].
      destruct (beq (pval st1) RBRACE && (nest =? 0)); [exact I|].
      destruct (beq (pval st1) IMPORT && is_new_line st1) eqn:Hc; [|apply Hleaf].
      apply andb_true_iff in Hc as (Hv & _).
      pose proof (import_fine st1 HA1 (or_introl Hv)) as Hd.
      destruct (do_import env maxi globs files st1) as [st2| | | |]; fin Hd.
      destruct Hd as (HA2 & HW2). destruct (Inv_back st2 HA2) as (HI3 & HW3).
      eapply fine_impl; [|apply IH; [exact HI3|lia]]. intros v (? & ?). split; [assumption|lia].
    + apply next_false in E as (-> & _). cbn [negb]. destruct (0 <? nest); cbn [fine negb andb]; [exact I|].
      split; [assumption|lia].
Qed.

Lemma dir_fine fuel st : InvA st -> p_cursor st < plen st -> W st + 1 <= Z.of_nat fuel ->
  fine (directive env maxi globs files fuel st) (fun st' => Inv st' /\ W st' <= W st).
Proof.
  intros HA Hlt HW. unfold directive.
  destruct (tok_at_some st (p_cursor st)) as (t & ->); [destruct HA as (_ & ? & _); lia|exact Hlt|].
  set (st' := push_tok st (renv env (t_text t)) t).
  assert (H1 : Inv st') by (eapply Inv_fields with (st := st); try reflexivity; apply HA).
  assert (H2 : W st' = W st) by (apply W_fields; reflexivity).
  eapply fine_impl; [|apply dl_fine; [exact H1|lia]]. intros v (? & ?). split; [assumption|lia].
Qed.

Lemma addr_fine : forall fuel st e, InvA st -> W st + 1 <= Z.of_nat fuel ->
  fine (addresses env maxi globs files fuel st e)
       (fun st' => InvA st' /\ W st' <= W st /\ (p_eof st' = true \/ p_cursor st' < plen st')).
Proof.
  induction fuel as [|f IH]; intros st e HA HW.
  - pose proof (W_nonneg st (InvA_Inv _ HA)). lia.
  - cbn [addresses].
    destruct (beq (renv env (pval st)) IMPORT && is_new_line st) eqn:Hc.
    { apply andb_true_iff in Hc as (Hv & _).
      pose proof (import_fine st HA (or_intror Hv)) as Hd.
      destruct (do_import env maxi globs files st) as [st2| | | |]; fin Hd.
      destruct Hd as (HA2 & HW2). eapply fine_impl; [|apply IH; [exact HA2|lia]].
      intros v (? & ? & ?). split; [assumption|split; [lia|first [assumption|intro; lia]]]. }
    destruct (beq (renv env (pval st)) LBRACE) eqn:Hl.
    { destruct e; cbn [fine negb andb]; [exact I|]. split; [exact HA|]. split; [lia|]. right.
      unfold pval in Hl. destruct (tok_at st (p_cursor st)) eqn:Et; [apply tok_at_lt in Et; lia|].
      rewrite renv_nil in Hl. discriminate Hl. }
    assert (Htail : forall st1 exp1, p_tokens st1 = p_tokens st -> p_cursor st1 = p_cursor st ->
       p_snips st1 = p_snips st -> p_imports st1 = p_imports st ->
       fine (let '(has, st2) := p_next st1 in
             if exp1 && negb has then PErr ESyntax
             else if negb has then POk (set_eof st2)
             else if negb exp1 && is_new_line st2 then POk st2
             else addresses env maxi globs files f st2 exp1)
            (fun st' => InvA st' /\ W st' <= W st /\ (p_eof st' = true \/ p_cursor st' < plen st'))).
    { intros st1 exp1 E1 E2 E3 E4.
      assert (HA1 : InvA st1) by (eapply InvA_fields with (st := st); eauto).
      assert (HW1 : W st1 = W st) by (apply W_fields; auto).
      destruct (p_next st1) as [has st2] eqn:E. destruct has.
      - apply next_true in E as (-> & Hn). destruct (Inv_fwd st1 (InvA_Inv _ HA1) Hn) as (HA2 & HW2).
        set (st2 := set_cursor st1 (p_cursor st1 + 1)) in *.
        assert (Hlt : p_cursor st2 < plen st2) by (unfold st2, plen in *; simpl; lia).
        assert (Hrec : fine (addresses env maxi globs files f st2 exp1)
                 (fun st' => InvA st' /\ W st' <= W st /\ (p_eof st' = true \/ p_cursor st' < plen st'))).
        { eapply fine_impl; [|apply IH; [exact HA2|lia]]. intros v (? & ? & ?). split; [assumption|split; [lia|first [assumption|intro; lia]]]. }
        destruct exp1; cbn [fine negb andb]; [exact Hrec|].
        destruct (is_new_line st2); [|exact Hrec]. cbn [fine]. split; [exact HA2|]. split; [lia|]. right; exact Hlt.
      - apply next_false in E as (-> & _). destruct exp1; cbn [fine negb andb]; [exact I|].
        split; [eapply InvA_fields with (st := st1); try reflexivity; exact HA1|].
        split; [erewrite W_fields with (st := st1); try reflexivity; lia|left; reflexivity]. }
    destruct (rev (renv env (pval st))) as [|last pre].
    { apply Htail; reflexivity. }
    destruct (last =? COMMA)%N; apply Htail; reflexivity.
Qed.

Lemma dirs_fine : forall fuel st, Inv st -> W st + 2 <= Z.of_nat fuel ->
  fine (directives env maxi globs files fuel st)
       (fun st' => Inv st' /\ W st' <= W st /\ (p_cursor st < plen st - 1 -> W st' <= W st - 1)).
Proof.
  induction fuel as [|f IH]; intros st HI HW.
  - pose proof (W_nonneg st HI). lia.
  - cbn [directives]. destruct (p_next st) as [has st1] eqn:E. destruct has.
    + apply next_true in E as (-> & Hn). destruct (Inv_fwd st HI Hn) as (HA1 & HW1).
      set (st1 := set_cursor st (p_cursor st + 1)) in *. cbn [negb].
      destruct (beq (pval st1) RBRACE).
      { cbn [fine]. split; [apply InvA_Inv; exact HA1|]. split; lia. }
      destruct (beq (pval st1) IMPORT) eqn:Hv.
      { pose proof (import_fine st1 HA1 (or_introl Hv)) as Hd.
        destruct (do_import env maxi globs files st1) as [st2| | | |]; fin Hd.
        destruct Hd as (HA2 & HW2). destruct (Inv_back st2 HA2) as (HI3 & HW3).
        eapply fine_impl; [|apply IH; [exact HI3|lia]]. intros v (? & ? & ?). split; [assumption|split; [lia|first [assumption|intro; lia]]]. }
      assert (Hlt : p_cursor st1 < plen st1) by (unfold st1, plen in *; simpl; lia).
      pose proof (dir_fine f st1 HA1 Hlt ltac:(lia)) as Hd.
      destruct (directive env maxi globs files f st1) as [st2| | | |]; fin Hd.
      destruct Hd as (HI2 & HW2).
      eapply fine_impl; [|apply IH; [exact HI2|lia]]. intros v (? & ? & ?). split; [assumption|split; [lia|first [assumption|intro; lia]]].
    + apply next_false in E as (-> & Hge). simpl. split; [assumption|]. split; lia.
Qed.

Lemma bc_fine fuel st : InvA st -> p_cursor st < plen st -> W st + 3 <= Z.of_nat fuel ->
  fine (block_contents env maxi globs files fuel st) (fun st' => Inv st' /\ W st' <= W st).
Proof.
  intros HA Hlt HW. unfold block_contents. destruct (beq (pval st) LBRACE).
  - pose proof (dirs_fine fuel st (InvA_Inv _ HA) ltac:(lia)) as Hd.
    destruct (directives env maxi globs files fuel st) as [st1| | | |]; fin Hd.
    destruct (beq (pval st1) RBRACE); cbn [fine]; [|exact I]. destruct Hd as (? & ? & _). split; auto.
  - destruct (Inv_back st HA) as (HI0 & HW0).
    set (st0 := set_cursor st (p_cursor st - 1)) in *.
    pose proof (dirs_fine fuel st0 HI0 ltac:(lia)) as Hd.
    destruct (directives env maxi globs files fuel st0) as [st1| | | |]; fin Hd.
    destruct Hd as (? & ? & Hd3). split; [assumption|].
    assert (p_cursor st0 < plen st0 - 1) by (unfold st0, plen in *; simpl; lia). lia.
Qed.

Lemma snip_fine : forall fuel st count acc, Inv st -> W st + 1 <= Z.of_nat fuel ->
  fine (snippet_tokens fuel st count acc)
       (fun p => Inv (fst p) /\ W (fst p) <= W st /\ p_snips (fst p) = p_snips st /\
                 p_imports (fst p) = p_imports st /\ p_cursor st <= p_cursor (fst p) /\
                 Z.of_nat (length (snd p)) <= Z.of_nat (length acc) + (p_cursor (fst p) - p_cursor st)).
Proof.
  induction fuel as [|f IH]; intros st count acc HI HW.
  - pose proof (W_nonneg st HI). lia.
  - cbn [snippet_tokens]. destruct (p_next st) as [has st1] eqn:E. destruct has.
    + apply next_true in E as (-> & Hn). destruct (Inv_fwd st HI Hn) as (HA1 & HW1).
      set (st1 := set_cursor st (p_cursor st + 1)) in *. cbn [negb].
      assert (Hc1 : p_cursor st1 = p_cursor st + 1) by reflexivity.
      destruct (beq (pval st1) RBRACE && (count =? 1)).
      { cbn [fine]. split; [apply InvA_Inv; exact HA1|]. cbn [fst snd]. split; [lia|]. split; [reflexivity|]. split; [reflexivity|]. split; lia. }
      destruct (tok_at_some st1 (p_cursor st1)) as (t & ->).
      { pose proof HA1 as (_ & ? & _); lia. } { unfold st1, plen in *; simpl; lia. }
      eapply fine_impl; [|apply IH; [apply InvA_Inv; exact HA1|lia]].
      intros [v body] (? & ? & Hs & Hi & Hcu & Hbody). cbn [fst snd] in *. rewrite app_length in Hbody. simpl in Hbody.
      split; [assumption|]. split; [lia|]. split; [rewrite Hs; reflexivity|]. split; [rewrite Hi; reflexivity|]. split; lia.
    + cbn [fine]. exact I.
Qed.

Lemma defsnip_fine fuel st : InvA st -> is_snippet (p_keys st) = true -> W st + 1 <= Z.of_nat fuel ->
  fine (define_snippet fuel st) (fun st' => Inv st' /\ W st' <= W st).
Proof.
  intros HA Hs HW. unfold define_snippet. destruct (p_keys st) as [|k [|k2 ks]]; try discriminate Hs.
  destruct (lookup_s (p_snips st) (snippet_name k)); [exact I|].
  destruct (negb (beq (pval st) LBRACE)); [exact I|].
  pose proof (snip_fine fuel st 1 [] (InvA_Inv _ HA) HW) as Hd.
  destruct (snippet_tokens fuel st 1 []) as [[st1 body]| | | |]; fin Hd.
  cbn [fst snd length] in Hd. destruct Hd as (HI1 & HW1 & Hsn & Him & Hcu & Hbody).
  match goal with |- Inv ?S /\ _ => set (st2 := S) end.
  assert (E1 : Lc st2 = Lc st1) by reflexivity.
  assert (E2 : plen st2 = plen st1) by reflexivity.
  assert (E3 : p_cursor st2 = p_cursor st1) by reflexivity.
  split.
  - destruct HI1 as (Hc & Hb & Hf). unfold Inv. rewrite E1, E2, E3. split; [exact Hc|]. split; [|exact Hf].
    intro Hbt. destruct (Hb Hbt) as (? & ? & Hfa). split; [assumption|]. split; [assumption|].
    change (p_snips st2) with (p_snips st1 ++ [(snippet_name k, body)]).
    apply Forall_app. split; [exact Hfa|]. constructor; [|constructor]. simpl.
    destruct HA as (_ & ? & _). lia.
  - erewrite W_fields with (st := st1); try reflexivity. exact HW1.
Qed.

Lemma one_fine fuel st : InvA st -> W st + 3 <= Z.of_nat fuel ->
  fine (parse_one env maxi globs files fuel st) (fun st' => Inv st' /\ W st' <= W st).
Proof.
  intros HA HW. unfold parse_one.
  match goal with |- context [addresses _ _ _ _ _ ?S _] => set (st0 := S) end.
  assert (HA0 : InvA st0) by (eapply InvA_fields with (st := st); try reflexivity; exact HA).
  assert (HW0 : W st0 = W st) by (apply W_fields; reflexivity).
  destruct (p_tokens st0).
  - cbn [fine]. split; [apply InvA_Inv; exact HA0|lia].
  - pose proof (addr_fine fuel st0 false HA0 ltac:(lia)) as Hd.
    destruct (addresses env maxi globs files fuel st0 false) as [st1| | | |]; fin Hd.
    destruct Hd as (HA1 & HW1 & He).
    destruct (p_eof st1) eqn:Ee.
    + cbn [fine]. split; [apply InvA_Inv; exact HA1|lia].
    + destruct He as [He|He]; [congruence|]. destruct (is_snippet (p_keys st1)) eqn:Es.
      * eapply fine_impl; [|apply defsnip_fine; [exact HA1|exact Es|lia]]. intros v (? & ?). split; [assumption|lia].
      * eapply fine_impl; [|apply bc_fine; [exact HA1|exact He|lia]]. intros v (? & ?). split; [assumption|lia].
Qed.

Lemma all_fine : forall fuel st acc, Inv st -> W st + 3 <= Z.of_nat fuel ->
  fine (parse_all env maxi globs files fuel st acc) (fun _ => True).
Proof.
  induction fuel as [|f IH]; intros st acc HI HW.
  - pose proof (W_nonneg st HI). lia.
  - cbn [parse_all]. destruct (p_next st) as [has st1] eqn:E. destruct has.
    + apply next_true in E as (-> & Hn). destruct (Inv_fwd st HI Hn) as (HA1 & HW1).
      set (st1 := set_cursor st (p_cursor st + 1)) in *. cbn [negb].
      pose proof (one_fine (S f) st1 HA1 ltac:(lia)) as Hd.
      destruct (parse_one env maxi globs files (S f) st1) as [st2| | | |]; fin Hd.
      destruct Hd as (HI2 & HW2). apply IH; [exact HI2|lia].
    + cbn [fine]. exact I.
Qed.

End Total.

(* ---- the theorems ---- *)
(* fuel for token lists without import directives: linear in the number of tokens *)
Definition total_fuel (n : nat) : nat := (n + 4)%nat.
(* fuel with imports: every glob answer splices at most L0 tokens (L0 also bounds the input); a snippet
   body is bounded by the token list it was taken from, which an import may double *)
Definition import_fuel (maxi : N) (n : nat) (L0 : Z) : nat :=
  (n + 4 + Z.to_nat (L0 * (2 ^ Z.of_N maxi - 1)))%nat.

Definition is_result {A} (r : pres A) : Prop := (exists v, r = POk v) \/ (exists e, r = PErr e).

Theorem parse_total_no_imports env maxi globs files toks fuel :
  forallb (noimpb env) toks = true -> (total_fuel (length toks) <= fuel)%nat ->
  is_result (parse_tokens env maxi globs files fuel toks).
Proof.
  intros Hn Hf. unfold total_fuel in Hf.
  assert (Hfl : false = true -> forall (f : N) (pat : bytes) (ids : list N) (ts : list token),
            lookup_g globs f pat = Some ids -> import_files files ids = POk ts -> Z.of_nat (length ts) <= 0)
    by (intro H; discriminate H).
  pose proof (all_fine env maxi globs files false 0 (Z.le_refl 0) Hfl fuel (init_st toks) []) as H.
  unfold parse_tokens, is_result.
  destruct (parse_all env maxi globs files fuel (init_st toks) []); cbn [fine] in H.
  - left; eauto.
  - right; eauto.
  - exfalso. apply H.
    + unfold Inv, plen. simpl. split; [lia|]. split; [intro Hd; discriminate Hd|].
      intros _ j t _ Hj. apply nth_error_In in Hj. rewrite forallb_forall in Hn. apply Hn; exact Hj.
    + unfold W, pot, plen. simpl p_cursor. simpl p_tokens. lia.
  - exfalso. apply H.
    + unfold Inv, plen. simpl. split; [lia|]. split; [intro Hd; discriminate Hd|].
      intros _ j t _ Hj. apply nth_error_In in Hj. rewrite forallb_forall in Hn. apply Hn; exact Hj.
    + unfold W, pot, plen. simpl p_cursor. simpl p_tokens. lia.
  - assert (Hft : false = true); [|discriminate Hft]. apply H.
    + unfold Inv, plen. simpl. split; [lia|]. split; [intro Hd; discriminate Hd|].
      intros _ j t _ Hj. apply nth_error_In in Hj. rewrite forallb_forall in Hn. apply Hn; exact Hj.
    + unfold W, pot, plen. simpl p_cursor. simpl p_tokens. lia.
Qed.

Theorem parse_total_bounded_imports env maxi globs files toks L0 fuel :
  Z.of_nat (length toks) <= L0 ->
  (forall f pat ids ts, lookup_g globs f pat = Some ids -> import_files files ids = POk ts ->
                        Z.of_nat (length ts) <= L0) ->
  (import_fuel maxi (length toks) L0 <= fuel)%nat ->
  parse_tokens env maxi globs files fuel toks <> PFuel /\ parse_tokens env maxi globs files fuel toks <> PPanic.
Proof.
  intros Hl Hfl Hf. unfold import_fuel in Hf.
  assert (H0 : 0 <= L0) by lia.
  pose proof (all_fine env maxi globs files true L0 H0 (fun _ => Hfl) fuel (init_st toks) []) as H.
  assert (HP : 1 <= 2 ^ Z.of_N maxi) by (apply Z.pow_le_mono_r with (a:=2) (b:=0) (c:=Z.of_N maxi); lia).
  assert (HI : Inv env maxi true L0 (init_st toks)).
  { unfold Inv, plen, Lc. simpl p_cursor. simpl p_tokens. simpl p_imports. simpl p_snips.
    split; [lia|]. split; [|intro Hd; discriminate Hd]. intros _.
    split; [lia|]. split; [change (2 ^ Z.of_N 0) with 1; lia|constructor]. }
  assert (HW : W maxi true L0 (init_st toks) + 3 <= Z.of_nat fuel).
  { unfold W, pot, Lm, Lc, plen. simpl p_cursor. simpl p_tokens. simpl p_imports.
    change (2 ^ Z.of_N 0) with 1. rewrite Z.mul_sub_distr_l in Hf.
    assert (0 <= L0 * 2 ^ Z.of_N maxi - L0 * 1) by nia. lia. }
  specialize (H HI HW). unfold parse_tokens.
  destruct (parse_all env maxi globs files fuel (init_st toks) []); cbn [fine] in H;
    split; try discriminate; try contradiction.
Qed.

(* ---- witnesses ---- *)
Module TotalExample.
Definition soup1 := lex (bs "a.com, { dir { x } } } { {$V_BR} "%string).
Definition soup2 := lex (bs "a.com {
 dir x {
  y
 }
}"%string).
Lemma no_imports_witness :
  forallb (noimpb std_env) soup1 = true /\ forallb (noimpb std_env) soup2 = true /\
  parse_tokens std_env 10000 [] [] (total_fuel (length soup1)) soup1 = PErr ESyntax /\
  (exists bl, parse_tokens std_env 10000 [] [] (total_fuel (length soup2)) soup2 = POk bl /\ length bl = 1%nat).
Proof. repeat split; try (vm_compute; reflexivity). eexists. split; vm_compute; reflexivity. Qed.

(* a file that imports itself, a snippet imported twice, three imports allowed *)
Definition tk (f : N) (l : Z) (s : string) : token := {| t_file := f; t_line := l; t_text := bs s; t_imp := 0; t_envnl := 0%Z |}.
Definition main := lex (bs "(s) {
 gzip
}
a.com {
 import s
 import s
 import c.conf
}"%string).
Definition cfile := [tk 1 1 "root"%string; tk 1 1 "/srv"%string; tk 1 2 "import"%string; tk 1 2 "c.conf"%string].
Definition wfiles : list (N * option (list token)) := [(1%N, Some cfile)].
Definition wglobs : list ((N * bytes) * list N) := [((0%N, bs "c.conf"%string), [1%N]); ((1%N, bs "c.conf"%string), [1%N])].
Lemma wglobs_bounded : forall f pat ids ts, lookup_g wglobs f pat = Some ids -> import_files wfiles ids = POk ts ->
  Z.of_nat (length ts) <= 13.
Proof.
  intros f pat ids ts Hg Hi. unfold wglobs in Hg. cbn [lookup_g] in Hg.
  repeat match type of Hg with
  | (if ?c then _ else _) = _ => destruct c; [injection Hg as <-; vm_compute in Hi; injection Hi as <-; simpl; lia|]
  end. discriminate Hg.
Qed.
Lemma bounded_imports_witness :
  Z.of_nat (length main) <= 13 /\
  parse_tokens [] 3 wglobs wfiles (import_fuel 3 (length main) 13) main = PErr ECycle /\
  (exists bl, parse_tokens [] 4 wglobs [(1%N, Some [tk 1 1 "root"%string; tk 1 1 "/srv"%string])] (import_fuel 4 (length main) 13) main = POk bl).
Proof. split; [vm_compute; discriminate|]. split; [vm_compute; reflexivity|]. eexists. vm_compute. reflexivity. Qed.
End TotalExample.

(* the executable reference of the soup stream (kind 1 cases) is covered by the theorem: whenever the
   soup holds no import directive its answer is blocks or an error class *)
Lemma parse_soup_result env globs files inp :
  forallb (noimpb env) (lex inp) = true -> is_res (parse_soup env globs files inp) = true.
Proof.
  intro H. unfold parse_soup. rewrite H.
  destruct (parse_total_no_imports env 10000 globs (lex_files files) (lex inp) (length (lex inp) + 4) H (Nat.le_refl _))
    as [(bl & ->)|(e & ->)]; reflexivity.
Qed.
(* the largest number of tokens one glob answer of the world splices in *)
Definition imp_len (files : list (N * option (list token))) (ids : list N) : Z :=
  match import_files files ids with POk ts => Z.of_nat (length ts) | _ => 0 end.
Fixpoint gmax (files : list (N * option (list token))) (globs : list ((N * bytes) * list N)) : Z :=
  match globs with [] => 0 | (_, ids) :: r => Z.max (imp_len files ids) (gmax files r) end.
Lemma gmax_bound files : forall globs f pat ids ts, lookup_g globs f pat = Some ids ->
  import_files files ids = POk ts -> Z.of_nat (length ts) <= gmax files globs.
Proof.
  induction globs as [|[[f' p'] v] r IH]; simpl; intros f pat ids ts H Hi; [discriminate|].
  destruct ((f' =? f)%N && beq p' pat).
  - injection H as ->. unfold imp_len. rewrite Hi. lia.
  - specialize (IH _ _ _ _ H Hi). lia.
Qed.
Definition world_fuel (maxi : N) (files : list (N * option (list token))) (globs : list ((N * bytes) * list N)) (n : nat) : nat :=
  import_fuel maxi n (Z.max (Z.of_nat n) (gmax files globs)).
Theorem parse_total_world env maxi globs files toks fuel :
  (world_fuel maxi files globs (length toks) <= fuel)%nat ->
  parse_tokens env maxi globs files fuel toks <> PFuel /\ parse_tokens env maxi globs files fuel toks <> PPanic.
Proof.
  intro Hf. apply parse_total_bounded_imports with (L0 := Z.max (Z.of_nat (length toks)) (gmax files globs)).
  - lia.
  - intros f pat ids ts Hg Hi. pose proof (gmax_bound files globs f pat ids ts Hg Hi). lia.
  - exact Hf.
Qed.
(* with no import allowed (maxi = 0) the fuel is tokens + 4 for EVERY token list: every import directive is the too-many-imports error *)
Lemma world_fuel_0 files globs n : world_fuel 0 files globs n = (n + 4)%nat.
Proof. unfold world_fuel, import_fuel. simpl Z.of_N. change (2 ^ 0 - 1) with 0. rewrite Z.mul_0_r. simpl. lia. Qed.
