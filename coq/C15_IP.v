(* C15 — IP layer: every result of the net.ParseIP model is a 16-byte address with bytes < 256
   (IPv4 dotted quads, every IPv6 form incl. "::" compression and embedded IPv4), the model of
   IPNet.Contains folded over casket's privateNetworks table equals the closed form
   (10/8, 172.16/12, 192.168/16 on the To4 form — which covers ::ffff:a.b.c.d —, fc00::/7 otherwise),
   and the declarative reading of that closed form.  Stdlib + Lia only. *)
Require Import V.Lib V.GoPath V.GoPathProofs V.Gen_C15 V.C15_Model V.C15_Proofs V.C15_Strings.
From Coq Require Import Lia ZifyBool ZifyN ZifyNat.
Open Scope N_scope.

Definition bytes_ok (l : list N) : Prop := Forall (fun b => b < 256) l.
Definition ip16 (ip : list N) : Prop := length ip = 16%nat /\ bytes_ok ip.

(* ------------------------------------------------------------------ complete case analysis on a byte *)
Lemma byte_cases (P : N -> bool) :
  forallb P (map N.of_nat (seq 0 256)) = true -> forall b, b < 256 -> P b = true.
Proof.
  intros H b Hb. rewrite forallb_forall in H. apply H.
  apply in_map_iff. exists (N.to_nat b). split; [apply N2Nat.id|]. apply in_seq. lia.
Qed.

Lemma land_255 b : b < 256 -> N.land b 255 = b.
Proof. intros H. change 255 with (N.ones 8). rewrite N.land_ones. apply N.mod_small. exact H. Qed.

Lemma mask_eq_255 a b : b < 256 -> a < 256 -> (N.land a 255 =? N.land b 255) = (b =? a).
Proof. intros Hb Ha. rewrite (land_255 a Ha), (land_255 b Hb). apply N.eqb_sym. Qed.

Lemma mask_172_16 b : b < 256 -> (N.land 16 240 =? N.land b 240) = (16 <=? b) && (b <=? 31).
Proof.
  intros Hb.
  apply (byte_cases (fun b => Bool.eqb (N.land 16 240 =? N.land b 240) ((16 <=? b) && (b <=? 31)))) in Hb.
  - apply eqb_prop in Hb. exact Hb.
  - vm_compute. reflexivity.
Qed.

Lemma mask_fc00 b : b < 256 -> (N.land 252 254 =? N.land b 254) = (b / 2 =? 126).
Proof.
  intros Hb.
  apply (byte_cases (fun b => Bool.eqb (N.land 252 254 =? N.land b 254) (b / 2 =? 126))) in Hb.
  - apply eqb_prop in Hb. exact Hb.
  - vm_compute. reflexivity.
Qed.

Lemma mask_0 a b : (N.land a 0 =? N.land b 0) = true.
Proof. rewrite !N.land_0_r. reflexivity. Qed.

(* ------------------------------------------------------------------ IPv4 fields *)
Lemma v4_field_ok f v : v4_field f = Some v -> v < 256.
Proof.
  unfold v4_field. destruct f as [|c r]; [discriminate|].
  destruct (forallb is_digit (c :: r) && Nat.leb (length (c :: r)) 3
            && match r with [] => true | _ :: _ => negb (c =? 48) end
            && (dec_value (c :: r) <=? 255)) eqn:E; [|discriminate].
  intros H. injection H as <-. apply andb_true_iff in E as [_ E]. apply N.leb_le in E. lia.
Qed.

Lemma parse_ipv4_ok s q : parse_ipv4 s = Some q -> length q = 4%nat /\ bytes_ok q.
Proof.
  unfold parse_ipv4.
  destruct (split DOT s) as [|a [|b [|c [|d [|e l]]]]]; try discriminate.
  destruct (v4_field a) as [a'|] eqn:Ea; [|discriminate].
  destruct (v4_field b) as [b'|] eqn:Eb; [|discriminate].
  destruct (v4_field c) as [c'|] eqn:Ec; [|discriminate].
  destruct (v4_field d) as [d'|] eqn:Ed; [|discriminate].
  intros H. injection H as <-. split; [reflexivity|].
  repeat constructor; eapply v4_field_ok; eassumption.
Qed.

Lemma bytes_ok_repeat0 n : bytes_ok (repeat 0 n).
Proof. induction n; simpl; constructor; [reflexivity|assumption]. Qed.

Lemma bytes_ok_app a b : bytes_ok a -> bytes_ok b -> bytes_ok (a ++ b).
Proof. intros. apply Forall_app. auto. Qed.

Lemma v4_mapped_ok q : length q = 4%nat -> bytes_ok q -> ip16 (v4_mapped q).
Proof.
  intros L H. unfold v4_mapped. split.
  - rewrite !app_length, repeat_length. simpl. lia.
  - apply bytes_ok_app; [apply bytes_ok_repeat0|]. apply bytes_ok_app; [repeat constructor|exact H].
Qed.

(* ------------------------------------------------------------------ hextets *)
Lemma hex_digit_lt c v : hex_digit c = Some v -> v < 16.
Proof.
  unfold hex_digit, is_digit. intros H.
  destruct ((48 <=? c) && (c <=? 57)) eqn:E1; [injection H as <-; lia|].
  destruct ((97 <=? c) && (c <=? 102)) eqn:E2; [injection H as <-; lia|].
  destruct ((65 <=? c) && (c <=? 70)) eqn:E3; [injection H as <-; lia|discriminate].
Qed.

Lemma scan_hex_bound s : forall n acc off v rest,
  scan_hex s n acc = (off, v, rest) -> (n <= off)%nat /\ v < (acc + 1) * 16 ^ N.of_nat (off - n).
Proof.
  induction s as [|c r IH]; intros n acc off v rest; cbn [scan_hex].
  - intros H. injection H as <- <- <-. split; [lia|]. rewrite Nat.sub_diag. simpl. lia.
  - destruct (hex_digit c) as [d|] eqn:Ed.
    + intros H. destruct (IH _ _ _ _ _ H) as [Hle Hv]. split; [lia|].
      apply hex_digit_lt in Ed.
      replace (off - n)%nat with (S (off - S n)) by lia.
      rewrite Nat2N.inj_succ, N.pow_succ_r'.
      set (X := 16 ^ N.of_nat (off - S n)) in *.
      assert (HX : (16 * acc + d + 1) * X <= (16 * (acc + 1)) * X) by (apply N.mul_le_mono_r; lia).
      lia.
    + intros H. injection H as <- <- <-. split; [lia|]. rewrite Nat.sub_diag. simpl. lia.
Qed.

Lemma scan_hex_hextet s off v rest :
  scan_hex s 0 0 = (off, v, rest) -> Nat.leb 5 off = false -> v / 256 < 256 /\ v mod 256 < 256.
Proof.
  intros H L. apply scan_hex_bound in H as [_ H]. apply Nat.leb_gt in L.
  rewrite Nat.sub_0_r in H. change (0 + 1) with 1 in H. rewrite N.mul_1_l in H.
  assert (P : 16 ^ N.of_nat off <= 16 ^ 4) by (apply N.pow_le_mono_r; lia).
  change (16 ^ 4) with 65536 in P.
  split; [apply N.div_lt_upper_bound; lia|apply N.mod_lt; lia].
Qed.

(* ------------------------------------------------------------------ the IPv6 loop *)
Definition okacc (acc : list N) : Prop :=
  bytes_ok acc /\ (exists k, length acc = 2 * k)%nat /\ (length acc <= 16)%nat.

Lemma okacc_hextet acc v : okacc acc -> Nat.leb 16 (length acc) = false -> v / 256 < 256 -> v mod 256 < 256 ->
  okacc (acc ++ [v / 256; v mod 256]).
Proof.
  intros (Hb & (k & Hk) & Hl) L H1 H2. apply Nat.leb_gt in L. repeat split.
  - apply bytes_ok_app; [exact Hb|repeat constructor; assumption].
  - exists (S k). rewrite app_length. simpl. lia.
  - rewrite app_length. simpl. lia.
Qed.

Lemma v6_loop_ok fuel : forall s acc ell acc' ell' rest,
  okacc acc -> v6_loop fuel s acc ell = Some (acc', ell', rest) -> okacc acc'.
Proof.
  induction fuel as [|fuel IH]; intros s acc ell acc' ell' rest Hok; cbn [v6_loop].
  - intros H. injection H as <- _ _. exact Hok.
  - destruct (Nat.leb 16 (length acc)) eqn:L16.
    { intros H. injection H as <- _ _. exact Hok. }
    destruct (scan_hex s 0 0) as [[off v] rest0] eqn:Esc.
    destruct (Nat.leb 5 off) eqn:L5; [discriminate|].
    destruct (Nat.eqb off 0); [discriminate|].
    destruct (scan_hex_hextet _ _ _ _ Esc L5) as [Hv1 Hv2].
    pose proof (okacc_hextet acc v Hok L16 Hv1 Hv2) as Hok'.
    destruct rest0 as [|c rest1].
    { intros H. injection H as <- _ _. exact Hok'. }
    destruct (c =? DOT).
    + destruct (match ell with None => negb (Nat.eqb (length acc) 12) | Some _ => false end); [discriminate|].
      destruct (Nat.ltb 16 (length acc + 4)) eqn:L4; [discriminate|].
      destruct (parse_ipv4 s) as [q|] eqn:Eq; [|discriminate].
      intros H. injection H as <- _ _.
      destruct (parse_ipv4_ok _ _ Eq) as [Lq Bq]. destruct Hok as (Hb & (k & Hk) & Hl).
      apply Nat.ltb_ge in L4. repeat split.
      * apply bytes_ok_app; assumption.
      * exists (k + 2)%nat. rewrite app_length. lia.
      * rewrite app_length. lia.
    + destruct (negb (c =? COLON)); [discriminate|].
      destruct rest1 as [|c2 r2]; [discriminate|].
      destruct (c2 =? COLON).
      * destruct ell as [e0|]; [discriminate|].
        destruct r2 as [|x r2'].
        { intros H. injection H as <- _ _. exact Hok'. }
        intros H. eapply IH; [exact Hok'|exact H].
      * intros H. eapply IH; [exact Hok'|exact H].
Qed.

Lemma okacc_nil : okacc [].
Proof. repeat split; [constructor|exists 0%nat; reflexivity|simpl; lia]. Qed.

Lemma in_firstn_in {A} n (l : list A) x : In x (firstn n l) -> In x l.
Proof. revert l. induction n; intros [|y l]; simpl; try tauto. intros [->|H]; auto. Qed.
Lemma in_skipn_in {A} n (l : list A) x : In x (skipn n l) -> In x l.
Proof. revert l. induction n; intros [|y l]; simpl; try tauto. intros H; auto. Qed.

Lemma bytes_ok_firstn n l : bytes_ok l -> bytes_ok (firstn n l).
Proof. unfold bytes_ok. intros H. apply Forall_forall. intros x Hx. rewrite Forall_forall in H. apply H. eapply in_firstn_in; eauto. Qed.
Lemma bytes_ok_skipn n l : bytes_ok l -> bytes_ok (skipn n l).
Proof. unfold bytes_ok. intros H. apply Forall_forall. intros x Hx. rewrite Forall_forall in H. apply H. eapply in_skipn_in; eauto. Qed.

Lemma expand_len e (acc : list N) : (length acc <= 16)%nat ->
  length (firstn e acc ++ repeat 0 (16 - length acc) ++ skipn e acc) = 16%nat.
Proof.
  intros H. rewrite !app_length, repeat_length, firstn_length, skipn_length. lia.
Qed.

Lemma parse_ipv6_ok s ip : parse_ipv6 s = Some ip -> ip16 ip.
Proof.
  unfold parse_ipv6. destruct (contains_byte PERCENT s); [discriminate|].
  set (pre := match s with
              | a :: b :: r => if (a =? COLON) && (b =? COLON) then (r, Some 0%nat) else (s, None)
              | _ => (s, None)
              end).
  destruct pre as [s1 ell0].
  assert (Main : match v6_loop 9 s1 [] ell0 with
                 | Some (acc, ell, rest) =>
                     match rest with
                     | [] => if Nat.ltb (length acc) 16
                             then match ell with
                                  | Some e => Some (firstn e acc ++ repeat 0 (16 - length acc) ++ skipn e acc)
                                  | None => None
                                  end
                             else match ell with Some _ => None | None => Some acc end
                     | _ :: _ => None
                     end
                 | None => None
                 end = Some ip -> ip16 ip).
  { destruct (v6_loop 9 s1 [] ell0) as [[[acc ell] rest]|] eqn:El; [|discriminate].
    pose proof (v6_loop_ok _ _ _ _ _ _ _ okacc_nil El) as (Hb & _ & Hl).
    destruct rest; [|discriminate].
    destruct (Nat.ltb (length acc) 16) eqn:L.
    - destruct ell as [e|]; [|discriminate]. intros H. injection H as <-. split.
      + apply expand_len. exact Hl.
      + apply bytes_ok_app; [apply bytes_ok_firstn; exact Hb|].
        apply bytes_ok_app; [apply bytes_ok_repeat0|apply bytes_ok_skipn; exact Hb].
    - destruct ell; [discriminate|]. intros H. injection H as <-. apply Nat.ltb_ge in L. split; [lia|exact Hb]. }
  destruct ell0 as [e0|]; [|exact Main].
  destruct s1; [|exact Main].
  intros H. injection H as <-. split; [reflexivity|exact (bytes_ok_repeat0 16)].
Qed.

(* every address the ParseIP model returns is a 16-byte address *)
Lemma parse_ip_ok s ip : parse_ip s = Some ip -> ip16 ip.
Proof.
  unfold parse_ip. destruct (ip_dispatch s) as [|p]; [discriminate|].
  destruct p as [p|p|]; try discriminate; destruct p as [p|p|]; try discriminate.
  - (* 6 *) destruct p as [p|p|]; try discriminate. apply parse_ipv6_ok.
  - (* 4 *) destruct p as [p|p|]; try discriminate.
    destruct (parse_ipv4 s) as [q|] eqn:E; [|discriminate]. cbn [option_map]. intros H. injection H as <-.
    destruct (parse_ipv4_ok _ _ E). apply v4_mapped_ok; assumption.
Qed.

(* ------------------------------------------------------------------ IPNet.Contains over privateNetworks *)
Lemma list16 (ip : list N) : length ip = 16%nat ->
  exists b0 b1 b2 b3 b4 b5 b6 b7 b8 b9 b10 b11 b12 b13 b14 b15,
    ip = [b0; b1; b2; b3; b4; b5; b6; b7; b8; b9; b10; b11; b12; b13; b14; b15].
Proof.
  intros H.
  do 16 (destruct ip as [|? ip]; [discriminate H|]). destruct ip; [|discriminate H].
  do 16 eexists. reflexivity.
Qed.

(* the fold over the table (as regenerated from casket.go) is the closed form, on every address *)
Lemma in_private_net_closed_eq ip : ip16 ip -> in_private_net ip = in_private_net_closed ip.
Proof.
  intros [L B]. destruct (list16 ip L) as (b0&b1&b2&b3&b4&b5&b6&b7&b8&b9&b10&b11&b12&b13&b14&b15&->).
  unfold in_private_net, in_private_net_closed, ipnet_contains.
  cbn [existsb gen_c15_private_nets fst snd].
  unfold bytes_ok in B. rewrite !Forall_cons_iff in B.
  destruct B as (B0&B1&B2&B3&B4&B5&B6&B7&B8&B9&B10&B11&B12&B13&B14&B15&_).
  destruct (to4 [b0; b1; b2; b3; b4; b5; b6; b7; b8; b9; b10; b11; b12; b13; b14; b15]) as [x|] eqn:E4.
  - unfold to4 in E4.
    destruct (list_beq N.eqb _ _) in E4; [|discriminate]. injection E4 as <-.
    cbn [skipn length Nat.eqb masked_eq andb].
    rewrite !mask_0, !andb_true_r.
    rewrite (mask_eq_255 10 b12), (mask_eq_255 172 b12), (mask_eq_255 192 b12), (mask_eq_255 168 b13) by (assumption || reflexivity).
    rewrite (mask_172_16 b13 B13). rewrite !orb_false_r. rewrite !andb_assoc, !orb_assoc. reflexivity.
  - cbn [length Nat.eqb masked_eq andb orb].
    rewrite !mask_0, !andb_true_r. rewrite (mask_fc00 b0 B0). rewrite ?orb_false_r. reflexivity.
Qed.

(* the closed form, read declaratively *)
Definition private_ip (ip : list N) : Prop :=
  (exists a b c d, to4 ip = Some [a; b; c; d] /\
     (a = 10 \/ (a = 172 /\ 16 <= b <= 31) \/ (a = 192 /\ b = 168))) \/
  (to4 ip = None /\ exists b0 r, ip = b0 :: r /\ 252 <= b0 <= 253).

Lemma in_private_net_closed_iff ip : ip16 ip -> (in_private_net_closed ip = true <-> private_ip ip).
Proof.
  intros [L B]. destruct (list16 ip L) as (b0&b1&b2&b3&b4&b5&b6&b7&b8&b9&b10&b11&b12&b13&b14&b15&->).
  unfold in_private_net_closed, private_ip.
  destruct (to4 [b0; b1; b2; b3; b4; b5; b6; b7; b8; b9; b10; b11; b12; b13; b14; b15]) as [x|] eqn:E4.
  - unfold to4 in E4. destruct (list_beq N.eqb _ _) in E4; [|discriminate]. injection E4 as <-.
    cbn [skipn]. split.
    + intros H. left. exists b12, b13, b14, b15. split; [reflexivity|]. lia.
    + intros [(a & b & c & d & E & H)|(E & _)]; [|discriminate]. injection E as <- <- <- <-. lia.
  - split.
    + intros H. right. split; [reflexivity|]. exists b0, [b1; b2; b3; b4; b5; b6; b7; b8; b9; b10; b11; b12; b13; b14; b15].
      split; [reflexivity|]. apply N.eqb_eq in H.
      assert (b0 = 2 * (b0 / 2) + b0 mod 2) by (apply N.div_mod; lia).
      assert (b0 mod 2 < 2) by (apply N.mod_lt; lia). lia.
    + intros [(a & b & c & d & E & _)|(_ & b & r & E & H)]; [discriminate|]. injection E as <- _.
      apply N.eqb_eq. 
      assert (b0 = 2 * (b0 / 2) + b0 mod 2) by (apply N.div_mod; lia).
      assert (b0 mod 2 < 2) by (apply N.mod_lt; lia). lia.
Qed.

(* IsInternal's IP clause on a parsed address *)
Lemma in_private_net_iff s ip : parse_ip s = Some ip -> (in_private_net ip = true <-> private_ip ip).
Proof.
  intros H. pose proof (parse_ip_ok _ _ H) as W. rewrite (in_private_net_closed_eq ip W).
  apply in_private_net_closed_iff. exact W.
Qed.

(* what the table does NOT contain: IPv6 loopback, link-local fe80::/10, unspecified, and public space *)
Lemma private_ip_first_byte ip b0 r : ip = b0 :: r -> to4 ip = None -> private_ip ip -> 252 <= b0 <= 253.
Proof.
  intros -> E [(a & b & c & d & E' & _)|(_ & b & r' & E' & H)]; [congruence|]. injection E' as <- _. exact H.
Qed.

Lemma v6_outside_fc00_not_internal s ip b0 r :
  parse_ip s = Some ip -> ip = b0 :: r -> to4 ip = None -> ~ (252 <= b0 <= 253) -> in_private_net ip = false.
Proof.
  intros Hp Hi H4 Hb. destruct (in_private_net ip) eqn:E; [|reflexivity].
  apply (in_private_net_iff s ip Hp) in E. exfalso. apply Hb. eapply private_ip_first_byte; eassumption.
Qed.
