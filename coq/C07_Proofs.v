(* C07 — proofs: the hand-over invariant over all interleavings, and what follows from it. *)
Require Import V.Lib V.C07_Model.
From Coq Require Import Arith PeanoNat.
Open Scope nat_scope.

(* ---------------------------------------------------------------------------------- *)
(* utilities *)

Lemma mem_In x l : mem x l = true <-> In x l.
Proof.
  unfold mem. rewrite existsb_exists. split.
  - intros (y & Hy & E). apply Nat.eqb_eq in E. subst y. exact Hy.
  - intros H. exists x. split; [exact H | apply Nat.eqb_refl].
Qed.

Lemma mem_false x l : mem x l = false <-> ~ In x l.
Proof.
  split; intros H.
  - intros HI. apply mem_In in HI. congruence.
  - destruct (mem x l) eqn:E; [|reflexivity]. apply mem_In in E. contradiction.
Qed.

Lemma rem_In x y l : In y (rem x l) <-> In y l /\ y <> x.
Proof.
  unfold rem. rewrite filter_In. split; intros (H1 & H2); split; try exact H1.
  - intros ->. rewrite Nat.eqb_refl in H2. discriminate.
  - apply Bool.negb_true_iff. apply Nat.eqb_neq. intros E. apply H2. symmetry. exact E.
Qed.

Lemma nodupb_NoDup l : nodupb l = true -> NoDup l.
Proof.
  induction l as [|x r IH]; simpl; intros H; [constructor|].
  apply andb_true_iff in H as (H1 & H2). constructor.
  - apply Bool.negb_true_iff in H1. apply mem_false in H1. exact H1.
  - apply IH. exact H2.
Qed.

Lemma isnil_true {A} (l : list A) : isnil l = true <-> l = [].
Proof. destruct l; simpl; split; intros H; try reflexivity; discriminate. Qed.

Lemma isnil_false {A} (l : list A) : isnil l = false <-> l <> [].
Proof. destruct l; simpl; split; intros H; try reflexivity; try discriminate; congruence. Qed.

Lemma upd_same {A} (f : nat -> A) a v : upd f a v a = v.
Proof. unfold upd. rewrite Nat.eqb_refl. reflexivity. Qed.

Lemma upd_other {A} (f : nat -> A) a v b : b <> a -> upd f a v b = f b.
Proof. intros H. unfold upd. apply Nat.eqb_neq in H. rewrite H. reflexivity. Qed.

Lemma set_nth_length {A} (l : list A) i v : length (set_nth l i v) = length l.
Proof. revert i; induction l as [|x r IH]; intros [|i]; simpl; try reflexivity. rewrite IH. reflexivity. Qed.

Lemma nth_error_set_nth {A} (l : list A) i v j :
  nth_error (set_nth l i v) j =
  if Nat.eqb i j then (match nth_error l j with Some _ => Some v | None => None end) else nth_error l j.
Proof.
  revert i j; induction l as [|x r IH]; intros [|i] [|j]; simpl; try reflexivity.
  - destruct (Nat.eqb i j); reflexivity.
  - apply IH.
Qed.

Lemma nth_error_app_last {A} (l : list A) x k y :
  nth_error (l ++ [x]) k = Some y -> nth_error l k = Some y \/ (k = length l /\ y = x).
Proof.
  intros H. destruct (Nat.lt_ge_cases k (length l)) as [Hl|Hl].
  - rewrite nth_error_app1 in H by exact Hl. left. exact H.
  - rewrite nth_error_app2 in H by exact Hl.
    destruct (k - length l) as [|m] eqn:E; simpl in H.
    + right. split; [lia | congruence].
    + destruct m; discriminate.
Qed.

Lemma nth_app_lt {A} (l : list A) x d i : i < length l -> nth i (l ++ [x]) d = nth i l d.
Proof. intros H. apply app_nth1. exact H. Qed.

(* configurations of existing instances never change *)
Lemma addrs_of_cfgs_app (cs : list (list nat * nat)) x i :
  i < length cs -> fst (nth i (cs ++ [x]) ([], 0)) = fst (nth i cs ([], 0)).
Proof. intros H. rewrite app_nth1 by exact H. reflexivity. Qed.

Lemma nth_app_eq {A} (l : list A) x d : nth (length l) (l ++ [x]) d = x.
Proof. rewrite app_nth2 by lia. rewrite Nat.sub_diag. reflexivity. Qed.

Lemma nth_app_gt {A} (l : list A) x d i : length l < i -> nth i (l ++ [x]) d = d.
Proof. intros H. apply nth_overflow. rewrite app_length. simpl. lia. Qed.

(* ---------------------------------------------------------------------------------- *)
(* the invariant *)

Definition new_ok (s : state) (n : nat) : Prop := S n = length (cfgs s) /\ cur s < n.

Definition phase_inv (s : state) : Prop :=
  match rst s with
  | RIdle => True
  | RLoad n => new_ok s n /\ (forall a, ~ In n (fdh s a))
  | RCb n => new_ok s n /\ fate_of s n <> 1 /\ (forall a, ~ In n (fdh s a))
  | RListen n todo => new_ok s n /\ incl todo (addrs_of s n) /\ fate_of s n <> 1 /\
       (forall a, In a (addrs_of s n) -> ~ In a todo -> In n (fdh s a)) /\
       NoDup todo /\ (forall a, In a todo -> ~ In n (fdh s a))
  | RSpawn n todo => new_ok s n /\ incl todo (addrs_of s n) /\ fate_of s n = 0 /\
       (forall a, In a (addrs_of s n) -> In n (fdh s a)) /\
       (forall a, In a (addrs_of s n) -> ~ In a todo -> In n (acc s a))
  | RStop n todo => new_ok s n /\ NoDup todo /\ incl todo (addrs_of s (cur s)) /\ fate_of s n = 0 /\
       (forall a, In a (addrs_of s n) -> In n (fdh s a) /\ In n (acc s a)) /\
       (forall a, In (cur s) (fdh s a) -> In a todo)
  end.

(* the old instance still holds its descriptor and acceptor at [a] *)
Definition old_live (s : state) (a : nat) : Prop :=
  match rst s with RStop _ todo => In a todo | _ => True end.

Definition is_new (s : state) (i : nat) : Prop :=
  match rst s with RSpawn n _ | RStop n _ => i = n | _ => False end.

(* who may hold a descriptor of the socket at [a]: the instance in force, for an address of its
   configuration, or the instance being started, for an address of its configuration — nobody
   else (nothing leaks: startServers closes what it opened when a Listen fails) *)
Definition holder_ok (s : state) (a i : nat) : Prop :=
  (i = cur s /\ In a (addrs_of s (cur s))) \/ (pending s = Some i /\ In a (addrs_of s i)).

Record Inv (s : state) : Prop := {
  i_cur : cur s < length (cfgs s);
  i_nodup : forall i, NoDup (addrs_of s i);
  i_phase : phase_inv s;
  i_old : forall a, In a (addrs_of s (cur s)) -> old_live s a ->
                    In (cur s) (fdh s a) /\ In (cur s) (acc s a);
  i_acc : forall a i, In i (acc s a) ->
                    In i (fdh s a) /\ In a (addrs_of s i) /\ (i = cur s /\ old_live s a \/ is_new s i);
  i_conn : forall k c, nth_error (conns s) k = Some c ->
             cborn c <= cur s /\
             (forall i, accepted_by (cst c) = Some i ->
                        cborn c <= i /\ i < length (cfgs s) /\ In (caddr c) (addrs_of s i)) /\
             (cst c = CQueued -> fdh s (caddr c) <> []);
  i_fd : forall a i, In i (fdh s a) -> holder_ok s a i;
  i_nd : forall a, NoDup (fdh s a)
}.

Lemma inv_init a0 blocked : nodupb a0 = true -> Inv (init a0 blocked).
Proof.
  intros Hnd. constructor; simpl.
  - lia.
  - intros i. unfold addrs_of. simpl. destruct i as [|[|i]]; simpl; try constructor. apply nodupb_NoDup. exact Hnd.
  - exact I.
  - unfold addrs_of, old_live. simpl. intros a Ha _. apply mem_In in Ha. rewrite Ha. simpl. auto.
  - unfold addrs_of, old_live, is_new. simpl. intros a i Hi.
    destruct (mem a a0) eqn:E; simpl in Hi; [|contradiction].
    destruct Hi as [<-|[]]. simpl. split; [auto|]. split; [apply mem_In; exact E|]. left. auto.
  - intros k c H. destruct k; discriminate.
  - intros a i Hi. unfold holder_ok, addrs_of. simpl.
    destruct (mem a a0) eqn:E; simpl in Hi; [|contradiction].
    destruct Hi as [<-|[]]. left. split; [reflexivity | apply mem_In; exact E].
  - intros a. destruct (mem a a0); repeat constructor. intros [].
Qed.

Ltac dmatch H :=
  repeat match type of H with
  | match ?x with _ => _ end = Some _ => let E := fresh "E" in destruct x eqn:E; try discriminate H
  | (if ?b then _ else _) = Some _ => let E := fresh "E" in destruct b eqn:E; try discriminate H
  end.

(* bookkeeping of conns under a pointwise state change of connection k *)
Lemma conn_upd_inv (s : state) (cs' : list conn) k c x :
  nth_error (conns s) k = Some c ->
  cs' = set_nth (conns s) k (set_st c x) ->
  forall k' c', nth_error cs' k' = Some c' ->
    (k' = k /\ c' = set_st c x) \/ (k' <> k /\ nth_error (conns s) k' = Some c').
Proof.
  intros Hk -> k' c' H. rewrite nth_error_set_nth in H.
  destruct (Nat.eqb k k') eqn:E.
  - apply Nat.eqb_eq in E. subst k'. rewrite Hk in H. left. split; [reflexivity|congruence].
  - apply Nat.eqb_neq in E. right. split; [congruence | exact H].
Qed.

(* ---- the fields of [stop_old] ---- *)
Lemma stop_old_fields s a :
  cur (stop_old s a) = cur s /\ cfgs (stop_old s a) = cfgs s /\ sid (stop_old s a) = sid s /\
  ext (stop_old s a) = ext s /\ rst (stop_old s a) = rst s /\ hist (stop_old s a) = hist s /\
  fdh (stop_old s a) = upd (fdh s) a (rem (cur s) (fdh s a)) /\
  acc (stop_old s a) = upd (acc s) a (rem (cur s) (acc s a)) /\
  conns (stop_old s a) = (if isnil (rem (cur s) (fdh s a)) then reset_queued a (conns s) else conns s).
Proof. unfold stop_old. destruct (isnil (rem (cur s) (fdh s a))); simpl; repeat split; reflexivity. Qed.

Lemma close_inst_fields n s :
  cur (close_inst n s) = cur s /\ cfgs (close_inst n s) = cfgs s /\ sid (close_inst n s) = sid s /\
  ext (close_inst n s) = ext s /\ rst (close_inst n s) = rst s /\ hist (close_inst n s) = hist s /\
  acc (close_inst n s) = acc s /\ fdh (close_inst n s) = (fun a => rem n (fdh s a)).
Proof. unfold close_inst. simpl. repeat split; reflexivity. Qed.

(* a queued connection whose socket keeps a descriptor is not touched by the shutdown of an old server *)
Lemma stop_old_queued s a k c :
  nth_error (conns s) k = Some c -> cst c = CQueued ->
  upd (fdh s) a (rem (cur s) (fdh s a)) (caddr c) <> [] ->
  nth_error (conns (stop_old s a)) k = Some c.
Proof.
  intros Hk Hq Hne. destruct (stop_old_fields s a) as (_ & _ & _ & _ & _ & _ & _ & _ & Fc). rewrite Fc.
  destruct (isnil (rem (cur s) (fdh s a))) eqn:Enil; [|exact Hk].
  unfold reset_queued. rewrite nth_error_map, Hk. simpl. rewrite Hq.
  destruct (Nat.eqb (caddr c) a) eqn:Ea; [|reflexivity].
  exfalso. apply Nat.eqb_eq in Ea. rewrite Ea, upd_same in Hne. apply isnil_true in Enil. contradiction.
Qed.

Lemma reset_conn_cases n s c :
  let c' := match cst c with
            | CQueued => if isnil (rem n (fdh s (caddr c))) then set_st c CReset else c
            | _ => c
            end in
  c' = c \/ (cst c = CQueued /\ isnil (rem n (fdh s (caddr c))) = true /\ c' = set_st c CReset).
Proof.
  cbv zeta. destruct (cst c) eqn:Ec; auto. destruct (isnil (rem n (fdh s (caddr c)))) eqn:En; auto.
Qed.

(* Inv depends on the state up to [hist] and through the listed fields only *)
Lemma inv_ext s s' :
  Inv s -> cur s' = cur s -> cfgs s' = cfgs s -> rst s' = rst s -> fdh s' = fdh s -> acc s' = acc s ->
  conns s' = conns s -> Inv s'.
Proof.
  intros [H1 H2 H3 H4 H5 H6 H7 H8] E1 E2 E3 E4 E5 E6.
  constructor; unfold phase_inv, old_live, is_new, holder_ok, pending, addrs_of, fate_of, new_ok in *;
    rewrite ?E1, ?E2, ?E3, ?E4, ?E5, ?E6; assumption.
Qed.

(* one old server is shut down (cleanly or with a drain timeout): RStop n (a :: t) -> RStop n t *)
Lemma inv_stop_old s n a t s' :
  Inv s -> rst s = RStop n (a :: t) ->
  cur s' = cur s -> cfgs s' = cfgs s -> rst s' = RStop n t ->
  fdh s' = fdh (stop_old s a) -> acc s' = acc (stop_old s a) -> conns s' = conns (stop_old s a) ->
  Inv s'.
Proof.
  intros [Hcur Hnd Hph Hold Hacc Hconn Hfd Hndf] E Ec Ecf Er Ef Ea Eco.
  destruct (stop_old_fields s a) as (_ & _ & _ & _ & _ & _ & Ff & Fa & Fc).
  rewrite Ff in Ef. rewrite Fa in Ea. rewrite Fc in Eco. clear Ff Fa Fc.
  unfold phase_inv, old_live, is_new in *. rewrite E in *.
  destruct Hph as (Hn & Hndt & Hincl & Hfate & Hnew & Hcurfd).
  destruct Hn as (Hn1 & Hn2).
  inversion Hndt as [|x y Hnotin Hndl]; subst x y.
  set (f := rem (cur s) (fdh s a)) in *.
  assert (Hfd' : forall b x, In x (upd (fdh s) a f b) <-> (In x (fdh s b) /\ (b = a -> x <> cur s))).
  { intros b x. destruct (Nat.eq_dec b a) as [->|Hne].
    - rewrite upd_same. unfold f. rewrite rem_In. split; intros (H1 & H2); split; auto.
    - rewrite upd_other by exact Hne. split; [intros H1; split; [exact H1|intros; contradiction] | intros (H1 & _); exact H1]. }
  assert (Hac' : forall b x, In x (upd (acc s) a (rem (cur s) (acc s a)) b) <-> (In x (acc s b) /\ (b = a -> x <> cur s))).
  { intros b x. destruct (Nat.eq_dec b a) as [->|Hne].
    - rewrite upd_same. rewrite rem_In. split; intros (H1 & H2); split; auto.
    - rewrite upd_other by exact Hne. split; [intros H1; split; [exact H1|intros; contradiction] | intros (H1 & _); exact H1]. }
  assert (Hconn' : forall k c, nth_error (conns s') k = Some c ->
            cborn c <= cur s /\
            (forall i, accepted_by (cst c) = Some i ->
                       cborn c <= i /\ i < length (cfgs s) /\ In (caddr c) (addrs_of s i)) /\
            (cst c = CQueued -> upd (fdh s) a f (caddr c) <> [])).
  { intros k c Hk. rewrite Eco in Hk. destruct (isnil f) eqn:Enil.
    - unfold reset_queued in Hk. rewrite nth_error_map in Hk.
      destruct (nth_error (conns s) k) as [c0|] eqn:Ek; [|discriminate]. simpl in Hk. injection Hk as <-.
      destruct (Hconn k c0 Ek) as (H1 & H2 & H3).
      destruct (cst c0) eqn:Ec0; try (rewrite Ec0; split; [exact H1|]; split; [exact H2|]; intros; discriminate).
      destruct (Nat.eqb (caddr c0) a) eqn:Ea0.
      + simpl. split; [exact H1|]. split; [intros i Hi; discriminate | intros; discriminate].
      + rewrite Ec0. split; [exact H1|]. split; [exact H2|]. intros _.
        apply Nat.eqb_neq in Ea0. rewrite upd_other by exact Ea0. apply H3. reflexivity.
    - destruct (Hconn k c Hk) as (H1 & H2 & H3). split; [exact H1|]. split; [exact H2|].
      intros Hq. destruct (Nat.eq_dec (caddr c) a) as [->|Hne].
      + rewrite upd_same. apply isnil_false. exact Enil.
      + rewrite upd_other by exact Hne. apply H3. exact Hq. }
  constructor; unfold phase_inv, old_live, is_new, holder_ok, pending, addrs_of, fate_of, new_ok in *;
    rewrite ?Ef, ?Ea, ?Ecf, ?Ec, ?Er.
  - exact Hcur.
  - exact Hnd.
  - split; [split; assumption|]. split; [exact Hndl|]. split; [intros x Hx; apply Hincl; right; exact Hx|].
    split; [exact Hfate|]. split.
    + intros b Hb. destruct (Hnew b Hb) as (H1 & H2).
      split; [apply Hfd' | apply Hac']; (split; [assumption | intros _; lia]).
    + intros b Hb. apply Hfd' in Hb as (Hb & Hba). destruct (Hcurfd b Hb) as [<-|Hin]; [|exact Hin].
      exfalso. apply Hba; reflexivity.
  - intros b Hb Hbl. assert (Hne : b <> a) by (intros ->; contradiction).
    destruct (Hold b Hb (or_intror Hbl)) as (H1 & H2).
    split; [apply Hfd' | apply Hac']; (split; [assumption | intros; contradiction]).
  - intros b i Hi. apply Hac' in Hi as (Hi & Hia).
    destruct (Hacc b i Hi) as (H1 & H2 & H3).
    split; [apply Hfd'; split; [exact H1 | exact Hia]|]. split; [exact H2|].
    destruct H3 as [[-> Hbl] | -> ]; [|right; reflexivity].
    left. split; [reflexivity|]. destruct Hbl as [<-|Hbl]; [|exact Hbl].
    exfalso. apply Hia; reflexivity.
  - exact Hconn'.
  - intros b i Hi. apply Hfd' in Hi as (Hi & _). specialize (Hfd b i Hi). rewrite E in Hfd. exact Hfd.
  - intros b. destruct (Nat.eq_dec b a) as [->|Hne].
    + rewrite upd_same. unfold f, rem. apply NoDup_filter. apply Hndf.
    + rewrite upd_other by exact Hne. apply Hndf.
Qed.

Lemma inv_step s l s' : Inv s -> step s l = Some s' -> Inv s'.
Proof.
  intros Hinv H. pose proof Hinv as [Hcur Hnd Hph Hold Hacc Hconn Hfd Hndf].
  destruct l; unfold step in H.
  - (* LCall *)
    dmatch H. injection H as <-.
    assert (Hadd : forall i, i < length (cfgs s) ->
              nth i (cfgs s ++ [(addrs, fate)]) ([], 0) = nth i (cfgs s) ([], 0)).
    { intros i Hi. apply app_nth1. exact Hi. }
    unfold phase_inv, old_live, is_new, holder_ok, pending, addrs_of, fate_of in *. rewrite E in *.
    constructor; simpl; unfold phase_inv, old_live, is_new, holder_ok, pending, addrs_of, fate_of, new_ok; simpl.
    + rewrite app_length. simpl. lia.
    + intros i. destruct (Nat.lt_trichotomy i (length (cfgs s))) as [Hi|[Hi|Hi]].
      * rewrite Hadd by exact Hi. apply Hnd.
      * subst i. rewrite nth_app_eq. simpl. apply nodupb_NoDup. exact E0.
      * rewrite nth_app_gt by exact Hi. constructor.
    + rewrite app_length. simpl. split; [split; lia|].
      intros a Hin. destruct (Hfd a _ Hin) as [(Hc & _)|(Hc & _)]; [lia|discriminate].
    + rewrite Hadd by exact Hcur. intros a Ha _. apply Hold; auto.
    + intros a i Hi. destruct (Hacc a i Hi) as (H1 & H2 & [[-> _]|[]]).
      rewrite Hadd by exact Hcur. auto.
    + intros k c Hk. destruct (Hconn k c Hk) as (H1 & H2 & H3). split; [exact H1|]. split; [|exact H3].
      intros i Hi. destruct (H2 i Hi) as (Ha & Hb & Hc). rewrite app_length. simpl.
      rewrite Hadd by exact Hb. repeat split; try lia; assumption.
    + intros a i Hi. destruct (Hfd a i Hi) as [(-> & Ha)|(Hc & _)]; [|discriminate].
      left. split; [reflexivity|]. rewrite Hadd by exact Hcur. exact Ha.
    + exact Hndf.
  - (* LLoadFail *)
    dmatch H. injection H as <-.
    unfold phase_inv, old_live, is_new, holder_ok, pending in *. rewrite E in *.
    constructor; simpl; unfold phase_inv, old_live, is_new, holder_ok, pending; simpl; auto.
    all: try (intros a i Hi; destruct (Hacc a i Hi) as (H1 & H2 & [[-> _]|[]]); auto; fail).
    intros a i Hi. destruct (Hfd a i Hi) as [Hc|(Hc & _)]; [left; exact Hc|].
    injection Hc as <-. exfalso. destruct Hph as (_ & Hno). exact (Hno a Hi).
  - (* LLoadOk *)
    dmatch H. injection H as <-.
    unfold phase_inv, old_live, is_new, holder_ok, pending in *. rewrite E in *.
    constructor; simpl; unfold phase_inv, old_live, is_new, holder_ok, pending; simpl; auto.
    destruct Hph as (Hn & Hno). split; [exact Hn|]. split; [apply Nat.eqb_neq; exact E0 | exact Hno].
  - (* LDup *)
    dmatch H. injection H as <-. rename n0 into a.
    unfold phase_inv, old_live, is_new, holder_ok, pending in *. rewrite E in *.
    destruct Hph as (Hn & Hincl & Hfate & Hfdn & Hndt & Hnot).
    inversion Hndt as [|x0 y0 Hnotin Hndl]; subst x0 y0.
    assert (Hsup : forall x b, In x (fdh s b) -> In x (upd (fdh s) a (n :: fdh s a) b)).
    { intros x b Hx. destruct (Nat.eq_dec b a) as [->|Hne].
      - rewrite upd_same. right. exact Hx.
      - rewrite upd_other by exact Hne. exact Hx. }
    constructor; simpl; unfold phase_inv, old_live, is_new, holder_ok, pending; simpl; auto.
    + split; [exact Hn|]. split; [intros x Hx; apply Hincl; right; exact Hx|]. split; [exact Hfate|].
      split; [|split; [exact Hndl|]].
      * intros b Hb Hnt. destruct (Nat.eq_dec b a) as [->|Hne].
        -- rewrite upd_same. left. reflexivity.
        -- apply Hsup. apply Hfdn; [exact Hb|]. intros [Hx|Hx]; [congruence|contradiction].
      * intros b Hb. assert (Hne : b <> a) by (intros ->; contradiction).
        rewrite upd_other by exact Hne. apply Hnot. right. exact Hb.
    + intros b Hb _. destruct (Hold b Hb I) as (H1 & H2). split; [apply Hsup; exact H1|exact H2].
    + intros b i Hi. destruct (Hacc b i Hi) as (H1 & H2 & H3). split; [apply Hsup; exact H1|]. auto.
    + intros k c Hk. destruct (Hconn k c Hk) as (H1 & H2 & H3). split; [exact H1|]. split; [exact H2|].
      intros Hq Hnil. specialize (H3 Hq). destruct (fdh s (caddr c)) as [|y r] eqn:Ef; [congruence|].
      assert (Hy : In y (upd (fdh s) a (n :: fdh s a) (caddr c))) by (apply Hsup; rewrite Ef; left; reflexivity).
      rewrite Hnil in Hy. contradiction.
    + intros b i Hi. destruct (Nat.eq_dec b a) as [->|Hne].
      * rewrite upd_same in Hi. destruct Hi as [<-|Hi]; [|apply Hfd; exact Hi].
        right. split; [reflexivity|]. apply Hincl. left. reflexivity.
      * rewrite upd_other in Hi by exact Hne. apply Hfd; exact Hi.
    + intros b. destruct (Nat.eq_dec b a) as [->|Hne].
      * rewrite upd_same. constructor; [apply Hnot; left; reflexivity | apply Hndf].
      * rewrite upd_other by exact Hne. apply Hndf.
  - (* LBind *)
    dmatch H. injection H as <-. rename n0 into a.
    apply andb_true_iff in E1 as (E1 & Eext). apply andb_true_iff in E1 as (Enm & Enil).
    apply isnil_true in Enil.
    unfold phase_inv, old_live, is_new, holder_ok, pending in *. rewrite E in *.
    destruct Hph as (Hn & Hincl & Hfate & Hfdn & Hndt & Hnot).
    inversion Hndt as [|x0 y0 Hnotin Hndl]; subst x0 y0.
    assert (Hsup : forall x b, In x (fdh s b) -> In x (upd (fdh s) a [n] b)).
    { intros x b Hx. destruct (Nat.eq_dec b a) as [->|Hne].
      - rewrite Enil in Hx. contradiction.
      - rewrite upd_other by exact Hne. exact Hx. }
    constructor; simpl; unfold phase_inv, old_live, is_new, holder_ok, pending; simpl; auto.
    + split; [exact Hn|]. split; [intros x Hx; apply Hincl; right; exact Hx|]. split; [exact Hfate|].
      split; [|split; [exact Hndl|]].
      * intros b Hb Hnt. destruct (Nat.eq_dec b a) as [->|Hne].
        -- rewrite upd_same. left. reflexivity.
        -- apply Hsup. apply Hfdn; [exact Hb|]. intros [Hx|Hx]; [congruence|contradiction].
      * intros b Hb. assert (Hne : b <> a) by (intros ->; contradiction).
        rewrite upd_other by exact Hne. apply Hnot. right. exact Hb.
    + intros b Hb _. destruct (Hold b Hb I) as (H1 & H2). split; [apply Hsup; exact H1|exact H2].
    + intros b i Hi. destruct (Hacc b i Hi) as (H1 & H2 & H3). split; [apply Hsup; exact H1|]. auto.
    + intros k c Hk. destruct (Hconn k c Hk) as (H1 & H2 & H3). split; [exact H1|]. split; [exact H2|].
      intros Hq Hnil. specialize (H3 Hq). destruct (fdh s (caddr c)) as [|y r] eqn:Ef; [congruence|].
      assert (Hy : In y (upd (fdh s) a [n] (caddr c))) by (apply Hsup; rewrite Ef; left; reflexivity).
      rewrite Hnil in Hy. contradiction.
    + intros b i Hi. destruct (Nat.eq_dec b a) as [->|Hne].
      * rewrite upd_same in Hi. destruct Hi as [<-|[]].
        right. split; [reflexivity|]. apply Hincl. left. reflexivity.
      * rewrite upd_other in Hi by exact Hne. apply Hfd; exact Hi.
    + intros b. destruct (Nat.eq_dec b a) as [->|Hne].
      * rewrite upd_same. repeat constructor. intros [].
      * rewrite upd_other by exact Hne. apply Hndf.
  - (* LListenFail: startServers closes what it opened for the new instance *)
    dmatch H. injection H as <-.
    unfold phase_inv, old_live, is_new, holder_ok, pending in *. rewrite E in *.
    destruct Hph as ((Hn1 & Hn2) & _).
    constructor; simpl; unfold phase_inv, old_live, is_new, holder_ok, pending; simpl; auto.
    + intros a Ha _. destruct (Hold a Ha I) as (H1 & H2). split; [|exact H2].
      apply rem_In. split; [exact H1 | lia].
    + intros a i Hi; destruct (Hacc a i Hi) as (H1 & H2 & [[-> _]|[]]).
      split; [apply rem_In; split; [exact H1 | lia]|]. auto.
    + intros k c Hk. rewrite nth_error_map in Hk.
      destruct (nth_error (conns s) k) as [c0|] eqn:Ek; [|discriminate]. simpl in Hk. injection Hk as <-.
      destruct (Hconn k c0 Ek) as (H1 & H2 & H3).
      destruct (cst c0) eqn:Ec0; try (rewrite Ec0; split; [exact H1|]; split; [exact H2|]; intros; discriminate).
      destruct (isnil (rem n (fdh s (caddr c0)))) eqn:Enil.
      * simpl. split; [exact H1|]. split; intros; discriminate.
      * rewrite Ec0. split; [exact H1|]. split; [exact H2|]. intros _. apply isnil_false. exact Enil.
    + intros a i Hi. apply rem_In in Hi as (Hi & Hne).
      destruct (Hfd a i Hi) as [Hc|(Hc & _)]; [left; exact Hc | congruence].
    + intros a. unfold rem. apply NoDup_filter. apply Hndf.
  - (* LAdv *)
    dmatch H; injection H as <-.
    + (* RListen n [] -> RSpawn *)
      unfold phase_inv, old_live, is_new, holder_ok, pending in *. rewrite E in *.
      destruct Hph as (Hn & Hincl & Hfate & Hfdn & _ & _).
      constructor; simpl; unfold phase_inv, old_live, is_new, holder_ok, pending; simpl; auto.
      * split; [exact Hn|]. split; [apply incl_refl|]. split; [apply Nat.eqb_eq; exact E1|]. split.
        -- intros a Ha. apply Hfdn; [exact Ha|]. intros [].
        -- intros a Ha Hna. contradiction.
      * intros a i Hi. destruct (Hacc a i Hi) as (H1 & H2 & [[-> _]|[]]). auto.
    + (* RSpawn n [] -> RStop *)
      unfold phase_inv, old_live, is_new, holder_ok, pending in *. rewrite E in *.
      destruct Hph as (Hn & Hincl & Hfate & Hfdn & Hac).
      constructor; simpl; unfold phase_inv, old_live, is_new, holder_ok, pending; simpl; auto.
      * split; [exact Hn|]. split; [apply Hnd|]. split; [apply incl_refl|]. split; [exact Hfate|]. split.
        -- intros a Ha. split; [apply Hfdn; exact Ha | apply Hac; [exact Ha | intros []]].
        -- intros a Ha. destruct (Hfd a _ Ha) as [(_ & Hin)|(Hc & _)]; [exact Hin|].
           injection Hc as Hc. destruct Hn as (_ & Hlt). lia.
      * intros a i Hi. destruct (Hacc a i Hi) as (H1 & H2 & [[-> _] | -> ]); auto.
  - (* LSpawn *)
    dmatch H. injection H as <-. rename n0 into a.
    unfold phase_inv, old_live, is_new, holder_ok, pending in *. rewrite E in *.
    destruct Hph as (Hn & Hincl & Hfate & Hfdn & Hac).
    constructor; simpl; unfold phase_inv, old_live, is_new, holder_ok, pending; simpl; auto.
    + split; [exact Hn|]. split; [intros x Hx; apply Hincl; right; exact Hx|]. split; [exact Hfate|].
      split; [exact Hfdn|].
      intros b Hb Hnt. destruct (Nat.eq_dec b a) as [->|Hne].
      * rewrite upd_same. left. reflexivity.
      * rewrite upd_other by exact Hne. apply Hac; [exact Hb|]. intros [Hx|Hx]; [congruence|contradiction].
    + intros b Hb _. destruct (Hold b Hb I) as (H1 & H2). split; [exact H1|].
      destruct (Nat.eq_dec b a) as [->|Hne]; [rewrite upd_same; right; exact H2 | rewrite upd_other by exact Hne; exact H2].
    + intros b i Hi. destruct (Nat.eq_dec b a) as [->|Hne].
      * rewrite upd_same in Hi. destruct Hi as [<-|Hi].
        -- split; [apply Hfdn; apply Hincl; left; reflexivity|]. split; [apply Hincl; left; reflexivity|]. right. reflexivity.
        -- destruct (Hacc a i Hi) as (H1 & H2 & H3). auto.
      * rewrite upd_other in Hi by exact Hne. destruct (Hacc b i Hi) as (H1 & H2 & H3). auto.
  - (* LStop *)
    dmatch H. injection H as <-. rename n0 into a.
    eapply (inv_stop_old s n a l);
      [exact Hinv | exact E | simpl; apply stop_old_fields | simpl; apply stop_old_fields
       | reflexivity | reflexivity | reflexivity | reflexivity].
  - (* LReturn *)
    dmatch H. injection H as <-.
    unfold phase_inv, old_live, is_new, holder_ok, pending in *. rewrite E in *.
    destruct Hph as ((Hn1 & Hn2) & Hndt & Hincl & Hfate & Hnew & Hcurfd).
    constructor; simpl; unfold phase_inv, old_live, is_new, holder_ok, pending; simpl; auto.
    + lia.
    + intros a i Hi. destruct (Hacc a i Hi) as (H1 & H2 & [[-> []] | -> ]). auto.
    + intros k c Hk. destruct (Hconn k c Hk) as (H1 & H2 & H3). split; [lia|]. auto.
    + intros a i Hi. destruct (Hfd a i Hi) as [(-> & _)|(Hc & Ha)].
      * exfalso. exact (Hcurfd a Hi).
      * injection Hc as <-. left. auto.
  - (* LNew *)
    injection H as <-.
    unfold phase_inv, old_live, is_new in *.
    constructor; simpl; unfold phase_inv, old_live, is_new; simpl; auto; try exact Hfd.
    intros k c Hk. apply nth_error_app_last in Hk as [Hk|(-> & ->)]; [apply Hconn in Hk; exact Hk|].
    simpl. split; [lia|]. split; intros; discriminate.
  - (* LConnect *)
    dmatch H. injection H as <-.
    unfold phase_inv, old_live, is_new in *.
    constructor; simpl; unfold phase_inv, old_live, is_new; simpl; auto; try exact Hfd.
    intros k' c' Hk'.
    eapply conn_upd_inv in Hk' as [(-> & ->)|(Hne & Hk')]; [| |exact E|reflexivity]; [|apply Hconn in Hk'; exact Hk'].
    destruct (Hconn k c E) as (H1 & H2 & H3). simpl. split; [exact H1|].
    destruct (isnil (fdh s (caddr c))) eqn:En; simpl; split; try (intros; discriminate).
    intros _. apply isnil_false. exact En.
  - (* LAccept *)
    dmatch H. injection H as <-.
    apply mem_In in E1.
    destruct (Hacc (caddr c) i E1) as (Hf & Had & Hwho).
    destruct (Hconn k c E) as (H1 & H2 & H3).
    assert (Hi : cur s <= i /\ i < length (cfgs s)).
    { destruct Hwho as [[-> _]|Hnew]; [lia|].
      unfold is_new, phase_inv, new_ok in *. destruct (rst s); try contradiction; subst i.
      - destruct Hph as ((Ha & Hb) & _). lia.
      - destruct Hph as ((Ha & Hb) & _). lia. }
    unfold phase_inv, old_live, is_new in *.
    constructor; simpl; unfold phase_inv, old_live, is_new; simpl; auto; try exact Hfd.
    intros k' c' Hk'.
    eapply conn_upd_inv in Hk' as [(-> & ->)|(Hne & Hk')]; [| |exact E|reflexivity]; [|apply Hconn in Hk'; exact Hk'].
    simpl. split; [exact H1|]. split; [|intros; discriminate].
    intros j Hj. injection Hj as <-. repeat split; try lia. exact Had.
  - (* LAnswer *)
    dmatch H. injection H as <-.
    destruct (Hconn k c E) as (H1 & H2 & H3).
    unfold phase_inv, old_live, is_new in *.
    constructor; simpl; unfold phase_inv, old_live, is_new; simpl; auto; try exact Hfd.
    intros k' c' Hk'.
    eapply conn_upd_inv in Hk' as [(-> & ->)|(Hne & Hk')]; [| |exact E|reflexivity]; [|apply Hconn in Hk'; exact Hk'].
    simpl. split; [exact H1|]. split; [|intros; discriminate].
    intros j Hj. apply H2. rewrite E0. exact Hj.
  - (* LRecv *)
    dmatch H; injection H as <-;
    destruct (Hconn k c E) as (H1 & H2 & H3);
    unfold phase_inv, old_live, is_new in *;
    (constructor; simpl; unfold phase_inv, old_live, is_new; simpl; auto; try exact Hfd);
    intros k' c' Hk';
    (eapply conn_upd_inv in Hk' as [(-> & ->)|(Hne & Hk')]; [| |exact E|reflexivity]; [|apply Hconn in Hk'; exact Hk']);
    simpl; (split; [exact H1|]); (split; [|intros; discriminate]);
    intros j Hj; try discriminate; apply H2; rewrite E0; exact Hj.
  - (* LObs *)
    injection H as <-.
    unfold phase_inv, old_live, is_new in *.
    constructor; simpl; unfold phase_inv, old_live, is_new; simpl; auto; try exact Hfd.
  - (* LCbOk *)
    dmatch H. injection H as <-.
    unfold phase_inv, old_live, is_new, holder_ok, pending in *. rewrite E in *.
    constructor; simpl; unfold phase_inv, old_live, is_new, holder_ok, pending; simpl; auto.
    destruct Hph as (Hn & Hf & Hno). split; [exact Hn|]. split; [apply incl_refl|]. split; [exact Hf|].
    split; [intros a Ha Hna; contradiction|]. split; [apply Hnd|]. intros a _. apply Hno.
  - (* LCbFail *)
    dmatch H. injection H as <-.
    unfold phase_inv, old_live, is_new, holder_ok, pending in *. rewrite E in *.
    constructor; simpl; unfold phase_inv, old_live, is_new, holder_ok, pending; simpl; auto.
    all: try (intros a i Hi; destruct (Hacc a i Hi) as (H1 & H2 & [[-> _]|[]]); auto; fail).
    intros a i Hi. destruct (Hfd a i Hi) as [Hc|(Hc & _)]; [left; exact Hc|].
    injection Hc as <-. exfalso. destruct Hph as (_ & _ & Hno). exact (Hno a Hi).
  - (* LStopTimeout *)
    dmatch H. injection H as <-. rename n0 into a.
    eapply (inv_stop_old s n a l);
      [exact Hinv | exact E | simpl; apply stop_old_fields | simpl; apply stop_old_fields
       | reflexivity | reflexivity | reflexivity | reflexivity].
  - (* LFds *)
    injection H as <-.
    unfold phase_inv, old_live, is_new in *.
    constructor; simpl; unfold phase_inv, old_live, is_new; simpl; auto; try exact Hfd.
Qed.

Lemma inv_run s ls s' : Inv s -> run s ls = Some s' -> Inv s'.
Proof.
  revert s; induction ls as [|l r IH]; simpl; intros s Hi H.
  - injection H as <-. exact Hi.
  - destruct (step s l) as [s1|] eqn:E; [|discriminate]. eapply IH; [eapply inv_step; eauto | exact H].
Qed.

Lemma inv_reachable s : reachable s -> Inv s.
Proof. intros (a0 & b & ls & Hnd & Hr). eapply inv_run; [apply inv_init; exact Hnd | exact Hr]. Qed.

(* ---------------------------------------------------------------------------------- *)
(* consequences *)

(* T1/T3: every address of the configuration whose service is guaranteed has its socket open
   (a descriptor held by that very instance) and a committed acceptor of that instance *)
Lemma owner_serves s a :
  reachable s -> In a (addrs_of s (owner s)) ->
  In (owner s) (fdh s a) /\ In (owner s) (acc s a).
Proof.
  intros Hr Ha. apply inv_reachable in Hr. destruct Hr as [Hcur Hnd Hph Hold Hacc Hconn].
  unfold owner, phase_inv, old_live in *. destruct (rst s) eqn:E; try (apply Hold; [exact Ha | exact I]).
  destruct Hph as (_ & _ & _ & _ & Hnew). apply Hnew. exact Ha.
Qed.

Lemma socket_never_closed s a :
  reachable s -> In a (addrs_of s (owner s)) -> fdh s a <> [].
Proof.
  intros Hr Ha Hn. destruct (owner_serves s a Hr Ha) as (H1 & _). rewrite Hn in H1. contradiction.
Qed.

Lemma always_an_acceptor s a :
  reachable s -> In a (addrs_of s (owner s)) -> exists i, In i (acc s a) /\ In i (fdh s a) /\ In a (addrs_of s i).
Proof.
  intros Hr Ha. destruct (owner_serves s a Hr Ha) as (H1 & H2). exists (owner s). auto.
Qed.

(* the socket bound to a served address is never replaced: [sid] only changes in LBind, which
   needs the address to have no socket at all *)
Lemma sid_step s l s' a :
  step s l = Some s' -> sid s' a <> sid s a -> l = LBind /\ fdh s a = [] /\ ~ In a (addrs_of s (cur s)).
Proof.
  intros H Hne. destruct l; unfold step in H; dmatch H;
    try (injection H as <-; simpl in Hne;
         repeat match type of Hne with
                | context [sid (stop_old ?s0 ?a0)] => rewrite (proj1 (proj2 (proj2 (stop_old_fields s0 a0)))) in Hne
                end;
         congruence).
  (* LBind *)
  injection H as <-. simpl in Hne.
  apply andb_true_iff in E1 as (E1 & _). apply andb_true_iff in E1 as (Enm & Enil).
  destruct (Nat.eq_dec a n0) as [->|Hd]; [|rewrite upd_other in Hne by exact Hd; congruence].
  split; [reflexivity|]. split; [apply isnil_true; exact Enil|].
  apply Bool.negb_true_iff in Enm. apply mem_false. exact Enm.
Qed.

Lemma socket_never_rebound s l s' a :
  reachable s -> step s l = Some s' -> In a (addrs_of s (owner s)) -> sid s' a = sid s a.
Proof.
  intros Hr H Ha. destruct (Nat.eq_dec (sid s' a) (sid s a)) as [E|E]; [exact E|].
  destruct (sid_step s l s' a H E) as (_ & Hnil & _).
  exfalso. exact (socket_never_closed s a Hr Ha Hnil).
Qed.

Lemma reachable_step s l s' : reachable s -> step s l = Some s' -> reachable s'.
Proof.
  intros (a0 & b & ls & Hnd & Hr) H. exists a0, b, (ls ++ [l]). split; [exact Hnd|].
  clear Hnd. revert Hr. generalize (init a0 b). induction ls as [|x r IH]; simpl; intros s0 Hr.
  - injection Hr as ->. rewrite H. reflexivity.
  - destruct (step s0 x); [apply IH; exact Hr | discriminate].
Qed.

Lemma reachable_run s ls s' : reachable s -> run s ls = Some s' -> reachable s'.
Proof.
  revert s; induction ls as [|l r IH]; simpl; intros s Hr H.
  - injection H as <-. exact Hr.
  - destruct (step s l) as [s1|] eqn:E; [|discriminate]. eapply IH; [eapply reachable_step; eauto | exact H].
Qed.

(* along any run during which the address stays served, the socket is the same one *)
Fixpoint served_along (a : nat) (s : state) (ls : list label) : Prop :=
  In a (addrs_of s (owner s)) /\
  match ls with
  | [] => True
  | l :: r => match step s l with Some s' => served_along a s' r | None => True end
  end.

Lemma socket_identity_along_run a ls : forall s s',
  reachable s -> run s ls = Some s' -> served_along a s ls ->
  sid s' a = sid s a /\ fdh s' a <> [].
Proof.
  induction ls as [|l r IH]; simpl; intros s s' Hr H (Ha & Hs).
  - injection H as <-. split; [reflexivity | apply socket_never_closed; assumption].
  - destruct (step s l) as [s1|] eqn:E; [|discriminate].
    destruct (IH s1 s' (reachable_step _ _ _ Hr E) H Hs) as (H1 & H2).
    split; [|exact H2]. rewrite H1. eapply socket_never_rebound; eauto.
Qed.

(* T9: only the instance in force and the one being started ever accept; an instance whose
   start failed never does *)
Lemma only_live_instances_accept s a i :
  reachable s -> In i (acc s a) ->
  In i (fdh s a) /\ In a (addrs_of s i) /\ (i = cur s \/ pending s = Some i /\ fate_of s i = 0).
Proof.
  intros Hr Hi. apply inv_reachable in Hr. destruct Hr as [Hcur Hnd Hph Hold Hacc Hconn].
  destruct (Hacc a i Hi) as (H1 & H2 & H3). split; [exact H1|]. split; [exact H2|].
  destruct H3 as [[-> _]|H3]; [left; reflexivity|]. right.
  unfold is_new, pending, phase_inv in *. destruct (rst s); try contradiction; subst i.
  - destruct Hph as (_ & _ & Hf & _). auto.
  - destruct Hph as (_ & _ & _ & Hf & _). auto.
Qed.

(* T4: a connection to a served address is never refused, never reset, and can always be taken *)
Lemma connect_not_refused s k c s' :
  reachable s -> nth_error (conns s) k = Some c -> In (caddr c) (addrs_of s (owner s)) ->
  step s (LConnect k) = Some s' ->
  exists c', nth_error (conns s') k = Some c' /\ cst c' = CQueued /\ caddr c' = caddr c /\ csite c' = csite c.
Proof.
  intros Hr Hk Ha H. unfold step in H. rewrite Hk in H. destruct (cst c) eqn:Ec; try discriminate.
  injection H as <-. simpl. rewrite nth_error_set_nth, Nat.eqb_refl, Hk.
  eexists. split; [reflexivity|]. simpl.
  destruct (isnil (fdh s (caddr c))) eqn:En; [|auto].
  apply isnil_true in En. exfalso. exact (socket_never_closed s _ Hr Ha En).
Qed.

Lemma queued_never_reset s l s' k c :
  reachable s -> step s l = Some s' -> nth_error (conns s) k = Some c -> cst c = CQueued ->
  In (caddr c) (addrs_of s' (owner s')) ->
  exists c', nth_error (conns s') k = Some c' /\ caddr c' = caddr c /\ csite c' = csite c /\
             cst c' <> CReset /\ cst c' <> CRefused /\
             (cst c' = CFailed -> False).
Proof.
  intros Hr H Hk Hq Ha.
  assert (Hr' := reachable_step _ _ _ Hr H).
  assert (Hkeep : forall cs, cs = conns s -> exists c', nth_error cs k = Some c' /\ caddr c' = caddr c /\
            csite c' = csite c /\ cst c' <> CReset /\ cst c' <> CRefused /\ (cst c' = CFailed -> False)).
  { intros cs ->. exists c. rewrite Hq. repeat split; try assumption; try discriminate. }
  assert (Hset : forall k0 c0 x, nth_error (conns s) k0 = Some c0 ->
            (k0 = k -> x <> CReset /\ x <> CRefused /\ x <> CFailed) ->
            exists c', nth_error (set_nth (conns s) k0 (set_st c0 x)) k = Some c' /\ caddr c' = caddr c /\
            csite c' = csite c /\ cst c' <> CReset /\ cst c' <> CRefused /\ (cst c' = CFailed -> False)).
  { intros k0 c0 x Hk0 Hx. rewrite nth_error_set_nth. destruct (Nat.eqb k0 k) eqn:Ek.
    - apply Nat.eqb_eq in Ek. subst k0. rewrite Hk in *. injection Hk0 as <-.
      destruct (Hx eq_refl) as (X1 & X2 & X3). eexists. split; [reflexivity|]. simpl. auto.
    - apply Hkeep. reflexivity. }
  assert (Hstop : forall a0 s1, conns s1 = conns (stop_old s a0) -> fdh s1 = fdh (stop_old s a0) ->
            reachable s1 -> In (caddr c) (addrs_of s1 (owner s1)) ->
            exists c', nth_error (conns s1) k = Some c' /\ caddr c' = caddr c /\
              csite c' = csite c /\ cst c' <> CReset /\ cst c' <> CRefused /\ (cst c' = CFailed -> False)).
  { intros a0 s1 Ec Ef Hr1 Ha1. rewrite Ec. rewrite (stop_old_queued s a0 k c Hk Hq).
    - exists c. rewrite Hq. repeat split; try discriminate.
    - destruct (stop_old_fields s a0) as (_ & _ & _ & _ & _ & _ & Ff & _). rewrite <- Ff, <- Ef.
      apply (socket_never_closed _ _ Hr1 Ha1). }
  destruct l; unfold step in H; dmatch H; try (injection H as <-; simpl; apply Hkeep; reflexivity).
  - (* LListenFail: only sockets the failed instance had bound itself disappear *)
    injection H as <-. simpl. rewrite nth_error_map, Hk. simpl. rewrite Hq.
    destruct (isnil (rem n (fdh s (caddr c)))) eqn:Enil.
    + exfalso. apply (socket_never_closed _ _ Hr' Ha). simpl. apply isnil_true. exact Enil.
    + exists c. rewrite Hq. repeat split; try discriminate.
  - (* LStop *)
    injection H as <-. apply (Hstop n0); try reflexivity; assumption.
  - (* LNew *)
    injection H as <-. simpl. rewrite nth_error_app1 by (apply nth_error_Some; congruence).
    apply Hkeep. reflexivity.
  - (* LConnect *)
    injection H as <-. simpl. apply Hset; [exact E|]. intros ->. rewrite Hk in E. injection E as <-. congruence.
  - (* LAccept *)
    injection H as <-. simpl. apply Hset; [exact E|]. intros _. repeat split; discriminate.
  - (* LAnswer *)
    injection H as <-. simpl. apply Hset; [exact E|]. intros _. repeat split; discriminate.
  - (* LRecv, timeout of a queued connection: needs no acceptor, but the owner has one *)
    injection H as <-. simpl. destruct (Nat.eq_dec k0 k) as [->|Hne].
    + exfalso. rewrite Hk in E. injection E as <-.
      simpl in Ha. unfold owner, addrs_of in Ha. simpl in Ha.
      destruct (owner_serves s (caddr c) Hr Ha) as (_ & Hin).
      apply isnil_true in E1. rewrite E1 in Hin. contradiction.
    + apply Hset; [exact E|]. intros; contradiction.
  - injection H as <-. simpl. apply Hset; [exact E|]. intros ->. rewrite Hk in E. injection E as <-. congruence.
  - injection H as <-. simpl. apply Hset; [exact E|]. intros ->. rewrite Hk in E. injection E as <-. congruence.
  - injection H as <-. simpl. apply Hset; [exact E|]. intros ->. rewrite Hk in E. injection E as <-. congruence.
  - (* LStopTimeout *)
    injection H as <-. apply (Hstop n0); try reflexivity; assumption.
Qed.

Lemma queued_can_be_accepted s k c :
  reachable s -> nth_error (conns s) k = Some c -> cst c = CQueued -> In (caddr c) (addrs_of s (owner s)) ->
  exists s', step s (LAccept k (owner s)) = Some s'.
Proof.
  intros Hr Hk Hq Ha. destruct (owner_serves s _ Hr Ha) as (_ & Hin).
  unfold step. rewrite Hk, Hq. apply mem_In in Hin. rewrite Hin. eexists. reflexivity.
Qed.

(* T5: one instance per connection, its own configuration, the right address *)
Lemma accepted_stable_step s l s' k c i :
  step s l = Some s' -> nth_error (conns s) k = Some c -> accepted_by (cst c) = Some i ->
  exists c', nth_error (conns s') k = Some c' /\ accepted_by (cst c') = Some i /\
             caddr c' = caddr c /\ csite c' = csite c /\ cborn c' = cborn c.
Proof.
  intros H Hk Hi.
  assert (Hkeep : exists c', nth_error (conns s) k = Some c' /\ accepted_by (cst c') = Some i /\
             caddr c' = caddr c /\ csite c' = csite c /\ cborn c' = cborn c) by (exists c; auto).
  assert (Hset : forall k0 c0 x, nth_error (conns s) k0 = Some c0 ->
            (k0 = k -> accepted_by x = Some i) ->
            exists c', nth_error (set_nth (conns s) k0 (set_st c0 x)) k = Some c' /\ accepted_by (cst c') = Some i /\
             caddr c' = caddr c /\ csite c' = csite c /\ cborn c' = cborn c).
  { intros k0 c0 x Hk0 Hx. rewrite nth_error_set_nth. destruct (Nat.eqb k0 k) eqn:Ek.
    - apply Nat.eqb_eq in Ek. subst k0. rewrite Hk in *. injection Hk0 as <-.
      eexists. split; [reflexivity|]. simpl. auto.
    - exact Hkeep. }
  assert (Hstop : forall a0, exists c', nth_error (conns (stop_old s a0)) k = Some c' /\ accepted_by (cst c') = Some i /\
             caddr c' = caddr c /\ csite c' = csite c /\ cborn c' = cborn c).
  { intros a0. destruct (stop_old_fields s a0) as (_ & _ & _ & _ & _ & _ & _ & _ & Fc). rewrite Fc.
    destruct (isnil (rem (cur s) (fdh s a0))); [|exact Hkeep].
    unfold reset_queued. rewrite nth_error_map, Hk. simpl.
    destruct (cst c) eqn:Ec; try discriminate; eexists; (split; [reflexivity|]); rewrite Ec; auto. }
  destruct l; unfold step in H; dmatch H; try (injection H as <-; simpl; exact Hkeep).
  - (* LListenFail *)
    injection H as <-. simpl. rewrite nth_error_map, Hk. simpl.
    destruct (cst c) eqn:Ec; try discriminate; eexists; (split; [reflexivity|]); rewrite Ec; auto.
  - injection H as <-. simpl. apply Hstop.
  - injection H as <-. simpl. rewrite nth_error_app1 by (apply nth_error_Some; congruence). exact Hkeep.
  - injection H as <-. simpl. apply Hset; [exact E|]. intros ->. rewrite Hk in E. injection E as <-. rewrite E0 in Hi. discriminate.
  - injection H as <-. simpl. apply Hset; [exact E|]. intros ->. rewrite Hk in E. injection E as <-. rewrite E0 in Hi. discriminate.
  - injection H as <-. simpl. apply Hset; [exact E|]. intros ->. rewrite Hk in E. injection E as <-. rewrite E0 in Hi. exact Hi.
  - injection H as <-. simpl. apply Hset; [exact E|]. intros ->. rewrite Hk in E. injection E as <-. rewrite E0 in Hi. discriminate.
  - injection H as <-. simpl. apply Hset; [exact E|]. intros ->. rewrite Hk in E. injection E as <-. rewrite E0 in Hi. discriminate.
  - injection H as <-. simpl. apply Hset; [exact E|]. intros ->. rewrite Hk in E. injection E as <-. rewrite E0 in Hi. discriminate.
  - injection H as <-. simpl. apply Hset; [exact E|]. intros ->. rewrite Hk in E. injection E as <-. rewrite E0 in Hi. exact Hi.
  - injection H as <-. simpl. apply Hstop.
Qed.

Lemma one_instance_per_conn ls : forall s s' k c i,
  run s ls = Some s' -> nth_error (conns s) k = Some c -> accepted_by (cst c) = Some i ->
  exists c', nth_error (conns s') k = Some c' /\ accepted_by (cst c') = Some i /\
             caddr c' = caddr c /\ csite c' = csite c.
Proof.
  induction ls as [|l r IH]; simpl; intros s s' k c i H Hk Hi.
  - injection H as <-. exists c. auto.
  - destruct (step s l) as [s1|] eqn:E; [|discriminate].
    destruct (accepted_stable_step _ _ _ _ _ _ E Hk Hi) as (c1 & Hk1 & Hi1 & Ha1 & Hs1 & _).
    destruct (IH s1 s' k c1 i H Hk1 Hi1) as (c' & X1 & X2 & X3 & X4).
    exists c'. repeat split; try assumption; congruence.
Qed.

(* T6: a connection is only ever taken by the instance in force when it started or a later one,
   and that instance serves the connection's address *)
Lemma accepted_by_current_or_later s k c i :
  reachable s -> nth_error (conns s) k = Some c -> accepted_by (cst c) = Some i ->
  cborn c <= i /\ i < length (cfgs s) /\ In (caddr c) (addrs_of s i).
Proof.
  intros Hr Hk Hi. apply inv_reachable in Hr. destruct Hr as [_ _ _ _ _ Hconn].
  destruct (Hconn k c Hk) as (_ & H2 & _). apply H2. exact Hi.
Qed.

(* ... the instance in force is the newest successfully started one: after a successful
   Restart returned, [cur] is the new instance *)
Lemma return_installs_new s s' :
  reachable s -> step s LReturn = Some s' ->
  exists n, pending s = Some n /\ cur s' = n /\ rst s' = RIdle /\ cur s < n /\ fate_of s n = 0 /\
            (forall a, In a (addrs_of s' n) -> In n (fdh s' a) /\ In n (acc s' a)) /\
            (forall a i, In i (acc s' a) -> i = n).
Proof.
  intros Hr H. assert (Hr' := reachable_step _ _ _ Hr H).
  apply inv_reachable in Hr. destruct Hr as [Hcur Hnd Hph Hold Hacc Hconn].
  unfold step in H. dmatch H. injection H as <-. simpl.
  unfold phase_inv, pending in *. rewrite E in *. destruct Hph as ((Hn1 & Hn2) & _ & _ & Hf & Hnew).
  exists n. repeat split; auto.
  - apply Hnew. exact H.
  - apply Hnew. exact H.
  - intros a i Hi. destruct (Hacc a i Hi) as (_ & _ & [[_ Hl]|Hn]).
    + unfold old_live in Hl. rewrite E in Hl. contradiction.
    + unfold is_new in Hn. rewrite E in Hn. exact Hn.
Qed.

Lemma rem_notin x l : ~ In x l -> rem x l = l.
Proof.
  induction l as [|y l IH]; intros H; simpl; [reflexivity|].
  destruct (Nat.eqb x y) eqn:E; simpl.
  - apply Nat.eqb_eq in E. subst y. exfalso. apply H. left. reflexivity.
  - rewrite IH; [reflexivity|]. intros Hin. apply H. right. exact Hin.
Qed.

(* T7: a failed reload — while loading, in a startup callback, at listen time — leaves the old
   instance exactly as it was and nothing of the rejected instance n behind: every descriptor is
   the old instance's; when a Listen failed the descriptors n had got are closed again, and the
   only connections touched are those queued at sockets n had bound itself *)
Lemma failed_reload_keeps_old s l s' :
  reachable s -> (l = LLoadFail \/ l = LCbFail \/ l = LListenFail) -> step s l = Some s' ->
  exists n, pending s = Some n /\
  cur s' = cur s /\ rst s' = RIdle /\ cfgs s' = cfgs s /\
  (forall a, sid s' a = sid s a /\ acc s' a = acc s a /\ fdh s' a = rem n (fdh s a)) /\
  (l <> LListenFail -> conns s' = conns s /\ forall a, fdh s' a = fdh s a) /\
  (forall k c, nth_error (conns s) k = Some c -> In (caddr c) (addrs_of s (cur s)) ->
               nth_error (conns s') k = Some c) /\
  (forall a i, In i (fdh s' a) -> i = cur s' /\ In a (addrs_of s' (cur s'))) /\
  (forall a, In a (addrs_of s' (cur s')) -> In (cur s') (fdh s' a) /\ In (cur s') (acc s' a)) /\
  (forall a i, In i (acc s' a) -> i = cur s').
Proof.
  intros Hr Hl H. assert (Hr' := reachable_step _ _ _ Hr H).
  assert (Hinv := inv_reachable _ Hr). assert (Hinv' := inv_reachable _ Hr').
  assert (Hidle : forall n, pending s = Some n -> rst s' = RIdle -> cur s' = cur s ->
            (forall a i, In i (fdh s' a) -> i = cur s' /\ In a (addrs_of s' (cur s'))) /\
            (forall a, In a (addrs_of s' (cur s')) -> In (cur s') (fdh s' a) /\ In (cur s') (acc s' a)) /\
            (forall a i, In i (acc s' a) -> i = cur s')).
  { intros n Hp Hi Hc. assert (Ho : owner s' = cur s') by (unfold owner; rewrite Hi; reflexivity).
    split; [|split].
    - intros a i Hin. destruct (i_fd _ Hinv' a i Hin) as [Hx|(Hx & _)]; [exact Hx|].
      unfold pending in Hx. rewrite Hi in Hx. discriminate.
    - intros a Ha. rewrite <- Ho in Ha |- *. apply (owner_serves s' a Hr' Ha).
    - intros a i Hin. destruct (only_live_instances_accept s' a i Hr' Hin) as (_ & _ & [E|(E & _)]); [exact E|].
      unfold pending in E. rewrite Hi in E. discriminate. }
  destruct Hl as [-> | [-> | ->]]; unfold step in H; dmatch H; injection H as <-.
  - (* LLoadFail *)
    assert (Hp : pending s = Some n) by (unfold pending; rewrite E; reflexivity).
    assert (Hno : forall a, ~ In n (fdh s a)).
    { pose proof (i_phase _ Hinv) as Hph. unfold phase_inv in Hph. rewrite E in Hph. apply Hph. }
    exists n. split; [exact Hp|]. simpl.
    split; [reflexivity|]. split; [reflexivity|]. split; [reflexivity|].
    split; [intros a; rewrite (rem_notin _ _ (Hno a)); auto|].
    split; [auto|]. split; [auto|]. apply (Hidle n Hp); reflexivity.
  - (* LCbFail *)
    assert (Hp : pending s = Some n) by (unfold pending; rewrite E; reflexivity).
    assert (Hno : forall a, ~ In n (fdh s a)).
    { pose proof (i_phase _ Hinv) as Hph. unfold phase_inv in Hph. rewrite E in Hph. apply Hph. }
    exists n. split; [exact Hp|]. simpl.
    split; [reflexivity|]. split; [reflexivity|]. split; [reflexivity|].
    split; [intros a; rewrite (rem_notin _ _ (Hno a)); auto|].
    split; [auto|]. split; [auto|]. apply (Hidle n Hp); reflexivity.
  - (* LListenFail *)
    assert (Hp : pending s = Some n) by (unfold pending; rewrite E; reflexivity).
    exists n. split; [exact Hp|]. simpl.
    split; [reflexivity|]. split; [reflexivity|]. split; [reflexivity|].
    split; [auto|]. split; [intros Hx; contradiction|]. split; [|apply (Hidle n Hp); reflexivity].
    intros k c Hk Ha. rewrite nth_error_map, Hk. simpl.
    destruct (cst c) eqn:Ec; try reflexivity.
    destruct (isnil (rem n (fdh s (caddr c)))) eqn:Enil; [|reflexivity].
    exfalso. apply isnil_true in Enil.
    destruct (i_old _ Hinv _ Ha) as (Hin & _); [unfold old_live; rewrite E; exact I|].
    assert (Hin' : In (cur s) (rem n (fdh s (caddr c)))).
    { apply rem_In. split; [exact Hin|]. pose proof (i_phase _ Hinv) as Hph. unfold phase_inv, new_ok in Hph.
      rewrite E in Hph. lia. }
    rewrite Enil in Hin'. contradiction.
Qed.

(* an instance that has not got as far as spawning its acceptors has not taken any connection *)
Definition fresh_ok (s : state) (i : nat) : Prop :=
  match rst s with RLoad n | RListen n _ | RCb n => i <> n | _ => True end.

Definition Fresh (s : state) : Prop :=
  forall k c i, nth_error (conns s) k = Some c -> accepted_by (cst c) = Some i -> fresh_ok s i.

Lemma fresh_step s l s' : Inv s -> Fresh s -> step s l = Some s' -> Fresh s'.
Proof.
  intros Hinv HF H.
  assert (Hsame : forall s1, rst s1 = rst s -> conns s1 = conns s -> Fresh s1).
  { intros s1 E1 E2 k c i Hk Hi. unfold fresh_ok. rewrite E1. rewrite E2 in Hk. exact (HF k c i Hk Hi). }
  assert (Hupd : forall s1 k0 c0 x, rst s1 = rst s -> nth_error (conns s) k0 = Some c0 ->
            conns s1 = set_nth (conns s) k0 (set_st c0 x) ->
            (forall i, accepted_by x = Some i -> fresh_ok s i) -> Fresh s1).
  { intros s1 k0 c0 x E1 Hk0 E2 Hx k c i Hk Hi. unfold fresh_ok. rewrite E1.
    rewrite E2 in Hk. eapply conn_upd_inv in Hk as [(Ek & Ec)|(Hne & Hk)]; [| |exact Hk0|reflexivity].
    - subst c. simpl in Hi. apply Hx. exact Hi.
    - exact (HF k c i Hk Hi). }
  destruct l; unfold step in H; dmatch H; try (injection H as <-).
  - (* LCall *)
    intros k c i Hk Hi. unfold fresh_ok. simpl. simpl in Hk.
    destruct (i_conn _ Hinv k c Hk) as (_ & H2 & _). destruct (H2 i Hi) as (_ & Hlt & _). lia.
  - intros k c i Hk Hi. exact I.
  - (* LLoadOk *)
    intros k c i Hk Hi. simpl in Hk. unfold fresh_ok. simpl. specialize (HF k c i Hk Hi). unfold fresh_ok in HF. rewrite E in HF. exact HF.
  - intros k c i Hk Hi. simpl in Hk. unfold fresh_ok. simpl. specialize (HF k c i Hk Hi). unfold fresh_ok in HF. rewrite E in HF. exact HF.
  - intros k c i Hk Hi. simpl in Hk. unfold fresh_ok. simpl. specialize (HF k c i Hk Hi). unfold fresh_ok in HF. rewrite E in HF. exact HF.
  - intros k c i Hk Hi. exact I.
  - intros k c i Hk Hi. exact I.
  - intros k c i Hk Hi. exact I.
  - intros k c i Hk Hi. exact I.
  - (* LStop *)
    intros k c i Hk Hi. exact I.
  - intros k c i Hk Hi. exact I.
  - (* LNew *)
    intros k c i Hk Hi. simpl in Hk. unfold fresh_ok. simpl.
    apply nth_error_app_last in Hk as [Hk|(-> & ->)]; [exact (HF k c i Hk Hi) | discriminate].
  - (* LConnect *)
    eapply Hupd; [reflexivity | exact E | reflexivity |].
    intros i Hi. destruct (isnil (fdh s (caddr c))); discriminate.
  - (* LAccept *)
    eapply Hupd; [reflexivity | exact E | reflexivity |].
    intros j Hj. injection Hj as <-. apply mem_In in E1.
    destruct (i_acc _ Hinv _ _ E1) as (_ & _ & Hw).
    assert (Hph := i_phase _ Hinv). unfold fresh_ok, is_new, phase_inv, new_ok in *.
    destruct (rst s); try exact I.
    + destruct Hw as [[-> _]|[]]. destruct Hph as ((_ & Hlt) & _). lia.
    + destruct Hw as [[-> _]|[]]. destruct Hph as ((_ & Hlt) & _). lia.
    + destruct Hw as [[-> _]|[]]. destruct Hph as ((_ & Hlt) & _). lia.
  - (* LAnswer *)
    eapply Hupd; [reflexivity | exact E | reflexivity |].
    intros j Hj. apply (HF k c j E). rewrite E0. exact Hj.
  - (* LRecv timeout *)
    eapply Hupd; [reflexivity | exact E | reflexivity |]. intros; discriminate.
  - eapply Hupd; [reflexivity | exact E | reflexivity |]. intros; discriminate.
  - eapply Hupd; [reflexivity | exact E | reflexivity |]. intros; discriminate.
  - eapply Hupd; [reflexivity | exact E | reflexivity |].
    intros j Hj. apply (HF k c j E). rewrite E0. exact Hj.
  - (* LObs *)
    apply Hsame; reflexivity.
  - (* LCbOk *)
    intros k c i Hk Hi. simpl in Hk. unfold fresh_ok. simpl. specialize (HF k c i Hk Hi). unfold fresh_ok in HF. rewrite E in HF. exact HF.
  - intros k c i Hk Hi. exact I.
  - intros k c i Hk Hi. exact I.
  - (* LFds *)
    apply Hsame; reflexivity.
Qed.

Lemma fresh_reachable s : reachable s -> Fresh s.
Proof.
  intros (a0 & b & ls & Hnd & Hr).
  assert (H0 : Fresh (init a0 b)) by (intros k c i Hk; destruct k; discriminate).
  assert (Hi0 := inv_init a0 b Hnd).
  revert Hr H0 Hi0. generalize (init a0 b). induction ls as [|l r IH]; simpl; intros s0 Hr H0 Hi0.
  - injection Hr as <-. exact H0.
  - destruct (step s0 l) as [s1|] eqn:E; [|discriminate].
    apply (IH s1 Hr); [eapply fresh_step; eauto | eapply inv_step; eauto].
Qed.

(* ---------------------------------------------------------------------------------- *)
(* Every observable history of the model satisfies the executable specification.       *)

Definition Rq (cu : nat) (pn : option nat) (ad : nat -> list nat) (c : conn) (q : oreq) : Prop :=
  q_addr q = caddr c /\ q_site q = csite c /\ q_open q = negb (finished (cst c)) /\
  (q_open q = true ->
     In cu (q_allow q) /\ (forall n, pn = Some n -> In n (q_allow q)) /\
     (forall i, accepted_by (cst c) = Some i -> In i (q_allow q)) /\
     (q_must q = true ->
        In (caddr c) (ad cu) /\ (forall n, pn = Some n -> In (caddr c) (ad n)) /\ lost (cst c) = false)).

(* the new instance has got as far as spawning acceptors *)
Definition spawning (s : state) : Prop :=
  match rst s with RSpawn _ _ | RStop _ _ => True | _ => False end.

Record Rel (s : state) (p : sp) : Prop := {
  r_ok : sp_ok p = true;
  r_cur : sp_cur p = cur s;
  r_addrs : sp_addrs p = addrs_of s (cur s);
  r_calls : S (sp_calls p) = length (cfgs s);
  r_pend : sp_pend p = match pending s with Some n => Some (addrs_of s n, fate_of s n) | None => None end;
  r_reqs : Forall2 (Rq (cur s) (pending s) (addrs_of s)) (conns s) (sp_reqs p);
  r_base : forall a b, In (a, b) (sp_base p) ->
             sid s a = b /\ In a (addrs_of s (cur s)) /\ (forall n, pending s = Some n -> In a (addrs_of s n));
  r_used : sp_used p = true -> spawning s
}.

Lemma lookup_In a l b : lookup a l = Some b -> In (a, b) l.
Proof.
  induction l as [|[x v] r IH]; simpl; [discriminate|].
  destruct (Nat.eqb x a) eqn:E; intros H.
  - apply Nat.eqb_eq in E. injection H as ->. subst x. left. reflexivity.
  - right. apply IH. exact H.
Qed.

Lemma Forall2_nth {A B} (R : A -> B -> Prop) l1 l2 k x :
  Forall2 R l1 l2 -> nth_error l1 k = Some x -> exists y, nth_error l2 k = Some y /\ R x y.
Proof.
  intros H. revert k. induction H as [|a b l1 l2 Hab H IH]; intros [|k] Hk; simpl in *; try discriminate.
  - injection Hk as <-. exists b. auto.
  - apply IH. exact Hk.
Qed.

Lemma Forall2_set_nth {A B} (R : A -> B -> Prop) l1 l2 k x y :
  Forall2 R l1 l2 -> R x y -> Forall2 R (set_nth l1 k x) (set_nth l2 k y).
Proof.
  intros H Hxy. revert k. induction H as [|a b l1 l2 Hab H IH]; intros [|k]; simpl; constructor; auto.
Qed.

Lemma Forall2_set_nth_l {A B} (R : A -> B -> Prop) l1 l2 k x y :
  Forall2 R l1 l2 -> nth_error l2 k = Some y -> R x y -> Forall2 R (set_nth l1 k x) l2.
Proof.
  intros H. revert k. induction H as [|a b l1 l2 Hab H IH]; intros [|k] Hk Hxy; simpl in *; try discriminate.
  - injection Hk as <-. constructor; auto.
  - constructor; auto.
Qed.

Lemma Forall2_len {A B} (R : A -> B -> Prop) l1 l2 : Forall2 R l1 l2 -> length l1 = length l2.
Proof. intros H. induction H; simpl; congruence. Qed.

Lemma Forall2_impl2 {A B} (R R' : A -> B -> Prop) l1 l2 :
  (forall x y, R x y -> R' x y) -> Forall2 R l1 l2 -> Forall2 R' l1 l2.
Proof. intros Hi H. induction H; constructor; auto. Qed.

Lemma Forall2_impl_In {A B} (R R' : A -> B -> Prop) l1 l2 :
  (forall x y, In x l1 -> R x y -> R' x y) -> Forall2 R l1 l2 -> Forall2 R' l1 l2.
Proof.
  intros Hi H. induction H; constructor.
  - apply Hi; [left; reflexivity | assumption].
  - apply IHForall2. intros x0 y0 Hx. apply Hi. right. exact Hx.
Qed.

Lemma Forall2_map_r {A B C} (R : A -> C -> Prop) (f : B -> C) l1 l2 :
  Forall2 (fun x y => R x (f y)) l1 l2 -> Forall2 R l1 (map f l2).
Proof. intros H. induction H; simpl; constructor; auto. Qed.

Lemma Forall2_map_l {A B C} (R : C -> B -> Prop) (f : A -> C) l1 l2 :
  Forall2 (fun x y => R (f x) y) l1 l2 -> Forall2 R (map f l1) l2.
Proof. intros H. induction H; simpl; constructor; auto. Qed.

Lemma pending_new_ok s n : Inv s -> pending s = Some n -> S n = length (cfgs s) /\ cur s < n.
Proof.
  intros Hi Hp. destruct Hi as [_ _ Hph _ _ _]. unfold pending, phase_inv, new_ok in *.
  destruct (rst s); try discriminate; injection Hp as <-; tauto.
Qed.

Lemma owner_cases s : owner s = cur s \/ pending s = Some (owner s).
Proof. unfold owner, pending. destruct (rst s); auto. Qed.

(* an address served by the instance in force and by the one being started is served by the owner *)
Lemma must_owner s a :
  In a (addrs_of s (cur s)) -> (forall n, pending s = Some n -> In a (addrs_of s n)) ->
  In a (addrs_of s (owner s)).
Proof.
  intros H1 H2. destruct (owner_cases s) as [E|E]; [rewrite E; exact H1 | apply H2; exact E].
Qed.

Definition scan (a0 : list nat) (h : list event) : sp := fold_left spec_step (rev h) (sp_init a0).

Lemma scan_cons a0 e h : scan a0 (e :: h) = spec_step (scan a0 h) e.
Proof. unfold scan. simpl. rewrite fold_left_app. reflexivity. Qed.

(* hidden steps that touch neither connections nor the pending/current instance *)
Lemma rel_same s s' p :
  Rel s p -> cur s' = cur s -> cfgs s' = cfgs s -> pending s' = pending s -> conns s' = conns s ->
  (forall a, sid s' a <> sid s a -> ~ In a (addrs_of s (cur s))) ->
  (spawning s -> spawning s') ->
  Rel s' p.
Proof.
  intros [Hok Hc Ha Hcl Hp Hr Hb Hu] E1 E2 E3 E4 Hsid Hsp.
  constructor; unfold addrs_of, fate_of in *; rewrite ?E1, ?E2, ?E3, ?E4; auto.
  intros a b Hin. destruct (Hb a b Hin) as (X1 & X2 & X3). split; [|auto].
  destruct (Nat.eq_dec (sid s' a) (sid s a)) as [E|E]; [congruence|]. exfalso. exact (Hsid a E X2).
Qed.

(* one old server is shut down: only connections queued at a socket that is now gone change *)
Lemma rel_stop_old s n a t p s1 :
  Inv s -> rst s = RStop n (a :: t) -> Rel s p ->
  cur s1 = cur s -> cfgs s1 = cfgs s -> rst s1 = RStop n t -> sid s1 = sid s ->
  conns s1 = conns (stop_old s a) -> Rel s1 p.
Proof.
  intros Hinv E [Hok Hc Ha Hcl Hp Hrq Hb Hu] E1 E2 E3 E4 E5.
  destruct (stop_old_fields s a) as (_ & _ & _ & _ & _ & _ & _ & _ & Fc). rewrite Fc in E5. clear Fc.
  assert (Epn : pending s = Some n) by (unfold pending; rewrite E; reflexivity).
  assert (Epn1 : pending s1 = Some n) by (unfold pending; rewrite E3; reflexivity).
  constructor; unfold addrs_of, fate_of in *; rewrite ?E1, ?E2, ?E4, ?Epn1; try rewrite Epn in *; try assumption.
  - rewrite E5. set (f := rem (cur s) (fdh s a)) in *.
    destruct (isnil f) eqn:Enil; [|exact Hrq].
    unfold reset_queued. apply Forall2_map_l. eapply Forall2_impl2; [|exact Hrq].
    intros c q HQ. destruct HQ as (Q1 & Q2 & Q3 & Q4).
    destruct (cst c) eqn:Ec; try (unfold Rq; rewrite Ec; auto; fail).
    destruct (Nat.eqb (caddr c) a) eqn:Ea; [|unfold Rq; rewrite Ec; auto].
    apply Nat.eqb_eq in Ea. unfold Rq. simpl. split; [exact Q1|]. split; [exact Q2|]. split; [exact Q3|].
    intros Ho. destruct (Q4 Ho) as (A1 & A2 & A3 & A4).
    split; [exact A1|]. split; [exact A2|]. split; [intros; discriminate|].
    intros Hm. exfalso. destruct (A4 Hm) as (B1 & B2 & B3).
    (* the new instance holds a descriptor at a *)
    destruct Hinv as [_ _ Hph _ _ _ _]. unfold phase_inv in Hph. rewrite E in Hph.
    destruct Hph as ((_ & Hlt) & _ & _ & _ & Hnew & _).
    destruct (Hnew a) as (Hfd & _); [rewrite <- Ea; apply B2; reflexivity|].
    assert (Hin : In n f) by (unfold f; apply rem_In; split; [exact Hfd | lia]).
    apply isnil_true in Enil. rewrite Enil in Hin. contradiction.
  - intros Hx. unfold spawning. rewrite E3. exact I.
Qed.

Lemma rel_step a0 s l s' :
  reachable s -> Rel s (scan a0 (hist s)) -> step s l = Some s' -> Rel s' (scan a0 (hist s')).
Proof.
  intros Hr HR H.
  assert (Hr' := reachable_step _ _ _ Hr H).
  assert (Hinv := inv_reachable _ Hr). assert (Hinv' := inv_reachable _ Hr').
  assert (Hfresh := fresh_reachable _ Hr).
  set (p := scan a0 (hist s)) in *.
  destruct HR as [Hok Hc Ha Hcl Hp Hrq Hb Hu].
  destruct l; unfold step in H.
  - (* LCall *)
    dmatch H. injection H as <-. simpl hist. rewrite scan_cons. fold p.
    assert (Epn : pending s = None) by (unfold pending; rewrite E; reflexivity).
    rewrite Epn in *.
    unfold spec_step. rewrite Hp, E0.
    assert (Hcur := i_cur _ Hinv).
    assert (Hadd : forall i, i < length (cfgs s) ->
              nth i (cfgs s ++ [(addrs, fate)]) ([], 0) = nth i (cfgs s) ([], 0)).
    { intros i Hi. apply app_nth1. exact Hi. }
    constructor; simpl; unfold addrs_of, fate_of, pending; simpl.
    + exact Hok.
    + exact Hc.
    + rewrite Hadd by exact Hcur. exact Ha.
    + rewrite app_length. simpl. lia.
    + rewrite nth_app_eq. reflexivity.
    + apply Forall2_map_r. eapply Forall2_impl2; [|exact Hrq].
      intros c q (Q1 & Q2 & Q3 & Q4). unfold Rq. simpl. split; [exact Q1|]. split; [exact Q2|]. split; [exact Q3|].
      intros Ho. destruct (Q4 Ho) as (A1 & A2 & A3 & A4).
      split; [right; exact A1|]. split; [intros n Hn; injection Hn as <-; left; lia|].
      split; [intros i Hi; right; apply A3; exact Hi|].
      intros Hm. apply andb_true_iff in Hm as (Hm1 & Hm2). destruct (A4 Hm1) as (B1 & B2 & B3).
      split; [rewrite Hadd by exact Hcur; exact B1|]. split; [|exact B3].
      intros n Hn. injection Hn as <-. rewrite nth_app_eq. simpl. apply mem_In. rewrite <- Q1. exact Hm2.
    + intros a b Hin. apply filter_In in Hin as (Hin & Hm). simpl in Hm.
      destruct (Hb a b Hin) as (X1 & X2 & X3). split; [exact X1|].
      split; [rewrite Hadd by exact Hcur; exact X2|].
      intros n Hn. injection Hn as <-. rewrite nth_app_eq. simpl. apply mem_In. exact Hm.
    + discriminate.
  - (* LLoadFail *)
    dmatch H. injection H as <-. simpl hist. rewrite scan_cons. fold p.
    assert (Epn : pending s = Some n) by (unfold pending; rewrite E; reflexivity).
    rewrite Epn in *. apply Nat.eqb_eq in E0.
    unfold spec_step. rewrite Hp, E0. simpl.
    assert (Hnu : sp_used p = false).
    { destruct (sp_used p) eqn:Eu; [|reflexivity]. exfalso. specialize (Hu eq_refl). unfold spawning in Hu. rewrite E in Hu. exact Hu. }
    destruct (pending_new_ok s n Hinv Epn) as (Hn1 & Hn2). assert (Hcalls : sp_calls p = n) by lia.
    rewrite Hnu, Hcalls.
    constructor; simpl; unfold pending; simpl; auto.
    + rewrite Hok. reflexivity.
    + apply Forall2_map_r. eapply Forall2_impl_In; [|exact Hrq]. intros c q Hin (Q1 & Q2 & Q3 & Q4). unfold Rq. simpl.
      repeat (split; [assumption|]). intros Ho. destruct (Q4 Ho) as (A1 & A2 & A3 & A4).
      split; [apply rem_In; split; [exact A1 | lia]|]. split; [intros; discriminate|].
      split.
      * intros i Hi. apply rem_In. split; [apply A3; exact Hi|].
        apply In_nth_error in Hin as (k & Hk). specialize (Hfresh k c i Hk Hi). unfold fresh_ok in Hfresh.
        rewrite E in Hfresh. exact Hfresh.
      * intros Hm. destruct (A4 Hm) as (B1 & B2 & B3). split; [exact B1|]. split; [intros; discriminate | exact B3].
    + intros a b Hin. destruct (Hb a b Hin) as (X1 & X2 & X3). split; [exact X1|]. split; [exact X2|]. intros; discriminate.
    + discriminate.
  - (* LLoadOk *)
    dmatch H. injection H as <-. simpl hist. fold p.
    apply (rel_same s); try reflexivity; first [constructor; assumption | (unfold pending; simpl; rewrite E; reflexivity) | (intros a Hx; simpl in Hx; congruence) | (unfold spawning; simpl; rewrite E; tauto)].
  - (* LDup *)
    dmatch H. injection H as <-. simpl hist. fold p.
    apply (rel_same s); try reflexivity; first [constructor; assumption | (unfold pending; simpl; rewrite E; reflexivity) | (intros a Hx; simpl in Hx; congruence) | (unfold spawning; simpl; rewrite E; tauto)].
  - (* LBind *)
    dmatch H. injection H as <-. simpl hist. fold p.
    apply (rel_same s); try reflexivity; [constructor; assumption | unfold pending; simpl; rewrite E; reflexivity | | unfold spawning; simpl; rewrite E; tauto].
    intros a Hx. simpl in Hx. apply andb_true_iff in E1 as (E1 & _). apply andb_true_iff in E1 as (Enm & _).
    destruct (Nat.eq_dec a n0) as [->|Hd]; [|rewrite upd_other in Hx by exact Hd; congruence].
    apply Bool.negb_true_iff in Enm. apply mem_false. exact Enm.
  - (* LListenFail *)
    dmatch H. injection H as <-. simpl hist. rewrite scan_cons. fold p.
    assert (Epn : pending s = Some n) by (unfold pending; rewrite E; reflexivity).
    rewrite Epn in *. apply andb_true_iff in E1 as (_ & E1). apply Nat.eqb_eq in E1.
    unfold spec_step. rewrite Hp, E1. simpl.
    assert (Hnu : sp_used p = false).
    { destruct (sp_used p) eqn:Eu; [|reflexivity]. exfalso. specialize (Hu eq_refl). unfold spawning in Hu. rewrite E in Hu. exact Hu. }
    destruct (pending_new_ok s n Hinv Epn) as (Hn1 & Hn2). assert (Hcalls : sp_calls p = n) by lia.
    rewrite Hnu, Hcalls.
    constructor; simpl; unfold pending; simpl; auto.
    + rewrite Hok. reflexivity.
    + apply Forall2_map_r. apply Forall2_map_l. eapply Forall2_impl_In; [|exact Hrq]. intros c q Hin (Q1 & Q2 & Q3 & Q4).
      destruct (reset_conn_cases n s c) as [Hc'|(Ec & En & Hc')]; cbv zeta in Hc'; rewrite Hc'.
      * unfold Rq. simpl.
        repeat (split; [assumption|]). intros Ho. destruct (Q4 Ho) as (A1 & A2 & A3 & A4).
        split; [apply rem_In; split; [exact A1 | lia]|]. split; [intros; discriminate|].
        split.
        -- intros i Hi. apply rem_In. split; [apply A3; exact Hi|].
           apply In_nth_error in Hin as (k & Hk). specialize (Hfresh k c i Hk Hi). unfold fresh_ok in Hfresh.
           rewrite E in Hfresh. exact Hfresh.
        -- intros Hm. destruct (A4 Hm) as (B1 & B2 & B3). split; [exact B1|]. split; [intros; discriminate | exact B3].
      * unfold Rq. simpl. rewrite Ec in Q3. simpl in Q3.
        split; [exact Q1|]. split; [exact Q2|]. split; [exact Q3|].
        intros Ho. destruct (Q4 Ho) as (A1 & A2 & A3 & A4).
        split; [apply rem_In; split; [exact A1 | lia]|]. split; [intros; discriminate|].
        split; [intros; discriminate|].
        intros Hm. exfalso. destruct (A4 Hm) as (B1 & _ & _).
        destruct (i_old _ Hinv _ B1) as (Hin0 & _); [unfold old_live; rewrite E; exact I|].
        apply isnil_true in En.
        assert (Hin1 : In (cur s) (rem n (fdh s (caddr c)))) by (apply rem_In; split; [exact Hin0 | lia]).
        rewrite En in Hin1. contradiction.
    + intros a b Hin. destruct (Hb a b Hin) as (X1 & X2 & X3). split; [exact X1|]. split; [exact X2|]. intros; discriminate.
    + discriminate.
  - (* LAdv *)
    dmatch H; injection H as <-; simpl hist; fold p;
    (apply (rel_same s); try reflexivity; first [constructor; assumption | (unfold pending; simpl; rewrite E; reflexivity) | (intros a Hx; simpl in Hx; congruence) | (unfold spawning; simpl; rewrite E; tauto)]).
  - (* LSpawn *)
    dmatch H. injection H as <-. simpl hist. fold p.
    apply (rel_same s); try reflexivity; first [constructor; assumption | (unfold pending; simpl; rewrite E; reflexivity) | (intros a Hx; simpl in Hx; congruence) | (unfold spawning; simpl; rewrite E; tauto)].
  - (* LStop *)
    dmatch H. injection H as <-. rename n0 into a1.
    destruct (stop_old_fields s a1) as (F1 & F2 & F3 & _ & _ & F6 & _).
    simpl hist. rewrite F6. fold p.
    apply (rel_stop_old s n a1 l p); simpl; auto. constructor; assumption.
  - (* LReturn *)
    dmatch H. injection H as <-. simpl hist. rewrite scan_cons. fold p.
    assert (Epn : pending s = Some n) by (unfold pending; rewrite E; reflexivity).
    rewrite Epn in *.
    destruct (pending_new_ok s n Hinv Epn) as (Hn1 & Hn2).
    assert (Hf : fate_of s n = 0).
    { destruct Hinv as [_ _ Hph _ _ _]. unfold phase_inv in Hph. rewrite E in Hph. tauto. }
    unfold spec_step. rewrite Hp, Hf. simpl.
    assert (Hcalls : sp_calls p = n) by lia.
    constructor; simpl; unfold pending, addrs_of, fate_of; simpl; auto.
    + eapply Forall2_impl2; [|exact Hrq]. intros c q (Q1 & Q2 & Q3 & Q4). unfold Rq.
      repeat (split; [assumption|]). intros Ho. destruct (Q4 Ho) as (A1 & A2 & A3 & A4).
      split; [apply A2; reflexivity|]. split; [intros; discriminate|]. split; [exact A3|].
      intros Hm. destruct (A4 Hm) as (B1 & B2 & B3). split; [apply B2; reflexivity|]. split; [intros; discriminate | exact B3].
    + intros a b Hin. destruct (Hb a b Hin) as (X1 & X2 & X3). split; [exact X1|]. split; [apply X3; reflexivity|]. intros; discriminate.
    + discriminate.
  - (* LNew *)
    injection H as <-. simpl hist. rewrite scan_cons. fold p.
    assert (Hlen : length (sp_reqs p) = length (conns s)) by (symmetry; eapply Forall2_len; exact Hrq).
    unfold spec_step. rewrite Hlen, Nat.eqb_refl.
    constructor; simpl; unfold pending; simpl; try assumption.
    apply Forall2_app; [exact Hrq|]. constructor; [|constructor].
    unfold Rq. simpl. repeat (split; [reflexivity|]). intros _.
    unfold pend_has. rewrite Hp, Hc.
    destruct (pending s) as [n|] eqn:Epn; pose proof Epn as Epn'; unfold pending in Epn'; rewrite Epn'.
    + destruct (pending_new_ok s n Hinv Epn) as (Hn1 & Hn2). assert (Hcalls : sp_calls p = n) by lia.
      rewrite Hcalls. split; [right; left; reflexivity|]. split; [intros n' Hn'; injection Hn' as <-; left; reflexivity|].
      split; [intros; discriminate|]. intros Hm. apply andb_true_iff in Hm as (M1 & M2).
      rewrite Ha in M1. split; [apply mem_In; exact M1|]. split; [|reflexivity].
      intros n' Hn'. injection Hn' as <-. apply mem_In. exact M2.
    + split; [left; reflexivity|]. split; [intros; discriminate|]. split; [intros; discriminate|].
      intros Hm. apply andb_true_iff in Hm as (M1 & _). rewrite Ha in M1.
      split; [apply mem_In; exact M1|]. split; [intros; discriminate | reflexivity].
  - (* LConnect *)
    dmatch H. injection H as <-. simpl hist. fold p.
    destruct (Forall2_nth _ _ _ _ _ Hrq E) as (q & Hq & Q1 & Q2 & Q3 & Q4).
    constructor; simpl; unfold pending; simpl; try assumption.
    eapply Forall2_set_nth_l; [exact Hrq | exact Hq |].
    unfold Rq. simpl. rewrite E0 in Q3, Q4. split; [exact Q1|]. split; [exact Q2|].
    destruct (isnil (fdh s (caddr c))) eqn:En; simpl; (split; [exact Q3|]); intros Ho;
      destruct (Q4 Ho) as (A1 & A2 & A3 & A4); (split; [exact A1|]); (split; [exact A2|]); (split; [intros; discriminate|]);
      intros Hm; destruct (A4 Hm) as (B1 & B2 & B3); (split; [exact B1|]); (split; [exact B2|]); [|reflexivity].
    exfalso. apply isnil_true in En. exact (socket_never_closed s _ Hr (must_owner s _ B1 B2) En).
  - (* LAccept *)
    dmatch H. injection H as <-. simpl hist. fold p.
    destruct (Forall2_nth _ _ _ _ _ Hrq E) as (q & Hq & Q1 & Q2 & Q3 & Q4).
    constructor; simpl; unfold pending; simpl; try assumption.
    eapply Forall2_set_nth_l; [exact Hrq | exact Hq |].
    unfold Rq. simpl. rewrite E0 in Q3, Q4. split; [exact Q1|]. split; [exact Q2|]. split; [exact Q3|].
    intros Ho. destruct (Q4 Ho) as (A1 & A2 & A3 & A4). split; [exact A1|]. split; [exact A2|].
    split; [|intros Hm; destruct (A4 Hm) as (B1 & B2 & B3); auto].
    intros j Hj. injection Hj as <-. apply mem_In in E1.
    destruct (only_live_instances_accept s _ _ Hr E1) as (_ & _ & [->|(Hpn & _)]); [exact A1 | apply A2; exact Hpn].
  - (* LAnswer *)
    dmatch H. injection H as <-. simpl hist. fold p.
    destruct (Forall2_nth _ _ _ _ _ Hrq E) as (q & Hq & Q1 & Q2 & Q3 & Q4).
    constructor; simpl; unfold pending; simpl; try assumption.
    eapply Forall2_set_nth_l; [exact Hrq | exact Hq |].
    unfold Rq. simpl. rewrite E0 in Q3, Q4. split; [exact Q1|]. split; [exact Q2|]. split; [exact Q3|].
    intros Ho. destruct (Q4 Ho) as (A1 & A2 & A3 & A4). split; [exact A1|]. split; [exact A2|].
    split; [exact A3 | intros Hm; destruct (A4 Hm) as (B1 & B2 & B3); auto].
  - (* LRecv *)
    destruct (nth_error (conns s) k) as [c|] eqn:E; [|discriminate].
    destruct (Forall2_nth _ _ _ _ _ Hrq E) as (q & Hq & Q1 & Q2 & Q3 & Q4).
    assert (Hclose : forall x r good u, finished x = true -> good = true ->
              (u = true -> spawning s) ->
              Rel (with_hist (with_conns s (set_nth (conns s) k (set_st c x))) (EEnd k r))
                  {| sp_ok := sp_ok p && good; sp_cur := sp_cur p; sp_addrs := sp_addrs p; sp_calls := sp_calls p;
                     sp_pend := sp_pend p;
                     sp_reqs := set_nth (sp_reqs p) k
                                  {| q_addr := q_addr q; q_site := q_site q; q_open := false;
                                     q_allow := q_allow q; q_must := q_must q |};
                     sp_base := sp_base p; sp_used := u |}).
    { intros x r good u Hfin -> Hu'. constructor; simpl; unfold pending; simpl; try assumption.
      - rewrite Hok. reflexivity.
      - apply Forall2_set_nth; [exact Hrq|]. unfold Rq. simpl. rewrite Hfin. simpl.
        repeat (split; [assumption|]). split; [reflexivity|]. intros; discriminate. }
    assert (Hnone : sp_used p || match sp_pend p with Some _ => false | None => false end = true -> spawning s).
    { intros Hx. apply Hu. destruct (sp_pend p); rewrite Bool.orb_false_r in Hx; exact Hx. }
    destruct (cst c) eqn:Ec; try discriminate.
    + (* timeout of a queued connection: only when nobody accepts there *)
      destruct (isnil (acc s (caddr c))) eqn:En; [|discriminate]. injection H as <-.
      simpl hist. rewrite scan_cons. fold p. unfold spec_step. rewrite Hq.
      apply Hclose; [reflexivity| |exact Hnone]. try rewrite Ec in Q3; try rewrite Ec in Q4. simpl in Q3. rewrite Q3. simpl.
      destruct (q_must q) eqn:Em; [|reflexivity]. exfalso.
      destruct (Q4 Q3) as (_ & _ & _ & A4). destruct (A4 eq_refl) as (B1 & B2 & _).
      destruct (owner_serves s _ Hr (must_owner s _ B1 B2)) as (_ & Hin).
      apply isnil_true in En. rewrite En in Hin. contradiction.
    + injection H as <-. simpl hist. rewrite scan_cons. fold p. unfold spec_step. rewrite Hq.
      apply Hclose; [reflexivity| |exact Hnone]. try rewrite Ec in Q3; try rewrite Ec in Q4. simpl in Q3. rewrite Q3. simpl.
      destruct (q_must q) eqn:Em; [|reflexivity]. exfalso.
      destruct (Q4 Q3) as (_ & _ & _ & A4). destruct (A4 eq_refl) as (_ & _ & B3). discriminate.
    + injection H as <-. simpl hist. rewrite scan_cons. fold p. unfold spec_step. rewrite Hq.
      apply Hclose; [reflexivity| |exact Hnone]. try rewrite Ec in Q3; try rewrite Ec in Q4. simpl in Q3. rewrite Q3. simpl.
      destruct (q_must q) eqn:Em; [|reflexivity]. exfalso.
      destruct (Q4 Q3) as (_ & _ & _ & A4). destruct (A4 eq_refl) as (_ & _ & B3). discriminate.
    + injection H as <-. simpl hist. rewrite scan_cons. fold p. unfold spec_step. rewrite Hq.
      apply Hclose; [reflexivity| |].
      * try rewrite Ec in Q3; try rewrite Ec in Q4. simpl in Q3. rewrite Q3. simpl.
        rewrite Q2, Nat.eqb_refl. simpl.
        destruct (Q4 Q3) as (_ & _ & A3 & _). apply mem_In. apply A3. reflexivity.
      * (* the marker of the configuration being started: its acceptors have been spawned *)
        intros Hx. apply Bool.orb_true_iff in Hx as [Hx|Hx]; [apply Hu; exact Hx|].
        rewrite Hp in Hx. destruct (pending s) as [n|] eqn:Epn; [|discriminate].
        apply Nat.eqb_eq in Hx.
        destruct (pending_new_ok s n Hinv Epn) as (Hn1 & Hn2). assert (Hcalls : sp_calls p = n) by lia.
        assert (Hfr : fresh_ok s i) by (apply (Hfresh k c i E); rewrite Ec; reflexivity).
        unfold fresh_ok, spawning, pending in *. destruct (rst s); try discriminate; try exact I;
          injection Epn as <-; exfalso; apply Hfr; lia.
  - (* LObs *)
    injection H as <-. simpl hist. rewrite scan_cons. fold p. unfold spec_step.
    destruct (mem a (sp_addrs p) && pend_has p a) eqn:Esrv.
    + apply andb_true_iff in Esrv as (S1 & S2). rewrite Ha in S1. apply mem_In in S1.
      assert (S2' : forall n, pending s = Some n -> In a (addrs_of s n)).
      { intros n Hn. unfold pend_has in S2. rewrite Hp, Hn in S2. apply mem_In. exact S2. }
      assert (Hopen : negb (isnil (fdh s a)) = true).
      { apply Bool.negb_true_iff. apply isnil_false. apply (socket_never_closed s a Hr). apply must_owner; assumption. }
      rewrite Hopen.
      destruct (lookup a (sp_base p)) as [b|] eqn:El.
      * apply lookup_In in El. destruct (Hb a b El) as (X1 & _). rewrite X1, Nat.eqb_refl.
        constructor; simpl; unfold pending; simpl; try assumption. rewrite Hok. reflexivity.
      * constructor; simpl; unfold pending; simpl; try assumption; [rewrite Hok; reflexivity|].
        intros a' b' [Heq|Hin]; [injection Heq as <- <-; auto | apply Hb; exact Hin].
    + constructor; simpl; unfold pending; simpl; assumption.
  - (* LCbOk *)
    dmatch H. injection H as <-. simpl hist. fold p.
    apply (rel_same s); try reflexivity; first [constructor; assumption | (unfold pending; simpl; rewrite E; reflexivity) | (intros a Hx; simpl in Hx; congruence) | (unfold spawning; simpl; rewrite E; tauto)].
  - (* LCbFail *)
    dmatch H. injection H as <-. simpl hist. rewrite scan_cons. fold p.
    assert (Epn : pending s = Some n) by (unfold pending; rewrite E; reflexivity).
    rewrite Epn in *. apply Nat.eqb_eq in E0.
    unfold spec_step. rewrite Hp, E0. simpl.
    assert (Hnu : sp_used p = false).
    { destruct (sp_used p) eqn:Eu; [|reflexivity]. exfalso. specialize (Hu eq_refl). unfold spawning in Hu. rewrite E in Hu. exact Hu. }
    destruct (pending_new_ok s n Hinv Epn) as (Hn1 & Hn2). assert (Hcalls : sp_calls p = n) by lia.
    rewrite Hnu, Hcalls.
    constructor; simpl; unfold pending; simpl; auto.
    + rewrite Hok. reflexivity.
    + apply Forall2_map_r. eapply Forall2_impl_In; [|exact Hrq]. intros c q Hin (Q1 & Q2 & Q3 & Q4). unfold Rq. simpl.
      repeat (split; [assumption|]). intros Ho. destruct (Q4 Ho) as (A1 & A2 & A3 & A4).
      split; [apply rem_In; split; [exact A1 | lia]|]. split; [intros; discriminate|].
      split.
      * intros i Hi. apply rem_In. split; [apply A3; exact Hi|].
        apply In_nth_error in Hin as (k & Hk). specialize (Hfresh k c i Hk Hi). unfold fresh_ok in Hfresh.
        rewrite E in Hfresh. exact Hfresh.
      * intros Hm. destruct (A4 Hm) as (B1 & B2 & B3). split; [exact B1|]. split; [intros; discriminate | exact B3].
    + intros a b Hin. destruct (Hb a b Hin) as (X1 & X2 & X3). split; [exact X1|]. split; [exact X2|]. intros; discriminate.
    + discriminate.
  - (* LStopTimeout: the log line is not a client-visible event *)
    dmatch H. injection H as <-. rename n0 into a1.
    destruct (stop_old_fields s a1) as (F1 & F2 & F3 & _ & _ & F6 & _).
    simpl hist. rewrite F6, scan_cons. fold p.
    assert (Epn : pending s = Some n) by (unfold pending; rewrite E; reflexivity).
    unfold spec_step. rewrite Hp, Epn.
    apply (rel_stop_old s n a1 l p); simpl; auto. constructor; assumption.
  - (* LFds: not a client-visible event *)
    injection H as <-. simpl hist. rewrite scan_cons. fold p. unfold spec_step.
    constructor; simpl; unfold pending; simpl; assumption.
Qed.

Lemma rel_init a0 blocked : Rel (init a0 blocked) (scan a0 (hist (init a0 blocked))).
Proof.
  unfold scan. simpl. constructor; simpl; unfold pending, addrs_of; simpl; auto.
  - intros a b [].
  - discriminate.
Qed.

Lemma rel_run a0 ls : forall s s',
  reachable s -> Rel s (scan a0 (hist s)) -> run s ls = Some s' -> Rel s' (scan a0 (hist s')).
Proof.
  induction ls as [|l r IH]; simpl; intros s s' Hr HR H.
  - injection H as <-. exact HR.
  - destruct (step s l) as [s1|] eqn:E; [|discriminate].
    apply (IH s1 s'); [eapply reachable_step; eauto | eapply rel_step; eauto | exact H].
Qed.

Theorem model_traces_satisfy_spec a0 blocked ls s :
  nodupb a0 = true -> run (init a0 blocked) ls = Some s -> spec_trace a0 (rev (hist s)) = true.
Proof.
  intros Hnd H.
  assert (Hr0 : reachable (init a0 blocked)) by (exists a0, blocked, []; auto).
  destruct (rel_run a0 ls _ _ Hr0 (rel_init a0 blocked) H) as [Hok _ _ _ _ _ _ _].
  exact Hok.
Qed.

(* ---------------------------------------------------------------------------------- *)
(* [accepts]: the judge's acceptance check really exhibits a run of the model. *)

Lemma run_app l1 : forall s l2,
  run s (l1 ++ l2) = match run s l1 with Some s1 => run s1 l2 | None => None end.
Proof.
  induction l1 as [|x l1 IH]; simpl; intros s l2; [reflexivity|].
  destruct (step s x); [apply IH | reflexivity].
Qed.

Lemma replay_run ans : forall evs s s', replay ans s evs = Some s' -> exists ls, run s ls = Some s'.
Proof.
  induction evs as [|e r IH]; simpl; intros s s' H.
  - injection H as <-. exists []. reflexivity.
  - destruct (run s (labels_for ans match e with ECall _ _ => next_ret r | _ => None end s e)) as [s1|] eqn:E; [|discriminate].
    destruct (IH s1 s' H) as (ls & Hls).
    exists (labels_for ans match e with ECall _ _ => next_ret r | _ => None end s e ++ ls).
    rewrite run_app, E. exact Hls.
Qed.

Lemma list_beq_event_eq l1 l2 : list_beq event_eqb l1 l2 = true -> l1 = l2.
Proof.
  revert l2; induction l1 as [|x l1 IH]; intros [|y l2]; simpl; intros H; try discriminate; [reflexivity|].
  apply andb_true_iff in H as (H1 & H2). f_equal; [|apply IH; exact H2].
  clear IH H2.
  assert (Hnl : forall a b, natlist_eqb a b = true -> a = b).
  { unfold natlist_eqb. induction a as [|u a IHa]; intros [|v b]; simpl; intros Hx; try discriminate; [reflexivity|].
    apply andb_true_iff in Hx as (X1 & X2). apply Nat.eqb_eq in X1. f_equal; [exact X1 | apply IHa; exact X2]. }
  assert (Hb : forall a b, bool_eqb a b = true -> a = b) by (intros [|] [|]; simpl; congruence).
  destruct x as [a1 f1|r1|k1 a1 s1|k1 [[[m1 t1] c1]|]|a1 o1 d1|a1|a1 n1],
           y as [a2 f2|r2|k2 a2 s2|k2 [[[m2 t2] c2]|]|a2 o2 d2|a2|a2 n2]; simpl in H1; try discriminate;
  repeat match goal with
    | H : _ && _ = true |- _ => apply andb_true_iff in H as (? & ?)
    | H : Nat.eqb _ _ = true |- _ => apply Nat.eqb_eq in H; subst
    | H : natlist_eqb _ _ = true |- _ => apply Hnl in H; subst
    | H : bool_eqb _ _ = true |- _ => apply Hb in H; subst
  end; reflexivity.
Qed.

Theorem accepts_sound a0 blocked evs :
  accepts a0 blocked evs = true ->
  nodupb a0 = true /\ exists ls s, run (init a0 blocked) ls = Some s /\ rev (hist s) = evs.
Proof.
  unfold accepts. intros H. apply andb_true_iff in H as (Hnd & H). split; [exact Hnd|].
  destruct (replay (ans_of evs) (init a0 blocked) evs) as [s|] eqn:E; [|discriminate].
  destruct (replay_run _ _ _ _ E) as (ls & Hls). exists ls, s. split; [exact Hls|].
  apply list_beq_event_eq. exact H.
Qed.

Theorem accepted_history_satisfies_spec a0 blocked evs :
  accepts a0 blocked evs = true -> spec_trace a0 evs = true.
Proof.
  intros H. destruct (accepts_sound _ _ _ H) as (Hnd & ls & s & Hr & <-).
  eapply model_traces_satisfy_spec; eauto.
Qed.

(* ---------------------------------------------------------------------------------- *)

(* No request is ever stuck: whatever the state of a hand-over, a request to a served address that
   has not been answered yet can be carried through right now (connect, accept, answer, receive)
   and the client gets the complete response of the site it asked for from an instance that
   serves the address. *)
Lemma can_complete s k c :
  reachable s -> nth_error (conns s) k = Some c -> In (caddr c) (addrs_of s (owner s)) ->
  finished (cst c) = false -> lost (cst c) = false ->
  exists ls s' i,
    run s ls = Some s' /\
    hist s' = EEnd k (Some (i, csite c, true)) :: hist s /\
    (exists c', nth_error (conns s') k = Some c' /\ cst c' = CDone i) /\
    In (caddr c) (addrs_of s i) /\ rst s' = rst s /\ cur s' = cur s.
Proof.
  intros Hr Hk Ha Hfin Hlost.
  destruct (owner_serves s _ Hr Ha) as (Hfd & Hacc).
  assert (Hfd' : isnil (fdh s (caddr c)) = false).
  { apply isnil_false. intros En. rewrite En in Hfd. contradiction. }
  apply mem_In in Hacc.
  assert (Hlen : k < length (conns s)) by (apply nth_error_Some; congruence).
  (* the tail of the journey, from each stage *)
  assert (Hans : forall s1 c1 i, nth_error (conns s1) k = Some c1 -> cst c1 = CAnswered i -> csite c1 = csite c ->
            exists s', run s1 [LRecv k] = Some s' /\ hist s' = EEnd k (Some (i, csite c, true)) :: hist s1 /\
                       (exists c', nth_error (conns s') k = Some c' /\ cst c' = CDone i) /\ rst s' = rst s1 /\ cur s' = cur s1).
  { intros s1 c1 i H1 H2 H3. simpl. rewrite H1, H2. eexists. split; [reflexivity|]. simpl. rewrite H3.
    split; [reflexivity|]. split; [|auto]. rewrite nth_error_set_nth, Nat.eqb_refl, H1. eexists. split; reflexivity. }
  assert (Hacd : forall s1 c1 i, nth_error (conns s1) k = Some c1 -> cst c1 = CAccepted i -> csite c1 = csite c ->
            exists s', run s1 [LAnswer k; LRecv k] = Some s' /\ hist s' = EEnd k (Some (i, csite c, true)) :: hist s1 /\
                       (exists c', nth_error (conns s') k = Some c' /\ cst c' = CDone i) /\ rst s' = rst s1 /\ cur s' = cur s1).
  { intros s1 c1 i H1 H2 H3. simpl. rewrite H1, H2. simpl.
    rewrite nth_error_set_nth, Nat.eqb_refl, H1. simpl. eexists. split; [reflexivity|]. simpl. rewrite H3.
    split; [reflexivity|]. split; [|auto]. rewrite !nth_error_set_nth, Nat.eqb_refl, H1. eexists. split; reflexivity. }
  destruct (cst c) eqn:Ec; try discriminate.
  - (* CInit *)
    exists [LConnect k; LAccept k (owner s); LAnswer k; LRecv k]. simpl. rewrite Hk, Ec, Hfd'. simpl.
    rewrite nth_error_set_nth, Nat.eqb_refl, Hk. simpl. rewrite Hacc. simpl.
    rewrite !nth_error_set_nth, Nat.eqb_refl, Hk. simpl.
    rewrite !nth_error_set_nth, Nat.eqb_refl, Hk. simpl.
    eexists. exists (owner s). split; [reflexivity|]. simpl. split; [reflexivity|].
    split; [|auto]. rewrite !nth_error_set_nth, Nat.eqb_refl, Hk. eexists. split; reflexivity.
  - (* CQueued *)
    exists [LAccept k (owner s); LAnswer k; LRecv k]. simpl. rewrite Hk, Ec, Hacc. simpl.
    rewrite !nth_error_set_nth, Nat.eqb_refl, Hk. simpl.
    rewrite !nth_error_set_nth, Nat.eqb_refl, Hk. simpl.
    eexists. exists (owner s). split; [reflexivity|]. simpl. split; [reflexivity|].
    split; [|auto]. rewrite !nth_error_set_nth, Nat.eqb_refl, Hk. eexists. split; reflexivity.
  - (* CAccepted *)
    destruct (Hacd s c i Hk Ec eq_refl) as (s' & X1 & X2 & X3 & X4 & X5).
    exists [LAnswer k; LRecv k], s', i. repeat split; try assumption.
    apply (accepted_by_current_or_later s k c i Hr Hk). rewrite Ec. reflexivity.
  - (* CAnswered *)
    destruct (Hans s c i Hk Ec eq_refl) as (s' & X1 & X2 & X3 & X4 & X5).
    exists [LRecv k], s', i. repeat split; try assumption.
    apply (accepted_by_current_or_later s k c i Hr Hk). rewrite Ec. reflexivity.
Qed.

(* ---------------------------------------------------------------------------------- *)
(* deepening: nothing leaks; startup callbacks run before the acceptors; drain timeouts *)

(* every descriptor of a listening socket is held by the instance in force (for an address of its
   configuration) or by the instance being started (for an address of its configuration):
   a failed reload leaves none behind *)
Lemma no_descriptor_leak s a i :
  reachable s -> In i (fdh s a) ->
  (i = cur s /\ In a (addrs_of s (cur s))) \/ (pending s = Some i /\ In a (addrs_of s i)).
Proof. intros Hr Hi. exact (i_fd _ (inv_reachable _ Hr) a i Hi). Qed.

(* configurations of existing instances never change *)
Lemma cfgs_stable s l s' i :
  step s l = Some s' -> i < length (cfgs s) ->
  fate_of s' i = fate_of s i /\ addrs_of s' i = addrs_of s i /\ length (cfgs s) <= length (cfgs s').
Proof.
  intros H Hi. unfold fate_of, addrs_of.
  destruct l; unfold step in H; dmatch H; injection H as <-; simpl;
    try (repeat match goal with
                | |- context [cfgs (stop_old ?s0 ?a0)] => rewrite (proj1 (proj2 (stop_old_fields s0 a0)))
                end; auto; fail).
  rewrite app_nth1 by exact Hi. rewrite app_length. simpl. repeat split; lia.
Qed.

Lemma cfgs_stable_run ls : forall s s' i,
  run s ls = Some s' -> i < length (cfgs s) ->
  fate_of s' i = fate_of s i /\ addrs_of s' i = addrs_of s i /\ length (cfgs s) <= length (cfgs s').
Proof.
  induction ls as [|l r IH]; simpl; intros s s' i H Hi.
  - injection H as <-. auto.
  - destruct (step s l) as [s1|] eqn:E; [|discriminate].
    destruct (cfgs_stable _ _ _ i E Hi) as (A1 & A2 & A3).
    destruct (IH s1 s' i H) as (B1 & B2 & B3); [lia|]. repeat split; try congruence; lia.
Qed.

(* the instance in force was started from a valid configuration *)
Lemma cur_fate_zero_step s l s' :
  Inv s -> fate_of s (cur s) = 0 -> step s l = Some s' -> fate_of s' (cur s') = 0.
Proof.
  intros Hinv H0 H.
  destruct (cfgs_stable _ _ _ (cur s) H (i_cur _ Hinv)) as (A & _ & _).
  destruct l; try (assert (Ec : cur s' = cur s) by
    (unfold step in H; dmatch H; injection H as <-; simpl;
     repeat match goal with
            | |- context [cur (stop_old ?s0 ?a0)] => rewrite (proj1 (stop_old_fields s0 a0))
            end; reflexivity); rewrite Ec, A; exact H0).
  (* LReturn *)
  unfold step in H. dmatch H. injection H as <-. unfold fate_of. simpl.
  pose proof (i_phase _ Hinv) as Hph. unfold phase_inv in Hph. rewrite E in Hph.
  destruct Hph as (_ & _ & _ & Hf & _). exact Hf.
Qed.

Lemma cur_fate_zero s : reachable s -> fate_of s (cur s) = 0.
Proof.
  intros (a0 & b & ls & Hnd & Hr).
  assert (H0 : fate_of (init a0 b) (cur (init a0 b)) = 0) by reflexivity.
  assert (Hi0 := inv_init a0 b Hnd).
  revert Hr H0 Hi0. generalize (init a0 b). induction ls as [|l r IH]; simpl; intros s0 Hr H0 Hi0.
  - injection Hr as <-. exact H0.
  - destruct (step s0 l) as [s1|] eqn:E; [|discriminate].
    apply (IH s1 Hr); [eapply cur_fate_zero_step; eauto | eapply inv_step; eauto].
Qed.

(* an instance whose configuration is not valid never has an acceptor: neither while its reload
   is in progress nor at any later time *)
Lemma failed_never_accepts s i a :
  reachable s -> fate_of s i <> 0 -> ~ In i (acc s a).
Proof.
  intros Hr Hf Hin.
  destruct (only_live_instances_accept s a i Hr Hin) as (_ & _ & [-> | (_ & H0)]); [|contradiction].
  apply Hf. apply cur_fate_zero. exact Hr.
Qed.

(* while the configuration of the new instance n is loaded and while its startup callbacks run,
   n holds no descriptor, has no acceptor and has taken no connection: the callbacks run BEFORE
   startServers *)
Lemma not_listening_before_callbacks_done s n :
  reachable s -> (rst s = RLoad n \/ rst s = RCb n) ->
  (forall a, ~ In n (fdh s a)) /\ (forall a, ~ In n (acc s a)) /\
  (forall k c, nth_error (conns s) k = Some c -> accepted_by (cst c) <> Some n).
Proof.
  intros Hr Hph. assert (Hinv := inv_reachable _ Hr). assert (HF := fresh_reachable _ Hr).
  assert (Hno : forall a, ~ In n (fdh s a)).
  { pose proof (i_phase _ Hinv) as P. unfold phase_inv in P. destruct Hph as [E|E]; rewrite E in P; apply P. }
  split; [exact Hno|]. split.
  - intros a Hin. destruct (i_acc _ Hinv a n Hin) as (Hfd & _). exact (Hno a Hfd).
  - intros k c Hk Hi. specialize (HF k c n Hk Hi). unfold fresh_ok in HF.
    destruct Hph as [E|E]; rewrite E in HF; apply HF; reflexivity.
Qed.

(* a startup callback of the new instance returns an error: the reload ends there, with an error,
   before any listener of the rejected instance existed; everything is exactly as it was, and the
   rejected instance never accepts anything, now or later *)
Lemma failed_startup_callback_keeps_old s s' :
  reachable s -> step s LCbFail = Some s' ->
  exists n, rst s = RCb n /\ fate_of s n = 3 /\ hist s' = ERet 1 :: hist s /\
    cur s' = cur s /\ rst s' = RIdle /\ conns s' = conns s /\ cfgs s' = cfgs s /\
    (forall a, sid s' a = sid s a /\ fdh s' a = fdh s a /\ acc s' a = acc s a) /\
    (forall a, ~ In n (fdh s' a) /\ ~ In n (acc s' a)) /\
    (forall k c, nth_error (conns s') k = Some c -> accepted_by (cst c) <> Some n) /\
    (forall a, In a (addrs_of s' (cur s')) -> In (cur s') (fdh s' a) /\ In (cur s') (acc s' a)) /\
    (forall ls s'', run s' ls = Some s'' -> forall a, ~ In n (acc s'' a)).
Proof.
  intros Hr H. assert (Hr' := reachable_step _ _ _ Hr H).
  destruct (failed_reload_keeps_old s LCbFail s' Hr (or_intror (or_introl eq_refl)) H)
    as (n' & Hp & K1 & K2 & K3 & K4 & K5 & K6 & K7 & K8 & K9).
  assert (Hstep := H). unfold step in H. dmatch H. injection H as <-.
  apply Nat.eqb_eq in E0.
  destruct (not_listening_before_callbacks_done s n Hr (or_intror E)) as (N1 & N2 & N3).
  exists n. simpl. repeat split; auto.
  - apply (K8 a H).
  - apply (K8 a H).
  - intros ls s'' Hrun a.
    assert (Hlt : n < length (cfgs s)).
    { pose proof (i_phase _ (inv_reachable _ Hr)) as P. unfold phase_inv, new_ok in P. rewrite E in P. lia. }
    destruct (cfgs_stable_run ls _ s'' n Hrun) as (F & _); [simpl; exact Hlt|].
    apply failed_never_accepts; [eapply reachable_run; eauto|].
    rewrite F. unfold fate_of in *. simpl. rewrite E0. discriminate.
Qed.

(* once the acceptors of the new instance have been spawned the reload cannot fail: the only way
   out of the spawn / stop-old phases is the successful return *)
Lemma no_failure_after_spawn s l s' :
  spawning s -> step s l = Some s' ->
  spawning s' \/ (l = LReturn /\ hist s' = ERet 0 :: hist s /\ rst s' = RIdle).
Proof.
  intros Hs H. unfold spawning in *.
  destruct l; unfold step in H; dmatch H; try contradiction; injection H as <-; simpl;
    repeat match goal with
           | |- context [rst (stop_old ?s0 ?a0)] => rewrite (proj1 (proj2 (proj2 (proj2 (proj2 (stop_old_fields s0 a0))))))
           end; try rewrite E; auto.
Qed.

(* the stop-old phase can always be carried through, whatever connections the old instance holds *)
Lemma stop_phase_completes todo : forall s n,
  reachable s -> rst s = RStop n todo ->
  exists s', run s (map (fun _ => LStop) todo ++ [LReturn]) = Some s' /\
             cur s' = n /\ rst s' = RIdle /\ hist s' = ERet 0 :: hist s /\
             (forall a i, In i (acc s' a) -> i = n) /\
             (forall a, In a (addrs_of s' n) -> In n (fdh s' a) /\ In n (acc s' a)).
Proof.
  induction todo as [|a t IH]; intros s n Hr E.
  - simpl. rewrite E. eexists. split; [reflexivity|]. simpl. split; [reflexivity|]. split; [reflexivity|]. split; [reflexivity|].
    assert (Hst : step s LReturn = Some {| fdh := fdh s; sid := sid s; ext := ext s; acc := acc s; cfgs := cfgs s; cur := n;
                  rst := RIdle; conns := conns s; hist := ERet 0 :: hist s |}) by (simpl; rewrite E; reflexivity).
    destruct (return_installs_new _ _ Hr Hst) as (n' & Hp & Hc & _ & _ & _ & A & B). simpl in Hc. subst n'.
    split; [exact B | exact A].
  - simpl. rewrite E.
    assert (Hst : step s LStop = Some (with_rst (stop_old s a) (RStop n t))) by (simpl; rewrite E; reflexivity).
    destruct (IH _ n (reachable_step _ _ _ Hr Hst) eq_refl) as (s' & R & A1 & A2 & A3 & A4 & A5).
    exists s'. split; [exact R|]. split; [exact A1|]. split; [exact A2|]. split; [|split; [exact A4 | exact A5]].
    rewrite A3. simpl. rewrite (proj1 (proj2 (proj2 (proj2 (proj2 (proj2 (stop_old_fields s a))))))). reflexivity.
Qed.

(* a connection of the old server outlives the graceful timeout: the shutdown does to the sockets
   exactly what a clean one does, the error is only logged, the connections the old instance
   holds stay with it, and the reload is carried through to a successful return after which only
   the new instance accepts *)
Lemma drain_timeout_reload_succeeds s s1 :
  reachable s -> step s LStopTimeout = Some s1 ->
  exists n a t,
    rst s = RStop n (a :: t) /\ rst s1 = RStop n t /\ hist s1 = EDrain a :: hist s /\
    step s LStop = Some (with_rst (stop_old s a) (RStop n t)) /\
    s1 = with_hist (with_rst (stop_old s a) (RStop n t)) (EDrain a) /\
    (forall k c i, nth_error (conns s) k = Some c -> accepted_by (cst c) = Some i ->
       exists c', nth_error (conns s1) k = Some c' /\ accepted_by (cst c') = Some i /\ caddr c' = caddr c /\ csite c' = csite c) /\
    exists s', run s1 (map (fun _ => LStop) t ++ [LReturn]) = Some s' /\
               cur s' = n /\ rst s' = RIdle /\ hist s' = ERet 0 :: hist s1 /\
               (forall b i, In i (acc s' b) -> i = n) /\
               (forall b, In b (addrs_of s' n) -> In n (fdh s' b) /\ In n (acc s' b)).
Proof.
  intros Hr H. assert (Hr1 := reachable_step _ _ _ Hr H). assert (Hstep := H).
  unfold step in H. dmatch H. injection H as <-. rename n0 into a.
  exists n, a, l. split; [reflexivity|]. split; [reflexivity|].
  split; [simpl; rewrite (proj1 (proj2 (proj2 (proj2 (proj2 (proj2 (stop_old_fields s a))))))); reflexivity|].
  split; [simpl; rewrite E; reflexivity|]. split; [reflexivity|]. split.
  - intros k c i Hk Hi. destruct (accepted_stable_step _ _ _ _ _ _ Hstep Hk Hi) as (c' & A & B & C & D & _).
    exists c'. auto.
  - apply (stop_phase_completes l _ n Hr1). reflexivity.
Qed.

(* when no reload is in progress the process holds exactly ONE descriptor of the listening socket
   of every served address — the serving instance's — and none of any other address *)
Lemma all_same_nodup (x : nat) l : NoDup l -> (forall y, In y l -> y = x) -> l = [] \/ l = [x].
Proof.
  intros Hn Hall. destruct l as [|y [|z r]]; [left; reflexivity | right | exfalso].
  - rewrite (Hall y) by (left; reflexivity). reflexivity.
  - inversion Hn as [|? ? Hnotin _]; subst. apply Hnotin.
    rewrite (Hall y) by (left; reflexivity). rewrite (Hall z) by (right; left; reflexivity). left. reflexivity.
Qed.

Lemma one_descriptor_when_idle s a :
  reachable s -> rst s = RIdle ->
  fdh s a = if mem a (addrs_of s (cur s)) then [cur s] else [].
Proof.
  intros Hr Hi. assert (Hinv := inv_reachable _ Hr).
  assert (Hall : forall y, In y (fdh s a) -> y = cur s /\ In a (addrs_of s (cur s))).
  { intros y Hy. destruct (i_fd _ Hinv a y Hy) as [Hx|(Hx & _)]; [exact Hx|].
    unfold pending in Hx. rewrite Hi in Hx. discriminate. }
  destruct (all_same_nodup (cur s) (fdh s a) (i_nd _ Hinv a)) as [E|E].
  - intros y Hy. apply Hall. exact Hy.
  - rewrite E. destruct (mem a (addrs_of s (cur s))) eqn:Em; [|reflexivity].
    apply mem_In in Em. destruct (i_old _ Hinv a Em) as (Hin & _); [unfold old_live; rewrite Hi; exact I|].
    rewrite E in Hin. contradiction.
  - rewrite E. destruct (mem a (addrs_of s (cur s))) eqn:Em; [reflexivity|].
    apply mem_false in Em. exfalso. apply Em. apply (Hall (cur s)). rewrite E. left. reflexivity.
Qed.

(* ====================================================================================== *)
(* Event hooks across reloads (SIGUSR1 handler: clone / purge / restore; Restart: clone / restore) *)
Lemma hregister_app g names : forall h h2,
  hregister g names h = Some h2 -> h2 = h ++ map (fun x => (x, g)) names.
Proof.
  induction names as [|x r IH]; intros h h2 H; simpl in *.
  - injection H as <-. rewrite app_nil_r. reflexivity.
  - destruct (hmem x h); [discriminate|]. apply IH in H. rewrite H. rewrite <- app_assoc. reflexivity.
Qed.

Lemma hreload_failed_unchanged s c :
  snd (hreload s c) = false ->
  hs_reg (fst (hreload s c)) = hs_reg s /\ hs_cur (fst (hreload s c)) = hs_cur s
  /\ hs_names (fst (hreload s c)) = hs_names s /\ hs_okg (fst (hreload s c)) = hs_okg s.
Proof.
  unfold hreload. destruct (hregister _ _ _) as [h2|]; [destruct (Nat.eqb (hc_fate c) 0)|]; simpl;
    try discriminate; intros _; destruct (hc_sig c); auto.
Qed.

Lemma hreload_ok_direct s c :
  hc_sig c = false -> snd (hreload s c) = true ->
  hs_reg (fst (hreload s c)) = hs_reg s ++ map (fun x => (x, S (hs_calls s))) (hc_names c)
  /\ hs_cur (fst (hreload s c)) = S (hs_calls s).
Proof.
  unfold hreload. intros Hs. rewrite Hs.
  destruct (hregister _ _ _) as [h2|] eqn:E; [destruct (Nat.eqb (hc_fate c) 0)|]; simpl; try discriminate.
  intros _. apply hregister_app in E. auto.
Qed.

Lemma hreload_ok_sig s c :
  hc_sig c = true -> snd (hreload s c) = true ->
  hs_reg (fst (hreload s c)) = map (fun x => (x, S (hs_calls s))) (hc_names c)
  /\ hs_cur (fst (hreload s c)) = S (hs_calls s).
Proof.
  unfold hreload. intros Hs. rewrite Hs.
  destruct (hregister _ _ _) as [h2|] eqn:E; [destruct (Nat.eqb (hc_fate c) 0)|]; simpl; try discriminate.
  intros _. apply hregister_app in E. auto.
Qed.

(* a valid configuration whose hook names are new is always taken over *)
Lemma hregister_fresh g names : forall h,
  nodupb names = true -> (forall x, In x names -> hmem x h = false) ->
  exists h2, hregister g names h = Some h2.
Proof.
  induction names as [|x r IH]; intros h Hn Hf; simpl.
  - eauto.
  - simpl in Hn. apply andb_true_iff in Hn. destruct Hn as [Hx Hr].
    rewrite (Hf x (or_introl eq_refl)). apply IH; [exact Hr|].
    intros y Hy. assert (Hs : hmem y (h ++ [(x, g)]) = hmem y h || Nat.eqb x y).
    { unfold hmem. rewrite existsb_app. simpl. rewrite orb_false_r. reflexivity. }
    rewrite Hs. rewrite (Hf y (or_intror Hy)). simpl.
    destruct (Nat.eqb x y) eqn:E; [|reflexivity]. apply Nat.eqb_eq in E. subst y.
    apply negb_true_iff in Hx. exfalso.
    assert (mem x r = true) as Hm. { unfold mem. apply existsb_exists. exists x. split; [exact Hy|apply Nat.eqb_refl]. }
    rewrite Hm in Hx. discriminate.
Qed.

(* invariant 1: every registered hook was registered by a generation that was started successfully *)
Definition hinv_owner (s : hstate) : Prop := forall p, In p (hs_reg s) -> In (snd p) (hs_okg s).

Lemma hinv_owner_init names0 : hinv_owner (hinit names0).
Proof. intros p Hp. simpl in *. apply in_map_iff in Hp. destruct Hp as (x & <- & _). simpl. auto. Qed.

Lemma hinv_owner_step s c : hinv_owner s -> hinv_owner (fst (hreload s c)).
Proof.
  intros Hi. destruct (snd (hreload s c)) eqn:Eok.
  - unfold hreload in *. destruct (hregister _ _ _) as [h2|] eqn:E; [destruct (Nat.eqb (hc_fate c) 0)|];
      simpl in *; try discriminate.
    apply hregister_app in E. subst h2. intros p Hp. simpl in *. apply in_app_or in Hp. destruct Hp as [Hp|Hp].
    + right. apply Hi. destruct (hc_sig c); [contradiction|exact Hp].
    + apply in_map_iff in Hp. destruct Hp as (x & <- & _). left. reflexivity.
  - destruct (hreload_failed_unchanged s c Eok) as (E1 & _ & _ & E4). intros p Hp. rewrite E1 in Hp. rewrite E4. auto.
Qed.

Lemma hinv_owner_run cs : forall s, hinv_owner s -> hinv_owner (hrun s cs).
Proof. induction cs as [|c r IH]; intros s Hs; simpl; [exact Hs|]. apply IH. apply hinv_owner_step. exact Hs. Qed.

Lemma hooks_owned_by_started names0 cs p :
  In p (hs_reg (hrun (hinit names0) cs)) -> In (snd p) (hs_okg (hrun (hinit names0) cs)).
Proof. apply hinv_owner_run. apply hinv_owner_init. Qed.

(* the generations started successfully are exactly 0 and those whose reload returned success;
   a generation whose reload failed is never among them *)
Lemma hokg_bound s c g : In g (hs_okg (fst (hreload s c))) -> In g (hs_okg s) \/ (g = S (hs_calls s) /\ snd (hreload s c) = true).
Proof.
  unfold hreload. destruct (hregister _ _ _) as [h2|]; [destruct (Nat.eqb (hc_fate c) 0)|]; simpl; auto.
  intros [<-|H]; auto.
Qed.

(* invariant 2 (SIGUSR1 path): the registry is exactly the hooks of the configuration in force *)
Definition hinv_exact (s : hstate) : Prop := hs_reg s = map (fun x => (x, hs_cur s)) (hs_names s).

Lemma hinv_exact_step s c : hc_sig c = true -> hinv_exact s -> hinv_exact (fst (hreload s c)).
Proof.
  intros Hs Hi. destruct (snd (hreload s c)) eqn:Eok.
  - destruct (hreload_ok_sig s c Hs Eok) as (E1 & E2). unfold hinv_exact. rewrite E1, E2.
    unfold hreload in *. rewrite Hs in *.
    destruct (hregister _ _ _) as [h2|]; [destruct (Nat.eqb (hc_fate c) 0)|]; simpl in *; try discriminate. reflexivity.
  - destruct (hreload_failed_unchanged s c Eok) as (E1 & E2 & E3 & _). unfold hinv_exact. rewrite E1, E2, E3. exact Hi.
Qed.

Lemma hinv_exact_run cs : forall s, forallb hc_sig cs = true -> hinv_exact s -> hinv_exact (hrun s cs).
Proof.
  induction cs as [|c r IH]; intros s Hall Hs; simpl; [exact Hs|].
  simpl in Hall. apply andb_true_iff in Hall. destruct Hall as [Hc Hr]. apply IH; [exact Hr|]. apply hinv_exact_step; assumption.
Qed.

Lemma hooks_sigusr1_exactly_current names0 cs :
  forallb hc_sig cs = true ->
  let s := hrun (hinit names0) cs in hs_reg s = map (fun x => (x, hs_cur s)) (hs_names s).
Proof. intros Hall. apply hinv_exact_run; [exact Hall|reflexivity]. Qed.

(* the InstanceRestartEvent of the SIGUSR1 handler is emitted AFTER purgeEventHooks: no hook ever receives it *)
Lemma hemit_step s c : Forall (fun r => r = []) (hs_emit s) -> Forall (fun r => r = []) (hs_emit (fst (hreload s c))).
Proof.
  intros H. unfold hreload. destruct (hregister _ _ _) as [h2|]; [destruct (Nat.eqb (hc_fate c) 0)|]; simpl;
    destruct (hc_sig c); auto.
Qed.
Lemma restart_event_reaches_no_hook names0 cs : Forall (fun r => r = []) (hs_emit (hrun (hinit names0) cs)).
Proof.
  assert (G : forall cs s, Forall (fun r => r = []) (hs_emit s) -> Forall (fun r => r = []) (hs_emit (hrun s cs))).
  { clear. induction cs as [|c r IH]; intros s Hs; simpl; [exact Hs|]. apply IH. apply hemit_step. exact Hs. }
  apply G. constructor.
Qed.

Lemma hreload_sig_valid_succeeds s c :
  hc_sig c = true -> hc_fate c = 0 -> nodupb (hc_names c) = true -> snd (hreload s c) = true.
Proof.
  intros Hs Hf Hn. unfold hreload. rewrite Hs, Hf.
  destruct (hregister_fresh (S (hs_calls s)) (hc_names c) [] Hn) as (h2 & E); [reflexivity|].
  rewrite E. reflexivity.
Qed.

Lemma hooks_only_current_refuted :
  exists names0 cs p, In p (hs_reg (hrun (hinit names0) cs)) /\ snd p <> hs_cur (hrun (hinit names0) cs).
Proof.
  exists [0], [{| hc_sig := false; hc_names := [2]; hc_fate := 0 |}], (0, 0). split; [vm_compute; auto|vm_compute; discriminate].
Qed.

Lemma hooks_only_current_partial names0 cs p :
  In p (hs_reg (hrun (hinit names0) cs)) ->
  In (snd p) (hs_okg (hrun (hinit names0) cs)) /\
  (forallb hc_sig cs = true -> snd p = hs_cur (hrun (hinit names0) cs)).
Proof.
  intros Hp. split; [apply hooks_owned_by_started; exact Hp|].
  intros Hall. pose proof (hooks_sigusr1_exactly_current names0 cs Hall) as E. simpl in E.
  rewrite E in Hp. apply in_map_iff in Hp. destruct Hp as (x & <- & _). reflexivity.
Qed.

(* ====================================================================================== *)
(* generations: who may accept, and nothing of a replaced generation accepts again *)
Lemma accept_only_by_live s k i s' :
  reachable s -> step s (LAccept k i) = Some s' ->
  exists c, nth_error (conns s) k = Some c /\ cst c = CQueued /\ In (caddr c) (addrs_of s i) /\
            (i = cur s \/ pending s = Some i /\ fate_of s i = 0).
Proof.
  intros Hr Hs. simpl in Hs. destruct (nth_error (conns s) k) as [c|] eqn:En; [|discriminate].
  destruct (cst c) eqn:Ec; try discriminate.
  destruct (mem i (acc s (caddr c))) eqn:Em; [|discriminate].
  apply mem_In in Em. destruct (only_live_instances_accept s (caddr c) i Hr Em) as (_ & Ha & Hl).
  exists c. auto.
Qed.

Lemma no_answer_after_stop_refuted :
  exists s k c i s', reachable s /\ rst s = RIdle /\ nth_error (conns s) k = Some c /\ cst c = CAccepted i /\
                     i <> cur s /\ acc s (caddr c) = [cur s] /\ step s (LAnswer k) = Some s'.
Proof.
  destruct (run (init [0; 1] [])
            [LNew 0 0; LConnect 0; LAccept 0 0; LCall [0; 1] 0; LLoadOk; LCbOk; LDup; LDup; LAdv; LSpawn; LSpawn; LAdv;
             LStopTimeout; LStop; LReturn]) as [s|] eqn:E; [|vm_compute in E; discriminate].
  assert (Hr : reachable s). { exists [0; 1], []. eexists. split; [reflexivity|exact E]. }
  vm_compute in E. injection E as E.
  exists s, 0, {| caddr := 0; csite := 0; cborn := 0; cst := CAccepted 0 |}, 0.
  eexists. split; [exact Hr|]. subst s. vm_compute. repeat split; try reflexivity. discriminate.
Qed.

Lemma cur_stop_old s a : cur (stop_old s a) = cur s.
Proof. unfold stop_old. destruct (isnil _); reflexivity. Qed.

Lemma step_cur s l s' : step s l = Some s' -> cur s' = cur s \/ (l = LReturn /\ pending s = Some (cur s')).
Proof.
  destruct l; simpl; intros H;
  repeat match type of H with
         | context [match ?x with _ => _ end] => destruct x eqn:?; try discriminate
         | context [if ?x then _ else _] => destruct x eqn:?; try discriminate
         end;
  injection H as <-; simpl; try rewrite cur_stop_old; auto.
  right. split; [reflexivity|]. unfold pending. rewrite Heqr. reflexivity.
Qed.

Lemma cur_monotone ls : forall s s', reachable s -> run s ls = Some s' -> cur s <= cur s'.
Proof.
  induction ls as [|l r IH]; intros s s' Hr H; simpl in H.
  - injection H as <-. apply le_n.
  - destruct (step s l) as [s1|] eqn:E; [|discriminate].
    assert (Hr1 := reachable_step _ _ _ Hr E). specialize (IH _ _ Hr1 H).
    destruct (step_cur _ _ _ E) as [Hc|(_ & Hp)].
    + rewrite <- Hc. exact IH.
    + destruct (pending_new_ok s _ (inv_reachable _ Hr) Hp) as (_ & Hlt).
      apply Nat.le_trans with (cur s1); [apply Nat.lt_le_incl; exact Hlt|exact IH].
Qed.

(* a generation that has been replaced never accepts again, whatever happens later *)
Lemma stopped_never_accepts_again s i ls s' a :
  reachable s -> i < cur s -> run s ls = Some s' -> ~ In i (acc s' a) /\ ~ In i (fdh s' a).
Proof.
  intros Hr Hlt Hrun. assert (Hr' := reachable_run _ _ _ Hr Hrun).
  assert (Hle := cur_monotone _ _ _ Hr Hrun).
  assert (Hnot : ~ (i = cur s' \/ pending s' = Some i)).
  { intros [E|E]; [subst i; apply (Nat.lt_irrefl (cur s')); apply Nat.lt_le_trans with (cur s); assumption|].
    destruct (pending_new_ok s' _ (inv_reachable _ Hr') E) as (_ & Hc).
    apply (Nat.lt_irrefl i). apply Nat.lt_le_trans with (cur s); [exact Hlt|].
    apply Nat.le_trans with (cur s'); [exact Hle|apply Nat.lt_le_incl; exact Hc]. }
  split.
  - intros Hin. destruct (only_live_instances_accept s' a i Hr' Hin) as (_ & _ & [E|(E & _)]); apply Hnot; auto.
  - intros Hin. destruct (i_fd _ (inv_reachable _ Hr') a i Hin) as [(E & _)|(E & _)]; apply Hnot; auto.
Qed.

Lemma no_answer_after_stop_partial s i ls s' a k c :
  reachable s -> i < cur s -> run s ls = Some s' ->
  (~ In i (acc s' a) /\ ~ In i (fdh s' a)) /\
  (nth_error (conns s') k = Some c -> accepted_by (cst c) = Some i ->
   cborn c <= i /\ In (caddr c) (addrs_of s' i)).
Proof.
  intros Hr Hlt Hrun. split; [apply (stopped_never_accepts_again s i ls s' a Hr Hlt Hrun)|].
  intros Hn Ha. destruct (accepted_by_current_or_later s' k c i (reachable_run _ _ _ Hr Hrun) Hn Ha) as (H1 & _ & H3).
  auto.
Qed.
