(* C07 — proofs. *)
Require Import V.Lib V.C07_Model.
Open Scope nat_scope.

Lemma placeholder_init_owner : forall a0 b, owner (init a0 b) = 0.
Proof. reflexivity. Qed.
