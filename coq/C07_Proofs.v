(* C07 — proofs: the hand-over invariant over all interleavings, and what follows from it. *)
Require Import V.Lib V.C07_Model.
From Coq Require Import Arith PeanoNat.
Open Scope nat_scope.

(* ---------------------------------------------------------------------------------- *)
(* utilities *)

Lemma mem_In x l : mem x l = true <-> In x l.
Proof.
  unfold mem. rewrite existsb_exists. split.
  - intros (y & Hy & E). apply Nat.eqb_eq in E. subst y. exact Hy.
  - intros H. exists x. split; [exact H | apply Nat.eqb_refl].
Qed.

Lemma mem_false x l : mem x l = false <-> ~ In x l.
Proof.
  split; intros H.
  - intros HI. apply mem_In in HI. congruence.
  - destruct (mem x l) eqn:E; [|reflexivity]. apply mem_In in E. contradiction.
Qed.

Lemma rem_In x y l : In y (rem x l) <-> In y l /\ y <> x.
Proof.
  unfold rem. rewrite filter_In. split; intros (H1 & H2); split; try exact H1.
  - intros ->. rewrite Nat.eqb_refl in H2. discriminate.
  - apply Bool.negb_true_iff. apply Nat.eqb_neq. intros E. apply H2. symmetry. exact E.
Qed.

Lemma nodupb_NoDup l : nodupb l = true -> NoDup l.
Proof.
  induction l as [|x r IH]; simpl; intros H; [constructor|].
  apply andb_true_iff in H as (H1 & H2). constructor.
  - apply Bool.negb_true_iff in H1. apply mem_false in H1. exact H1.
  - apply IH. exact H2.
Qed.

Lemma isnil_true {A} (l : list A) : isnil l = true <-> l = [].
Proof. destruct l; simpl; split; intros H; try reflexivity; discriminate. Qed.

Lemma isnil_false {A} (l : list A) : isnil l = false <-> l <> [].
Proof. destruct l; simpl; split; intros H; try reflexivity; try discriminate; congruence. Qed.

Lemma upd_same {A} (f : nat -> A) a v : upd f a v a = v.
Proof. unfold upd. rewrite Nat.eqb_refl. reflexivity. Qed.

Lemma upd_other {A} (f : nat -> A) a v b : b <> a -> upd f a v b = f b.
Proof. intros H. unfold upd. apply Nat.eqb_neq in H. rewrite H. reflexivity. Qed.

Lemma set_nth_length {A} (l : list A) i v : length (set_nth l i v) = length l.
Proof. revert i; induction l as [|x r IH]; intros [|i]; simpl; try reflexivity. rewrite IH. reflexivity. Qed.

Lemma nth_error_set_nth {A} (l : list A) i v j :
  nth_error (set_nth l i v) j =
  if Nat.eqb i j then (match nth_error l j with Some _ => Some v | None => None end) else nth_error l j.
Proof.
  revert i j; induction l as [|x r IH]; intros [|i] [|j]; simpl; try reflexivity.
  - destruct (Nat.eqb i j); reflexivity.
  - apply IH.
Qed.

Lemma nth_error_app_last {A} (l : list A) x k y :
  nth_error (l ++ [x]) k = Some y -> nth_error l k = Some y \/ (k = length l /\ y = x).
Proof.
  intros H. destruct (Nat.lt_ge_cases k (length l)) as [Hl|Hl].
  - rewrite nth_error_app1 in H by exact Hl. left. exact H.
  - rewrite nth_error_app2 in H by exact Hl.
    destruct (k - length l) as [|m] eqn:E; simpl in H.
    + right. split; [lia | congruence].
    + destruct m; discriminate.
Qed.

Lemma nth_app_lt {A} (l : list A) x d i : i < length l -> nth i (l ++ [x]) d = nth i l d.
Proof. intros H. apply app_nth1. exact H. Qed.

(* configurations of existing instances never change *)
Lemma addrs_of_cfgs_app (cs : list (list nat * nat)) x i :
  i < length cs -> fst (nth i (cs ++ [x]) ([], 0)) = fst (nth i cs ([], 0)).
Proof. intros H. rewrite app_nth1 by exact H. reflexivity. Qed.

Lemma nth_app_eq {A} (l : list A) x d : nth (length l) (l ++ [x]) d = x.
Proof. rewrite app_nth2 by lia. rewrite Nat.sub_diag. reflexivity. Qed.

Lemma nth_app_gt {A} (l : list A) x d i : length l < i -> nth i (l ++ [x]) d = d.
Proof. intros H. apply nth_overflow. rewrite app_length. simpl. lia. Qed.

(* ---------------------------------------------------------------------------------- *)
(* the invariant *)

Definition new_ok (s : state) (n : nat) : Prop := S n = length (cfgs s) /\ cur s < n.

Definition phase_inv (s : state) : Prop :=
  match rst s with
  | RIdle => True
  | RLoad n => new_ok s n
  | RListen n todo => new_ok s n /\ incl todo (addrs_of s n) /\ fate_of s n <> 1 /\
       (forall a, In a (addrs_of s n) -> ~ In a todo -> In n (fdh s a))
  | RSpawn n todo => new_ok s n /\ incl todo (addrs_of s n) /\ fate_of s n = 0 /\
       (forall a, In a (addrs_of s n) -> In n (fdh s a)) /\
       (forall a, In a (addrs_of s n) -> ~ In a todo -> In n (acc s a))
  | RStop n todo => new_ok s n /\ NoDup todo /\ incl todo (addrs_of s (cur s)) /\ fate_of s n = 0 /\
       (forall a, In a (addrs_of s n) -> In n (fdh s a) /\ In n (acc s a))
  end.

(* the old instance still holds its descriptor and acceptor at [a] *)
Definition old_live (s : state) (a : nat) : Prop :=
  match rst s with RStop _ todo => In a todo | _ => True end.

Definition is_new (s : state) (i : nat) : Prop :=
  match rst s with RSpawn n _ | RStop n _ => i = n | _ => False end.

Record Inv (s : state) : Prop := {
  i_cur : cur s < length (cfgs s);
  i_nodup : forall i, NoDup (addrs_of s i);
  i_phase : phase_inv s;
  i_old : forall a, In a (addrs_of s (cur s)) -> old_live s a ->
                    In (cur s) (fdh s a) /\ In (cur s) (acc s a);
  i_acc : forall a i, In i (acc s a) ->
                    In i (fdh s a) /\ In a (addrs_of s i) /\ (i = cur s /\ old_live s a \/ is_new s i);
  i_conn : forall k c, nth_error (conns s) k = Some c ->
             cborn c <= cur s /\
             (forall i, accepted_by (cst c) = Some i ->
                        cborn c <= i /\ i < length (cfgs s) /\ In (caddr c) (addrs_of s i)) /\
             (cst c = CQueued -> fdh s (caddr c) <> [])
}.

Lemma inv_init a0 blocked : nodupb a0 = true -> Inv (init a0 blocked).
Proof.
  intros Hnd. constructor; simpl.
  - lia.
  - intros i. unfold addrs_of. simpl. destruct i as [|[|i]]; simpl; try constructor. apply nodupb_NoDup. exact Hnd.
  - exact I.
  - unfold addrs_of, old_live. simpl. intros a Ha _. apply mem_In in Ha. rewrite Ha. simpl. auto.
  - unfold addrs_of, old_live, is_new. simpl. intros a i Hi.
    destruct (mem a a0) eqn:E; simpl in Hi; [|contradiction].
    destruct Hi as [<-|[]]. simpl. split; [auto|]. split; [apply mem_In; exact E|]. left. auto.
  - intros k c H. destruct k; discriminate.
Qed.

Ltac dmatch H :=
  repeat match type of H with
  | match ?x with _ => _ end = Some _ => let E := fresh "E" in destruct x eqn:E; try discriminate H
  | (if ?b then _ else _) = Some _ => let E := fresh "E" in destruct b eqn:E; try discriminate H
  end.

(* bookkeeping of conns under a pointwise state change of connection k *)
Lemma conn_upd_inv (s : state) (cs' : list conn) k c x :
  nth_error (conns s) k = Some c ->
  cs' = set_nth (conns s) k (set_st c x) ->
  forall k' c', nth_error cs' k' = Some c' ->
    (k' = k /\ c' = set_st c x) \/ (k' <> k /\ nth_error (conns s) k' = Some c').
Proof.
  intros Hk -> k' c' H. rewrite nth_error_set_nth in H.
  destruct (Nat.eqb k k') eqn:E.
  - apply Nat.eqb_eq in E. subst k'. rewrite Hk in H. left. split; [reflexivity|congruence].
  - apply Nat.eqb_neq in E. right. split; [congruence | exact H].
Qed.

Lemma inv_step s l s' : Inv s -> step s l = Some s' -> Inv s'.
Proof.
  intros [Hcur Hnd Hph Hold Hacc Hconn] H.
  destruct l; unfold step in H.
  - (* LCall *)
    dmatch H. injection H as <-.
    assert (Hadd : forall i, i < length (cfgs s) ->
              nth i (cfgs s ++ [(addrs, fate)]) ([], 0) = nth i (cfgs s) ([], 0)).
    { intros i Hi. apply app_nth1. exact Hi. }
    unfold phase_inv, old_live, is_new, addrs_of, fate_of in *. rewrite E in *.
    constructor; simpl; unfold phase_inv, old_live, is_new, addrs_of, fate_of, new_ok; simpl.
    + rewrite app_length. simpl. lia.
    + intros i. destruct (Nat.lt_trichotomy i (length (cfgs s))) as [Hi|[Hi|Hi]].
      * rewrite Hadd by exact Hi. apply Hnd.
      * subst i. rewrite nth_app_eq. simpl. apply nodupb_NoDup. exact E0.
      * rewrite nth_app_gt by exact Hi. constructor.
    + rewrite app_length. simpl. split; lia.
    + rewrite Hadd by exact Hcur. intros a Ha _. apply Hold; auto.
    + intros a i Hi. destruct (Hacc a i Hi) as (H1 & H2 & [[-> _]|[]]).
      rewrite Hadd by exact Hcur. auto.
    + intros k c Hk. destruct (Hconn k c Hk) as (H1 & H2 & H3). split; [exact H1|]. split; [|exact H3].
      intros i Hi. destruct (H2 i Hi) as (Ha & Hb & Hc). rewrite app_length. simpl.
      rewrite Hadd by exact Hb. repeat split; try lia; assumption.
  - (* LLoadFail *)
    dmatch H. injection H as <-.
    unfold phase_inv, old_live, is_new in *. rewrite E in *.
    constructor; simpl; unfold phase_inv, old_live, is_new; simpl; auto.
    all: try (intros a i Hi; destruct (Hacc a i Hi) as (H1 & H2 & [[-> _]|[]]); auto).
  - (* LLoadOk *)
    dmatch H. injection H as <-.
    unfold phase_inv, old_live, is_new in *. rewrite E in *.
    constructor; simpl; unfold phase_inv, old_live, is_new; simpl; auto.
    + split; [exact Hph|]. split; [apply incl_refl|]. split.
      * apply Nat.eqb_neq. exact E0.
      * intros a Ha Hn. contradiction.
  - (* LDup *)
    dmatch H. injection H as <-. rename n0 into a.
    unfold phase_inv, old_live, is_new in *. rewrite E in *.
    destruct Hph as (Hn & Hincl & Hfate & Hfd).
    assert (Hsup : forall x b, In x (fdh s b) -> In x (upd (fdh s) a (n :: fdh s a) b)).
    { intros x b Hx. destruct (Nat.eq_dec b a) as [->|Hne].
      - rewrite upd_same. right. exact Hx.
      - rewrite upd_other by exact Hne. exact Hx. }
    constructor; simpl; unfold phase_inv, old_live, is_new; simpl; auto.
    + split; [exact Hn|]. split; [intros x Hx; apply Hincl; right; exact Hx|]. split; [exact Hfate|].
      intros b Hb Hnt. destruct (Nat.eq_dec b a) as [->|Hne].
      * rewrite upd_same. left. reflexivity.
      * apply Hsup. apply Hfd; [exact Hb|]. intros [Hx|Hx]; [congruence|contradiction].
    + intros b Hb _. destruct (Hold b Hb I) as (H1 & H2). split; [apply Hsup; exact H1|exact H2].
    + intros b i Hi. destruct (Hacc b i Hi) as (H1 & H2 & H3). split; [apply Hsup; exact H1|]. auto.
    + intros k c Hk. destruct (Hconn k c Hk) as (H1 & H2 & H3). split; [exact H1|]. split; [exact H2|].
      intros Hq Hnil. specialize (H3 Hq). destruct (fdh s (caddr c)) as [|y r] eqn:Ef; [congruence|].
      assert (Hy : In y (upd (fdh s) a (n :: fdh s a) (caddr c))) by (apply Hsup; rewrite Ef; left; reflexivity).
      rewrite Hnil in Hy. contradiction.
  - (* LBind *)
    dmatch H. injection H as <-. rename n0 into a.
    apply andb_true_iff in E1 as (E1 & Eext). apply andb_true_iff in E1 as (Enm & Enil).
    apply isnil_true in Enil.
    unfold phase_inv, old_live, is_new in *. rewrite E in *.
    destruct Hph as (Hn & Hincl & Hfate & Hfd).
    assert (Hsup : forall x b, In x (fdh s b) -> In x (upd (fdh s) a [n] b)).
    { intros x b Hx. destruct (Nat.eq_dec b a) as [->|Hne].
      - rewrite Enil in Hx. contradiction.
      - rewrite upd_other by exact Hne. exact Hx. }
    constructor; simpl; unfold phase_inv, old_live, is_new; simpl; auto.
    + split; [exact Hn|]. split; [intros x Hx; apply Hincl; right; exact Hx|]. split; [exact Hfate|].
      intros b Hb Hnt. destruct (Nat.eq_dec b a) as [->|Hne].
      * rewrite upd_same. left. reflexivity.
      * apply Hsup. apply Hfd; [exact Hb|]. intros [Hx|Hx]; [congruence|contradiction].
    + intros b Hb _. destruct (Hold b Hb I) as (H1 & H2). split; [apply Hsup; exact H1|exact H2].
    + intros b i Hi. destruct (Hacc b i Hi) as (H1 & H2 & H3). split; [apply Hsup; exact H1|]. auto.
    + intros k c Hk. destruct (Hconn k c Hk) as (H1 & H2 & H3). split; [exact H1|]. split; [exact H2|].
      intros Hq Hnil. specialize (H3 Hq). destruct (fdh s (caddr c)) as [|y r] eqn:Ef; [congruence|].
      assert (Hy : In y (upd (fdh s) a [n] (caddr c))) by (apply Hsup; rewrite Ef; left; reflexivity).
      rewrite Hnil in Hy. contradiction.
  - (* LListenFail *)
    dmatch H. injection H as <-.
    unfold phase_inv, old_live, is_new in *. rewrite E in *.
    constructor; simpl; unfold phase_inv, old_live, is_new; simpl; auto.
    all: try (intros a i Hi; destruct (Hacc a i Hi) as (H1 & H2 & [[-> _]|[]]); auto).
  - (* LAdv *)
    dmatch H; injection H as <-.
    + (* RListen n [] -> RSpawn *)
      unfold phase_inv, old_live, is_new in *. rewrite E in *.
      destruct Hph as (Hn & Hincl & Hfate & Hfd).
      constructor; simpl; unfold phase_inv, old_live, is_new; simpl; auto.
      * split; [exact Hn|]. split; [apply incl_refl|]. split; [apply Nat.eqb_eq; exact E1|]. split.
        -- intros a Ha. apply Hfd; [exact Ha|]. intros [].
        -- intros a Ha Hna. contradiction.
      * intros a i Hi. destruct (Hacc a i Hi) as (H1 & H2 & [[-> _]|[]]). auto.
    + (* RSpawn n [] -> RStop *)
      unfold phase_inv, old_live, is_new in *. rewrite E in *.
      destruct Hph as (Hn & Hincl & Hfate & Hfd & Hac).
      constructor; simpl; unfold phase_inv, old_live, is_new; simpl; auto.
      * split; [exact Hn|]. split; [apply Hnd|]. split; [apply incl_refl|]. split; [exact Hfate|].
        intros a Ha. split; [apply Hfd; exact Ha | apply Hac; [exact Ha | intros []]].
      * intros a i Hi. destruct (Hacc a i Hi) as (H1 & H2 & [[-> _] | -> ]); auto.
  - (* LSpawn *)
    dmatch H. injection H as <-. rename n0 into a.
    unfold phase_inv, old_live, is_new in *. rewrite E in *.
    destruct Hph as (Hn & Hincl & Hfate & Hfd & Hac).
    constructor; simpl; unfold phase_inv, old_live, is_new; simpl; auto.
    + split; [exact Hn|]. split; [intros x Hx; apply Hincl; right; exact Hx|]. split; [exact Hfate|].
      split; [exact Hfd|].
      intros b Hb Hnt. destruct (Nat.eq_dec b a) as [->|Hne].
      * rewrite upd_same. left. reflexivity.
      * rewrite upd_other by exact Hne. apply Hac; [exact Hb|]. intros [Hx|Hx]; [congruence|contradiction].
    + intros b Hb _. destruct (Hold b Hb I) as (H1 & H2). split; [exact H1|].
      destruct (Nat.eq_dec b a) as [->|Hne]; [rewrite upd_same; right; exact H2 | rewrite upd_other by exact Hne; exact H2].
    + intros b i Hi. destruct (Nat.eq_dec b a) as [->|Hne].
      * rewrite upd_same in Hi. destruct Hi as [<-|Hi].
        -- split; [apply Hfd; apply Hincl; left; reflexivity|]. split; [apply Hincl; left; reflexivity|]. right. reflexivity.
        -- destruct (Hacc a i Hi) as (H1 & H2 & H3). auto.
      * rewrite upd_other in Hi by exact Hne. destruct (Hacc b i Hi) as (H1 & H2 & H3). auto.
  - (* LStop *)
    dmatch H. injection H as <-. rename n0 into a.
    unfold phase_inv, old_live, is_new in *. rewrite E in *.
    destruct Hph as (Hn & Hndt & Hincl & Hfate & Hnew).
    destruct Hn as (Hn1 & Hn2).
    inversion Hndt as [|x y Hnotin Hndl]; subst x y.
    set (f := rem (cur s) (fdh s a)) in *.
    (* facts that do not depend on the queue reset *)
    assert (Hfd' : forall b x, In x (upd (fdh s) a f b) <-> (In x (fdh s b) /\ (b = a -> x <> cur s))).
    { intros b x. destruct (Nat.eq_dec b a) as [->|Hne].
      - rewrite upd_same. unfold f. rewrite rem_In. split; intros (H1 & H2); split; auto.
      - rewrite upd_other by exact Hne. split; [intros H1; split; [exact H1|intros; contradiction] | intros (H1 & _); exact H1]. }
    assert (Hac' : forall b x, In x (upd (acc s) a (rem (cur s) (acc s a)) b) <-> (In x (acc s b) /\ (b = a -> x <> cur s))).
    { intros b x. destruct (Nat.eq_dec b a) as [->|Hne].
      - rewrite upd_same. rewrite rem_In. split; intros (H1 & H2); split; auto.
      - rewrite upd_other by exact Hne. split; [intros H1; split; [exact H1|intros; contradiction] | intros (H1 & _); exact H1]. }
    assert (Hconn' : forall k c, nth_error
              (conns (if isnil f
                      then with_conns (with_acc (with_fdh s (upd (fdh s) a f)) (upd (acc s) a (rem (cur s) (acc s a))))
                             (reset_queued a (conns s))
                      else with_acc (with_fdh s (upd (fdh s) a f)) (upd (acc s) a (rem (cur s) (acc s a))))) k = Some c ->
              cborn c <= cur s /\
              (forall i, accepted_by (cst c) = Some i ->
                         cborn c <= i /\ i < length (cfgs s) /\ In (caddr c) (addrs_of s i)) /\
              (cst c = CQueued -> upd (fdh s) a f (caddr c) <> [])).
    { intros k c Hk. destruct (isnil f) eqn:Enil; simpl in Hk.
      - unfold reset_queued in Hk. rewrite nth_error_map in Hk.
        destruct (nth_error (conns s) k) as [c0|] eqn:Ek; [|discriminate]. simpl in Hk. injection Hk as <-.
        destruct (Hconn k c0 Ek) as (H1 & H2 & H3).
        destruct (cst c0) eqn:Ec; try (rewrite Ec; split; [exact H1|]; split; [exact H2|]; intros; discriminate).
        destruct (Nat.eqb (caddr c0) a) eqn:Ea.
        + simpl. split; [exact H1|]. split; [intros i Hi; discriminate | intros; discriminate].
        + rewrite Ec. split; [exact H1|]. split; [exact H2|]. intros _.
          apply Nat.eqb_neq in Ea. rewrite upd_other by exact Ea. apply H3. reflexivity.
      - destruct (Hconn k c Hk) as (H1 & H2 & H3). split; [exact H1|]. split; [exact H2|].
        intros Hq. destruct (Nat.eq_dec (caddr c) a) as [->|Hne].
        + rewrite upd_same. apply isnil_false. exact Enil.
        + rewrite upd_other by exact Hne. apply H3. exact Hq. }
    assert (Hcommon : forall st',
              fdh st' = upd (fdh s) a f -> acc st' = upd (acc s) a (rem (cur s) (acc s a)) ->
              cfgs st' = cfgs s -> cur st' = cur s -> rst st' = RStop n l ->
              (forall k c, nth_error (conns st') k = Some c ->
                 cborn c <= cur s /\
                 (forall i, accepted_by (cst c) = Some i ->
                            cborn c <= i /\ i < length (cfgs s) /\ In (caddr c) (addrs_of s i)) /\
                 (cst c = CQueued -> upd (fdh s) a f (caddr c) <> [])) ->
              Inv st').
    { intros st' Ef Ea Ec Eu Er Hc.
      constructor; unfold phase_inv, old_live, is_new, addrs_of, fate_of, new_ok in *;
        rewrite ?Ef, ?Ea, ?Ec, ?Eu, ?Er.
      - exact Hcur.
      - exact Hnd.
      - split; [split; assumption|]. split; [exact Hndl|]. split; [intros x Hx; apply Hincl; right; exact Hx|].
        split; [exact Hfate|]. intros b Hb. destruct (Hnew b Hb) as (H1 & H2).
        split; [apply Hfd' | apply Hac']; (split; [assumption | intros _; lia]).
      - intros b Hb Hbl. assert (Hne : b <> a) by (intros ->; contradiction).
        destruct (Hold b Hb (or_intror Hbl)) as (H1 & H2).
        split; [apply Hfd' | apply Hac']; (split; [assumption | intros; contradiction]).
      - intros b i Hi. apply Hac' in Hi as (Hi & Hia).
        destruct (Hacc b i Hi) as (H1 & H2 & H3).
        split; [apply Hfd'; split; [exact H1 | exact Hia]|]. split; [exact H2|].
        destruct H3 as [[-> Hbl] | -> ]; [|right; reflexivity].
        left. split; [reflexivity|]. destruct Hbl as [<-|Hbl]; [|exact Hbl].
        exfalso. apply Hia; reflexivity.
      - exact Hc. }
    destruct (isnil f) eqn:Enil; apply Hcommon; try reflexivity; exact Hconn'.
  - (* LReturn *)
    dmatch H. injection H as <-.
    unfold phase_inv, old_live, is_new in *. rewrite E in *.
    destruct Hph as ((Hn1 & Hn2) & Hndt & Hincl & Hfate & Hnew).
    constructor; simpl; unfold phase_inv, old_live, is_new; simpl; auto.
    + lia.
    + intros a i Hi. destruct (Hacc a i Hi) as (H1 & H2 & [[-> []] | -> ]). auto.
    + intros k c Hk. destruct (Hconn k c Hk) as (H1 & H2 & H3). split; [lia|]. auto.
  - (* LNew *)
    injection H as <-.
    unfold phase_inv, old_live, is_new in *.
    constructor; simpl; unfold phase_inv, old_live, is_new; simpl; auto.
    intros k c Hk. apply nth_error_app_last in Hk as [Hk|(-> & ->)]; [apply Hconn in Hk; exact Hk|].
    simpl. split; [lia|]. split; intros; discriminate.
  - (* LConnect *)
    dmatch H. injection H as <-.
    unfold phase_inv, old_live, is_new in *.
    constructor; simpl; unfold phase_inv, old_live, is_new; simpl; auto.
    intros k' c' Hk'.
    eapply conn_upd_inv in Hk' as [(-> & ->)|(Hne & Hk')]; [| |exact E|reflexivity]; [|apply Hconn in Hk'; exact Hk'].
    destruct (Hconn k c E) as (H1 & H2 & H3). simpl. split; [exact H1|].
    destruct (isnil (fdh s (caddr c))) eqn:En; simpl; split; try (intros; discriminate).
    intros _. apply isnil_false. exact En.
  - (* LAccept *)
    dmatch H. injection H as <-.
    apply mem_In in E1.
    destruct (Hacc (caddr c) i E1) as (Hf & Had & Hwho).
    destruct (Hconn k c E) as (H1 & H2 & H3).
    assert (Hi : cur s <= i /\ i < length (cfgs s)).
    { destruct Hwho as [[-> _]|Hnew]; [lia|].
      unfold is_new, phase_inv, new_ok in *. destruct (rst s); try contradiction; subst i.
      - destruct Hph as ((Ha & Hb) & _). lia.
      - destruct Hph as ((Ha & Hb) & _). lia. }
    unfold phase_inv, old_live, is_new in *.
    constructor; simpl; unfold phase_inv, old_live, is_new; simpl; auto.
    intros k' c' Hk'.
    eapply conn_upd_inv in Hk' as [(-> & ->)|(Hne & Hk')]; [| |exact E|reflexivity]; [|apply Hconn in Hk'; exact Hk'].
    simpl. split; [exact H1|]. split; [|intros; discriminate].
    intros j Hj. injection Hj as <-. repeat split; try lia. exact Had.
  - (* LAnswer *)
    dmatch H. injection H as <-.
    destruct (Hconn k c E) as (H1 & H2 & H3).
    unfold phase_inv, old_live, is_new in *.
    constructor; simpl; unfold phase_inv, old_live, is_new; simpl; auto.
    intros k' c' Hk'.
    eapply conn_upd_inv in Hk' as [(-> & ->)|(Hne & Hk')]; [| |exact E|reflexivity]; [|apply Hconn in Hk'; exact Hk'].
    simpl. split; [exact H1|]. split; [|intros; discriminate].
    intros j Hj. apply H2. rewrite E0. exact Hj.
  - (* LRecv *)
    dmatch H; injection H as <-;
    destruct (Hconn k c E) as (H1 & H2 & H3);
    unfold phase_inv, old_live, is_new in *;
    (constructor; simpl; unfold phase_inv, old_live, is_new; simpl; auto);
    intros k' c' Hk';
    (eapply conn_upd_inv in Hk' as [(-> & ->)|(Hne & Hk')]; [| |exact E|reflexivity]; [|apply Hconn in Hk'; exact Hk']);
    simpl; (split; [exact H1|]); (split; [|intros; discriminate]);
    intros j Hj; try discriminate; apply H2; rewrite E0; exact Hj.
  - (* LObs *)
    injection H as <-.
    unfold phase_inv, old_live, is_new in *.
    constructor; simpl; unfold phase_inv, old_live, is_new; simpl; auto.
Qed.

Lemma inv_run s ls s' : Inv s -> run s ls = Some s' -> Inv s'.
Proof.
  revert s; induction ls as [|l r IH]; simpl; intros s Hi H.
  - injection H as <-. exact Hi.
  - destruct (step s l) as [s1|] eqn:E; [|discriminate]. eapply IH; [eapply inv_step; eauto | exact H].
Qed.

Lemma inv_reachable s : reachable s -> Inv s.
Proof. intros (a0 & b & ls & Hnd & Hr). eapply inv_run; [apply inv_init; exact Hnd | exact Hr]. Qed.

(* ---------------------------------------------------------------------------------- *)
(* consequences *)

(* T1/T3: every address of the configuration whose service is guaranteed has its socket open
   (a descriptor held by that very instance) and a committed acceptor of that instance *)
Lemma owner_serves s a :
  reachable s -> In a (addrs_of s (owner s)) ->
  In (owner s) (fdh s a) /\ In (owner s) (acc s a).
Proof.
  intros Hr Ha. apply inv_reachable in Hr. destruct Hr as [Hcur Hnd Hph Hold Hacc Hconn].
  unfold owner, phase_inv, old_live in *. destruct (rst s) eqn:E; try (apply Hold; [exact Ha | exact I]).
  destruct Hph as (_ & _ & _ & _ & Hnew). apply Hnew. exact Ha.
Qed.

Lemma socket_never_closed s a :
  reachable s -> In a (addrs_of s (owner s)) -> fdh s a <> [].
Proof.
  intros Hr Ha Hn. destruct (owner_serves s a Hr Ha) as (H1 & _). rewrite Hn in H1. contradiction.
Qed.

Lemma always_an_acceptor s a :
  reachable s -> In a (addrs_of s (owner s)) -> exists i, In i (acc s a) /\ In i (fdh s a) /\ In a (addrs_of s i).
Proof.
  intros Hr Ha. destruct (owner_serves s a Hr Ha) as (H1 & H2). exists (owner s). auto.
Qed.

(* the socket bound to a served address is never replaced: [sid] only changes in LBind, which
   needs the address to have no socket at all *)
Lemma sid_step s l s' a :
  step s l = Some s' -> sid s' a <> sid s a -> l = LBind /\ fdh s a = [] /\ ~ In a (addrs_of s (cur s)).
Proof.
  intros H Hne. destruct l; unfold step in H; dmatch H; try (injection H as <-; simpl in Hne; congruence).
  - (* LBind *)
    injection H as <-. simpl in Hne.
    apply andb_true_iff in E1 as (E1 & _). apply andb_true_iff in E1 as (Enm & Enil).
    destruct (Nat.eq_dec a n0) as [->|Hd]; [|rewrite upd_other in Hne by exact Hd; congruence].
    split; [reflexivity|]. split; [apply isnil_true; exact Enil|].
    apply Bool.negb_true_iff in Enm. apply mem_false. exact Enm.
  - (* LStop with reset *)
    injection H as <-. destruct (isnil (rem (cur s) (fdh s n0))); simpl in Hne; congruence.
Qed.

Lemma socket_never_rebound s l s' a :
  reachable s -> step s l = Some s' -> In a (addrs_of s (owner s)) -> sid s' a = sid s a.
Proof.
  intros Hr H Ha. destruct (Nat.eq_dec (sid s' a) (sid s a)) as [E|E]; [exact E|].
  destruct (sid_step s l s' a H E) as (_ & Hnil & _).
  exfalso. exact (socket_never_closed s a Hr Ha Hnil).
Qed.

Lemma reachable_step s l s' : reachable s -> step s l = Some s' -> reachable s'.
Proof.
  intros (a0 & b & ls & Hnd & Hr) H. exists a0, b, (ls ++ [l]). split; [exact Hnd|].
  clear Hnd. revert Hr. generalize (init a0 b). induction ls as [|x r IH]; simpl; intros s0 Hr.
  - injection Hr as ->. rewrite H. reflexivity.
  - destruct (step s0 x); [apply IH; exact Hr | discriminate].
Qed.

Lemma reachable_run s ls s' : reachable s -> run s ls = Some s' -> reachable s'.
Proof.
  revert s; induction ls as [|l r IH]; simpl; intros s Hr H.
  - injection H as <-. exact Hr.
  - destruct (step s l) as [s1|] eqn:E; [|discriminate]. eapply IH; [eapply reachable_step; eauto | exact H].
Qed.

(* along any run during which the address stays served, the socket is the same one *)
Fixpoint served_along (a : nat) (s : state) (ls : list label) : Prop :=
  In a (addrs_of s (owner s)) /\
  match ls with
  | [] => True
  | l :: r => match step s l with Some s' => served_along a s' r | None => True end
  end.

Lemma socket_identity_along_run a ls : forall s s',
  reachable s -> run s ls = Some s' -> served_along a s ls ->
  sid s' a = sid s a /\ fdh s' a <> [].
Proof.
  induction ls as [|l r IH]; simpl; intros s s' Hr H (Ha & Hs).
  - injection H as <-. split; [reflexivity | apply socket_never_closed; assumption].
  - destruct (step s l) as [s1|] eqn:E; [|discriminate].
    destruct (IH s1 s' (reachable_step _ _ _ Hr E) H Hs) as (H1 & H2).
    split; [|exact H2]. rewrite H1. eapply socket_never_rebound; eauto.
Qed.

(* T9: only the instance in force and the one being started ever accept; an instance whose
   start failed never does *)
Lemma only_live_instances_accept s a i :
  reachable s -> In i (acc s a) ->
  In i (fdh s a) /\ In a (addrs_of s i) /\ (i = cur s \/ pending s = Some i /\ fate_of s i = 0).
Proof.
  intros Hr Hi. apply inv_reachable in Hr. destruct Hr as [Hcur Hnd Hph Hold Hacc Hconn].
  destruct (Hacc a i Hi) as (H1 & H2 & H3). split; [exact H1|]. split; [exact H2|].
  destruct H3 as [[-> _]|H3]; [left; reflexivity|]. right.
  unfold is_new, pending, phase_inv in *. destruct (rst s); try contradiction; subst i.
  - destruct Hph as (_ & _ & Hf & _). auto.
  - destruct Hph as (_ & _ & _ & Hf & _). auto.
Qed.

(* T4: a connection to a served address is never refused, never reset, and can always be taken *)
Lemma connect_not_refused s k c s' :
  reachable s -> nth_error (conns s) k = Some c -> In (caddr c) (addrs_of s (owner s)) ->
  step s (LConnect k) = Some s' ->
  exists c', nth_error (conns s') k = Some c' /\ cst c' = CQueued /\ caddr c' = caddr c /\ csite c' = csite c.
Proof.
  intros Hr Hk Ha H. unfold step in H. rewrite Hk in H. destruct (cst c) eqn:Ec; try discriminate.
  injection H as <-. simpl. rewrite nth_error_set_nth, Nat.eqb_refl, Hk.
  eexists. split; [reflexivity|]. simpl.
  destruct (isnil (fdh s (caddr c))) eqn:En; [|auto].
  apply isnil_true in En. exfalso. exact (socket_never_closed s _ Hr Ha En).
Qed.

Lemma queued_never_reset s l s' k c :
  reachable s -> step s l = Some s' -> nth_error (conns s) k = Some c -> cst c = CQueued ->
  In (caddr c) (addrs_of s' (owner s')) ->
  exists c', nth_error (conns s') k = Some c' /\ caddr c' = caddr c /\ csite c' = csite c /\
             cst c' <> CReset /\ cst c' <> CRefused /\
             (cst c' = CFailed -> False).
Proof.
  intros Hr H Hk Hq Ha.
  assert (Hr' := reachable_step _ _ _ Hr H).
  assert (Hkeep : forall cs, cs = conns s -> exists c', nth_error cs k = Some c' /\ caddr c' = caddr c /\
            csite c' = csite c /\ cst c' <> CReset /\ cst c' <> CRefused /\ (cst c' = CFailed -> False)).
  { intros cs ->. exists c. rewrite Hq. repeat split; try assumption; try discriminate. }
  assert (Hset : forall k0 c0 x, nth_error (conns s) k0 = Some c0 ->
            (k0 = k -> x <> CReset /\ x <> CRefused /\ x <> CFailed) ->
            exists c', nth_error (set_nth (conns s) k0 (set_st c0 x)) k = Some c' /\ caddr c' = caddr c /\
            csite c' = csite c /\ cst c' <> CReset /\ cst c' <> CRefused /\ (cst c' = CFailed -> False)).
  { intros k0 c0 x Hk0 Hx. rewrite nth_error_set_nth. destruct (Nat.eqb k0 k) eqn:Ek.
    - apply Nat.eqb_eq in Ek. subst k0. rewrite Hk in *. injection Hk0 as <-.
      destruct (Hx eq_refl) as (X1 & X2 & X3). eexists. split; [reflexivity|]. simpl. auto.
    - apply Hkeep. reflexivity. }
  destruct l; unfold step in H; dmatch H; try (injection H as <-; simpl; apply Hkeep; reflexivity).
  - (* LStop *)
    injection H as <-. rename n0 into a0.
    destruct (isnil (rem (cur s) (fdh s a0))) eqn:Enil; simpl; [|apply Hkeep; reflexivity].
    unfold reset_queued. rewrite nth_error_map, Hk. simpl. rewrite Hq.
    destruct (Nat.eqb (caddr c) a0) eqn:Ea.
    + exfalso. apply Nat.eqb_eq in Ea. subst a0.
      apply (socket_never_closed _ _ Hr' Ha). simpl.
      rewrite upd_same. apply isnil_true. exact Enil.
    + eexists. split; [reflexivity|]. rewrite Hq. repeat split; discriminate.
  - (* LNew *)
    injection H as <-. simpl. rewrite nth_error_app1 by (apply nth_error_Some; congruence).
    apply Hkeep. reflexivity.
  - (* LConnect *)
    injection H as <-. simpl. apply Hset; [exact E|]. intros ->. rewrite Hk in E. injection E as <-. congruence.
  - (* LAccept *)
    injection H as <-. simpl. apply Hset; [exact E|]. intros _. repeat split; discriminate.
  - (* LAnswer *)
    injection H as <-. simpl. apply Hset; [exact E|]. intros _. repeat split; discriminate.
  - (* LRecv, timeout of a queued connection: needs no acceptor, but the owner has one *)
    injection H as <-. simpl. destruct (Nat.eq_dec k0 k) as [->|Hne].
    + exfalso. rewrite Hk in E. injection E as <-.
      simpl in Ha. unfold owner, addrs_of in Ha. simpl in Ha.
      destruct (owner_serves s (caddr c) Hr Ha) as (_ & Hin).
      apply isnil_true in E1. rewrite E1 in Hin. contradiction.
    + apply Hset; [exact E|]. intros; contradiction.
  - injection H as <-. simpl. apply Hset; [exact E|]. intros ->. rewrite Hk in E. injection E as <-. congruence.
  - injection H as <-. simpl. apply Hset; [exact E|]. intros ->. rewrite Hk in E. injection E as <-. congruence.
  - injection H as <-. simpl. apply Hset; [exact E|]. intros ->. rewrite Hk in E. injection E as <-. congruence.
Qed.

Lemma queued_can_be_accepted s k c :
  reachable s -> nth_error (conns s) k = Some c -> cst c = CQueued -> In (caddr c) (addrs_of s (owner s)) ->
  exists s', step s (LAccept k (owner s)) = Some s'.
Proof.
  intros Hr Hk Hq Ha. destruct (owner_serves s _ Hr Ha) as (_ & Hin).
  unfold step. rewrite Hk, Hq. apply mem_In in Hin. rewrite Hin. eexists. reflexivity.
Qed.

(* T5: one instance per connection, its own configuration, the right address *)
Lemma accepted_stable_step s l s' k c i :
  step s l = Some s' -> nth_error (conns s) k = Some c -> accepted_by (cst c) = Some i ->
  exists c', nth_error (conns s') k = Some c' /\ accepted_by (cst c') = Some i /\
             caddr c' = caddr c /\ csite c' = csite c /\ cborn c' = cborn c.
Proof.
  intros H Hk Hi.
  assert (Hkeep : exists c', nth_error (conns s) k = Some c' /\ accepted_by (cst c') = Some i /\
             caddr c' = caddr c /\ csite c' = csite c /\ cborn c' = cborn c) by (exists c; auto).
  assert (Hset : forall k0 c0 x, nth_error (conns s) k0 = Some c0 ->
            (k0 = k -> accepted_by x = Some i) ->
            exists c', nth_error (set_nth (conns s) k0 (set_st c0 x)) k = Some c' /\ accepted_by (cst c') = Some i /\
             caddr c' = caddr c /\ csite c' = csite c /\ cborn c' = cborn c).
  { intros k0 c0 x Hk0 Hx. rewrite nth_error_set_nth. destruct (Nat.eqb k0 k) eqn:Ek.
    - apply Nat.eqb_eq in Ek. subst k0. rewrite Hk in *. injection Hk0 as <-.
      eexists. split; [reflexivity|]. simpl. auto.
    - exact Hkeep. }
  destruct l; unfold step in H; dmatch H; try (injection H as <-; simpl; exact Hkeep).
  - injection H as <-. destruct (isnil (rem (cur s) (fdh s n0))); simpl; [|exact Hkeep].
    unfold reset_queued. rewrite nth_error_map, Hk. simpl.
    destruct (cst c) eqn:Ec; try discriminate; eexists; (split; [reflexivity|]); rewrite Ec; auto.
  - injection H as <-. simpl. rewrite nth_error_app1 by (apply nth_error_Some; congruence). exact Hkeep.
  - injection H as <-. simpl. apply Hset; [exact E|]. intros ->. rewrite Hk in E. injection E as <-. rewrite E0 in Hi. discriminate.
  - injection H as <-. simpl. apply Hset; [exact E|]. intros ->. rewrite Hk in E. injection E as <-. rewrite E0 in Hi. discriminate.
  - injection H as <-. simpl. apply Hset; [exact E|]. intros ->. rewrite Hk in E. injection E as <-. rewrite E0 in Hi. exact Hi.
  - injection H as <-. simpl. apply Hset; [exact E|]. intros ->. rewrite Hk in E. injection E as <-. rewrite E0 in Hi. discriminate.
  - injection H as <-. simpl. apply Hset; [exact E|]. intros ->. rewrite Hk in E. injection E as <-. rewrite E0 in Hi. discriminate.
  - injection H as <-. simpl. apply Hset; [exact E|]. intros ->. rewrite Hk in E. injection E as <-. rewrite E0 in Hi. discriminate.
  - injection H as <-. simpl. apply Hset; [exact E|]. intros ->. rewrite Hk in E. injection E as <-. rewrite E0 in Hi. exact Hi.
Qed.

Lemma one_instance_per_conn ls : forall s s' k c i,
  run s ls = Some s' -> nth_error (conns s) k = Some c -> accepted_by (cst c) = Some i ->
  exists c', nth_error (conns s') k = Some c' /\ accepted_by (cst c') = Some i /\
             caddr c' = caddr c /\ csite c' = csite c.
Proof.
  induction ls as [|l r IH]; simpl; intros s s' k c i H Hk Hi.
  - injection H as <-. exists c. auto.
  - destruct (step s l) as [s1|] eqn:E; [|discriminate].
    destruct (accepted_stable_step _ _ _ _ _ _ E Hk Hi) as (c1 & Hk1 & Hi1 & Ha1 & Hs1 & _).
    destruct (IH s1 s' k c1 i H Hk1 Hi1) as (c' & X1 & X2 & X3 & X4).
    exists c'. repeat split; try assumption; congruence.
Qed.

(* T6: a connection is only ever taken by the instance in force when it started or a later one,
   and that instance serves the connection's address *)
Lemma accepted_by_current_or_later s k c i :
  reachable s -> nth_error (conns s) k = Some c -> accepted_by (cst c) = Some i ->
  cborn c <= i /\ i < length (cfgs s) /\ In (caddr c) (addrs_of s i).
Proof.
  intros Hr Hk Hi. apply inv_reachable in Hr. destruct Hr as [_ _ _ _ _ Hconn].
  destruct (Hconn k c Hk) as (_ & H2 & _). apply H2. exact Hi.
Qed.

(* ... the instance in force is the newest successfully started one: after a successful
   Restart returned, [cur] is the new instance *)
Lemma return_installs_new s s' :
  reachable s -> step s LReturn = Some s' ->
  exists n, pending s = Some n /\ cur s' = n /\ rst s' = RIdle /\ cur s < n /\ fate_of s n = 0 /\
            (forall a, In a (addrs_of s' n) -> In n (fdh s' a) /\ In n (acc s' a)) /\
            (forall a i, In i (acc s' a) -> i = n).
Proof.
  intros Hr H. assert (Hr' := reachable_step _ _ _ Hr H).
  apply inv_reachable in Hr. destruct Hr as [Hcur Hnd Hph Hold Hacc Hconn].
  unfold step in H. dmatch H. injection H as <-. simpl.
  unfold phase_inv, pending in *. rewrite E in *. destruct Hph as ((Hn1 & Hn2) & _ & _ & Hf & Hnew).
  exists n. repeat split; auto.
  - apply Hnew. exact H.
  - apply Hnew. exact H.
  - intros a i Hi. destruct (Hacc a i Hi) as (_ & _ & [[_ Hl]|Hn]).
    + unfold old_live in Hl. rewrite E in Hl. contradiction.
    + unfold is_new in Hn. rewrite E in Hn. exact Hn.
Qed.

(* T7: a failed reload leaves the old instance exactly as it was *)
Lemma failed_reload_keeps_old s l s' :
  reachable s -> (l = LLoadFail \/ l = LListenFail) -> step s l = Some s' ->
  cur s' = cur s /\ rst s' = RIdle /\ conns s' = conns s /\ cfgs s' = cfgs s /\
  (forall a, sid s' a = sid s a /\ fdh s' a = fdh s a /\ acc s' a = acc s a) /\
  (forall a, In a (addrs_of s' (cur s')) -> In (cur s') (fdh s' a) /\ In (cur s') (acc s' a)) /\
  (forall a i, In i (acc s' a) -> i = cur s').
Proof.
  intros Hr Hl H. assert (Hr' := reachable_step _ _ _ Hr H).
  assert (Hown : owner s' = cur s' /\ rst s' = RIdle /\ cur s' = cur s /\ conns s' = conns s /\ cfgs s' = cfgs s /\
                 (forall a, sid s' a = sid s a /\ fdh s' a = fdh s a /\ acc s' a = acc s a)).
  { destruct Hl as [-> | ->]; unfold step in H; dmatch H; injection H as <-; unfold owner; simpl; auto 10. }
  destruct Hown as (Ho & Hi & Hc & Hcs & Hcf & Hsame).
  repeat split; try assumption; try apply Hsame.
  - rewrite <- Ho in H0 |- *. apply (owner_serves s' a Hr' H0).
  - rewrite <- Ho in H0 |- *. apply (owner_serves s' a Hr' H0).
  - intros a i Hin. destruct (only_live_instances_accept s' a i Hr' Hin) as (_ & _ & [E|(E & _)]); [exact E|].
    unfold pending in E. rewrite Hi in E. discriminate.
Qed.
