Require Import V.Lib V.C16_Model V.C16_Proofs.
Open Scope nat_scope.
Theorem C16_placeholder : init = init.
Proof. reflexivity. Qed.
Print Assumptions C16_placeholder.
