(* C16 — property theorems only.  Each is closed by [exact] of a lemma proved in
   C16_Proofs.v and followed by Print Assumptions.

   [step s o = (s', ev, r)]: operation o (casket.Start, Instance.Restart, Instance.Stop,
   casket.Stop, Instance.ShutdownCallbacks, executeShutdownCallbacks, a Wait probe) applied in
   process state s yields state s', the ordered list ev of labelled events (callback
   invocations, NewContext, MakeServers, Listen, listener hand-over, Serve, Stop, ...) and
   the result r.  [run init ops] is the list of (operation, events, result) records of a whole
   history and [final init ops] the state after it.  Theorems about [step] quantify over ALL
   states s (reachable or not); theorems about [run init ops] / [final init ops] over ALL finite
   histories ops, with arbitrary configurations: any callback lists with any callbacks failing,
   any servers (graceful or not, inheritable listeners or not), any fault stage.
   [proj k i tr] is the list of labels of the callbacks of list k of instance i invoked in tr, in
   order; [upto_fail l] the labels a stop-at-first-error loop over l runs; [labels l] all of them. *)
Require Import V.Lib V.C16_Model V.C16_Proofs.
Open Scope nat_scope.

(* what [ordered early late l = true] (used below and by the executable spec) means: once an
   event satisfying [late] has occurred, no event satisfying [early] occurs any more *)
Theorem C16_ordered_meaning :
  forall early late l,
  ordered early late l = true <->
  (forall l1 e l2, l = l1 ++ e :: l2 -> late e = true -> forall e', In e' l2 -> early e' = false).
Proof. exact ordered_spec. Qed.
Print Assumptions C16_ordered_meaning.

(* ---- first-startup callbacks run only at the initial start ---- *)
(* whatever the state, only casket.Start invokes OnFirstStartup callbacks, and only those of the
   instance it is creating: never a reload *)
Theorem C16_first_startup_only_initial :
  forall s o s' ev r i l,
  step s o = (s', ev, r) -> In (ECb KFirst i l) ev -> exists c, o = OStart c /\ i = next s.
Proof. exact first_startup_only_in_start. Qed.
Print Assumptions C16_first_startup_only_initial.

(* over a whole history the first-startup callbacks of instance i are either never run or run in
   ONE operation, the Start that created i: in order, up to the first error — all of them, once
   each, when that Start succeeds *)
Theorem C16_first_startup_exactly_once :
  forall ops i,
  let tr := trace (run init ops) in
  proj KFirst i tr = [] \/
  exists pre c post, ops = pre ++ OStart c :: post /\ i = next (final init pre) /\
    proj KFirst i tr = upto_fail (c_first c) /\
    (forall n, snd (step (final init pre) (OStart c)) = RInst true n ->
               n = i /\ proj KFirst i tr = labels (c_first c)).
Proof. exact first_startup_once. Qed.
Print Assumptions C16_first_startup_exactly_once.

Example C16_first_startup_exactly_once_nonvacuous :
  proj KFirst 0 (trace (run init [OStart quirk_new; ORestart 0 quirk_new; ORestart 1 quirk_new; OExecShutdown])) = []
  /\ proj KStartup 2 (trace (run init [OStart quirk_new; ORestart 0 quirk_new; ORestart 1 quirk_new; OExecShutdown])) = [0].
Proof. vm_compute. split; reflexivity. Qed.

(* ---- startup callbacks: once per instance, before it accepts connections ---- *)
Theorem C16_startup_exactly_once :
  forall ops i,
  let tr := trace (run init ops) in
  proj KStartup i tr = [] \/
  exists pre o post c, ops = pre ++ o :: post /\ i = next (final init pre) /\
    (o = OStart c \/ exists h, o = ORestart h c) /\
    proj KStartup i tr = upto_fail (c_startup c) /\
    (forall n, snd (step (final init pre) o) = RInst true n ->
               n = i /\ proj KStartup i tr = labels (c_startup c)).
Proof. exact startup_once. Qed.
Print Assumptions C16_startup_exactly_once.

(* in every operation, for every instance: after one of its listeners exists (Listen or a
   listener taken over) or one of its servers serves, none of its startup / first-startup
   callbacks runs any more — together with the theorem above (they run in the creating operation
   only) the callbacks precede the instance accepting connections *)
Theorem C16_startup_before_accepting :
  forall s o s' ev r i,
  step s o = (s', ev, r) -> ordered (startup_cb i) (is_accept i) ev = true.
Proof. exact startup_before_accept. Qed.
Print Assumptions C16_startup_before_accepting.

(* the complete event list of a successful casket.Start *)
Theorem C16_start_ok_order :
  forall s c s' ev n,
  step s (OStart c) = (s', ev, RInst true n) ->
  exists li saved,
    n = next s /\ listen_loop false [] 0 n 0 (c_servers c) = (li, true, saved) /\
    forallb (is_listen_ev n 0) li = true /\
    ev = ENew n :: EMake n :: cb_events KFirst n (labels (c_first c)) ++ cb_events KStartup n (labels (c_startup c))
         ++ li ++ serve_events n saved ++ after_events n saved ++ [EHook HInstanceStartup n].
Proof. exact start_ok_shape. Qed.
Print Assumptions C16_start_ok_order.

Theorem C16_start_failed_events :
  forall s c s' ev n e,
  step s (OStart c) = (s', ev, RInst false n) -> In e ev ->
  e = ENew (next s) \/ e = EMake (next s) \/ (exists l, e = ECb KFirst (next s) l) \/
  (exists l, e = ECb KStartup (next s) l) \/ is_listen_ev (next s) 0 e = true.
Proof. exact start_fail_events. Qed.
Print Assumptions C16_start_failed_events.

(* ---- a successful reload ---- *)
(* the complete event list, for every state and configuration: ALL of the old instance's restart
   callbacks, then the new instance is set up (NewContext, MakeServers), ALL its startup
   callbacks, its listeners (li: Listen / hand-over events of the new instance n and File() of
   the old listeners only), its servers start serving, then the old servers are stopped (e3:
   Stop / Serve-returned events of the old instance h only), then ALL of the old instance's
   shutdown callbacks exactly once, then the instance-startup event.  No first-startup, no
   restart-failed and no final-shutdown callback of anyone. *)
Theorem C16_reload_ok_order :
  forall s h c s' ev n,
  step s (ORestart h c) = (s', ev, RInst true n) ->
  exists o li saved e3,
    find_inst h (known s) = Some o /\ n = next s /\
    listen_loop true (i_srv o) h n 0 (c_servers c) = (li, true, saved) /\
    forallb (is_listen_ev n h) li = true /\ forallb (is_stop_ev h) e3 = true /\
    ev = cb_events KRestart h (labels (c_restart (i_cfg o)))
         ++ (ENew n :: EMake n :: cb_events KStartup n (labels (c_startup c)) ++ li ++ serve_events n saved)
         ++ e3
         ++ cb_events KShutdown h (labels (c_shutdown (i_cfg o)))
         ++ [EHook HInstanceStartup n].
Proof. exact reload_ok_shape. Qed.
Print Assumptions C16_reload_ok_order.

Example C16_reload_ok_order_nonvacuous :
  snd (step (final init [OStart quirk_new]) (ORestart 0 quirk_new)) = RInst true 1.
Proof. vm_compute. reflexivity. Qed.

(* ---- a failed reload: restart-failed callbacks and nothing else of the old instance ---- *)
(* for every state, every old and every new configuration and every stage at which the reload
   fails (an OnRestart callback, parsing, a directive's setup, MakeServers, an OnStartup callback
   of the new instance, Listen, taking a listener over — there is no other: once the new
   instance serves, the reload succeeds whatever the old instance's OnShutdown callbacks
   return, F-C16-1 repaired): the old instance stays exactly as it was (live, serving, wait
   group unchanged) and its events are its restart callbacks up to the failing one and then ALL
   its restart-failed callbacks; e2 is the attempt to start the new instance ... *)
Theorem C16_reload_fail_only_restart_failed :
  forall s h c s' ev h' o,
  step s (ORestart h c) = (s', ev, RInst false h') ->
  find_inst h (known s) = Some o ->
  h' = h /\
  insts s' = insts s /\ known s' = known s /\ serving s' = serving s /\ once s' = once s /\
  (forall x, wg s' x = wg s x) /\
  exists e2,
    (e2 = [] \/ exists saved, start_plan c (next s) true (i_srv o) h = (e2, false, saved)) /\
    ev = cb_events KRestart h (upto_fail (c_restart (i_cfg o))) ++ e2
         ++ cb_events KRestartFailed h (labels (c_rfailed (i_cfg o))).
Proof. exact reload_fail_only_restart_failed. Qed.
Print Assumptions C16_reload_fail_only_restart_failed.

(* the former refutation witness: an OnShutdown callback of the old instance returns an error
   during the reload — the reload succeeds, ALL the old shutdown callbacks run, no
   restart-failed callback does, and the new instance is the one live and serving *)
Example C16_reload_ok_despite_old_shutdown_error :
  let res := step (final init [OStart quirk_old]) (ORestart 0 quirk_new) in
  snd res = RInst true 1 /\
  In (EStop 0 0) (snd (fst res)) /\ In (ECb KShutdown 0 0) (snd (fst res)) /\
  In (ECb KShutdown 0 1) (snd (fst res)) /\ ~ In (ECb KRestartFailed 0 0) (snd (fst res)) /\
  In (EServe 1 0) (snd (fst res)) /\
  map i_id (insts (fst (fst res))) = [1].
Proof. exact reload_ok_despite_shutdown_error. Qed.

(* ... which logs only the new instance's own set-up, startup callbacks and listeners, and File()
   of old listeners: no Stop, no shutdown / final-shutdown callback, nothing served *)
Theorem C16_failed_reload_start_events :
  forall c i old oi ev saved e,
  start_plan c i true old oi = (ev, false, saved) -> In e ev ->
  e = ENew i \/ e = EMake i \/ (exists n, e = ECb KStartup i n) \/ is_listen_ev i oi e = true.
Proof. exact failed_reload_start_events. Qed.
Print Assumptions C16_failed_reload_start_events.

Example C16_reload_fail_only_restart_failed_nonvacuous :
  snd (step (final init [OStart quirk_new])
            (ORestart 0 (mkCfg false false false [] [mkCb 0 false; mkCb 1 true] [] [] [] [] [] false))) = RInst false 0.
Proof. vm_compute. reflexivity. Qed.

(* restart and restart-failed callbacks run only in a reload of their own instance *)
Theorem C16_restart_callbacks_only_in_reload :
  forall s o s' ev r k i l,
  step s o = (s', ev, r) -> In (ECb k i l) ev -> k = KRestart \/ k = KRestartFailed ->
  exists c, o = ORestart i c.
Proof. exact restart_cbs_only_in_restart. Qed.
Print Assumptions C16_restart_callbacks_only_in_reload.

(* ---- final-shutdown callbacks only at process shutdown ---- *)
(* only executeShutdownCallbacks (the signal handlers) and an explicit Instance.ShutdownCallbacks
   invoke OnFinalShutdown callbacks: never a start, a reload (successful or not) or a stop *)
Theorem C16_final_shutdown_only_at_exit :
  forall s o s' ev r i l,
  step s o = (s', ev, r) -> In (ECb KFinal i l) ev ->
  o = OExecShutdown \/ exists h, o = OShutdownCbs h /\ i = h.
Proof. exact final_shutdown_only_at_exit. Qed.
Print Assumptions C16_final_shutdown_only_at_exit.

(* ---- process shutdown runs the shutdown callbacks once however many signals arrive ---- *)
(* for every history pre without a shutdown signal and EVERY continuation post (any number of
   further executeShutdownCallbacks calls, anything in between): all the events produced by all
   the executeShutdownCallbacks calls together are one shutdown event followed by the shutdown
   and final-shutdown callbacks of each instance live at the first call, each list once, in
   instance order (all of them, whatever they return) *)
Theorem C16_shutdown_once_any_signals :
  forall pre post,
  forallb (fun o => negb (is_exec o)) pre = true ->
  exec_events (run init (pre ++ OExecShutdown :: post)) =
  EHook HShutdown 0 :: all_shutdown (insts (final init pre)).
Proof. exact shutdown_once_any_signals. Qed.
Print Assumptions C16_shutdown_once_any_signals.

Example C16_shutdown_once_any_signals_nonvacuous :
  exec_events (run init ([OStart quirk_new; ORestart 0 quirk_new] ++ OExecShutdown :: [OExecShutdown; OStopAll; OExecShutdown]))
  = [EHook HShutdown 0; ECb KShutdown 1 0].
Proof. vm_compute. reflexivity. Qed.

(* ---- whole histories: instance numbers, shutdown callbacks at most / exactly once ---- *)
(* after every history: live instances are known, all instance numbers are below the next one
   and pairwise different (so "each live instance" in the theorems below means each once) *)
Theorem C16_live_instances_distinct :
  forall ops, good (final init ops).
Proof. exact live_instances_distinct. Qed.
Print Assumptions C16_live_instances_distinct.

(* [wf_from init ops]: the embedding program reloads only instances that are live, not after
   process shutdown began, and does not call Instance.ShutdownCallbacks itself.  Over EVERY such
   history (any starts, successful and failed reloads, stops, signals) the shutdown callbacks of
   every instance run at most once, in order: not at all, or all of them (also when some of them
   return errors during a reload); instances that never started run none *)
Theorem C16_shutdown_callbacks_at_most_once :
  forall ops,
  wf_from init ops ->
  (forall x, In x (known (final init ops)) -> sd_ok x (proj KShutdown (i_id x) (trace (run init ops)))) /\
  (forall j, ~ In j (ids (known (final init ops))) -> proj KShutdown j (trace (run init ops)) = []).
Proof. exact shutdown_at_most_once. Qed.
Print Assumptions C16_shutdown_callbacks_at_most_once.

(* process shutdown: whatever happened before the first signal and however many signals (and
   Stop / Wait) follow, every instance live at the first signal has ALL its shutdown callbacks and
   ALL its final-shutdown callbacks run exactly once over the WHOLE history, in order *)
Theorem C16_process_shutdown_exactly_once :
  forall pre post x,
  forallb (fun o => negb (is_exec o)) pre = true ->
  wf_from init (pre ++ OExecShutdown :: post) ->
  In x (insts (final init pre)) ->
  let tr := trace (run init (pre ++ OExecShutdown :: post)) in
  proj KShutdown (i_id x) tr = labels (c_shutdown (i_cfg x)) /\
  proj KFinal (i_id x) tr = labels (c_final (i_cfg x)).
Proof. exact process_shutdown_exactly_once. Qed.
Print Assumptions C16_process_shutdown_exactly_once.

Example C16_process_shutdown_exactly_once_nonvacuous :
  wf_from init ([OStart quirk_old; ORestart 0 quirk_new; OStart quirk_new] ++ OExecShutdown :: [OExecShutdown; OStopAll; OWait 1])
  /\ map i_id (insts (final init [OStart quirk_old; ORestart 0 quirk_new; OStart quirk_new])) = [1; 2].
Proof. vm_compute. repeat split; auto. Qed.

(* ---- waiting ---- *)
(* after every history, the wait-group counter of each lineage equals the number of Serve
   goroutines of that lineage still running *)
Theorem C16_wait_group_counts_serving :
  forall ops r, wg (final init ops) r = cnt r (serving (final init ops)).
Proof. exact wg_counts_serving. Qed.
Print Assumptions C16_wait_group_counts_serving.

(* hence Instance.Wait returns only when no server accounted to the instance's lineage is serving *)
Theorem C16_wait_after_all_servers_of_lineage :
  forall ops h s' ev,
  step (final init ops) (OWait h) = (s', ev, RBool true) ->
  exists o, find_inst h (known (final init ops)) = Some o /\
            forall x, In x (serving (final init ops)) -> snd x <> i_root o.
Proof. exact wait_after_all_servers. Qed.
Print Assumptions C16_wait_after_all_servers_of_lineage.

(* every running Serve goroutine belongs to a known instance and holds that instance's wait group;
   so when Wait on h returns, no server of ANY instance of h's lineage — h itself, its
   predecessors and all its successors (they share the wait group, see below) — is serving *)
Theorem C16_wait_means_lineage_stopped :
  forall ops h s' ev o,
  step (final init ops) (OWait h) = (s', ev, RBool true) ->
  find_inst h (known (final init ops)) = Some o ->
  forall x, In x (known (final init ops)) -> i_root x = i_root o ->
  forall j r, ~ In (i_id x, j, r) (serving (final init ops)).
Proof. exact wait_means_lineage_stopped. Qed.
Print Assumptions C16_wait_means_lineage_stopped.

(* the Serve goroutines of the state are exactly the servers the event trace shows serving and not
   yet returned ([serving_of tr []]: Serve events minus Serve-returned events, in order) ... *)
Theorem C16_serving_matches_trace :
  forall ops, map fst (serving (final init ops)) = serving_of (trace (run init ops)) [].
Proof. exact serving_matches_trace. Qed.
Print Assumptions C16_serving_matches_trace.

(* ... hence, on the trace alone: Wait returns only after every server of the instance's lineage
   that began serving has returned *)
Theorem C16_wait_after_lineage_servers_returned :
  forall ops h s' ev o,
  step (final init ops) (OWait h) = (s', ev, RBool true) ->
  find_inst h (known (final init ops)) = Some o ->
  forall x, In x (known (final init ops)) -> i_root x = i_root o ->
  forall j, ~ In (i_id x, j) (serving_of (trace (run init ops)) []).
Proof. exact wait_trace. Qed.
Print Assumptions C16_wait_after_lineage_servers_returned.

(* ... and the successor created by a reload is accounted to the lineage of the instance it
   replaces (same wait group), in every state *)
Theorem C16_successor_shares_wait_group :
  forall s h c s' ev n,
  step s (ORestart h c) = (s', ev, RInst true n) ->
  exists o x, find_inst h (known s) = Some o /\ known s' = known s ++ [x] /\
              i_id x = n /\ i_root x = i_root o.
Proof. exact reload_shares_wait_group. Qed.
Print Assumptions C16_successor_shares_wait_group.

Example C16_wait_nonvacuous :
  (* waiting on the replaced instance blocks while its successor serves, returns after Stop *)
  snd (step (final init [OStart quirk_new; ORestart 0 quirk_new]) (OWait 0)) = RBool false /\
  snd (step (final init [OStart quirk_new; ORestart 0 quirk_new; OStopAll]) (OWait 0)) = RBool true.
Proof. vm_compute. split; reflexivity. Qed.

(* ================================================================== deepening *)
(* ---- process shutdown against concurrent Instance.Stop ---- *)
(* [conc_step true]: allShutdownCallbacks as coded (instancesMu held for the whole loop) and the
   tail of Instance.Stop (Lock; instances = append(instances[:j], instances[j+1:]...); Unlock) as
   interleaved atomic steps over the SHARED backing array of [instances] (the splice shifts the
   array in place; the loop reads cell idx at iteration idx).  For every duplicate-free instance
   list l, every sequence pre of Stops that complete before the signal handler takes the lock
   (m1: the list at that moment = the instances live at the first signal) and EVERY schedule post
   afterwards (iterations, Stops trying to get in at any point, the release, Stops going on):
   what the handler has run is always a prefix, instance by instance, of that live list, and when
   it is through every live instance's shutdown and final-shutdown callbacks have run exactly
   once, in order — whatever Stops interleave. *)
Theorem C16_shutdown_once_under_concurrent_stop :
  forall l pre post m1 m',
  NoDup (ids l) ->
  forallb is_splice pre = true ->
  conc_run true (conc_init l) pre = Some m1 ->
  conc_run true m1 (CAcquire :: post) = Some m' ->
  sh_out m' = all_shutdown (firstn (sh_idx m') (live_of m1)) /\
  (sh_done m' = true ->
   sh_out m' = all_shutdown (live_of m1) /\
   forall x, In x (live_of m1) ->
     proj KShutdown (i_id x) (sh_out m') = labels (c_shutdown (i_cfg x)) /\
     proj KFinal (i_id x) (sh_out m') = labels (c_final (i_cfg x))).
Proof. exact shutdown_once_under_concurrent_stop. Qed.
Print Assumptions C16_shutdown_once_under_concurrent_stop.

Example C16_shutdown_once_under_concurrent_stop_nonvacuous :
  (* one Stop before the signal, two trying to get in during the loop, one after it *)
  match conc_run true (conc_init conc_three) [CSplice 1] with
  | Some m1 =>
      match conc_run true m1 [CAcquire; CIter; CSplice 0; CIter; CSplice 2; CRelease; CSplice 2] with
      | None => True   (* the Stops are blocked while the lock is held ... *)
      | Some _ => False
      end /\
      match conc_run true m1 [CAcquire; CIter; CIter; CRelease; CSplice 2] with
      | Some m' => sh_done m' = true /\ map i_id (live_of m1) = [0; 2] /\ map i_id (live_of m') = [0] /\
                   sh_out m' = [ECb KShutdown 0 0; ECb KFinal 0 0; ECb KShutdown 2 0; ECb KFinal 2 0]
      | None => False
      end
  | None => False
  end.
Proof. vm_compute. repeat split; reflexivity. Qed.

(* the splice of the concurrent Stop is the sequential model's [remove_id] on the live list (so
   the array model and the list model of [step] agree on what "live" means), and it is blocked
   exactly while the handler holds the lock *)
Theorem C16_concurrent_splice_is_sequential_stop :
  forall w m h m',
  sh_len m <= length (sh_arr m) ->
  conc_step w m (CSplice h) = Some m' ->
  live_of m' = remove_id h (live_of m) /\ sh_len m' <= length (sh_arr m') /\
  sh_n m' = sh_n m /\ sh_out m' = sh_out m /\ sh_idx m' = sh_idx m /\ sh_done m' = sh_done m /\ sh_lock m' = false.
Proof. exact splice_step. Qed.
Print Assumptions C16_concurrent_splice_is_sequential_stop.

(* Stops cannot starve the handler: once it holds the lock it can run to the end *)
Theorem C16_shutdown_handler_can_finish :
  forall m0, sh_len m0 <= length (sh_arr m0) -> forall k m,
  held m0 m -> sh_done m = false -> k = sh_len m0 - sh_idx m ->
  exists m', conc_run true m (repeat CIter k ++ [CRelease]) = Some m' /\ sh_done m' = true.
Proof. exact handler_can_finish. Qed.
Print Assumptions C16_shutdown_handler_can_finish.

Example C16_shutdown_handler_can_finish_nonvacuous :
  exists m0 m1, conc_step true (conc_init conc_three) CAcquire = Some m1 /\ held m0 m1 /\
                sh_len m0 <= length (sh_arr m0) /\ sh_done m1 = false /\ sh_len m0 - sh_idx m1 = 3.
Proof.
  eexists. eexists. split; [reflexivity|]. split; [apply (acquire_held (conc_init conc_three)); reflexivity|].
  vm_compute. repeat split; auto.
Qed.

(* the statement is false of the variant that copies the slice header under the lock and
   iterates outside it ([conc_step false]): three live instances, the first one stopped while
   its callback runs — the second instance's callbacks never run, the third one's run twice *)
Theorem C16_shutdown_unlocked_snapshot_refuted :
  exists cs m', conc_run false (conc_init conc_three) cs = Some m' /\ sh_done m' = true /\
    proj KShutdown 1 (sh_out m') = [] /\ proj KShutdown 2 (sh_out m') = [0; 0] /\
    proj KFinal 2 (sh_out m') = [0; 0].
Proof. exact unlocked_snapshot_refuted. Qed.
Print Assumptions C16_shutdown_unlocked_snapshot_refuted.

(* ---- a server's Stop error (drain timeout) does not fail a reload ---- *)
(* [restart_body_e]: Instance.Restart with the servers' stop errors and its
   `err = i.Stop(); if err != nil { return i, err }` written out; [stop_inst_e] is Instance.Stop
   with `log.Printf("[ERROR] Stopping ...")` per failing server and its `return nil`.  They are
   what [step] runs: Instance.Stop returns nil whatever its servers return ... *)
Theorem C16_instance_stop_returns_nil :
  forall o s, stop_inst_e o s = (let '(s', ev) := stop_inst o s in (s', ev, stop_err_ids (i_srv o), false)).
Proof. exact stop_inst_e_refines. Qed.
Print Assumptions C16_instance_stop_returns_nil.

Theorem C16_restart_with_stop_errors_refines :
  forall o c s, restart_body_e o c s = restart_body o c s.
Proof. exact restart_body_e_eq. Qed.
Print Assumptions C16_restart_with_stop_errors_refines.

(* ... so once the old instance's restart callbacks and the start of the new instance have
   succeeded, the reload succeeds whatever the old servers' Stop calls return (ANY of them may
   time out): every graceful server of the old instance is stopped (also those after a failing
   one), ALL its shutdown callbacks run, no restart-failed callback does, the old instance is
   spliced out of the list and the new one is returned *)
Theorem C16_stop_error_does_not_fail_reload :
  forall o c s e2 saved,
  existsb cb_fail (c_restart (i_cfg o)) = false ->
  start_plan c (next s) true (i_srv o) (i_id o) = (e2, true, saved) ->
  exists s' e3,
    restart_body_e o c s =
      (s', cb_events KRestart (i_id o) (labels (c_restart (i_cfg o))) ++ e2 ++ e3
           ++ cb_events KShutdown (i_id o) (labels (c_shutdown (i_cfg o))) ++ [EHook HInstanceStartup (next s)],
       RInst true (next s)) /\
    forallb (is_stop_ev (i_id o)) e3 = true /\
    (forall j sp, In (j, sp) (i_srv o) -> sv_graceful sp = true -> In (EStop (i_id o) j) e3) /\
    insts s' = remove_id (i_id o) (insts s ++ [mkInst (next s) (i_root o) c saved]).
Proof. exact stop_error_does_not_fail_reload. Qed.
Print Assumptions C16_stop_error_does_not_fail_reload.

Example C16_stop_error_does_not_fail_reload_nonvacuous :
  (* the first of two old servers times out while draining *)
  let res := step (final init [OStart stop_err_old]) (ORestart 0 quirk_new) in
  snd res = RInst true 1 /\
  stop_err_ids (i_srv (mkInst 0 0 stop_err_old [(0, mkSrv 0 true 1 false true); (1, mkSrv 1 true 1 false false)])) = [0] /\
  stop_ids 0 (snd (fst res)) = [0; 1] /\ proj KShutdown 0 (snd (fst res)) = [0] /\
  proj KRestartFailed 0 (snd (fst res)) = [] /\ map i_id (insts (fst (fst res))) = [1].
Proof. vm_compute. repeat split; reflexivity. Qed.

(* ---- a plugin that panics while the configuration is set up ---- *)
(* casket.Start does not recover: the panic reaches the caller after NewContext only, and the
   clean-up keyed on startWithListenerFds' [succeeded] flag leaves nothing of the instance *)
Theorem C16_start_panic_leaves_nothing :
  forall s c s' ev,
  step s (OStart c) = (s', ev, RPanic) ->
  c_setup_panic c = true /\ ev = [ENew (next s)] /\
  insts s' = insts s /\ known s' = known s /\ serving s' = serving s /\ once s' = once s /\
  (forall x, wg s' x = wg s x).
Proof. exact start_panic_leaves_nothing. Qed.
Print Assumptions C16_start_panic_leaves_nothing.

Theorem C16_restart_never_panics :
  forall s h c s' ev r, step s (ORestart h c) = (s', ev, r) -> r <> RPanic.
Proof. exact restart_never_panics. Qed.
Print Assumptions C16_restart_never_panics.

(* Instance.Restart turns the panic into an error: a failed reload like any other (the old
   restart callbacks, NewContext of the rejected instance, ALL restart-failed callbacks, the old
   instance returned, everything as it was) *)
Theorem C16_reload_panicking_setup_fails :
  forall s h c o,
  find_inst h (known s) = Some o ->
  c_parse_fail c = false -> c_setup_panic c = true ->
  existsb cb_fail (c_restart (i_cfg o)) = false ->
  exists s',
    step s (ORestart h c) =
      (s', cb_events KRestart h (labels (c_restart (i_cfg o))) ++ [ENew (next s)]
           ++ cb_events KRestartFailed h (labels (c_rfailed (i_cfg o))), RInst false h) /\
    insts s' = insts s /\ known s' = known s /\ serving s' = serving s /\ once s' = once s /\
    (forall x, wg s' x = wg s x).
Proof. exact reload_panicking_setup_fails. Qed.
Print Assumptions C16_reload_panicking_setup_fails.

Example C16_panicking_setup_nonvacuous :
  snd (step init (OStart panic_cfg)) = RPanic /\
  snd (step (final init [OStart quirk_new]) (ORestart 0 panic_cfg)) = RInst false 0 /\
  (* the next start gets a fresh instance number; process shutdown runs the live one only *)
  exec_events (run init [OStart quirk_new; ORestart 0 panic_cfg; OStart panic_cfg; OExecShutdown])
    = [EHook HShutdown 0; ECb KShutdown 0 0].
Proof. vm_compute. repeat split; reflexivity. Qed.

(* ---- a reload is never mistaken for a first start ---- *)
(* whatever the old instance looks like (no server at all, only non-graceful servers, listeners
   without a file descriptor: restartFds is an EMPTY map, never nil), a reload — successful or
   not — runs no first-startup callback of anyone and no OnStartupComplete *)
Theorem C16_reload_never_first_start :
  forall s h c s' ev r,
  step s (ORestart h c) = (s', ev, r) ->
  (forall i l, ~ In (ECb KFirst i l) ev) /\ (forall i j, ~ In (EAfter i j) ev).
Proof. exact reload_never_first_start. Qed.
Print Assumptions C16_reload_never_first_start.

(* when nothing can be handed over, every listener of the new instance is obtained exactly as in
   a first start ([listen_loop false []]) — and that is the ONLY thing the reload shares with
   one: the complete event list *)
Theorem C16_reload_without_inheritable_listener :
  forall s h c s' ev n o,
  step s (ORestart h c) = (s', ev, RInst true n) ->
  find_inst h (known s) = Some o ->
  (forall a, fds_lookup a (i_srv o) = None) ->
  exists li saved e3,
    n = next s /\ listen_loop false [] 0 n 0 (c_servers c) = (li, true, saved) /\
    forallb (is_listen_ev n 0) li = true /\ forallb (is_stop_ev h) e3 = true /\
    ev = cb_events KRestart h (labels (c_restart (i_cfg o)))
         ++ (ENew n :: EMake n :: cb_events KStartup n (labels (c_startup c)) ++ li ++ serve_events n saved)
         ++ e3 ++ cb_events KShutdown h (labels (c_shutdown (i_cfg o))) ++ [EHook HInstanceStartup n].
Proof. exact reload_without_inheritable_listener. Qed.
Print Assumptions C16_reload_without_inheritable_listener.

Example C16_reload_without_inheritable_listener_nonvacuous :
  (* old instance: a graceful server on a listener without File() and a non-graceful one *)
  let res := step (final init [OStart nofd_old]) (ORestart 0 nofd_old) in
  snd res = RInst true 1 /\ proj KFirst 1 (snd (fst res)) = [] /\ proj KStartup 1 (snd (fst res)) = [0] /\
  In (EListen 1 0 true) (snd (fst res)) /\ In (EListen 1 1 true) (snd (fst res)) /\
  fds_lookup 0 [(0, mkSrv 0 true 0 false false); (1, mkSrv 1 false 1 false false)] = None /\
  fds_lookup 1 [(0, mkSrv 0 true 0 false false); (1, mkSrv 1 false 1 false false)] = None.
Proof. vm_compute. repeat split; auto 20. Qed.

(* ================================================================== Restart against signals and Stops (small-step, all schedules) *)
Theorem C16_race_handlers_exactly_once :
  forall (l : list inst) (p : list ract) (cs : list rchoice) (m : rst),
    NoDup (ids l) -> rrun (rinit l p) cs = Some m ->
    NoDup (ids (r_iters m)) /\
    htrace m = (if r_once m then [EHook HShutdown 0] else []) ++ all_shutdown (r_iters m).
Proof. exact race_handlers_once. Qed.
Print Assumptions C16_race_handlers_exactly_once.

Theorem C16_race_restart_program_order :
  forall (l : list inst) (p : list ract) (cs : list rchoice) (m : rst),
    rrun (rinit l p) cs = Some m -> rtrace m ++ prog_events (r_prog m) = prog_events p.
Proof. exact race_program_order. Qed.
Print Assumptions C16_race_restart_program_order.

Theorem C16_race_restart_program_refines :
  forall (o : inst) (c : config) (s : state),
    prog_events (restart_prog o c s) = snd (fst (restart_body o c s)).
Proof. exact restart_prog_refines. Qed.
Print Assumptions C16_race_restart_program_refines.

(* "each OnShutdown callback at most once" and "OnStartup before any OnShutdown of the same
   instance" are FALSE under a signal that arrives during a reload *)
Theorem C16_race_shutdown_at_most_once_refuted :
  exists m, rrun (rinit (insts race_state) (restart_prog race_old race_cfg race_state)) race_sched = Some m
            /\ r_prog m = [] /\ NoDup (ids (insts race_state))
            /\ count_ev (ECb KShutdown 0 0) (ftrace m) = 2
            /\ ordered (is_cb KStartup 1) (is_cb KShutdown 1) (ftrace m) = false.
Proof. exact race_old_shutdown_twice. Qed.
Print Assumptions C16_race_shutdown_at_most_once_refuted.

Example C16_race_handlers_exactly_once_nonvacuous :
  exists m, rrun (rinit (insts race_state) (restart_prog race_old race_cfg race_state)) race_sched = Some m
            /\ NoDup (ids (insts race_state)) /\ r_once m = true /\ length (r_iters m) = 2.
Proof. eexists. split; [vm_compute; reflexivity|]. split; [vm_compute; repeat constructor; simpl; tauto|]. split; reflexivity. Qed.

Theorem C16_race_shutdown_at_most_once_partial :
  forall (l : list inst) (p : list ract) (cs : list rchoice) (m : rst),
    NoDup (ids l) -> rrun (rinit l p) cs = Some m ->
    NoDup (ids (r_iters m)) /\
    forall e, count_ev e (ftrace m) <=
              count_ev e ((if r_once m then [EHook HShutdown 0] else []) ++ all_shutdown (r_iters m))
              + count_ev e (prog_events p).
Proof. exact race_whole_trace_bound. Qed.
Print Assumptions C16_race_shutdown_at_most_once_partial.

Example C16_race_shutdown_at_most_once_partial_nonvacuous :
  exists m, rrun (rinit (insts race_state) (restart_prog race_old race_cfg race_state)) race_sched = Some m
            /\ NoDup (ids (insts race_state)) /\ count_ev (ECb KFinal 0 0) (ftrace m) = 0
            /\ count_ev (ECb KShutdown 1 0) (ftrace m) = 1.
Proof. eexists. split; [vm_compute; reflexivity|]. split; [vm_compute; repeat constructor; simpl; tauto|]. split; reflexivity. Qed.
