(* C16 — lemmas and proofs about the lifecycle model. *)
Require Import V.Lib V.C16_Model.
From Coq Require Import Arith Lia.
Open Scope nat_scope.

(* ------------------------------------------------------------------ small list facts *)
Lemma kind_eqb_refl k : kind_eqb k k = true.
Proof. destruct k; reflexivity. Qed.

Lemma kind_eqb_eq a b : kind_eqb a b = true <-> a = b.
Proof. destruct a, b; simpl; split; intro H; try reflexivity; try discriminate. Qed.

Lemma proj_app k i a b : proj k i (a ++ b) = proj k i a ++ proj k i b.
Proof. unfold proj. rewrite filter_app, map_app. reflexivity. Qed.

Lemma is_cb_true k i e : is_cb k i e = true <-> exists n, e = ECb k i n.
Proof.
  split.
  - destruct e; try discriminate. unfold is_cb. intro H.
    apply andb_true_iff in H. destruct H as [H1 H2].
    apply kind_eqb_eq in H1. apply Nat.eqb_eq in H2. subst. eauto.
  - intros [n ->]. unfold is_cb. rewrite kind_eqb_refl, Nat.eqb_refl. reflexivity.
Qed.

Lemma proj_nil_iff k i l : proj k i l = [] <-> forall n, ~ In (ECb k i n) l.
Proof.
  unfold proj. induction l as [|e l IH]; simpl.
  - split; intros; auto.
  - destruct (is_cb k i e) eqn:E; simpl.
    + split; [discriminate|]. intros H. exfalso.
      apply is_cb_true in E as [n ->]. apply (H n). left. reflexivity.
    + rewrite IH. split.
      * intros H n [H1|H1].
        -- subst e. rewrite (proj2 (is_cb_true k i _)) in E by eauto. discriminate.
        -- apply (H n H1).
      * intros H n H1. apply (H n). right. exact H1.
Qed.

Lemma proj_cbs_same k i ns : proj k i (map (fun n => ECb k i n) ns) = ns.
Proof.
  unfold proj. induction ns as [|n ns IH]; simpl; [reflexivity|].
  rewrite kind_eqb_refl, Nat.eqb_refl. simpl. rewrite IH. reflexivity.
Qed.

Lemma proj_cbs_other k i k' i' ns :
  kind_eqb k k' && (i =? i') = false -> proj k i (map (fun n => ECb k' i' n) ns) = [].
Proof.
  intro H. unfold proj. induction ns as [|n ns IH]; simpl; [reflexivity|].
  rewrite H. exact IH.
Qed.

Lemma proj_none k i l : (forall e, In e l -> is_cb k i e = false) -> proj k i l = [].
Proof.
  intro H. unfold proj. induction l as [|e l IH]; simpl; [reflexivity|].
  rewrite (H e (or_introl eq_refl)). apply IH. intros e' He'. apply H. right. exact He'.
Qed.

(* ------------------------------------------------------------------ callbacks *)
Definition cb_events (k : kind) (i : nat) (ns : list nat) : list event := map (fun n => ECb k i n) ns.

Lemma run_all_labels k i l : run_all k i l = cb_events k i (labels l).
Proof. unfold run_all, cb_events, labels. rewrite map_map. reflexivity. Qed.

Lemma run_stop_events k i l : fst (run_stop k i l) = cb_events k i (upto_fail l).
Proof.
  induction l as [|c l IH]; simpl; [reflexivity|].
  destruct (cb_fail c); simpl; [reflexivity|].
  destruct (run_stop k i l) as [ev ok]. simpl in *. rewrite IH. reflexivity.
Qed.

Lemma run_stop_ok k i l : snd (run_stop k i l) = negb (existsb cb_fail l).
Proof.
  induction l as [|c l IH]; simpl; [reflexivity|].
  destruct (cb_fail c); simpl; [reflexivity|].
  destruct (run_stop k i l) as [ev ok]. simpl in *. exact IH.
Qed.

Lemma upto_fail_all l : existsb cb_fail l = false -> upto_fail l = labels l.
Proof.
  induction l as [|c l IH]; simpl; [reflexivity|].
  destruct (cb_fail c); simpl; [discriminate|]. intro H. rewrite IH; auto.
Qed.

Lemma upto_fail_prefix l : is_prefix (upto_fail l) (labels l) = true.
Proof.
  induction l as [|c l IH]; simpl; [reflexivity|].
  destruct (cb_fail c); simpl; rewrite Nat.eqb_refl; simpl; [reflexivity|exact IH].
Qed.

Lemma run_stop_split k i l ev ok :
  run_stop k i l = (ev, ok) ->
  ev = cb_events k i (upto_fail l) /\ ok = negb (existsb cb_fail l).
Proof.
  intro H. pose proof (run_stop_events k i l) as H1. pose proof (run_stop_ok k i l) as H2.
  rewrite H in *. simpl in *. auto.
Qed.

(* ------------------------------------------------------------------ [ordered] *)
Lemma ordered_spec early late l :
  ordered early late l = true <->
  (forall l1 e l2, l = l1 ++ e :: l2 -> late e = true -> forall e', In e' l2 -> early e' = false).
Proof.
  induction l as [|x l IH]; simpl.
  - split; [|reflexivity]. intros _ l1 e l2 H. destruct l1; discriminate.
  - rewrite andb_true_iff, IH. split.
    + intros [H1 H2] l1 e l2 Heq Hl e' He'.
      destruct l1 as [|y l1]; simpl in Heq; injection Heq as <- Heq.
      * subst l2. rewrite Hl in H1. apply negb_true_iff in H1.
        destruct (early e') eqn:E; [|reflexivity].
        assert (existsb early l = true) as C by (apply existsb_exists; eauto). congruence.
      * eapply H2; eauto.
    + intro H. split.
      * destruct (late x) eqn:E; [|reflexivity]. apply negb_true_iff.
        destruct (existsb early l) eqn:E2; [|reflexivity].
        apply existsb_exists in E2 as [e' [H1 H2]].
        rewrite (H [] x l eq_refl E e' H1) in H2. discriminate.
      * intros l1 e l2 Heq. apply (H (x :: l1) e l2). simpl. rewrite Heq. reflexivity.
Qed.

Lemma ordered_app early late a b :
  ordered early late (a ++ b) =
  ordered early late a && ordered early late b && (negb (existsb late a) || negb (existsb early b)).
Proof.
  induction a as [|x a IH]; simpl.
  - rewrite andb_true_r. reflexivity.
  - rewrite IH, existsb_app. destruct (late x); simpl.
    + destruct (existsb early a), (existsb early b), (ordered early late a), (ordered early late b), (existsb late a);
        reflexivity.
    + destruct (ordered early late a), (ordered early late b); reflexivity.
Qed.

Lemma ordered_no_late early late l : existsb late l = false -> ordered early late l = true.
Proof.
  induction l as [|x l IH]; simpl; [reflexivity|].
  intro H. apply orb_false_iff in H as [H1 H2]. rewrite H1. simpl. auto.
Qed.

Lemma ordered_no_early early late l : existsb early l = false -> ordered early late l = true.
Proof.
  induction l as [|x l IH]; simpl; [reflexivity|].
  intro H. apply orb_false_iff in H as [H1 H2]. rewrite H2, IH by exact H2.
  destruct (late x); reflexivity.
Qed.

Lemma existsb_false_iff {A} (f : A -> bool) l : existsb f l = false <-> forall x, In x l -> f x = false.
Proof.
  induction l as [|y l IH]; simpl.
  - split; intros; auto. contradiction.
  - rewrite orb_false_iff, IH. split.
    + intros [H1 H2] x [Hx|Hx]; [subst; auto|auto].
    + intro H. split; [apply H; left; reflexivity|]. intros x Hx. apply H. right. exact Hx.
Qed.

(* ------------------------------------------------------------------ startServers / startWithListenerFds *)
Definition is_listen_ev (i oi : nat) (e : event) : bool :=
  match e with
  | EListen i' _ _ | EInherit i' _ => i' =? i
  | EFile o _ _ => o =? oi
  | _ => false
  end.
Definition is_tail_ev (i : nat) (e : event) : bool :=
  match e with EServe i' _ | EAfter i' _ => i' =? i | _ => false end.

Lemma listen_loop_events restart old oi i l : forall j ev ok saved,
  listen_loop restart old oi i j l = (ev, ok, saved) -> forallb (is_listen_ev i oi) ev = true.
Proof.
  induction l as [|sp l IH]; intros j ev ok saved H; simpl in H.
  - injection H as <- <- <-. reflexivity.
  - destruct (if restart && sv_graceful sp then fds_lookup (sv_addr sp) old else None) as [[oj mode]|].
    + destruct (mode =? 2).
      * injection H as <- <- <-. simpl. rewrite Nat.eqb_refl. reflexivity.
      * destruct (listen_loop restart old oi i (S j) l) as [[ev' ok'] saved'] eqn:E.
        injection H as <- <- <-. simpl. rewrite !Nat.eqb_refl. simpl. eapply IH; eauto.
    + destruct (sv_listen_fail sp).
      * injection H as <- <- <-. simpl. rewrite Nat.eqb_refl. reflexivity.
      * destruct (listen_loop restart old oi i (S j) l) as [[ev' ok'] saved'] eqn:E.
        injection H as <- <- <-. simpl. rewrite Nat.eqb_refl. simpl. eapply IH; eauto.
Qed.

Lemma serve_events_tail i saved : forallb (is_tail_ev i) (serve_events i saved) = true.
Proof. induction saved as [|x l IH]; simpl; [reflexivity|]. rewrite Nat.eqb_refl. exact IH. Qed.
Lemma after_events_tail i saved : forallb (is_tail_ev i) (after_events i saved) = true.
Proof. induction saved as [|x l IH]; simpl; [reflexivity|]. rewrite Nat.eqb_refl. exact IH. Qed.

Lemma is_prefix_refl l : is_prefix l l = true.
Proof. induction l as [|x l IH]; simpl; [reflexivity|]. rewrite Nat.eqb_refl. exact IH. Qed.

(* the shape of the events of startWithListenerFds *)
Inductive plan_shape (c : config) (i : nat) (restart : bool) (old : list (nat * srvspec)) (oi : nat)
       (ev : list event) (ok : bool) (saved : list (nat * srvspec)) : Prop :=
  mkShape (ps_hd : list event)
    (ps_first : list nat)
    (ps_startup : list nat)
    (ps_listen : list event)
    (ps_tail : list event)
    (ps_eq : ev = ps_hd ++ cb_events KFirst i ps_first ++ cb_events KStartup i ps_startup ++ ps_listen ++ ps_tail)
    (ps_hd_cases : ps_hd = [] \/ ps_hd = [ENew i] \/ ps_hd = [ENew i; EMake i])
    (ps_hd_parse : c_parse_fail c = true -> ev = [])
    (ps_hd_new : c_parse_fail c = false -> exists r, ps_hd = ENew i :: r)
    (ps_first_restart : restart = true -> ps_first = [])
    (ps_first_prefix : ps_first = [] \/ ps_first = upto_fail (c_first c))
    (ps_startup_prefix : ps_startup = [] \/ ps_startup = upto_fail (c_startup c))
    (ps_listen_ev : forallb (is_listen_ev i oi) ps_listen = true)
    (ps_tail_ev : forallb (is_tail_ev i) ps_tail = true)
    (ps_fail_tail : ok = false -> ps_tail = [])
    (ps_ok : ok = true ->
          c_parse_fail c = false /\ ps_hd = [ENew i; EMake i] /\
          ps_first = (if restart then [] else labels (c_first c)) /\
          ps_startup = labels (c_startup c) /\
          listen_loop restart old oi i 0 (c_servers c) = (ps_listen, true, saved) /\
          ps_tail = serve_events i saved ++ (if restart then [] else after_events i saved)).

Lemma start_plan_shape c i restart old oi ev ok saved :
  start_plan c i restart old oi = (ev, ok, saved) -> plan_shape c i restart old oi ev ok saved.
Proof.
  unfold start_plan. intro H.
  destruct (c_parse_fail c) eqn:Ep.
  { injection H as <- <- <-.
    refine (mkShape _ _ _ _ _ _ _ _ [] [] [] [] [] _ _ _ _ _ _ _ _ _ _ _); simpl; auto; try discriminate; try congruence. }
  destruct (setup_breaks c) eqn:Es.
  { injection H as <- <- <-.
    refine (mkShape _ _ _ _ _ _ _ _ [ENew i] [] [] [] [] _ _ _ _ _ _ _ _ _ _ _); simpl; eauto; try discriminate; try congruence. }
  destruct (c_make_fail c) eqn:Em.
  { injection H as <- <- <-.
    refine (mkShape _ _ _ _ _ _ _ _ [ENew i; EMake i] [] [] [] [] _ _ _ _ _ _ _ _ _ _ _); simpl; eauto; try discriminate; try congruence. }
  destruct (if restart then ([], true) else run_stop KFirst i (c_first c)) as [e1 ok1] eqn:E1.
  assert (e1 = cb_events KFirst i (if restart then [] else upto_fail (c_first c)) /\
          ok1 = (if restart then true else negb (existsb cb_fail (c_first c)))) as [He1 Hok1].
  { destruct restart. - injection E1 as <- <-. auto. - apply run_stop_split in E1. exact E1. }
  destruct ok1; simpl in H.
  2:{ injection H as <- <- <-.
      refine (mkShape _ _ _ _ _ _ _ _ [ENew i; EMake i] (if restart then [] else upto_fail (c_first c)) [] [] [] _ _ _ _ _ _ _ _ _ _ _);
        simpl; eauto; try discriminate; try congruence.
      - rewrite He1, app_nil_r. reflexivity.
      - intros ->. reflexivity.
      - destruct restart; auto. }
  destruct (run_stop KStartup i (c_startup c)) as [e2 ok2] eqn:E2.
  apply run_stop_split in E2 as [He2 Hok2].
  assert (Hf : (if restart then [] else upto_fail (c_first c)) = (if restart then [] else labels (c_first c))).
  { destruct restart; [reflexivity|]. apply upto_fail_all. symmetry in Hok1. apply negb_true_iff in Hok1. exact Hok1. }
  destruct ok2; simpl in H.
  2:{ injection H as <- <- <-.
      refine (mkShape _ _ _ _ _ _ _ _ [ENew i; EMake i] (if restart then [] else upto_fail (c_first c)) (upto_fail (c_startup c)) [] [] _ _ _ _ _ _ _ _ _ _ _);
        simpl; eauto; try discriminate; try congruence.
      - rewrite He1, He2, app_nil_r. reflexivity.
      - intros ->. reflexivity.
      - destruct restart; auto. }
  assert (Hs : upto_fail (c_startup c) = labels (c_startup c)).
  { apply upto_fail_all. symmetry in Hok2. apply negb_true_iff in Hok2. exact Hok2. }
  destruct (listen_loop restart old oi i 0 (c_servers c)) as [[e3 ok3] sv3] eqn:E3.
  pose proof (listen_loop_events _ _ _ _ _ _ _ _ _ E3) as Hl.
  destruct ok3; simpl in H.
  2:{ injection H as <- <- <-.
      refine (mkShape _ _ _ _ _ _ _ _ [ENew i; EMake i] (if restart then [] else upto_fail (c_first c)) (upto_fail (c_startup c)) e3 [] _ _ _ _ _ _ _ _ _ _ _);
        simpl; eauto; try discriminate; try congruence.
      - rewrite He1, He2, app_nil_r. reflexivity.
      - intros ->. reflexivity.
      - destruct restart; auto. }
  injection H as <- <- <-.
  refine (mkShape _ _ _ _ _ _ _ _ [ENew i; EMake i] (if restart then [] else upto_fail (c_first c)) (upto_fail (c_startup c)) e3
                  (serve_events i sv3 ++ (if restart then [] else after_events i sv3)) _ _ _ _ _ _ _ _ _ _ _);
    simpl; eauto; try discriminate; try congruence.
  - intros ->. reflexivity.
  - destruct restart; auto.
  - rewrite forallb_app, serve_events_tail. destruct restart; [reflexivity|apply after_events_tail].
  - intros _. rewrite Hf, Hs. repeat split; auto.
Qed.

(* ------------------------------------------------------------------ Instance.Stop *)
Definition is_stop_ev (i : nat) (e : event) : bool :=
  match e with EStop i' _ | ERet i' _ => i' =? i | _ => false end.

Lemma stop_servers_events i srv : forall w sv w' sv' ev,
  stop_servers i srv w sv = (w', sv', ev) -> forallb (is_stop_ev i) ev = true.
Proof.
  induction srv as [|[j sp] srv IH]; intros w sv w' sv' ev H; simpl in H.
  - injection H as <- <- <-. reflexivity.
  - destruct (sv_graceful sp).
    + destruct (take_serving i j sv) as [[root sv1]|].
      * destruct (stop_servers i srv (wg_done root w) sv1) as [[w2 sv2] ev2] eqn:E.
        injection H as <- <- <-. simpl. rewrite Nat.eqb_refl. simpl. eapply IH; eauto.
      * destruct (stop_servers i srv w sv) as [[w2 sv2] ev2] eqn:E.
        injection H as <- <- <-. simpl. rewrite Nat.eqb_refl. simpl. eapply IH; eauto.
    + eapply IH; eauto.
Qed.

Lemma stop_inst_events o s s' ev : stop_inst o s = (s', ev) -> forallb (is_stop_ev (i_id o)) ev = true.
Proof.
  unfold stop_inst. destruct (stop_servers (i_id o) (i_srv o) (wg s) (serving s)) as [[w sv] e] eqn:E.
  intro H. injection H as <- <-. eapply stop_servers_events; eauto.
Qed.

Lemma stop_inst_next o s s' ev : stop_inst o s = (s', ev) -> next s' = next s /\ known s' = known s /\ once s' = once s.
Proof.
  unfold stop_inst. destruct (stop_servers (i_id o) (i_srv o) (wg s) (serving s)) as [[w sv] e] eqn:E.
  intro H. injection H as <- <-. simpl. auto.
Qed.

Lemma find_inst_id h l o : find_inst h l = Some o -> i_id o = h.
Proof.
  induction l as [|x l IH]; simpl; [discriminate|].
  destruct (i_id x =? h) eqn:E.
  - intro H. injection H as <-. apply Nat.eqb_eq. exact E.
  - exact IH.
Qed.

Lemma find_inst_in h l o : find_inst h l = Some o -> In o l.
Proof.
  induction l as [|x l IH]; simpl; [discriminate|].
  destruct (i_id x =? h); [intro H; injection H as <-; auto|auto].
Qed.

(* ------------------------------------------------------------------ Instance.Restart: the three outcomes *)
Lemma restart_body_cases o c s s' ev r :
  restart_body o c s = (s', ev, r) ->
  let h := i_id o in
  let co := i_cfg o in
  let failed := cb_events KRestartFailed h (labels (c_rfailed co)) in
  let n := next s in
  (existsb cb_fail (c_restart co) = true /\ s' = s /\ r = RInst false h /\
   ev = cb_events KRestart h (upto_fail (c_restart co)) ++ failed)
  \/
  (existsb cb_fail (c_restart co) = false /\
   exists e2 ok2 saved,
     start_plan c n true (i_srv o) h = (e2, ok2, saved) /\
     ((ok2 = false /\ s' = set_next s (next_after c n) /\ r = RInst false h /\
       ev = cb_events KRestart h (labels (c_restart co)) ++ e2 ++ failed)
      \/
      (ok2 = true /\
       exists e3, stop_inst o (commit (mkInst n (i_root o) c saved) (next_after c n) s) = (s', e3) /\
         r = RInst true n /\
         ev = cb_events KRestart h (labels (c_restart co)) ++ e2 ++ e3
              ++ cb_events KShutdown h (labels (c_shutdown co)) ++ [EHook HInstanceStartup n]))).
Proof.
  intro H. cbv zeta. unfold restart_body in H. cbv zeta in H.
  destruct (run_stop KRestart (i_id o) (c_restart (i_cfg o))) as [e1 ok1] eqn:E1.
  apply run_stop_split in E1 as [He1 Hok1].
  rewrite !run_all_labels in H.
  destruct ok1; simpl in H.
  2:{ left. injection H as <- <- <-. symmetry in Hok1. apply negb_false_iff in Hok1.
      repeat split; auto. rewrite He1. reflexivity. }
  right. symmetry in Hok1. apply negb_true_iff in Hok1. split; [exact Hok1|].
  rewrite (upto_fail_all _ Hok1) in He1.
  destruct (start_plan c (next s) true (i_srv o) (i_id o)) as [[e2 ok2] saved] eqn:E2.
  exists e2, ok2, saved. split; [reflexivity|].
  destruct ok2; simpl in H.
  2:{ left. injection H as <- <- <-. repeat split; auto. rewrite He1. reflexivity. }
  right. split; [reflexivity|].
  destruct (stop_inst o (commit (mkInst (next s) (i_root o) c saved) (next_after c (next s)) s)) as [s2 e3] eqn:E3.
  exists e3. injection H as <- <- <-. repeat split; auto. rewrite He1. reflexivity.
Qed.

(* ------------------------------------------------------------------ which callbacks an operation can run *)
Lemma in_cb_events k i ns e : In e (cb_events k i ns) -> exists n, e = ECb k i n /\ In n ns.
Proof. unfold cb_events. intro H. apply in_map_iff in H as [n [<- Hn]]. eauto. Qed.

Lemma forallb_In {A} (f : A -> bool) l x : forallb f l = true -> In x l -> f x = true.
Proof. intros H Hx. eapply forallb_forall in H; eauto. Qed.

Lemma plan_cb_in c i restart old oi ev ok saved k j l :
  plan_shape c i restart old oi ev ok saved -> In (ECb k j l) ev ->
  j = i /\ ((k = KFirst /\ restart = false) \/ k = KStartup).
Proof.
  intros [hd f su li tl Heq Hhd _ _ Hfr _ _ Hli Htl _ _] Hin. subst ev.
  repeat (apply in_app_or in Hin as [Hin|Hin]).
  - destruct Hhd as [->|[->| ->]]; simpl in Hin; intuition discriminate.
  - apply in_cb_events in Hin as [n [He Hn]]. injection He as -> -> ->. split; [reflexivity|]. left. split; [reflexivity|].
    destruct restart; [|reflexivity]. rewrite (Hfr eq_refl) in Hn. contradiction.
  - apply in_cb_events in Hin as [n [He Hn]]. injection He as -> -> ->. auto.
  - apply (forallb_In _ _ _ Hli) in Hin. discriminate.
  - apply (forallb_In _ _ _ Htl) in Hin. discriminate.
Qed.

Lemma in_all_shutdown l e : In e (all_shutdown l) ->
  exists x n, In x l /\ (e = ECb KShutdown (i_id x) n \/ e = ECb KFinal (i_id x) n).
Proof.
  unfold all_shutdown. intro H. apply in_flat_map in H as [x [Hx He]].
  unfold shutdown_cbs in He. rewrite !run_all_labels in He.
  apply in_app_or in He as [He|He]; apply in_cb_events in He as [n [-> _]]; eauto.
Qed.

Lemma stop_all_events l : forall s s' ev, stop_all l s = (s', ev) ->
  forall e, In e ev -> match e with EStop _ _ | ERet _ _ => True | _ => False end.
Proof.
  induction l as [|o l IH]; intros s s' ev H e He; simpl in H.
  - injection H as <- <-. contradiction.
  - destruct (stop_inst o (set_wg s (wg_add (i_root o) 1 (wg s)))) as [s1 e1] eqn:E1.
    destruct (stop_all l s1) as [s2 e2] eqn:E2. injection H as <- <-.
    apply in_app_or in He as [He|He].
    + apply stop_inst_events in E1. apply (forallb_In _ _ _ E1) in He. destruct e; try discriminate; exact I.
    + eapply IH; eauto.
Qed.

Lemma step_cb_kinds s o s' ev r k j l :
  step s o = (s', ev, r) -> In (ECb k j l) ev ->
  match o with
  | OStart _ => j = next s /\ (k = KFirst \/ k = KStartup)
  | ORestart h _ => (j = h /\ (k = KRestart \/ k = KRestartFailed \/ k = KShutdown)) \/ (j = next s /\ k = KStartup)
  | OShutdownCbs h => j = h /\ (k = KShutdown \/ k = KFinal)
  | OExecShutdown => (k = KShutdown \/ k = KFinal) /\ exists x, In x (insts s) /\ i_id x = j
  | _ => False
  end.
Proof.
  destruct o as [c|h c|h| |h| |h]; simpl; intros H Hin.
  - unfold do_start in H. destruct (start_plan c (next s) false [] 0) as [[e ok] saved] eqn:E.
    pose proof (start_plan_shape _ _ _ _ _ _ _ _ E) as Sh.
    destruct ok; injection H as <- <- <-.
    + apply in_app_or in Hin as [Hin|[Hin|[]]]; [|discriminate].
      destruct (plan_cb_in _ _ _ _ _ _ _ _ _ _ _ Sh Hin) as [-> [[-> _]| ->]]; auto.
    + destruct (plan_cb_in _ _ _ _ _ _ _ _ _ _ _ Sh Hin) as [-> [[-> _]| ->]]; auto.
  - unfold do_restart in H. destruct (find_inst h (known s)) as [o|] eqn:F.
    2:{ injection H as <- <- <-. contradiction. }
    pose proof (find_inst_id _ _ _ F) as Hid.
    destruct (restart_body o c (set_wg s (wg_add (i_root o) 1 (wg s)))) as [[s1 e1] r1] eqn:E.
    injection H as <- <- <-.
    apply restart_body_cases in E. cbv zeta in E. rewrite Hid in E. simpl in E.
    destruct E as [[_ [_ [_ ->]]] | [_ [e2 [ok2 [saved [P E]]]]]].
    + apply in_app_or in Hin as [Hin|Hin]; apply in_cb_events in Hin as [n [He _]]; injection He as -> -> ->; auto.
    + pose proof (start_plan_shape _ _ _ _ _ _ _ _ P) as Sh.
      assert (forall e3 s2 x, stop_inst o x = (s2, e3) -> ~ In (ECb k j l) e3) as Hstop.
      { intros e3 s2 x Hs Hi. apply stop_inst_events in Hs. apply (forallb_In _ _ _ Hs) in Hi. discriminate. }
      destruct E as [[_ [_ [_ ->]]] | [_ [e3 [S3 [_ ->]]]]];
        repeat (apply in_app_or in Hin as [Hin|Hin]);
        try (apply in_cb_events in Hin as [n [He _]]; injection He as -> -> ->; auto; fail);
        try (destruct (plan_cb_in _ _ _ _ _ _ _ _ _ _ _ Sh Hin) as [-> [[_ D]| ->]]; [discriminate|auto]; fail);
        try (exfalso; eapply Hstop; eauto; fail).
      destruct Hin as [Hin|[]]. discriminate.
  - destruct (find_inst h (known s)) as [x|]; [|injection H as <- <- <-; contradiction].
    destruct (stop_inst x s) as [s2 e2] eqn:E. injection H as <- <- <-.
    apply stop_inst_events in E. apply (forallb_In _ _ _ E) in Hin. discriminate.
  - destruct (stop_all (insts s) s) as [s2 e2] eqn:E. injection H as <- <- <-.
    apply (stop_all_events _ _ _ _ E) in Hin. exact Hin.
  - destruct (find_inst h (known s)) as [x|] eqn:F; injection H as <- <- <-; [|contradiction].
    pose proof (find_inst_id _ _ _ F) as Hid.
    unfold shutdown_cbs in Hin. rewrite !run_all_labels in Hin.
    apply in_app_or in Hin as [Hin|Hin]; apply in_cb_events in Hin as [n [He _]]; injection He as -> -> ->; auto.
  - destruct (once s); injection H as <- <- <-; [contradiction|].
    destruct Hin as [Hin|Hin]; [discriminate|].
    apply in_all_shutdown in Hin as [x [n [Hx [He|He]]]]; injection He as -> -> ->; eauto.
  - destruct (find_inst h (known s)); injection H as <- <- <-; contradiction.
Qed.

(* first-startup callbacks run only in casket.Start, for the instance being created *)
Lemma first_startup_only_in_start s o s' ev r i l :
  step s o = (s', ev, r) -> In (ECb KFirst i l) ev -> exists c, o = OStart c /\ i = next s.
Proof.
  intros H Hin. pose proof (step_cb_kinds _ _ _ _ _ _ _ _ H Hin) as K.
  destruct o; try contradiction.
  - destruct K as [-> _]. eauto.
  - destruct K as [[_ [D|[D|D]]]|[_ D]]; discriminate.
  - destruct K as [_ [D|D]]; discriminate.
  - destruct K as [[D|D] _]; discriminate.
Qed.

(* final-shutdown callbacks run only in ShutdownCallbacks / executeShutdownCallbacks *)
Lemma final_shutdown_only_at_exit s o s' ev r i l :
  step s o = (s', ev, r) -> In (ECb KFinal i l) ev ->
  o = OExecShutdown \/ exists h, o = OShutdownCbs h /\ i = h.
Proof.
  intros H Hin. pose proof (step_cb_kinds _ _ _ _ _ _ _ _ H Hin) as K.
  destruct o; try contradiction.
  - destruct K as [_ [D|D]]; discriminate.
  - destruct K as [[_ [D|[D|D]]]|[_ D]]; discriminate.
  - destruct K as [-> _]. eauto.
  - auto.
Qed.

Lemma restart_cbs_only_in_restart s o s' ev r k i l :
  step s o = (s', ev, r) -> In (ECb k i l) ev -> k = KRestart \/ k = KRestartFailed ->
  exists c, o = ORestart i c.
Proof.
  intros H Hin Hk. pose proof (step_cb_kinds _ _ _ _ _ _ _ _ H Hin) as K.
  destruct o; try contradiction.
  - destruct K as [_ [->| ->]]; destruct Hk; discriminate.
  - destruct K as [[-> _]|[_ ->]]; [eauto|destruct Hk; discriminate].
  - destruct K as [_ [->| ->]]; destruct Hk; discriminate.
  - destruct K as [[->| ->] _]; destruct Hk; discriminate.
Qed.

(* ------------------------------------------------------------------ projections of one start *)
Lemma proj_listen k i i' oi l : forallb (is_listen_ev i' oi) l = true -> proj k i l = [].
Proof.
  intro H. apply proj_none. intros e He. apply (forallb_In _ _ _ H) in He. destruct e; try discriminate; reflexivity.
Qed.
Lemma proj_tail k i i' l : forallb (is_tail_ev i') l = true -> proj k i l = [].
Proof.
  intro H. apply proj_none. intros e He. apply (forallb_In _ _ _ H) in He. destruct e; try discriminate; reflexivity.
Qed.
Lemma proj_stop k i i' l : forallb (is_stop_ev i') l = true -> proj k i l = [].
Proof.
  intro H. apply proj_none. intros e He. apply (forallb_In _ _ _ H) in He. destruct e; try discriminate; reflexivity.
Qed.

Lemma plan_proj c i restart old oi ev ok saved :
  plan_shape c i restart old oi ev ok saved ->
  (proj KFirst i ev = [] \/ (restart = false /\ proj KFirst i ev = upto_fail (c_first c))) /\
  (proj KStartup i ev = [] \/ proj KStartup i ev = upto_fail (c_startup c)) /\
  (ok = true -> proj KFirst i ev = (if restart then [] else labels (c_first c)) /\
                proj KStartup i ev = labels (c_startup c)).
Proof.
  intros [hd f su li tl Heq Hhd _ _ Hfr Hfp Hsp Hli Htl _ Hok]. subst ev.
  assert (Hh : forall k, proj k i hd = []).
  { intro k. destruct Hhd as [->|[->| ->]]; reflexivity. }
  assert (PF : proj KFirst i (hd ++ cb_events KFirst i f ++ cb_events KStartup i su ++ li ++ tl) = f).
  { rewrite !proj_app, Hh. unfold cb_events. rewrite proj_cbs_same, proj_cbs_other by reflexivity.
    rewrite (proj_listen _ _ _ _ _ Hli), (proj_tail _ _ _ _ Htl). simpl. apply app_nil_r. }
  assert (PS : proj KStartup i (hd ++ cb_events KFirst i f ++ cb_events KStartup i su ++ li ++ tl) = su).
  { rewrite !proj_app, Hh. unfold cb_events. rewrite proj_cbs_same, proj_cbs_other by reflexivity.
    rewrite (proj_listen _ _ _ _ _ Hli), (proj_tail _ _ _ _ Htl). simpl. apply app_nil_r. }
  rewrite PF, PS. repeat split.
  - destruct restart.
    + left. apply Hfr. reflexivity.
    + destruct Hfp as [->| ->]; auto.
  - destruct Hsp as [->| ->]; auto.
  - destruct (Hok H) as [_ [_ [-> _]]]. reflexivity.
  - destruct (Hok H) as [_ [_ [_ [-> _]]]]. reflexivity.
Qed.

Lemma plan_nonempty_new c i restart old oi ev ok saved :
  plan_shape c i restart old oi ev ok saved -> ev <> [] -> c_parse_fail c = false.
Proof.
  intros [hd f su li tl Heq _ Hp _ _ _ _ _ _ _ _] Hne.
  destruct (c_parse_fail c); [|reflexivity]. exfalso. apply Hne. apply Hp. reflexivity.
Qed.

(* ------------------------------------------------------------------ instance numbers are fresh *)
Lemma commit_next ni nx s : next (commit ni nx s) = nx.
Proof. unfold commit. destruct (spawn (i_id ni) (i_root ni) (i_srv ni) (wg s) (serving s)). reflexivity. Qed.

Lemma next_after_le c n : n <= next_after c n.
Proof. unfold next_after. destruct (c_parse_fail c); lia. Qed.

Definition creation_kind (k : kind) : Prop := k = KFirst \/ k = KStartup.

Lemma step_next s o s' ev r :
  step s o = (s', ev, r) ->
  next s <= next s' /\
  (forall k j l, creation_kind k -> In (ECb k j l) ev -> j = next s /\ next s' = S (next s)).
Proof.
  destruct o as [c|h c|h| |h| |h]; simpl; intros H.
  - unfold do_start in H. destruct (start_plan c (next s) false [] 0) as [[e ok] saved] eqn:E.
    pose proof (start_plan_shape _ _ _ _ _ _ _ _ E) as Sh.
    assert (N : forall k j l, In (ECb k j l) e -> j = next s /\ next_after c (next s) = S (next s)).
    { intros k j l Hin. destruct (plan_cb_in _ _ _ _ _ _ _ _ _ _ _ Sh Hin) as [-> _]. split; [reflexivity|].
      unfold next_after. rewrite (plan_nonempty_new _ _ _ _ _ _ _ _ Sh); [reflexivity|].
      intro D. rewrite D in Hin. contradiction. }
    destruct ok; injection H as <- <- <-.
    + rewrite commit_next. split; [apply next_after_le|]. intros k j l _ Hin.
      apply in_app_or in Hin as [Hin|[Hin|[]]]; [eauto|discriminate].
    + simpl. split; [apply next_after_le|]. intros k j l _ Hin. eauto.
  - unfold do_restart in H. destruct (find_inst h (known s)) as [o|] eqn:F.
    2:{ injection H as <- <- <-. split; [lia|]. intros k j l _ []. }
    pose proof (find_inst_id _ _ _ F) as Hid.
    destruct (restart_body o c (set_wg s (wg_add (i_root o) 1 (wg s)))) as [[s1 e1] r1] eqn:E.
    injection H as <- <- <-. simpl.
    apply restart_body_cases in E. cbv zeta in E. simpl in E.
    destruct E as [[_ [-> [_ ->]]] | [_ [e2 [ok2 [saved [P E]]]]]].
    + simpl. split; [lia|]. intros k j l [->| ->] Hin;
        apply in_app_or in Hin as [Hin|Hin]; apply in_cb_events in Hin as [n [He _]]; discriminate.
    + pose proof (start_plan_shape _ _ _ _ _ _ _ _ P) as Sh.
      assert (N : forall k j l, In (ECb k j l) e2 -> j = next s /\ next_after c (next s) = S (next s)).
      { intros k j l Hin. destruct (plan_cb_in _ _ _ _ _ _ _ _ _ _ _ Sh Hin) as [-> _]. split; [reflexivity|].
        unfold next_after. rewrite (plan_nonempty_new _ _ _ _ _ _ _ _ Sh); [reflexivity|].
        intro D. rewrite D in Hin. contradiction. }
      assert (Hstop : forall e3 s2 x k j l, stop_inst o x = (s2, e3) -> ~ In (ECb k j l) e3).
      { intros e3 s2 x k j l Hs Hi. apply stop_inst_events in Hs. apply (forallb_In _ _ _ Hs) in Hi. discriminate. }
      destruct E as [[_ [-> [_ ->]]] | [_ [e3 [S3 E]]]].
      * simpl. split; [apply next_after_le|]. intros k j l Hk Hin.
        repeat (apply in_app_or in Hin as [Hin|Hin]); eauto;
          apply in_cb_events in Hin as [n [He _]]; injection He as -> -> ->; destruct Hk; discriminate.
      * destruct (stop_inst_next _ _ _ _ S3) as [Hn _]. rewrite commit_next in Hn. rewrite Hn.
        split; [apply next_after_le|]. intros k j l Hk Hin.
        destruct E as [_ ->];
          repeat (apply in_app_or in Hin as [Hin|Hin]); eauto;
          try (apply in_cb_events in Hin as [n [He _]]; injection He as -> -> ->; destruct Hk; discriminate);
          try (exfalso; eapply Hstop; eauto; fail).
        destruct Hin as [Hin|[]]. discriminate.
  - destruct (find_inst h (known s)) as [x|]; [|injection H as <- <- <-; split; [lia|intros k j l _ []]].
    destruct (stop_inst x s) as [s2 e2] eqn:E. injection H as <- <- <-.
    destruct (stop_inst_next _ _ _ _ E) as [-> _]. split; [lia|]. intros k j l _ Hin.
    apply stop_inst_events in E. apply (forallb_In _ _ _ E) in Hin. discriminate.
  - pose proof (step_cb_kinds s OStopAll s' ev r) as K. simpl in K.
    assert (NX : forall l s0 s1 e, stop_all l s0 = (s1, e) -> next s1 = next s0).
    { induction l as [|o l IH]; intros s0 s1 e E; simpl in E.
      - injection E as <- <-. reflexivity.
      - destruct (stop_inst o (set_wg s0 (wg_add (i_root o) 1 (wg s0)))) as [sa ea] eqn:E1.
        destruct (stop_all l sa) as [sb eb] eqn:E2. injection E as <- <-. simpl.
        rewrite (IH _ _ _ E2). destruct (stop_inst_next _ _ _ _ E1) as [-> _]. reflexivity. }
    destruct (stop_all (insts s) s) as [s2 e2] eqn:E. pose proof (NX _ _ _ _ E) as Hn.
    injection H as <- <- <-. split; [lia|]. intros k j l _ Hin. exfalso. eapply K; eauto.
  - destruct (find_inst h (known s)) as [x|] eqn:F; injection H as <- <- <-; (split; [lia|]); [|intros k j l _ []].
    intros k j l Hk Hin. unfold shutdown_cbs in Hin. rewrite !run_all_labels in Hin.
    apply in_app_or in Hin as [Hin|Hin]; apply in_cb_events in Hin as [n [He _]]; injection He as -> -> ->;
      destruct Hk; discriminate.
  - destruct (once s); injection H as <- <- <-; simpl; (split; [lia|]); [intros k j l _ []|].
    intros k j l Hk [Hin|Hin]; [discriminate|].
    apply in_all_shutdown in Hin as [x [n [Hx [He|He]]]]; injection He as -> -> ->; destruct Hk; discriminate.
  - destruct (find_inst h (known s)); injection H as <- <- <-; (split; [lia|intros k j l _ []]).
Qed.

(* ------------------------------------------------------------------ histories *)
Lemma trace_cons r rs : trace (r :: rs) = rec_events r ++ trace rs.
Proof. reflexivity. Qed.

Lemma proj_in k i l n : In n (proj k i l) -> In (ECb k i n) l.
Proof.
  unfold proj. induction l as [|e l IH]; simpl; [auto|].
  destruct (is_cb k i e) eqn:E; simpl.
  - intros [H|H]; [|right; auto]. apply is_cb_true in E as [m ->]. simpl in H. subst. left. reflexivity.
  - intro H. right. auto.
Qed.

Lemma later_ids k : creation_kind k -> forall ops s j, j < next s -> proj k j (trace (run s ops)) = [].
Proof.
  intros Hk ops. induction ops as [|o ops IH]; intros s j Hj; simpl; [reflexivity|].
  destruct (step s o) as [[s' ev] res] eqn:E. rewrite trace_cons, proj_app.
  change (rec_events (o, ev, res)) with ev.
  destruct (step_next _ _ _ _ _ E) as [Hle Hc].
  rewrite IH by lia. rewrite app_nil_r. apply proj_nil_iff. intros n Hin.
  destruct (Hc _ _ _ Hk Hin) as [-> _]. lia.
Qed.

Lemma creation_once k : creation_kind k -> forall ops s i,
  proj k i (trace (run s ops)) = [] \/
  exists pre o post, ops = pre ++ o :: post /\ i = next (final s pre) /\
     proj k i (trace (run s ops)) = proj k i (snd (fst (step (final s pre) o))).
Proof.
  intros Hk ops. induction ops as [|o ops IH]; intros s i; simpl; [left; reflexivity|].
  destruct (step s o) as [[s' ev] res] eqn:E. rewrite trace_cons, proj_app.
  change (rec_events (o, ev, res)) with ev.
  destruct (proj k i ev) as [|n pl] eqn:P.
  - simpl. destruct (IH s' i) as [H|[pre [o' [post [-> [Hi Hp]]]]]]; [left; exact H|].
    right. exists (o :: pre), o', post. simpl. rewrite E. simpl. auto.
  - right. exists [], o, ops. simpl. rewrite E. simpl.
    assert (Hin : In (ECb k i n) ev) by (apply proj_in; rewrite P; left; reflexivity).
    destruct (step_next _ _ _ _ _ E) as [_ Hc]. destruct (Hc _ _ _ Hk Hin) as [-> Hn].
    rewrite (later_ids k Hk ops s' (next s)) by lia. rewrite app_nil_r. auto.
Qed.

Lemma proj_hook k i h j : proj k i [EHook h j] = [].
Proof. reflexivity. Qed.

Lemma step_creation_proj s o s' ev r :
  step s o = (s', ev, r) ->
  match o with
  | OStart c =>
      (proj KFirst (next s) ev = [] \/ proj KFirst (next s) ev = upto_fail (c_first c)) /\
      (proj KStartup (next s) ev = [] \/ proj KStartup (next s) ev = upto_fail (c_startup c)) /\
      (forall n, r = RInst true n -> n = next s /\ proj KFirst n ev = labels (c_first c) /\
                                     proj KStartup n ev = labels (c_startup c))
  | ORestart h c =>
      proj KFirst (next s) ev = [] /\
      (proj KStartup (next s) ev = [] \/ proj KStartup (next s) ev = upto_fail (c_startup c)) /\
      (forall n, r = RInst true n -> n = next s /\ proj KStartup n ev = labels (c_startup c))
  | _ => proj KFirst (next s) ev = [] /\ proj KStartup (next s) ev = []
  end.
Proof.
  intro H.
  assert (Hno : forall k, (forall j l, In (ECb k j l) ev -> False) -> proj k (next s) ev = []).
  { intros k Hk. apply proj_nil_iff. intros n Hin. eapply Hk; eauto. }
  destruct o as [c|h c|h| |h| |h];
    try (split; apply Hno; intros j l Hin; pose proof (step_cb_kinds _ _ _ _ _ _ _ _ H Hin) as K; simpl in K;
         try contradiction; try (destruct K as [_ [D|D]]; discriminate); try (destruct K as [[D|D] _]; discriminate); fail).
  - simpl in H. unfold do_start in H. destruct (start_plan c (next s) false [] 0) as [[e ok] saved] eqn:E.
    pose proof (start_plan_shape _ _ _ _ _ _ _ _ E) as Sh.
    destruct (plan_proj _ _ _ _ _ _ _ _ Sh) as [PF [PS POK]].
    destruct ok; injection H as <- <- <-.
    + rewrite !proj_app, !proj_hook, !app_nil_r. destruct (POK eq_refl) as [P1 P2].
      split; [|split].
      * destruct PF as [PF|[_ PF]]; auto.
      * exact PS.
      * intros n Hn. injection Hn as <-. rewrite !proj_app, !proj_hook, !app_nil_r. auto.
    + split; [|split].
      * destruct PF as [PF|[_ PF]]; auto.
      * exact PS.
      * intros n Hn. destruct (start_panics c); discriminate.
  - simpl in H. unfold do_restart in H. destruct (find_inst h (known s)) as [o|] eqn:F.
    2:{ injection H as <- <- <-. simpl. split; [reflexivity|]. split; [auto|]. intros n D. discriminate. }
    destruct (restart_body o c (set_wg s (wg_add (i_root o) 1 (wg s)))) as [[s1 e1] r1] eqn:E.
    injection H as <- <- <-.
    apply restart_body_cases in E. cbv zeta in E. simpl in E.
    destruct E as [[_ [_ [-> ->]]] | [_ [e2 [ok2 [saved [P E]]]]]].
    + unfold cb_events. rewrite !proj_app, !proj_cbs_other by reflexivity. simpl.
      split; [reflexivity|]. split; [auto|]. intros n D. discriminate.
    + pose proof (start_plan_shape _ _ _ _ _ _ _ _ P) as Sh.
      destruct (plan_proj _ _ _ _ _ _ _ _ Sh) as [PF [PS POK]].
      assert (PF0 : proj KFirst (next s) e2 = []) by (destruct PF as [PF|[D _]]; [exact PF|discriminate]).
      destruct E as [[_ [_ [-> ->]]] | [-> [e3 [S3 E]]]].
      * unfold cb_events. rewrite !proj_app, !proj_cbs_other by reflexivity. simpl. rewrite !app_nil_r.
        split; [exact PF0|]. split; [exact PS|]. intros n D. discriminate.
      * pose proof (stop_inst_events _ _ _ _ S3) as Hst.
        destruct (POK eq_refl) as [_ P2].
        destruct E as [-> ->];
          unfold cb_events; rewrite !proj_app, !proj_cbs_other by reflexivity;
          rewrite !(proj_stop _ _ _ _ Hst); simpl; rewrite ?proj_hook, !app_nil_r.
        -- split; [exact PF0|]. split; [exact PS|]. intros n D. injection D as <-.
           split; [reflexivity|].
           rewrite !proj_app, !proj_cbs_other by reflexivity.
           rewrite !(proj_stop _ _ _ _ Hst). simpl. rewrite !app_nil_r. exact P2.
Qed.

(* first-startup callbacks: over a whole history the callbacks of instance i appear in one
   record only, that of the casket.Start which created i *)
Lemma first_startup_once ops i :
  let tr := trace (run init ops) in
  proj KFirst i tr = [] \/
  exists pre c post, ops = pre ++ OStart c :: post /\ i = next (final init pre) /\
    (proj KFirst i tr = upto_fail (c_first c)) /\
    (forall n, snd (step (final init pre) (OStart c)) = RInst true n ->
               n = i /\ proj KFirst i tr = labels (c_first c)).
Proof.
  cbv zeta. destruct (creation_once KFirst (or_introl eq_refl) ops init i) as [H|[pre [o [post [-> [Hi Hp]]]]]]; [left; exact H|].
  destruct (step (final init pre) o) as [[s' ev] r] eqn:E. simpl in Hp.
  pose proof (step_creation_proj _ _ _ _ _ E) as C. rewrite <- Hi in C.
  destruct (proj KFirst i ev) as [|x xs] eqn:P; [left; rewrite Hp; reflexivity|].
  right. destruct o as [c|h c|h| |h| |h]; try (destruct C as [C _]; discriminate).
  exists pre, c, post. split; [reflexivity|]. split; [exact Hi|].
  destruct C as [[C|C] [_ C3]]; [discriminate|]. split; [rewrite Hp; exact C|].
  intros n Hn. rewrite E in Hn. simpl in Hn. destruct (C3 n Hn) as [-> [C4 _]].
  split; [reflexivity|]. rewrite Hp, <- P. exact C4.
Qed.

Lemma startup_once ops i :
  let tr := trace (run init ops) in
  proj KStartup i tr = [] \/
  exists pre o post c, ops = pre ++ o :: post /\ i = next (final init pre) /\
    (o = OStart c \/ exists h, o = ORestart h c) /\
    (proj KStartup i tr = upto_fail (c_startup c)) /\
    (forall n, snd (step (final init pre) o) = RInst true n ->
               n = i /\ proj KStartup i tr = labels (c_startup c)).
Proof.
  cbv zeta. destruct (creation_once KStartup (or_intror eq_refl) ops init i) as [H|[pre [o [post [-> [Hi Hp]]]]]]; [left; exact H|].
  destruct (step (final init pre) o) as [[s' ev] r] eqn:E. simpl in Hp.
  pose proof (step_creation_proj _ _ _ _ _ E) as C. rewrite <- Hi in C.
  destruct (proj KStartup i ev) as [|x xs] eqn:P; [left; rewrite Hp; reflexivity|].
  right. destruct o as [c|h c|h| |h| |h]; try (destruct C as [_ C]; discriminate).
  - exists pre, (OStart c), post, c. split; [reflexivity|]. split; [exact Hi|]. split; [auto|].
    destruct C as [_ [[C|C] C3]]; [discriminate|]. split; [rewrite Hp; exact C|].
    intros n Hn. rewrite E in Hn. simpl in Hn. destruct (C3 n Hn) as [-> [_ C4]]. split; [reflexivity|]. rewrite Hp, <- P. exact C4.
  - exists pre, (ORestart h c), post, c. split; [reflexivity|]. split; [exact Hi|]. split; [eauto|].
    destruct C as [_ [[C|C] C3]]; [discriminate|]. split; [rewrite Hp; exact C|].
    intros n Hn. rewrite E in Hn. simpl in Hn. destruct (C3 n Hn) as [-> C4]. split; [reflexivity|]. rewrite Hp, <- P. exact C4.
Qed.

(* ------------------------------------------------------------------ order inside one operation *)
Lemma ordered_segments early late a b :
  existsb late a = false -> existsb early b = false -> ordered early late (a ++ b) = true.
Proof.
  intros Ha Hb. rewrite ordered_app, (ordered_no_late _ _ _ Ha), (ordered_no_early _ _ _ Hb), Ha. reflexivity.
Qed.

Definition startup_cb (i : nat) (e : event) : bool := is_cb KStartup i e || is_cb KFirst i e.

Lemma startup_cb_cb_events i k j ns :
  k <> KStartup -> k <> KFirst -> existsb (startup_cb i) (cb_events k j ns) = false.
Proof.
  intros H1 H2. apply existsb_false_iff. intros e He. apply in_cb_events in He as [n [-> _]].
  unfold startup_cb, is_cb. destruct k; try contradiction; reflexivity.
Qed.

Lemma accept_cb_events i k j ns : existsb (is_accept i) (cb_events k j ns) = false.
Proof. apply existsb_false_iff. intros e He. apply in_cb_events in He as [n [-> _]]. reflexivity. Qed.

Lemma startup_cb_listen i i' oi l : forallb (is_listen_ev i' oi) l = true -> existsb (startup_cb i) l = false.
Proof.
  intro H. apply existsb_false_iff. intros e He. apply (forallb_In _ _ _ H) in He. destruct e; try discriminate; reflexivity.
Qed.
Lemma startup_cb_tail i i' l : forallb (is_tail_ev i') l = true -> existsb (startup_cb i) l = false.
Proof.
  intro H. apply existsb_false_iff. intros e He. apply (forallb_In _ _ _ H) in He. destruct e; try discriminate; reflexivity.
Qed.
Lemma startup_cb_stop i i' l : forallb (is_stop_ev i') l = true -> existsb (startup_cb i) l = false.
Proof.
  intro H. apply existsb_false_iff. intros e He. apply (forallb_In _ _ _ H) in He. destruct e; try discriminate; reflexivity.
Qed.

(* inside the events of startWithListenerFds: callbacks first, listeners and serving after *)
Lemma plan_split c i restart old oi ev ok saved :
  plan_shape c i restart old oi ev ok saved ->
  exists a b, ev = a ++ b /\ (forall j, existsb (is_accept j) a = false) /\ (forall j, existsb (startup_cb j) b = false).
Proof.
  intros [hd f su li tl Heq Hhd _ _ _ _ _ Hli Htl _ _]. subst ev.
  exists (hd ++ cb_events KFirst i f ++ cb_events KStartup i su), (li ++ tl).
  split; [rewrite <- !app_assoc; reflexivity|]. split; intro j.
  - rewrite !existsb_app, !accept_cb_events. destruct Hhd as [->|[->| ->]]; reflexivity.
  - rewrite existsb_app, (startup_cb_listen _ _ _ _ Hli), (startup_cb_tail _ _ _ Htl). reflexivity.
Qed.

Lemma startup_before_accept s o s' ev r i :
  step s o = (s', ev, r) -> ordered (startup_cb i) (is_accept i) ev = true.
Proof.
  intro H.
  assert (Triv : (forall j l, In (ECb KStartup j l) ev -> False) -> (forall j l, In (ECb KFirst j l) ev -> False) ->
                 ordered (startup_cb i) (is_accept i) ev = true).
  { intros H1 H2. apply ordered_no_early. apply existsb_false_iff. intros e He.
    unfold startup_cb. destruct (is_cb KStartup i e) eqn:E1.
    - apply is_cb_true in E1 as [n ->]. exfalso. eauto.
    - destruct (is_cb KFirst i e) eqn:E2; [|reflexivity]. apply is_cb_true in E2 as [n ->]. exfalso. eauto. }
  destruct o as [c|h c|h| |h| |h];
    try (apply Triv; intros j l Hin; pose proof (step_cb_kinds _ _ _ _ _ _ _ _ H Hin) as K; simpl in K;
         try contradiction; try (destruct K as [_ [D|D]]; discriminate); try (destruct K as [[D|D] _]; discriminate); fail).
  - simpl in H. unfold do_start in H. destruct (start_plan c (next s) false [] 0) as [[e ok] saved] eqn:E.
    pose proof (start_plan_shape _ _ _ _ _ _ _ _ E) as Sh.
    destruct (plan_split _ _ _ _ _ _ _ _ Sh) as [a [b [-> [Ha Hb]]]].
    destruct ok; injection H as <- <- <-.
    + rewrite <- app_assoc. apply ordered_segments; [apply Ha|]. rewrite existsb_app, Hb. reflexivity.
    + apply ordered_segments; auto.
  - simpl in H. unfold do_restart in H. destruct (find_inst h (known s)) as [o|] eqn:F.
    2:{ injection H as <- <- <-. reflexivity. }
    destruct (restart_body o c (set_wg s (wg_add (i_root o) 1 (wg s)))) as [[s1 e1] r1] eqn:E.
    injection H as <- <- <-.
    apply restart_body_cases in E. cbv zeta in E. simpl in E.
    destruct E as [[_ [_ [_ ->]]] | [_ [e2 [ok2 [saved [P E]]]]]].
    + apply ordered_no_early. rewrite existsb_app, !startup_cb_cb_events by discriminate. reflexivity.
    + pose proof (start_plan_shape _ _ _ _ _ _ _ _ P) as Sh.
      destruct (plan_split _ _ _ _ _ _ _ _ Sh) as [a [b [-> [Ha Hb]]]].
      destruct E as [[_ [_ [_ ->]]] | [_ [e3 [S3 E]]]].
      * replace (cb_events KRestart (i_id o) (labels (c_restart (i_cfg o))) ++ (a ++ b) ++
                 cb_events KRestartFailed (i_id o) (labels (c_rfailed (i_cfg o))))
          with ((cb_events KRestart (i_id o) (labels (c_restart (i_cfg o))) ++ a) ++
                (b ++ cb_events KRestartFailed (i_id o) (labels (c_rfailed (i_cfg o)))))
          by (rewrite <- !app_assoc; reflexivity).
        apply ordered_segments.
        -- rewrite existsb_app, accept_cb_events, Ha. reflexivity.
        -- rewrite existsb_app, Hb, startup_cb_cb_events by discriminate. reflexivity.
      * pose proof (stop_inst_events _ _ _ _ S3) as Hst.
        destruct E as [_ ->].
        -- replace (cb_events KRestart (i_id o) (labels (c_restart (i_cfg o))) ++ (a ++ b) ++ e3 ++
                    cb_events KShutdown (i_id o) (labels (c_shutdown (i_cfg o))) ++
                    [EHook HInstanceStartup (next s)])
             with ((cb_events KRestart (i_id o) (labels (c_restart (i_cfg o))) ++ a) ++
                   (b ++ e3 ++ cb_events KShutdown (i_id o) (labels (c_shutdown (i_cfg o))) ++
                    [EHook HInstanceStartup (next s)]))
             by (rewrite <- !app_assoc; reflexivity).
           apply ordered_segments.
           ++ rewrite existsb_app, accept_cb_events, Ha. reflexivity.
           ++ rewrite !existsb_app, Hb, (startup_cb_stop _ _ _ Hst), !startup_cb_cb_events by discriminate. reflexivity.
Qed.

(* ------------------------------------------------------------------ a successful reload, in full *)
Lemma reload_ok_shape s h c s' ev n :
  step s (ORestart h c) = (s', ev, RInst true n) ->
  exists o li saved e3,
    find_inst h (known s) = Some o /\ n = next s /\
    listen_loop true (i_srv o) h n 0 (c_servers c) = (li, true, saved) /\
    forallb (is_listen_ev n h) li = true /\ forallb (is_stop_ev h) e3 = true /\
    ev = cb_events KRestart h (labels (c_restart (i_cfg o)))
         ++ (ENew n :: EMake n :: cb_events KStartup n (labels (c_startup c)) ++ li ++ serve_events n saved)
         ++ e3
         ++ cb_events KShutdown h (labels (c_shutdown (i_cfg o)))
         ++ [EHook HInstanceStartup n].
Proof.
  simpl. unfold do_restart. intro H. destruct (find_inst h (known s)) as [o|] eqn:F; [|discriminate].
  pose proof (find_inst_id _ _ _ F) as Hid.
  destruct (restart_body o c (set_wg s (wg_add (i_root o) 1 (wg s)))) as [[s1 e1] r1] eqn:E.
  injection H as <- <- ->.
  apply restart_body_cases in E. cbv zeta in E. simpl in E. rewrite Hid in E.
  destruct E as [[_ [_ [D _]]] | [_ [e2 [ok2 [saved [P E]]]]]]; [discriminate|].
  destruct E as [[_ [_ [D _]]] | [-> [e3 [S3 E]]]]; [discriminate|].
  destruct E as [D ->]. injection D as D. subst n.
  pose proof (start_plan_shape _ _ _ _ _ _ _ _ P) as [hd f su li tl Heq _ _ _ _ _ _ Hli _ _ Hok].
  destruct (Hok eq_refl) as [_ [-> [-> [-> [LL ->]]]]].
  exists o, li, saved, e3. split; [reflexivity|]. split; [reflexivity|]. split; [exact LL|]. split; [exact Hli|].
  split; [rewrite <- Hid; eapply stop_inst_events; eauto|].
  rewrite Heq. simpl. rewrite app_nil_r. reflexivity.
Qed.

(* ------------------------------------------------------------------ a failed reload *)
Lemma wg_done_add r w x : wg_done r (wg_add r 1 w) x = w x.
Proof. unfold wg_done, wg_add. destruct (x =? r); lia. Qed.

Definition is_file_ev (h : nat) (e : event) : bool := match e with EFile o _ _ => o =? h | _ => false end.

(* what a failing startWithListenerFds of a reload may log: the new instance's set-up, its startup
   callbacks, its listeners — and File() of the old instance's listeners; nothing is served *)
Lemma plan_fail_events c i old oi ev saved e :
  plan_shape c i true old oi ev false saved -> In e ev ->
  e = ENew i \/ e = EMake i \/ (exists n, e = ECb KStartup i n) \/ is_listen_ev i oi e = true.
Proof.
  intros [hd f su li tl Heq Hhd _ _ Hfr _ _ Hli _ Hft _] Hin. subst ev.
  rewrite (Hfr eq_refl), (Hft eq_refl) in Hin. simpl in Hin. rewrite app_nil_r in Hin.
  repeat (apply in_app_or in Hin as [Hin|Hin]).
  - destruct Hhd as [->|[->| ->]]; simpl in Hin; intuition.
  - apply in_cb_events in Hin as [n [-> _]]. eauto.
  - right. right. right. eapply forallb_In; eauto.
Qed.

Lemma reload_fail_only_restart_failed s h c s' ev h' o :
  step s (ORestart h c) = (s', ev, RInst false h') ->
  find_inst h (known s) = Some o ->
  h' = h /\
  insts s' = insts s /\ known s' = known s /\ serving s' = serving s /\ once s' = once s /\
  (forall x, wg s' x = wg s x) /\
  exists e2,
    (e2 = [] \/ exists saved, start_plan c (next s) true (i_srv o) h = (e2, false, saved)) /\
    ev = cb_events KRestart h (upto_fail (c_restart (i_cfg o))) ++ e2
         ++ cb_events KRestartFailed h (labels (c_rfailed (i_cfg o))).
Proof.
  simpl. unfold do_restart. intros H F. rewrite F in H.
  pose proof (find_inst_id _ _ _ F) as Hid.
  destruct (restart_body o c (set_wg s (wg_add (i_root o) 1 (wg s)))) as [[s1 e1] r1] eqn:E.
  injection H as <- <- ->.
  apply restart_body_cases in E. cbv zeta in E. simpl in E. rewrite Hid in E.
  destruct E as [[_ [-> [D ->]]] | [Hr [e2 [ok2 [saved [P E]]]]]].
  - injection D as <-. simpl. repeat split; auto; try apply wg_done_add.
    exists []. split; [auto|]. reflexivity.
  - destruct E as [[-> [-> [D ->]]] | [_ [e3 [S3 E]]]].
    + injection D as <-. simpl. repeat split; auto; try apply wg_done_add.
      exists e2. split; [eauto|]. rewrite (upto_fail_all _ Hr). reflexivity.
    + destruct E as [D _]. discriminate.
Qed.

Definition quirk_old : config :=
  mkCfg false false false [] [mkCb 0 false] [mkCb 0 false] [mkCb 0 false]
        [mkCb 0 true; mkCb 1 false] [mkCb 0 false] [mkSrv 0 true 1 false false] false.
Definition quirk_new : config :=
  mkCfg false false false [] [mkCb 0 false] [] [] [mkCb 0 false] [] [mkSrv 0 true 1 false false] false.

(* an OnShutdown callback of the old instance that returns an error does not make the reload fail
   (F-C16-1, repaired): all the old shutdown callbacks run, no restart-failed callback does, the
   new instance is returned and is the one that is live and serving *)
Lemma reload_ok_despite_shutdown_error :
  let res := step (final init [OStart quirk_old]) (ORestart 0 quirk_new) in
  snd res = RInst true 1 /\
  In (EStop 0 0) (snd (fst res)) /\ In (ECb KShutdown 0 0) (snd (fst res)) /\
  In (ECb KShutdown 0 1) (snd (fst res)) /\ ~ In (ECb KRestartFailed 0 0) (snd (fst res)) /\
  In (EServe 1 0) (snd (fst res)) /\
  map i_id (insts (fst (fst res))) = [1].
Proof.
  cbv zeta. vm_compute. repeat split; auto 20.
  intro H. repeat (destruct H as [H|H]; [discriminate|]). exact H.
Qed.

(* ------------------------------------------------------------------ the once guard *)
Definition is_exec (o : op) : bool := match o with OExecShutdown => true | _ => false end.

Lemma commit_once ni nx s : once (commit ni nx s) = once s.
Proof. unfold commit. destruct (spawn (i_id ni) (i_root ni) (i_srv ni) (wg s) (serving s)). reflexivity. Qed.

Lemma stop_all_keeps l : forall s s' ev, stop_all l s = (s', ev) ->
  next s' = next s /\ known s' = known s /\ once s' = once s.
Proof.
  induction l as [|o l IH]; intros s s' ev E; simpl in E.
  - injection E as <- <-. auto.
  - destruct (stop_inst o (set_wg s (wg_add (i_root o) 1 (wg s)))) as [sa ea] eqn:E1.
    destruct (stop_all l sa) as [sb eb] eqn:E2. injection E as <- <-. simpl.
    destruct (IH _ _ _ E2) as [-> [-> ->]]. destruct (stop_inst_next _ _ _ _ E1) as [-> [-> ->]]. auto.
Qed.

Lemma step_once s o s' ev r : step s o = (s', ev, r) -> once s' = once s || is_exec o.
Proof.
  destruct o as [c|h c|h| |h| |h]; simpl; intro H; rewrite ?orb_false_r.
  - unfold do_start in H. destruct (start_plan c (next s) false [] 0) as [[e ok] saved].
    destruct ok; injection H as <- <- <-; [apply commit_once|reflexivity].
  - unfold do_restart in H. destruct (find_inst h (known s)) as [o|]; [|injection H as <- <- <-; reflexivity].
    destruct (restart_body o c (set_wg s (wg_add (i_root o) 1 (wg s)))) as [[s1 e1] r1] eqn:E.
    injection H as <- <- <-. simpl.
    apply restart_body_cases in E. cbv zeta in E. simpl in E.
    destruct E as [[_ [-> _]] | [_ [e2 [ok2 [saved [P [[_ [-> _]] | [_ [e3 [S3 _]]]]]]]]]]; try reflexivity.
    destruct (stop_inst_next _ _ _ _ S3) as [_ [_ ->]]. rewrite commit_once. reflexivity.
  - destruct (find_inst h (known s)) as [x|]; [|injection H as <- <- <-; reflexivity].
    destruct (stop_inst x s) as [s2 e2] eqn:E. injection H as <- <- <-.
    destruct (stop_inst_next _ _ _ _ E) as [_ [_ ->]]. reflexivity.
  - destruct (stop_all (insts s) s) as [s2 e2] eqn:E. injection H as <- <- <-.
    destruct (stop_all_keeps _ _ _ _ E) as [_ [_ ->]]. reflexivity.
  - destruct (find_inst h (known s)); injection H as <- <- <-; reflexivity.
  - destruct (once s) eqn:O; injection H as <- <- <-; simpl; [rewrite O|]; reflexivity.
  - destruct (find_inst h (known s)); injection H as <- <- <-; reflexivity.
Qed.

Lemma run_app ops1 : forall s ops2, run s (ops1 ++ ops2) = run s ops1 ++ run (final s ops1) ops2.
Proof.
  induction ops1 as [|o l IH]; intros s ops2; simpl; [reflexivity|].
  destruct (step s o) as [[s' ev] res]. simpl. rewrite IH. reflexivity.
Qed.

Lemma final_app ops1 : forall s ops2, final s (ops1 ++ ops2) = final (final s ops1) ops2.
Proof. induction ops1 as [|o l IH]; intros s ops2; simpl; [reflexivity|]. apply IH. Qed.

Definition exec_events (rs : list record) : list event :=
  flat_map rec_events (filter (fun r => is_exec (rec_op r)) rs).

Lemma no_exec_run ops : forall s, forallb (fun o => negb (is_exec o)) ops = true ->
  exec_events (run s ops) = [] /\ once (final s ops) = once s.
Proof.
  induction ops as [|o l IH]; intros s H; simpl in *; [auto|].
  apply andb_true_iff in H as [H1 H2].
  destruct (step s o) as [[s' ev] res] eqn:E. unfold exec_events. simpl.
  change (rec_op (o, ev, res)) with o.
  apply negb_true_iff in H1. rewrite H1. destruct (IH s' H2) as [I1 I2].
  split; [exact I1|]. rewrite I2, (step_once _ _ _ _ _ E), H1. apply orb_false_r.
Qed.

Lemma once_run ops : forall s, once s = true -> exec_events (run s ops) = [] /\ once (final s ops) = true.
Proof.
  induction ops as [|o l IH]; intros s H; simpl; [auto|].
  destruct (step s o) as [[s' ev] res] eqn:E. unfold exec_events. simpl.
  assert (O' : once s' = true) by (rewrite (step_once _ _ _ _ _ E), H; reflexivity).
  destruct (IH s' O') as [I1 I2]. split; [|exact I2].
  change (rec_op (o, ev, res)) with o.
  destruct (is_exec o) eqn:X; [|exact I1].
  destruct o; try discriminate. simpl in E. rewrite H in E. injection E as <- <- <-.
  unfold rec_events at 1. simpl. exact I1.
Qed.

(* however many times executeShutdownCallbacks runs (any number of signals, anything in between),
   the shutdown event and the shutdown + final-shutdown callbacks of the instances live at the
   first one run exactly once *)
Lemma shutdown_once_any_signals pre post :
  forallb (fun o => negb (is_exec o)) pre = true ->
  exec_events (run init (pre ++ OExecShutdown :: post)) =
  EHook HShutdown 0 :: all_shutdown (insts (final init pre)).
Proof.
  intro H. rewrite run_app. unfold exec_events. rewrite filter_app, flat_map_app.
  destruct (no_exec_run pre init H) as [N1 N2]. unfold exec_events in N1. rewrite N1. simpl.
  simpl in N2. rewrite N2. unfold rec_events at 1. simpl.
  match goal with |- context [run ?s post] => destruct (once_run post s eq_refl) as [O1 _] end.
  unfold exec_events, rec_events in O1. unfold rec_events. rewrite O1. rewrite app_nil_r. reflexivity.
Qed.

(* ------------------------------------------------------------------ the wait group *)
Definition cnt (r : nat) (sv : list (nat * nat * nat)) : nat := length (filter (fun x => snd x =? r) sv).

(* wg = goroutines serving + pending Add(1)s of operations in progress (offset p) *)
Definition wg_inv (p : nat -> nat) (w : nat -> nat) (sv : list (nat * nat * nat)) : Prop :=
  forall r, w r = cnt r sv + p r.

Lemma cnt_app r a b : cnt r (a ++ b) = cnt r a + cnt r b.
Proof. unfold cnt. rewrite filter_app, app_length. reflexivity. Qed.

Lemma spawn_inv p i root saved : forall w sv w' sv',
  spawn i root saved w sv = (w', sv') -> wg_inv p w sv -> wg_inv p w' sv'.
Proof.
  induction saved as [|[j sp] l IH]; intros w sv w' sv' H I; simpl in H.
  - injection H as <- <-. exact I.
  - eapply IH; [exact H|]. intro r. rewrite cnt_app. unfold cnt at 2. simpl.
    unfold wg_done, wg_add. rewrite (Nat.eqb_sym root r). specialize (I r).
    destruct (r =? root); simpl; lia.
Qed.

Lemma spawn_serving i root saved : forall w sv w' sv',
  spawn i root saved w sv = (w', sv') -> sv' = sv ++ map (fun x => (i, fst x, root)) saved.
Proof.
  induction saved as [|[j sp] l IH]; intros w sv w' sv' H; simpl in H.
  - injection H as _ <-. rewrite app_nil_r. reflexivity.
  - rewrite (IH _ _ _ _ H). rewrite <- app_assoc. reflexivity.
Qed.

Lemma take_serving_cnt i j sv root sv1 r :
  take_serving i j sv = Some (root, sv1) -> cnt r sv = cnt r sv1 + (if root =? r then 1 else 0).
Proof.
  revert root sv1. induction sv as [|x sv IH]; intros root sv1 H; simpl in H; [discriminate|].
  destruct ((fst (fst x) =? i) && (snd (fst x) =? j)).
  - injection H as <- <-. unfold cnt. simpl. destruct (snd x =? r); simpl; lia.
  - destruct (take_serving i j sv) as [[r' l']|]; [|discriminate]. injection H as <- <-.
    specialize (IH _ _ eq_refl). unfold cnt in *. simpl. destruct (snd x =? r); simpl; lia.
Qed.

Lemma stop_servers_inv p i srv : forall w sv w' sv' ev,
  stop_servers i srv w sv = (w', sv', ev) -> wg_inv p w sv -> wg_inv p w' sv'.
Proof.
  induction srv as [|[j sp] srv IH]; intros w sv w' sv' ev H I; simpl in H.
  - injection H as <- <- <-. exact I.
  - destruct (sv_graceful sp); [|eapply IH; eauto].
    destruct (take_serving i j sv) as [[root sv1]|] eqn:T.
    + destruct (stop_servers i srv (wg_done root w) sv1) as [[w2 sv2] ev2] eqn:E.
      injection H as <- <- <-. eapply IH; [exact E|]. intro r.
      pose proof (take_serving_cnt _ _ _ _ _ r T) as C. specialize (I r).
      unfold wg_done. rewrite (Nat.eqb_sym r root). destruct (root =? r); lia.
    + destruct (stop_servers i srv w sv) as [[w2 sv2] ev2] eqn:E.
      injection H as <- <- <-. eapply IH; eauto.
Qed.

Lemma stop_inst_inv p o s s' ev :
  stop_inst o s = (s', ev) -> wg_inv p (wg s) (serving s) -> wg_inv p (wg s') (serving s').
Proof.
  unfold stop_inst. destruct (stop_servers (i_id o) (i_srv o) (wg s) (serving s)) as [[w sv] e] eqn:E.
  intros H I. injection H as <- <-. simpl. eapply stop_servers_inv; eauto.
Qed.

Lemma commit_inv p ni nx s : wg_inv p (wg s) (serving s) -> wg_inv p (wg (commit ni nx s)) (serving (commit ni nx s)).
Proof.
  unfold commit. destruct (spawn (i_id ni) (i_root ni) (i_srv ni) (wg s) (serving s)) as [w sv] eqn:E.
  simpl. eapply spawn_inv; eauto.
Qed.

Definition bump (r : nat) (p : nat -> nat) : nat -> nat := fun x => if x =? r then p x + 1 else p x.

Lemma inv_add p r w sv : wg_inv p w sv -> wg_inv (bump r p) (wg_add r 1 w) sv.
Proof. intros I x. unfold bump, wg_add. specialize (I x). destruct (x =? r); lia. Qed.

Lemma inv_done p r w sv : wg_inv (bump r p) w sv -> wg_inv p (wg_done r w) sv.
Proof. intros I x. specialize (I x). unfold bump in I. unfold wg_done. destruct (x =? r); lia. Qed.

Lemma stop_all_inv l : forall p s s' ev,
  stop_all l s = (s', ev) -> wg_inv p (wg s) (serving s) -> wg_inv p (wg s') (serving s').
Proof.
  induction l as [|o l IH]; intros p s s' ev E I; simpl in E.
  - injection E as <- <-. exact I.
  - destruct (stop_inst o (set_wg s (wg_add (i_root o) 1 (wg s)))) as [sa ea] eqn:E1.
    destruct (stop_all l sa) as [sb eb] eqn:E2. injection E as <- <-. simpl.
    apply inv_done. eapply IH; [exact E2|]. eapply stop_inst_inv; [exact E1|]. simpl. apply inv_add. exact I.
Qed.

Lemma step_wg_inv s o s' ev r :
  step s o = (s', ev, r) -> wg_inv (fun _ => 0) (wg s) (serving s) -> wg_inv (fun _ => 0) (wg s') (serving s').
Proof.
  destruct o as [c|h c|h| |h| |h]; simpl; intros H I.
  - unfold do_start in H. destruct (start_plan c (next s) false [] 0) as [[e ok] saved].
    destruct ok; injection H as <- <- <-; [apply commit_inv; exact I|exact I].
  - unfold do_restart in H. destruct (find_inst h (known s)) as [o|]; [|injection H as <- <- <-; exact I].
    destruct (restart_body o c (set_wg s (wg_add (i_root o) 1 (wg s)))) as [[s1 e1] r1] eqn:E.
    injection H as <- <- <-. simpl. apply inv_done.
    apply restart_body_cases in E. cbv zeta in E. simpl in E.
    destruct E as [[_ [-> _]] | [_ [e2 [ok2 [saved [P [[_ [-> _]] | [_ [e3 [S3 _]]]]]]]]]]; simpl;
      try (apply inv_add; exact I).
    eapply stop_inst_inv; [exact S3|]. apply commit_inv. simpl. apply inv_add. exact I.
  - destruct (find_inst h (known s)) as [x|]; [|injection H as <- <- <-; exact I].
    destruct (stop_inst x s) as [s2 e2] eqn:E. injection H as <- <- <-. eapply stop_inst_inv; eauto.
  - destruct (stop_all (insts s) s) as [s2 e2] eqn:E. injection H as <- <- <-. eapply stop_all_inv; eauto.
  - destruct (find_inst h (known s)); injection H as <- <- <-; exact I.
  - destruct (once s); injection H as <- <- <-; exact I.
  - destruct (find_inst h (known s)); injection H as <- <- <-; exact I.
Qed.

Lemma final_wg_inv ops : forall s, wg_inv (fun _ => 0) (wg s) (serving s) ->
  wg_inv (fun _ => 0) (wg (final s ops)) (serving (final s ops)).
Proof.
  induction ops as [|o l IH]; intros s I; simpl; [exact I|].
  destruct (step s o) as [[s' ev] r] eqn:E. simpl. apply IH. eapply step_wg_inv; eauto.
Qed.

(* between operations the wait-group counter of a lineage is exactly the number of its Serve
   goroutines still running *)
Lemma wg_counts_serving ops r :
  wg (final init ops) r = cnt r (serving (final init ops)).
Proof.
  assert (I0 : wg_inv (fun _ => 0) (wg init) (serving init)) by (intro x; reflexivity).
  pose proof (final_wg_inv ops init I0 r) as I. simpl in I. lia.
Qed.

Lemma cnt_zero r sv : cnt r sv = 0 -> forall x, In x sv -> snd x <> r.
Proof.
  unfold cnt. intros H x Hx E. apply Nat.eqb_eq in E.
  assert (In x (filter (fun y => snd y =? r) sv)) as F by (apply filter_In; auto).
  destruct (filter (fun y => snd y =? r) sv); [contradiction|discriminate].
Qed.

(* Wait on an instance returns only when no server whose goroutine holds the lineage's wait
   group is serving *)
Lemma wait_after_all_servers ops h s' ev :
  step (final init ops) (OWait h) = (s', ev, RBool true) ->
  exists o, find_inst h (known (final init ops)) = Some o /\
            forall x, In x (serving (final init ops)) -> snd x <> i_root o.
Proof.
  simpl. destruct (find_inst h (known (final init ops))) as [o|] eqn:F; [|discriminate].
  intro H. injection H as _ _ H. apply Nat.eqb_eq in H. rewrite wg_counts_serving in H.
  exists o. split; [reflexivity|]. apply cnt_zero. exact H.
Qed.

(* the servers of a successor are accounted to the lineage of the instance it replaced: a reload
   commits the new instance with the old instance's root *)
Lemma reload_keeps_root s h c s' ev n :
  step s (ORestart h c) = (s', ev, RInst true n) ->
  exists o x, find_inst h (known s) = Some o /\ known s' = known s ++ [x] /\
              i_id x = n /\ i_root x = i_root o /\
              exists rest, serving s' = rest /\
                forall j, In (EServe n j) ev -> In (n, j, i_root o) (serving (commit x (next_after c n) (set_wg s (wg_add (i_root o) 1 (wg s))))).
Proof.
  simpl. unfold do_restart. intro H. destruct (find_inst h (known s)) as [o|] eqn:F; [|discriminate].
  pose proof (find_inst_id _ _ _ F) as Hid.
  destruct (restart_body o c (set_wg s (wg_add (i_root o) 1 (wg s)))) as [[s1 e1] r1] eqn:E.
  injection H as <- <- ->.
  apply restart_body_cases in E. cbv zeta in E. simpl in E. rewrite Hid in E.
  destruct E as [[_ [_ [D _]]] | [_ [e2 [ok2 [saved [P E]]]]]]; [discriminate|].
  destruct E as [[_ [_ [D _]]] | [-> [e3 [S3 E]]]]; [discriminate|].
  destruct E as [D ->]. injection D as D. subst n.
  exists o, (mkInst (next s) (i_root o) c saved). split; [reflexivity|].
  destruct (stop_inst_next _ _ _ _ S3) as [_ [K _]]. simpl. rewrite K.
  split.
  { unfold commit. destruct (spawn _ _ _ _ _). reflexivity. }
  split; [reflexivity|]. split; [reflexivity|]. eexists. split; [reflexivity|].
  intros j Hin.
  pose proof (start_plan_shape _ _ _ _ _ _ _ _ P) as [hd f su li tl Heq Hhd _ _ _ _ _ Hli _ _ Hok].
  destruct (Hok eq_refl) as [_ [-> [-> [-> [_ ->]]]]].
  assert (Hs : In (EServe (next s) j) (serve_events (next s) saved)).
  { pose proof (stop_inst_events _ _ _ _ S3) as Hst. subst e2. rewrite app_nil_r in Hin.
    repeat (apply in_app_or in Hin as [Hin|Hin]);
      try (apply in_cb_events in Hin as [m [D _]]; discriminate);
      try (simpl in Hin; intuition discriminate); auto.
    - apply (forallb_In _ _ _ Hli) in Hin. discriminate.
    - apply (forallb_In _ _ _ Hst) in Hin. discriminate. }
  unfold serve_events in Hs. apply in_map_iff in Hs as [x [Hx Hxs]]. injection Hx as <-.
  unfold commit. simpl. destruct (spawn (next s) (i_root o) saved _ _) as [w sv] eqn:SP. simpl.
  rewrite (spawn_serving _ _ _ _ _ _ _ SP). apply in_or_app. right.
  apply in_map_iff. exists x. auto.
Qed.

Lemma reload_shares_wait_group s h c s' ev n :
  step s (ORestart h c) = (s', ev, RInst true n) ->
  exists o x, find_inst h (known s) = Some o /\ known s' = known s ++ [x] /\
              i_id x = n /\ i_root x = i_root o.
Proof.
  intro H. destruct (reload_keeps_root _ _ _ _ _ _ H) as [o [x [A [B [C [D _]]]]]]. exists o, x. auto.
Qed.

Lemma failed_reload_start_events c i old oi ev saved e :
  start_plan c i true old oi = (ev, false, saved) -> In e ev ->
  e = ENew i \/ e = EMake i \/ (exists n, e = ECb KStartup i n) \/ is_listen_ev i oi e = true.
Proof. intro H. apply plan_fail_events with (c := c) (old := old) (saved := saved). apply start_plan_shape. exact H. Qed.

(* a fresh start: the complete list of events of a successful casket.Start *)
Lemma start_ok_shape s c s' ev n :
  step s (OStart c) = (s', ev, RInst true n) ->
  exists li saved,
    n = next s /\ listen_loop false [] 0 n 0 (c_servers c) = (li, true, saved) /\
    forallb (is_listen_ev n 0) li = true /\
    ev = ENew n :: EMake n :: cb_events KFirst n (labels (c_first c)) ++ cb_events KStartup n (labels (c_startup c))
         ++ li ++ serve_events n saved ++ after_events n saved ++ [EHook HInstanceStartup n].
Proof.
  simpl. unfold do_start. destruct (start_plan c (next s) false [] 0) as [[e ok] saved] eqn:E.
  destruct ok; intro H; [|destruct (start_panics c); discriminate]. injection H as <- <- <-.
  pose proof (start_plan_shape _ _ _ _ _ _ _ _ E) as [hd f su li tl Heq _ _ _ _ _ _ Hli _ _ Hok].
  destruct (Hok eq_refl) as [_ [-> [-> [-> [LL ->]]]]].
  exists li, saved. split; [reflexivity|]. split; [exact LL|]. split; [exact Hli|].
  rewrite Heq. simpl. rewrite <- !app_assoc. reflexivity.
Qed.

(* a failed start runs no restart / shutdown callback, stops nothing and serves nothing *)
Lemma start_fail_events s c s' ev n e :
  step s (OStart c) = (s', ev, RInst false n) -> In e ev ->
  e = ENew (next s) \/ e = EMake (next s) \/ (exists l, e = ECb KFirst (next s) l) \/
  (exists l, e = ECb KStartup (next s) l) \/ is_listen_ev (next s) 0 e = true.
Proof.
  simpl. unfold do_start. destruct (start_plan c (next s) false [] 0) as [[e0 ok] saved] eqn:E.
  destruct ok; intro H; [discriminate|]. destruct (start_panics c); [discriminate|]. injection H as <- <- <-. intro Hin.
  pose proof (start_plan_shape _ _ _ _ _ _ _ _ E) as [hd f su li tl Heq Hhd _ _ _ _ _ Hli _ Hft _].
  subst e0. rewrite (Hft eq_refl), app_nil_r in Hin.
  repeat (apply in_app_or in Hin as [Hin|Hin]).
  - destruct Hhd as [->|[->| ->]]; simpl in Hin; intuition.
  - apply in_cb_events in Hin as [l [-> _]]. eauto.
  - apply in_cb_events in Hin as [l [-> _]]. eauto 6.
  - right. right. right. right. eapply forallb_In; eauto.
Qed.

(* ------------------------------------------------------------------ instance numbers are unique *)
Definition ids (l : list inst) : list nat := map i_id l.

Record good (s : state) : Prop := mkGood {
  g_lt : forall x, In x (known s) -> i_id x < next s;
  g_nodup : NoDup (ids (known s));
  g_sub : forall x, In x (insts s) -> In x (known s);
  g_nodup_l : NoDup (ids (insts s)) }.

Lemma remove_id_incl h l x : In x (remove_id h l) -> In x l.
Proof.
  induction l as [|y l IH]; simpl; [auto|]. destruct (i_id y =? h); [auto|].
  intros [H|H]; auto.
Qed.

Lemma remove_id_nodup h l : NoDup (ids l) -> NoDup (ids (remove_id h l)).
Proof.
  induction l as [|y l IH]; simpl; [auto|]. intro H. inversion H as [|a b Hn Hd]; subst.
  destruct (i_id y =? h); [exact Hd|]. simpl. constructor; [|auto].
  intro C. apply Hn. unfold ids in *. apply in_map_iff in C as [z [Hz Hin]].
  apply in_map_iff. exists z. split; [exact Hz|]. eapply remove_id_incl; eauto.
Qed.

Lemma remove_id_gone h l : NoDup (ids l) -> ~ In h (ids (remove_id h l)).
Proof.
  induction l as [|y l IH]; simpl; [auto|]. intro H. inversion H as [|a b Hn Hd]; subst.
  destruct (i_id y =? h) eqn:E.
  - apply Nat.eqb_eq in E. subst h. exact Hn.
  - simpl. intros [C|C]; [apply Nat.eqb_neq in E; auto|]. apply (IH Hd C).
Qed.

Lemma remove_id_other h l x : In x l -> i_id x <> h -> In x (remove_id h l).
Proof.
  induction l as [|y l IH]; simpl; [auto|]. intros [->|H] Hne.
  - destruct (i_id x =? h) eqn:E; [apply Nat.eqb_eq in E; contradiction|left; reflexivity].
  - destruct (i_id y =? h); [exact H|right; auto].
Qed.

Lemma nodup_snoc (l : list nat) a : NoDup l -> ~ In a l -> NoDup (l ++ [a]).
Proof.
  induction l as [|b l IH]; simpl; intros H Hn; [constructor; [auto|constructor]|].
  inversion H as [|c d Hc Hd]; subst. constructor.
  - intro C. apply in_app_or in C as [C|[C|[]]]; [auto|]. subst. apply Hn. left. reflexivity.
  - apply IH; auto.
Qed.

Lemma find_unique l x : NoDup (ids l) -> In x l -> find_inst (i_id x) l = Some x.
Proof.
  induction l as [|y l IH]; simpl; [contradiction|]. intros H [->|Hin].
  - rewrite Nat.eqb_refl. reflexivity.
  - inversion H as [|a b Hn Hd]; subst. destruct (i_id y =? i_id x) eqn:E; [|auto].
    apply Nat.eqb_eq in E. exfalso. apply Hn. rewrite E. unfold ids. apply in_map. exact Hin.
Qed.

Lemma commit_fields ni nx s :
  insts (commit ni nx s) = insts s ++ [ni] /\ known (commit ni nx s) = known s ++ [ni] /\
  next (commit ni nx s) = nx /\ once (commit ni nx s) = once s.
Proof. unfold commit. destruct (spawn (i_id ni) (i_root ni) (i_srv ni) (wg s) (serving s)). simpl. auto. Qed.

Lemma stop_inst_fields o s s' ev : stop_inst o s = (s', ev) ->
  insts s' = remove_id (i_id o) (insts s) /\ known s' = known s /\ next s' = next s /\ once s' = once s.
Proof.
  unfold stop_inst. destruct (stop_servers (i_id o) (i_srv o) (wg s) (serving s)) as [[w sv] e].
  intro H. injection H as <- <-. simpl. auto.
Qed.

Lemma good_commit ni s :
  good s -> i_id ni = next s -> good (commit ni (S (next s)) s).
Proof.
  intros [G1 G2 G3 G4] Hid. destruct (commit_fields ni (S (next s)) s) as [A [B [C D]]].
  assert (Hfresh : forall l, (forall x, In x l -> i_id x < next s) -> ~ In (i_id ni) (ids l)).
  { intros l Hl Cn. unfold ids in Cn. apply in_map_iff in Cn as [z [Hz Hin]]. specialize (Hl z Hin). lia. }
  constructor; rewrite ?A, ?B, ?C.
  - intros x Hx. apply in_app_or in Hx as [Hx|[<-|[]]]; [specialize (G1 x Hx); lia|lia].
  - unfold ids. rewrite map_app. simpl. apply nodup_snoc; [exact G2|]. apply Hfresh. exact G1.
  - intros x Hx. apply in_app_or in Hx as [Hx|[<-|[]]]; apply in_or_app; [left; auto|right; left; reflexivity].
  - unfold ids. rewrite map_app. simpl. apply nodup_snoc; [exact G4|]. apply Hfresh. intros x Hx. auto.
Qed.

Lemma good_set_wg s w : good s -> good (set_wg s w).
Proof. intros [G1 G2 G3 G4]. constructor; simpl; auto. Qed.
Lemma good_set_wg_inv s w : good (set_wg s w) -> good s.
Proof. intros [G1 G2 G3 G4]. constructor; simpl in *; auto. Qed.

Lemma good_set_next s n : good s -> next s <= n -> good (set_next s n).
Proof. intros [G1 G2 G3 G4] H. constructor; simpl; auto. intros x Hx. specialize (G1 x Hx). lia. Qed.

Lemma good_stop_inst o s s' ev : stop_inst o s = (s', ev) -> good s -> good s'.
Proof.
  intros H [G1 G2 G3 G4]. destruct (stop_inst_fields _ _ _ _ H) as [A [B [C D]]].
  constructor; rewrite ?A, ?B, ?C; auto.
  - intros x Hx. apply G3. eapply remove_id_incl; eauto.
  - apply remove_id_nodup. exact G4.
Qed.

Lemma good_stop_all l : forall s s' ev, stop_all l s = (s', ev) -> good s -> good s'.
Proof.
  induction l as [|o l IH]; intros s s' ev E G; simpl in E.
  - injection E as <- <-. exact G.
  - destruct (stop_inst o (set_wg s (wg_add (i_root o) 1 (wg s)))) as [sa ea] eqn:E1.
    destruct (stop_all l sa) as [sb eb] eqn:E2. injection E as <- <-.
    apply good_set_wg. eapply IH; [exact E2|]. eapply good_stop_inst; [exact E1|]. apply good_set_wg. exact G.
Qed.

Lemma plan_ok_next c i restart old oi ev saved :
  start_plan c i restart old oi = (ev, true, saved) -> next_after c i = S i.
Proof.
  intro H. apply start_plan_shape in H. destruct H as [hd f su li tl _ _ _ _ _ _ _ _ _ _ Hok].
  destruct (Hok eq_refl) as [P _]. unfold next_after. rewrite P. reflexivity.
Qed.

Lemma step_good s o s' ev r : step s o = (s', ev, r) -> good s -> good s'.
Proof.
  destruct o as [c|h c|h| |h| |h]; simpl; intros H G.
  - unfold do_start in H. destruct (start_plan c (next s) false [] 0) as [[e ok] saved] eqn:E.
    destruct ok; injection H as <- <- <-.
    + rewrite (plan_ok_next _ _ _ _ _ _ _ E). apply good_commit; auto.
    + apply good_set_next; [exact G|apply next_after_le].
  - unfold do_restart in H. destruct (find_inst h (known s)) as [o|]; [|injection H as <- <- <-; exact G].
    destruct (restart_body o c (set_wg s (wg_add (i_root o) 1 (wg s)))) as [[s1 e1] r1] eqn:E.
    injection H as <- <- <-. apply good_set_wg.
    apply restart_body_cases in E. cbv zeta in E. simpl in E.
    destruct E as [[_ [-> _]] | [_ [e2 [ok2 [saved [P [[_ [-> _]] | [-> [e3 [S3 _]]]]]]]]]].
    + apply good_set_wg. exact G.
    + apply good_set_next; [apply good_set_wg; exact G|apply next_after_le].
    + eapply good_stop_inst; [exact S3|]. rewrite (plan_ok_next _ _ _ _ _ _ _ P).
      change (S (next s)) with (S (next (set_wg s (wg_add (i_root o) 1 (wg s))))).
      apply good_commit; [apply good_set_wg; exact G|reflexivity].
  - destruct (find_inst h (known s)) as [x|]; [|injection H as <- <- <-; exact G].
    destruct (stop_inst x s) as [s2 e2] eqn:E. injection H as <- <- <-. eapply good_stop_inst; eauto.
  - destruct (stop_all (insts s) s) as [s2 e2] eqn:E. injection H as <- <- <-. eapply good_stop_all; eauto.
  - destruct (find_inst h (known s)); injection H as <- <- <-; exact G.
  - destruct (once s); injection H as <- <- <-; [exact G|]. destruct G as [G1 G2 G3 G4]. constructor; simpl; auto.
  - destruct (find_inst h (known s)); injection H as <- <- <-; exact G.
Qed.

Lemma good_init : good init.
Proof. constructor; simpl; intros; try contradiction; constructor. Qed.

Lemma final_good ops : forall s, good s -> good (final s ops).
Proof.
  induction ops as [|o l IH]; intros s G; simpl; [exact G|].
  destruct (step s o) as [[s' ev] r] eqn:E. simpl. apply IH. eapply step_good; eauto.
Qed.

(* after every history the live instances have pairwise different numbers, are known, and all
   numbers are below the next one *)
Lemma live_instances_distinct ops : good (final init ops).
Proof. apply final_good. apply good_init. Qed.

(* ------------------------------------------------------------------ shutdown callbacks over a whole history *)
(* well-formed histories: the embedding program reloads only live instances, never after the
   process began to shut down, and does not call Instance.ShutdownCallbacks itself *)
Definition target_ok (s : state) (o : op) : Prop :=
  match o with
  | ORestart h _ => In h (ids (insts s)) /\ once s = false
  | OShutdownCbs _ => False
  | _ => True
  end.
Fixpoint wf_from (s : state) (ops : list op) : Prop :=
  match ops with
  | [] => True
  | o :: r => target_ok s o /\ wf_from (fst (fst (step s o))) r
  end.

Definition sd_ok (x : inst) (p : list nat) : Prop :=
  p = [] \/ p = labels (c_shutdown (i_cfg x)).

Record sdinv (s : state) (tr : list event) : Prop := mkSd {
  sd_known : forall x, In x (known s) -> sd_ok x (proj KShutdown (i_id x) tr);
  sd_live : once s = false -> forall x, In x (insts s) -> proj KShutdown (i_id x) tr = [];
  sd_unknown : forall j, ~ In j (ids (known s)) -> proj KShutdown j tr = [] }.

Lemma not_in_ids_next s : good s -> ~ In (next s) (ids (known s)).
Proof.
  intros [G1 _ _ _] C. unfold ids in C. apply in_map_iff in C as [x [Hx Hin]]. specialize (G1 x Hin). lia.
Qed.

Lemma sd_quiet s s' tr ev :
  good s -> sdinv s tr ->
  (forall j, proj KShutdown j ev = []) ->
  (forall x, In x (known s') -> In x (known s) \/ i_id x = next s) ->
  (forall x, In x (known s) -> In x (known s')) ->
  (forall x, In x (insts s') -> In x (insts s) \/ i_id x = next s) ->
  (once s' = false -> once s = false) ->
  sdinv s' (tr ++ ev).
Proof.
  intros G [S1 S2 S3] Hq HK HK' HL HO.
  pose proof (not_in_ids_next s G) as Hn.
  constructor.
  - intros x Hx. rewrite proj_app, Hq, app_nil_r. destruct (HK x Hx) as [H|H]; [auto|].
    left. rewrite H. apply S3. exact Hn.
  - intros O x Hx. rewrite proj_app, Hq, app_nil_r. destruct (HL x Hx) as [H|H]; [apply S2; auto|].
    rewrite H. apply S3. exact Hn.
  - intros j Hj. rewrite proj_app, Hq, app_nil_r. apply S3. intro C. apply Hj.
    unfold ids in *. apply in_map_iff in C as [x [Hx Hin]]. apply in_map_iff. exists x. auto.
Qed.

Lemma no_shutdown_proj ev : (forall j l, ~ In (ECb KShutdown j l) ev) -> forall j, proj KShutdown j ev = [].
Proof. intros H j. apply proj_nil_iff. intros n. apply H. Qed.

Lemma stop_all_fields l : forall s s' ev, stop_all l s = (s', ev) ->
  known s' = known s /\ once s' = once s /\ next s' = next s /\ (forall x, In x (insts s') -> In x (insts s)).
Proof.
  induction l as [|o l IH]; intros s s' ev E; simpl in E.
  - injection E as <- <-. auto.
  - destruct (stop_inst o (set_wg s (wg_add (i_root o) 1 (wg s)))) as [sa ea] eqn:E1.
    destruct (stop_all l sa) as [sb eb] eqn:E2. injection E as <- <-. simpl.
    destruct (IH _ _ _ E2) as [A [B [C D]]]. destruct (stop_inst_fields _ _ _ _ E1) as [A1 [B1 [C1 D1]]].
    rewrite A, B, C, B1, C1, D1. simpl. repeat split; auto.
    intros x Hx. apply D in Hx. rewrite A1 in Hx. simpl in Hx. eapply remove_id_incl; eauto.
Qed.

Lemma proj_all_shutdown_none j l : ~ In j (ids l) -> proj KShutdown j (all_shutdown l) = [].
Proof.
  intro H. apply proj_nil_iff. intros n C. apply in_all_shutdown in C as [x [m [Hx [E|E]]]]; [|discriminate].
  injection E as -> ->. apply H. unfold ids. apply in_map. exact Hx.
Qed.

Lemma proj_shutdown_cbs x j :
  proj KShutdown j (shutdown_cbs x) = if i_id x =? j then labels (c_shutdown (i_cfg x)) else [].
Proof.
  unfold shutdown_cbs. rewrite !run_all_labels, proj_app. unfold cb_events.
  rewrite (proj_cbs_other KShutdown j KFinal) by reflexivity. rewrite app_nil_r.
  destruct (i_id x =? j) eqn:E.
  - apply Nat.eqb_eq in E. subst j. apply proj_cbs_same.
  - apply proj_cbs_other. simpl. rewrite Nat.eqb_sym. exact E.
Qed.

Lemma proj_all_shutdown l : forall x, NoDup (ids l) -> In x l ->
  proj KShutdown (i_id x) (all_shutdown l) = labels (c_shutdown (i_cfg x)).
Proof.
  induction l as [|y l IH]; intros x Hn Hin; simpl in *; [contradiction|].
  inversion Hn as [|a b Hy Hd]; subst. unfold all_shutdown. simpl. rewrite proj_app, proj_shutdown_cbs.
  destruct Hin as [->|Hin].
  - rewrite Nat.eqb_refl. fold (all_shutdown l). rewrite proj_all_shutdown_none by exact Hy. apply app_nil_r.
  - destruct (i_id y =? i_id x) eqn:E.
    + apply Nat.eqb_eq in E. exfalso. apply Hy. rewrite E. unfold ids. apply in_map. exact Hin.
    + simpl. apply IH; auto.
Qed.

Lemma live_is_found s x : good s -> In x (insts s) -> find_inst (i_id x) (known s) = Some x.
Proof. intros [_ G2 G3 _] H. apply find_unique; auto. Qed.

Lemma known_live s x : good s -> In x (known s) -> In (i_id x) (ids (insts s)) -> In x (insts s).
Proof.
  intros [G1 G2 G3 G4] Hk Hl. unfold ids in Hl. apply in_map_iff in Hl as [y [Hy Hin]].
  pose proof (find_unique _ _ G2 (G3 y Hin)) as F1. pose proof (find_unique _ _ G2 Hk) as F2.
  rewrite Hy in F1. rewrite F1 in F2. injection F2 as ->. exact Hin.
Qed.

Lemma step_sd s o s' ev r tr :
  step s o = (s', ev, r) -> good s -> target_ok s o -> sdinv s tr -> sdinv s' (tr ++ ev).
Proof.
  intros H G T SD.
  assert (Q : forall k : nat, (match o with ORestart _ _ | OShutdownCbs _ | OExecShutdown => False | _ => True end) ->
              forall j l, ~ In (ECb KShutdown j l) ev).
  { intros _ Ho j l Hin. pose proof (step_cb_kinds _ _ _ _ _ _ _ _ H Hin) as K.
    destruct o; try contradiction. destruct K as [_ [D|D]]; discriminate. }
  destruct o as [c|h c|h| |h| |h]; simpl in H, T.
  - (* Start *)
    apply (sd_quiet s); auto; try (apply no_shutdown_proj; apply (Q 0); exact I).
    + unfold do_start in H. destruct (start_plan c (next s) false [] 0) as [[e ok] saved] eqn:E.
      destruct ok; injection H as <- <- <-; simpl; auto.
      destruct (commit_fields (mkInst (next s) (next s) c saved) (next_after c (next s)) s) as [_ [B _]]. rewrite B.
      intros x Hx. apply in_app_or in Hx as [Hx|[<-|[]]]; auto.
    + unfold do_start in H. destruct (start_plan c (next s) false [] 0) as [[e ok] saved] eqn:E.
      destruct ok; injection H as <- <- <-; simpl; auto.
      destruct (commit_fields (mkInst (next s) (next s) c saved) (next_after c (next s)) s) as [_ [B _]]. rewrite B.
      intros x Hx. apply in_or_app. auto.
    + unfold do_start in H. destruct (start_plan c (next s) false [] 0) as [[e ok] saved] eqn:E.
      destruct ok; injection H as <- <- <-; simpl; auto.
      destruct (commit_fields (mkInst (next s) (next s) c saved) (next_after c (next s)) s) as [A _]. rewrite A.
      intros x Hx. apply in_app_or in Hx as [Hx|[<-|[]]]; auto.
    + unfold do_start in H. destruct (start_plan c (next s) false [] 0) as [[e ok] saved] eqn:E.
      destruct ok; injection H as <- <- <-; simpl; auto.
      destruct (commit_fields (mkInst (next s) (next s) c saved) (next_after c (next s)) s) as [_ [_ [_ D]]]. rewrite D. auto.
  - (* Restart of a live instance before process shutdown *)
    destruct T as [Tl To].
    unfold ids in Tl. apply in_map_iff in Tl as [o [Hoid Holive]].
    pose proof (live_is_found s o G Holive) as F. rewrite Hoid in F.
    unfold do_restart in H. rewrite F in H.
    destruct (restart_body o c (set_wg s (wg_add (i_root o) 1 (wg s)))) as [[s1 e1] r1] eqn:E.
    injection H as <- <- <-.
    apply restart_body_cases in E. cbv zeta in E. simpl in E. rewrite Hoid in E.
    assert (PL : forall e2 ok2 saved j, start_plan c (next s) true (i_srv o) h = (e2, ok2, saved) -> proj KShutdown j e2 = []).
    { intros e2 ok2 saved j P. apply proj_nil_iff. intros n Hin.
      apply start_plan_shape in P. destruct (plan_cb_in _ _ _ _ _ _ _ _ _ _ _ P Hin) as [_ [[D _]|D]]; discriminate. }
    destruct E as [[_ [-> [_ ->]]] | [_ [e2 [ok2 [saved [P E]]]]]].
    + apply (sd_quiet s); simpl; auto. intro j. unfold cb_events. rewrite proj_app, !proj_cbs_other by reflexivity. reflexivity.
    + destruct E as [[_ [-> [_ ->]]] | [-> [e3 [S3 E]]]].
      * apply (sd_quiet s); simpl; auto. intro j. unfold cb_events.
        rewrite !proj_app, !proj_cbs_other by reflexivity. rewrite (PL _ _ _ j P). reflexivity.
      * (* the switch-over happened *)
        pose proof (stop_inst_events _ _ _ _ S3) as Hst.
        destruct (stop_inst_fields _ _ _ _ S3) as [A [B [C D]]].
        set (ni := mkInst (next s) (i_root o) c saved) in *.
        destruct (commit_fields ni (next_after c (next s)) (set_wg s (wg_add (i_root o) 1 (wg s)))) as [A2 [B2 [C2 D2]]].
        simpl in A2, B2, D2. rewrite A2 in A. rewrite B2 in B. rewrite D2 in D.
        assert (Hh : h < next s).
        { destruct G as [G1 _ G3 _]. specialize (G1 o (G3 o Holive)). lia. }
        assert (PE : forall j, proj KShutdown j e1 = if j =? h then labels (c_shutdown (i_cfg o)) else []).
        { destruct E as [_ ->]. intro j. unfold cb_events.
          rewrite !proj_app, (PL _ _ _ j P), (proj_stop _ _ _ _ Hst), !(proj_cbs_other KShutdown j KRestart) by reflexivity.
          simpl. rewrite app_nil_r. destruct (j =? h) eqn:Ej.
          + apply Nat.eqb_eq in Ej. subst j. apply proj_cbs_same.
          + apply proj_cbs_other. simpl. exact Ej. }
        destruct SD as [S1 S2 S3']. pose proof (not_in_ids_next s G) as Hn.
        constructor; simpl.
        -- rewrite B. intros x Hx. rewrite proj_app, PE. apply in_app_or in Hx as [Hx|[<-|[]]].
           ++ destruct (i_id x =? h) eqn:Ex.
              ** apply Nat.eqb_eq in Ex. assert (x = o).
                 { pose proof (find_unique _ _ (g_nodup _ G) Hx) as F2. rewrite Ex, F in F2. injection F2 as ->. reflexivity. }
                 subst x. rewrite (S2 To o Holive). simpl. right. reflexivity.
              ** rewrite app_nil_r. auto.
           ++ simpl. destruct (next s =? h) eqn:Ex; [apply Nat.eqb_eq in Ex; lia|]. rewrite app_nil_r. left. apply S3'. exact Hn.
        -- rewrite D, A. intros _ x Hx.
           assert (ND : NoDup (ids (insts s ++ [ni]))).
           { unfold ids. rewrite map_app. simpl. apply nodup_snoc; [apply (g_nodup_l _ G)|].
             intro Cx. apply Hn. unfold ids in *. apply in_map_iff in Cx as [z [Hz Hin]]. apply in_map_iff.
             exists z. split; [exact Hz|]. apply (g_sub _ G). exact Hin. }
           assert (Hne : i_id x <> i_id o).
           { intro Cx. apply (remove_id_gone (i_id o) _ ND).
             assert (Hm : In (i_id x) (ids (remove_id (i_id o) (insts s ++ [ni])))) by (unfold ids; apply in_map; exact Hx).
             rewrite Cx in Hm. exact Hm. }
           apply remove_id_incl in Hx. rewrite proj_app, PE.
           destruct (i_id x =? h) eqn:Ex; [apply Nat.eqb_eq in Ex; congruence|]. rewrite app_nil_r.
           apply in_app_or in Hx as [Hx|[<-|[]]]; [apply S2; auto|]. simpl. apply S3'. exact Hn.
        -- rewrite B. intros j Hj. rewrite proj_app, PE.
           assert (Hj' : ~ In j (ids (known s))).
           { intro Cx. apply Hj. unfold ids in *. rewrite map_app. apply in_or_app. left. exact Cx. }
           destruct (j =? h) eqn:Ej.
           ++ apply Nat.eqb_eq in Ej. subst j. exfalso. apply Hj'. rewrite <- Hoid. unfold ids. apply in_map. apply (g_sub _ G). exact Holive.
           ++ rewrite app_nil_r. apply S3'. exact Hj'.
  - (* Instance.Stop *)
    destruct (find_inst h (known s)) as [x|] eqn:F.
    2:{ injection H as <- <- <-. rewrite app_nil_r. exact SD. }
    destruct (stop_inst x s) as [s2 e2] eqn:E. injection H as <- <- <-.
    destruct (stop_inst_fields _ _ _ _ E) as [A [B [C D]]].
    apply (sd_quiet s); auto; try (apply no_shutdown_proj; apply (Q 0); exact I); rewrite ?A, ?B, ?D; auto.
    intros y Hy. left. eapply remove_id_incl; eauto.
  - (* Stop *)
    destruct (stop_all (insts s) s) as [s2 e2] eqn:E. injection H as <- <- <-.
    destruct (stop_all_fields _ _ _ _ E) as [A [B [C D]]].
    apply (sd_quiet s); auto; try (apply no_shutdown_proj; apply (Q 0); exact I); rewrite ?A, ?B; auto.
  - contradiction.
  - (* executeShutdownCallbacks *)
    destruct (once s) eqn:O; injection H as <- <- <-.
    { rewrite app_nil_r. exact SD. }
    destruct SD as [S1 S2 S3']. constructor; simpl.
    + intros x Hx. rewrite proj_app. change (EHook HShutdown 0 :: all_shutdown (insts s)) with ([EHook HShutdown 0] ++ all_shutdown (insts s)).
      rewrite proj_app. simpl (proj KShutdown (i_id x) [EHook HShutdown 0]). simpl.
      destruct (in_dec Nat.eq_dec (i_id x) (ids (insts s))) as [L|L].
      * pose proof (known_live s x G Hx L) as Hl. rewrite (S2 O x Hl). simpl.
        rewrite (proj_all_shutdown _ _ (g_nodup_l _ G) Hl). right. reflexivity.
      * rewrite (proj_all_shutdown_none _ _ L), app_nil_r. auto.
    + discriminate.
    + intros j Hj. rewrite proj_app. change (EHook HShutdown 0 :: all_shutdown (insts s)) with ([EHook HShutdown 0] ++ all_shutdown (insts s)).
      rewrite proj_app. simpl (proj KShutdown j [EHook HShutdown 0]). simpl.
      rewrite (S3' j Hj). simpl. apply proj_all_shutdown_none. intro C. apply Hj.
      unfold ids in *. apply in_map_iff in C as [x [Hx Hin]]. apply in_map_iff. exists x. split; [exact Hx|]. apply (g_sub _ G). exact Hin.
  - (* Wait *)
    destruct (find_inst h (known s)); injection H as <- <- <-; rewrite app_nil_r; exact SD.
Qed.

Lemma sd_init : sdinv init [].
Proof. constructor; simpl; intros; try contradiction; reflexivity. Qed.

Lemma run_sd ops : forall s tr, good s -> sdinv s tr -> wf_from s ops ->
  good (final s ops) /\ sdinv (final s ops) (tr ++ trace (run s ops)).
Proof.
  induction ops as [|o l IH]; intros s tr G SD W; simpl.
  - rewrite app_nil_r. auto.
  - simpl in W. destruct W as [T W]. destruct (step s o) as [[s' ev] r] eqn:E. simpl in W. simpl (fst (fst _)).
    rewrite trace_cons. change (rec_events (o, ev, r)) with ev. rewrite app_assoc.
    apply IH; [eapply step_good; eauto|eapply step_sd; eauto|exact W].
Qed.

(* over a well-formed history the shutdown callbacks of every instance run at most once, in
   order: not at all, up to the first error (reload), or all of them *)
Lemma shutdown_at_most_once ops :
  wf_from init ops ->
  (forall x, In x (known (final init ops)) -> sd_ok x (proj KShutdown (i_id x) (trace (run init ops)))) /\
  (forall j, ~ In j (ids (known (final init ops))) -> proj KShutdown j (trace (run init ops)) = []).
Proof.
  intro W. destruct (run_sd ops init [] good_init sd_init W) as [_ [S1 _ S3]]. simpl in *. auto.
Qed.

Lemma wf_app a : forall s b, wf_from s (a ++ b) -> wf_from s a /\ wf_from (final s a) b.
Proof.
  induction a as [|o l IH]; intros s b W; simpl in *; [auto|].
  destruct W as [T W]. destruct (IH _ _ W) as [W1 W2]. auto.
Qed.

Lemma after_once_quiet ops : forall s, once s = true -> wf_from s ops ->
  forall k j, k = KShutdown \/ k = KFinal -> proj k j (trace (run s ops)) = [].
Proof.
  induction ops as [|o l IH]; intros s O W k j Hk; simpl; [reflexivity|].
  simpl in W. destruct W as [T W]. destruct (step s o) as [[s' ev] r] eqn:E. simpl in W.
  rewrite trace_cons, proj_app. change (rec_events (o, ev, r)) with ev.
  assert (O' : once s' = true) by (rewrite (step_once _ _ _ _ _ E), O; reflexivity).
  rewrite (IH s' O' W k j Hk), app_nil_r.
  apply proj_nil_iff. intros n Hin. pose proof (step_cb_kinds _ _ _ _ _ _ _ _ E Hin) as K.
  destruct o; simpl in T; try contradiction.
  - destruct K as [_ [->| ->]]; destruct Hk; discriminate.
  - destruct T as [_ T]. congruence.
  - simpl in E. rewrite O in E. injection E as <- <- <-. contradiction.
Qed.

Lemma before_exec_no_final ops : forall s, wf_from s ops -> forallb (fun o => negb (is_exec o)) ops = true ->
  forall j, proj KFinal j (trace (run s ops)) = [].
Proof.
  induction ops as [|o l IH]; intros s W N j; simpl; [reflexivity|].
  simpl in W, N. destruct W as [T W]. apply andb_true_iff in N as [N1 N2].
  destruct (step s o) as [[s' ev] r] eqn:E. simpl in W.
  rewrite trace_cons, proj_app. change (rec_events (o, ev, r)) with ev.
  rewrite (IH s' W N2 j), app_nil_r.
  apply proj_nil_iff. intros n Hin.
  destruct (final_shutdown_only_at_exit _ _ _ _ _ _ _ E Hin) as [->|[h [-> _]]]; [discriminate|contradiction].
Qed.

Lemma proj_final_cbs x j :
  proj KFinal j (shutdown_cbs x) = if i_id x =? j then labels (c_final (i_cfg x)) else [].
Proof.
  unfold shutdown_cbs. rewrite !run_all_labels, proj_app. unfold cb_events.
  rewrite (proj_cbs_other KFinal j KShutdown) by reflexivity. simpl.
  destruct (i_id x =? j) eqn:E.
  - apply Nat.eqb_eq in E. subst j. apply proj_cbs_same.
  - apply proj_cbs_other. simpl. rewrite Nat.eqb_sym. exact E.
Qed.

Lemma proj_final_all_none j l : ~ In j (ids l) -> proj KFinal j (all_shutdown l) = [].
Proof.
  intro H. apply proj_nil_iff. intros n C. apply in_all_shutdown in C as [x [m [Hx [E|E]]]]; [discriminate|].
  injection E as -> ->. apply H. unfold ids. apply in_map. exact Hx.
Qed.

Lemma proj_final_all l : forall x, NoDup (ids l) -> In x l ->
  proj KFinal (i_id x) (all_shutdown l) = labels (c_final (i_cfg x)).
Proof.
  induction l as [|y l IH]; intros x Hn Hin; simpl in *; [contradiction|].
  inversion Hn as [|a b Hy Hd]; subst. unfold all_shutdown. simpl. rewrite proj_app, proj_final_cbs.
  destruct Hin as [->|Hin].
  - rewrite Nat.eqb_refl. fold (all_shutdown l). rewrite proj_final_all_none by exact Hy. apply app_nil_r.
  - destruct (i_id y =? i_id x) eqn:E.
    + apply Nat.eqb_eq in E. exfalso. apply Hy. rewrite E. unfold ids. apply in_map. exact Hin.
    + simpl. apply IH; auto.
Qed.

Lemma proj_cons_hook k i h j l : proj k i (EHook h j :: l) = proj k i l.
Proof. reflexivity. Qed.

(* process shutdown: whatever happened before (starts, reloads successful or failed, stops) and
   however many signals follow, every instance live when the first signal arrives has ALL its
   shutdown callbacks and ALL its final-shutdown callbacks run exactly once over the whole
   history, in order *)
Lemma process_shutdown_exactly_once pre post x :
  forallb (fun o => negb (is_exec o)) pre = true ->
  wf_from init (pre ++ OExecShutdown :: post) ->
  In x (insts (final init pre)) ->
  let tr := trace (run init (pre ++ OExecShutdown :: post)) in
  proj KShutdown (i_id x) tr = labels (c_shutdown (i_cfg x)) /\
  proj KFinal (i_id x) tr = labels (c_final (i_cfg x)).
Proof.
  intros N W Hx. cbv zeta.
  destruct (wf_app _ _ _ W) as [W1 W2].
  destruct (run_sd pre init [] good_init sd_init W1) as [G [_ S2 _]]. simpl in S2.
  destruct (no_exec_run pre init N) as [_ O]. simpl in O.
  rewrite run_app. unfold trace. rewrite flat_map_app. fold (trace (run init pre)).
  simpl (run (final init pre) (OExecShutdown :: post)). rewrite O. simpl in W2. rewrite O in W2. simpl in W2. destruct W2 as [_ W2].
  simpl (flat_map _ (_ :: _)). unfold rec_events at 2. simpl (snd (fst _)).
  match goal with |- context [run ?s1 post] => set (s1' := s1) in * end.
  fold (trace (run s1' post)).
  assert (O1 : once s1' = true) by reflexivity.
  split.
  - rewrite !proj_app. rewrite (S2 O x Hx). simpl.
    rewrite proj_cons_hook, proj_app.
    rewrite (proj_all_shutdown _ _ (g_nodup_l _ G) Hx).
    rewrite (after_once_quiet post s1' O1 W2 KShutdown (i_id x) (or_introl eq_refl)). apply app_nil_r.
  - rewrite !proj_app. rewrite (before_exec_no_final pre init W1 N). simpl.
    rewrite proj_cons_hook, proj_app.
    rewrite (proj_final_all _ _ (g_nodup_l _ G) Hx).
    change (flat_map (fun r : record => snd (fst r)) (run s1' post)) with (trace (run s1' post)).
    rewrite (after_once_quiet post s1' O1 W2 KFinal (i_id x) (or_intror eq_refl)). apply app_nil_r.
Qed.

(* ------------------------------------------------------------------ whose wait group a goroutine holds *)
(* every running Serve goroutine belongs to a known instance and holds that instance's wait group *)
Definition rooted (s : state) : Prop :=
  forall e, In e (serving s) -> exists x, In x (known s) /\ i_id x = fst (fst e) /\ i_root x = snd e.

Lemma take_serving_incl i j sv root sv1 e : take_serving i j sv = Some (root, sv1) -> In e sv1 -> In e sv.
Proof.
  revert root sv1. induction sv as [|x sv IH]; intros root sv1 H Hin; simpl in H; [discriminate|].
  destruct ((fst (fst x) =? i) && (snd (fst x) =? j)).
  - injection H as <- <-. right. exact Hin.
  - destruct (take_serving i j sv) as [[r' l']|]; [|discriminate]. injection H as <- <-.
    destruct Hin as [<-|Hin]; [left; reflexivity|right; eapply IH; eauto].
Qed.

Lemma stop_servers_incl i srv : forall w sv w' sv' ev e,
  stop_servers i srv w sv = (w', sv', ev) -> In e sv' -> In e sv.
Proof.
  induction srv as [|[j sp] srv IH]; intros w sv w' sv' ev e H Hin; simpl in H.
  - injection H as <- <- <-. exact Hin.
  - destruct (sv_graceful sp); [|eapply IH; eauto].
    destruct (take_serving i j sv) as [[root sv1]|] eqn:T.
    + destruct (stop_servers i srv (wg_done root w) sv1) as [[w2 sv2] ev2] eqn:E.
      injection H as <- <- <-. eapply take_serving_incl; eauto.
    + destruct (stop_servers i srv w sv) as [[w2 sv2] ev2] eqn:E.
      injection H as <- <- <-. eapply IH; eauto.
Qed.

Lemma rooted_stop_inst o s s' ev : stop_inst o s = (s', ev) -> rooted s -> rooted s'.
Proof.
  unfold stop_inst. destruct (stop_servers (i_id o) (i_srv o) (wg s) (serving s)) as [[w sv] e0] eqn:E.
  intros H R. injection H as <- <-. intros e He. simpl in *. apply R. eapply stop_servers_incl; eauto.
Qed.

Lemma rooted_stop_all l : forall s s' ev, stop_all l s = (s', ev) -> rooted s -> rooted s'.
Proof.
  induction l as [|o l IH]; intros s s' ev E R; simpl in E.
  - injection E as <- <-. exact R.
  - destruct (stop_inst o (set_wg s (wg_add (i_root o) 1 (wg s)))) as [sa ea] eqn:E1.
    destruct (stop_all l sa) as [sb eb] eqn:E2. injection E as <- <-.
    assert (R2 : rooted sb) by (eapply IH; [exact E2|]; eapply rooted_stop_inst; [exact E1|]; exact R).
    exact R2.
Qed.

Lemma rooted_commit ni nx s : rooted s -> rooted (commit ni nx s).
Proof.
  intro R. unfold commit. destruct (spawn (i_id ni) (i_root ni) (i_srv ni) (wg s) (serving s)) as [w sv] eqn:E.
  intros e He. simpl in *. rewrite (spawn_serving _ _ _ _ _ _ _ E) in He.
  apply in_app_or in He as [He|He].
  - destruct (R e He) as [x [Hx Hr]]. exists x. split; [apply in_or_app; auto|exact Hr].
  - apply in_map_iff in He as [y [<- _]]. exists ni. simpl. split; [apply in_or_app; right; left; reflexivity|auto].
Qed.

Lemma step_rooted s o s' ev r : step s o = (s', ev, r) -> rooted s -> rooted s'.
Proof.
  destruct o as [c|h c|h| |h| |h]; simpl; intros H R.
  - unfold do_start in H. destruct (start_plan c (next s) false [] 0) as [[e ok] saved].
    destruct ok; injection H as <- <- <-; [apply rooted_commit; exact R|exact R].
  - unfold do_restart in H. destruct (find_inst h (known s)) as [o|]; [|injection H as <- <- <-; exact R].
    destruct (restart_body o c (set_wg s (wg_add (i_root o) 1 (wg s)))) as [[s1 e1] r1] eqn:E.
    injection H as <- <- <-.
    apply restart_body_cases in E. cbv zeta in E. simpl in E.
    destruct E as [[_ [-> _]] | [_ [e2 [ok2 [saved [P [[_ [-> _]] | [_ [e3 [S3 _]]]]]]]]]]; try exact R.
    assert (R1 : rooted s1).
    { eapply rooted_stop_inst; [exact S3|]. apply rooted_commit. exact R. }
    exact R1.
  - destruct (find_inst h (known s)) as [x|]; [|injection H as <- <- <-; exact R].
    destruct (stop_inst x s) as [s2 e2] eqn:E. injection H as <- <- <-. eapply rooted_stop_inst; eauto.
  - destruct (stop_all (insts s) s) as [s2 e2] eqn:E. injection H as <- <- <-. eapply rooted_stop_all; eauto.
  - destruct (find_inst h (known s)); injection H as <- <- <-; exact R.
  - destruct (once s); injection H as <- <- <-; exact R.
  - destruct (find_inst h (known s)); injection H as <- <- <-; exact R.
Qed.

Lemma final_rooted ops : forall s, rooted s -> rooted (final s ops).
Proof.
  induction ops as [|o l IH]; intros s R; simpl; [exact R|].
  destruct (step s o) as [[s' ev] r] eqn:E. simpl. apply IH. eapply step_rooted; eauto.
Qed.

(* Wait returns only when no server of ANY instance of the lineage (the instance itself, its
   predecessors and its successors: all known instances sharing its wait group) is serving *)
Lemma wait_means_lineage_stopped ops h s' ev o :
  step (final init ops) (OWait h) = (s', ev, RBool true) ->
  find_inst h (known (final init ops)) = Some o ->
  forall x, In x (known (final init ops)) -> i_root x = i_root o ->
  forall j r, ~ In (i_id x, j, r) (serving (final init ops)).
Proof.
  intros H F x Hx Hr j r Hin.
  destruct (wait_after_all_servers _ _ _ _ H) as [o' [F' W]]. rewrite F in F'. injection F' as <-.
  assert (R : rooted (final init ops)) by (apply final_rooted; intros e []).
  destruct (R _ Hin) as [y [Hy [Hid Hroot]]]. simpl in Hid, Hroot.
  pose proof (live_instances_distinct ops) as G.
  pose proof (find_unique _ _ (g_nodup _ G) Hy) as F1. pose proof (find_unique _ _ (g_nodup _ G) Hx) as F2.
  rewrite Hid, F2 in F1. injection F1 as <-.
  apply (W _ Hin). simpl. rewrite <- Hroot. exact Hr.
Qed.

(* ------------------------------------------------------------------ the servers still serving, read off the trace *)
Fixpoint drop_pair (i j : nat) (l : list (nat * nat)) : list (nat * nat) :=
  match l with
  | [] => []
  | x :: r => if (fst x =? i) && (snd x =? j) then r else x :: drop_pair i j r
  end.

(* servers whose Serve was called and has not returned, in the order they began *)
Fixpoint serving_of (tr : list event) (acc : list (nat * nat)) : list (nat * nat) :=
  match tr with
  | [] => acc
  | EServe i j :: r => serving_of r (acc ++ [(i, j)])
  | ERet i j :: r => serving_of r (drop_pair i j acc)
  | _ :: r => serving_of r acc
  end.

Lemma serving_of_app a : forall b acc, serving_of (a ++ b) acc = serving_of b (serving_of a acc).
Proof. induction a as [|e a IH]; intros b acc; simpl; [reflexivity|]. destruct e; apply IH. Qed.

Definition quiet (l : list event) : Prop := forallb (fun e => negb (is_async e)) l = true.

Lemma serving_of_quiet l : forall acc, quiet l -> serving_of l acc = acc.
Proof.
  unfold quiet. induction l as [|e l IH]; intros acc H; simpl in *; [reflexivity|].
  apply andb_true_iff in H as [H1 H2]. destruct e; simpl in H1; try discriminate; apply IH; exact H2.
Qed.

Lemma quiet_app a b : quiet a -> quiet b -> quiet (a ++ b).
Proof. unfold quiet. intros. rewrite forallb_app. apply andb_true_iff. auto. Qed.

Lemma quiet_cbs k i ns : quiet (cb_events k i ns).
Proof. unfold quiet, cb_events. induction ns; simpl; auto. Qed.

Lemma quiet_listen i oi l : forallb (is_listen_ev i oi) l = true -> quiet l.
Proof.
  unfold quiet. induction l as [|e l IH]; simpl; [auto|]. intro H. apply andb_true_iff in H as [H1 H2].
  rewrite (IH H2), andb_true_r. destruct e; try discriminate; reflexivity.
Qed.

Lemma quiet_after i saved : quiet (after_events i saved).
Proof. unfold quiet, after_events. induction saved; simpl; auto. Qed.

Lemma serve_events_trace i saved : forall acc,
  serving_of (serve_events i saved) acc = acc ++ map (fun x => (i, fst x)) saved.
Proof.
  induction saved as [|x l IH]; intros acc; simpl; [rewrite app_nil_r; reflexivity|].
  rewrite IH, <- app_assoc. reflexivity.
Qed.

Lemma take_serving_drop i j sv root sv1 :
  take_serving i j sv = Some (root, sv1) -> map fst sv1 = drop_pair i j (map fst sv).
Proof.
  revert root sv1. induction sv as [|x sv IH]; intros root sv1 H; simpl in H; [discriminate|].
  simpl. destruct ((fst (fst x) =? i) && (snd (fst x) =? j)).
  - injection H as <- <-. reflexivity.
  - destruct (take_serving i j sv) as [[r' l']|]; [|discriminate]. injection H as <- <-.
    simpl. rewrite (IH _ _ eq_refl). reflexivity.
Qed.

Lemma stop_servers_trace i srv : forall w sv w' sv' ev,
  stop_servers i srv w sv = (w', sv', ev) -> serving_of ev (map fst sv) = map fst sv'.
Proof.
  induction srv as [|[j sp] srv IH]; intros w sv w' sv' ev H; simpl in H.
  - injection H as <- <- <-. reflexivity.
  - destruct (sv_graceful sp); [|eapply IH; eauto].
    destruct (take_serving i j sv) as [[root sv1]|] eqn:T.
    + destruct (stop_servers i srv (wg_done root w) sv1) as [[w2 sv2] ev2] eqn:E.
      injection H as <- <- <-. simpl. rewrite <- (take_serving_drop _ _ _ _ _ T). eapply IH; eauto.
    + destruct (stop_servers i srv w sv) as [[w2 sv2] ev2] eqn:E.
      injection H as <- <- <-. simpl. eapply IH; eauto.
Qed.

Lemma stop_inst_trace o s s' ev :
  stop_inst o s = (s', ev) -> serving_of ev (map fst (serving s)) = map fst (serving s').
Proof.
  unfold stop_inst. destruct (stop_servers (i_id o) (i_srv o) (wg s) (serving s)) as [[w sv] e] eqn:E.
  intro H. injection H as <- <-. simpl. eapply stop_servers_trace; eauto.
Qed.

Lemma stop_all_trace l : forall s s' ev,
  stop_all l s = (s', ev) -> serving_of ev (map fst (serving s)) = map fst (serving s').
Proof.
  induction l as [|o l IH]; intros s s' ev E; simpl in E.
  - injection E as <- <-. reflexivity.
  - destruct (stop_inst o (set_wg s (wg_add (i_root o) 1 (wg s)))) as [sa ea] eqn:E1.
    destruct (stop_all l sa) as [sb eb] eqn:E2. injection E as <- <-. simpl.
    rewrite serving_of_app. apply stop_inst_trace in E1. simpl in E1. rewrite E1. eapply IH; eauto.
Qed.

Lemma commit_serving ni nx s :
  map fst (serving (commit ni nx s)) = map fst (serving s) ++ map (fun x => (i_id ni, fst x)) (i_srv ni).
Proof.
  unfold commit. destruct (spawn (i_id ni) (i_root ni) (i_srv ni) (wg s) (serving s)) as [w sv] eqn:E. simpl.
  rewrite (spawn_serving _ _ _ _ _ _ _ E), map_app, map_map. reflexivity.
Qed.

(* the events of a start attempt, as far as serving is concerned *)
Lemma plan_trace c i restart old oi ev ok saved acc :
  plan_shape c i restart old oi ev ok saved ->
  serving_of ev acc = if ok then acc ++ map (fun x => (i, fst x)) saved else acc.
Proof.
  intros [hd f su li tl Heq Hhd _ _ _ _ _ Hli Htl Hft Hok]. subst ev.
  assert (Qh : quiet hd) by (destruct Hhd as [->|[->| ->]]; reflexivity).
  rewrite !serving_of_app, (serving_of_quiet hd _ Qh), (serving_of_quiet _ _ (quiet_cbs _ _ _)),
    (serving_of_quiet _ _ (quiet_cbs _ _ _)), (serving_of_quiet _ _ (quiet_listen _ _ _ Hli)).
  destruct ok.
  - destruct (Hok eq_refl) as [_ [_ [_ [_ [_ ->]]]]]. rewrite serving_of_app, serve_events_trace.
    apply serving_of_quiet. destruct restart; [reflexivity|apply quiet_after].
  - rewrite (Hft eq_refl). reflexivity.
Qed.

Lemma step_trace s o s' ev r :
  step s o = (s', ev, r) -> serving_of ev (map fst (serving s)) = map fst (serving s').
Proof.
  destruct o as [c|h c|h| |h| |h]; simpl; intro H.
  - unfold do_start in H. destruct (start_plan c (next s) false [] 0) as [[e ok] saved] eqn:E.
    pose proof (start_plan_shape _ _ _ _ _ _ _ _ E) as Sh.
    destruct ok; injection H as <- <- <-.
    + rewrite serving_of_app, (plan_trace _ _ _ _ _ _ _ _ _ Sh). simpl. rewrite commit_serving. reflexivity.
    + rewrite (plan_trace _ _ _ _ _ _ _ _ _ Sh). reflexivity.
  - unfold do_restart in H. destruct (find_inst h (known s)) as [o|]; [|injection H as <- <- <-; reflexivity].
    destruct (restart_body o c (set_wg s (wg_add (i_root o) 1 (wg s)))) as [[s1 e1] r1] eqn:E.
    injection H as <- <- <-. simpl.
    apply restart_body_cases in E. cbv zeta in E. simpl in E.
    destruct E as [[_ [-> [_ ->]]] | [_ [e2 [ok2 [saved [P E]]]]]].
    + simpl. apply serving_of_quiet. apply quiet_app; apply quiet_cbs.
    + pose proof (start_plan_shape _ _ _ _ _ _ _ _ P) as Sh.
      destruct E as [[-> [-> [_ ->]]] | [-> [e3 [S3 E]]]].
      * simpl. rewrite serving_of_app, (serving_of_quiet _ _ (quiet_cbs _ _ _)).
        rewrite serving_of_app, (plan_trace _ _ _ _ _ _ _ _ _ Sh). cbv iota.
        apply serving_of_quiet. apply quiet_cbs.
      * apply stop_inst_trace in S3. rewrite commit_serving in S3. simpl in S3.
        destruct E as [_ ->];
          rewrite serving_of_app, (serving_of_quiet _ _ (quiet_cbs _ _ _));
          rewrite serving_of_app, (plan_trace _ _ _ _ _ _ _ _ _ Sh); cbv iota;
          rewrite serving_of_app, S3;
          apply serving_of_quiet.
        apply quiet_app; [apply quiet_cbs|reflexivity].
  - destruct (find_inst h (known s)) as [x|]; [|injection H as <- <- <-; reflexivity].
    destruct (stop_inst x s) as [s2 e2] eqn:E. injection H as <- <- <-. eapply stop_inst_trace; eauto.
  - destruct (stop_all (insts s) s) as [s2 e2] eqn:E. injection H as <- <- <-. eapply stop_all_trace; eauto.
  - destruct (find_inst h (known s)) as [x|]; injection H as <- <- <-; [|reflexivity].
    apply serving_of_quiet. unfold shutdown_cbs. rewrite !run_all_labels. apply quiet_app; apply quiet_cbs.
  - destruct (once s); injection H as <- <- <-; [reflexivity|]. simpl.
    apply serving_of_quiet. unfold all_shutdown. induction (insts s) as [|x l IH]; [reflexivity|].
    simpl. apply quiet_app; [|exact IH]. unfold shutdown_cbs. rewrite !run_all_labels. apply quiet_app; apply quiet_cbs.
  - destruct (find_inst h (known s)); injection H as <- <- <-; reflexivity.
Qed.

Lemma run_trace ops : forall s,
  serving_of (trace (run s ops)) (map fst (serving s)) = map fst (serving (final s ops)).
Proof.
  induction ops as [|o l IH]; intros s; simpl; [reflexivity|].
  destruct (step s o) as [[s' ev] r] eqn:E. rewrite trace_cons. change (rec_events (o, ev, r)) with ev.
  rewrite serving_of_app, (step_trace _ _ _ _ _ E). apply IH.
Qed.

(* the Serve goroutines of the state are exactly the servers that the trace shows serving and not
   yet returned *)
Lemma serving_matches_trace ops :
  map fst (serving (final init ops)) = serving_of (trace (run init ops)) [].
Proof. symmetry. apply (run_trace ops init). Qed.

(* Wait in terms of the trace alone: when Wait on h returns, no server of any instance of h's
   lineage is among those the trace shows still serving *)
Lemma wait_trace ops h s' ev o :
  step (final init ops) (OWait h) = (s', ev, RBool true) ->
  find_inst h (known (final init ops)) = Some o ->
  forall x, In x (known (final init ops)) -> i_root x = i_root o ->
  forall j, ~ In (i_id x, j) (serving_of (trace (run init ops)) []).
Proof.
  intros H F x Hx Hr j Hin. rewrite <- serving_matches_trace in Hin.
  apply in_map_iff in Hin as [[[a b] r0] [E Hin]]. simpl in E. injection E as -> ->.
  eapply wait_means_lineage_stopped; eauto.
Qed.


(* ================================================================== deepening: stop errors *)
(* the servers whose Stop returns an error (logged by Instance.Stop) *)
Fixpoint stop_err_ids (srv : list (nat * srvspec)) : list nat :=
  match srv with
  | [] => []
  | (j, sp) :: r => if sv_graceful sp && sv_stop_err sp then j :: stop_err_ids r else stop_err_ids r
  end.

Lemma stop_servers_e_refines i srv : forall w sv,
  stop_servers_e i srv w sv =
  (let '(w', sv', ev) := stop_servers i srv w sv in (w', sv', ev, stop_err_ids srv)).
Proof.
  induction srv as [|[j sp] srv IH]; intros w sv; simpl; [reflexivity|].
  destruct (sv_graceful sp); simpl; [|apply IH].
  destruct (take_serving i j sv) as [[root sv1]|].
  - rewrite IH. destruct (stop_servers i srv (wg_done root w) sv1) as [[w2 sv2] ev2].
    destruct (sv_stop_err sp); reflexivity.
  - rewrite IH. destruct (stop_servers i srv w sv) as [[w2 sv2] ev2].
    destruct (sv_stop_err sp); reflexivity.
Qed.

(* Instance.Stop returns nil whatever its servers' Stop calls return, and does the same as the
   model without errors *)
Lemma stop_inst_e_refines o s :
  stop_inst_e o s = (let '(s', ev) := stop_inst o s in (s', ev, stop_err_ids (i_srv o), false)).
Proof.
  unfold stop_inst_e, stop_inst. rewrite stop_servers_e_refines.
  destruct (stop_servers (i_id o) (i_srv o) (wg s) (serving s)) as [[w sv] ev]. reflexivity.
Qed.

Lemma restart_body_e_eq o c s : restart_body_e o c s = restart_body o c s.
Proof.
  unfold restart_body_e, restart_body.
  destruct (run_stop KRestart (i_id o) (c_restart (i_cfg o))) as [e1 ok1].
  destruct (negb ok1); [reflexivity|].
  destruct (start_plan c (next s) true (i_srv o) (i_id o)) as [[e2 ok2] saved].
  destruct (negb ok2); [reflexivity|].
  rewrite stop_inst_e_refines.
  destruct (stop_inst o (commit (mkInst (next s) (i_root o) c saved) (next_after c (next s)) s)) as [s2 e3].
  reflexivity.
Qed.

(* every graceful server is stopped, also those that come after one whose Stop failed *)
Lemma stop_servers_all i srv : forall w sv w' sv' ev j sp,
  stop_servers i srv w sv = (w', sv', ev) -> In (j, sp) srv -> sv_graceful sp = true -> In (EStop i j) ev.
Proof.
  induction srv as [|[j0 sp0] srv IH]; intros w sv w' sv' ev j sp H Hin G; simpl in *; [contradiction|].
  destruct Hin as [E|Hin].
  - injection E as -> ->. rewrite G in H.
    destruct (take_serving i j sv) as [[root sv1]|].
    + destruct (stop_servers i srv (wg_done root w) sv1) as [[w2 sv2] ev2]. injection H as <- <- <-. left. reflexivity.
    + destruct (stop_servers i srv w sv) as [[w2 sv2] ev2]. injection H as <- <- <-. left. reflexivity.
  - destruct (sv_graceful sp0).
    + destruct (take_serving i j0 sv) as [[root sv1]|].
      * destruct (stop_servers i srv (wg_done root w) sv1) as [[w2 sv2] ev2] eqn:E. injection H as <- <- <-.
        right. right. eapply IH; eauto.
      * destruct (stop_servers i srv w sv) as [[w2 sv2] ev2] eqn:E. injection H as <- <- <-.
        right. eapply IH; eauto.
    + eapply IH; eauto.
Qed.

(* a reload whose new instance has started succeeds whatever the Stop calls of the old
   instance's servers return: all of them are stopped, all the old OnShutdown callbacks run, no
   restart-failed callback does, the result is the new instance *)
Lemma stop_error_does_not_fail_reload o c s e2 saved :
  existsb cb_fail (c_restart (i_cfg o)) = false ->
  start_plan c (next s) true (i_srv o) (i_id o) = (e2, true, saved) ->
  exists s' e3,
    restart_body_e o c s =
      (s', cb_events KRestart (i_id o) (labels (c_restart (i_cfg o))) ++ e2 ++ e3
           ++ cb_events KShutdown (i_id o) (labels (c_shutdown (i_cfg o))) ++ [EHook HInstanceStartup (next s)],
       RInst true (next s)) /\
    forallb (is_stop_ev (i_id o)) e3 = true /\
    (forall j sp, In (j, sp) (i_srv o) -> sv_graceful sp = true -> In (EStop (i_id o) j) e3) /\
    insts s' = remove_id (i_id o) (insts s ++ [mkInst (next s) (i_root o) c saved]).
Proof.
  intros Hr Hp. rewrite restart_body_e_eq.
  destruct (restart_body o c s) as [[s' ev] r] eqn:E.
  pose proof (restart_body_cases _ _ _ _ _ _ E) as C. cbv zeta in C.
  destruct C as [[D _]|[_ [e2' [ok2 [saved' [P C]]]]]]; [congruence|].
  rewrite Hp in P. injection P as <- <- <-.
  destruct C as [[D _]|[_ [e3 [S3 [-> ->]]]]]; [discriminate|].
  exists s', e3. split; [reflexivity|]. split; [eapply stop_inst_events; eauto|].
  unfold stop_inst in S3.
  destruct (stop_servers (i_id o) (i_srv o) (wg (commit (mkInst (next s) (i_root o) c saved) (next_after c (next s)) s))
              (serving (commit (mkInst (next s) (i_root o) c saved) (next_after c (next s)) s))) as [[w sv] ev3] eqn:E3.
  injection S3 as <- <-. split.
  - intros j sp Hin G. eapply stop_servers_all; eauto.
  - simpl. destruct (commit_fields (mkInst (next s) (i_root o) c saved) (next_after c (next s)) s) as [A _].
    rewrite A. reflexivity.
Qed.

Definition stop_err_old : config :=
  mkCfg false false false [] [mkCb 0 false] [] [mkCb 0 false] [mkCb 0 false] []
        [mkSrv 0 true 1 false true; mkSrv 1 true 1 false false] false.

(* ================================================================== deepening: panicking setup *)
Lemma start_plan_setup_breaks c i restart old oi :
  c_parse_fail c = false -> setup_breaks c = true -> start_plan c i restart old oi = ([ENew i], false, []).
Proof. intros P B. unfold start_plan. rewrite P, B. reflexivity. Qed.

(* casket.Start: the panic reaches the caller; only NewContext has happened and nothing of the
   instance is left (the deferred clean-up keyed on [succeeded] took it out of the list) *)
Lemma start_panic_leaves_nothing s c s' ev :
  step s (OStart c) = (s', ev, RPanic) ->
  c_setup_panic c = true /\ ev = [ENew (next s)] /\
  insts s' = insts s /\ known s' = known s /\ serving s' = serving s /\ once s' = once s /\
  (forall x, wg s' x = wg s x).
Proof.
  simpl. unfold do_start.
  destruct (start_plan c (next s) false [] 0) as [[e ok] saved] eqn:E.
  destruct ok; [discriminate|].
  destruct (start_panics c) eqn:P; [|discriminate].
  unfold start_panics in P. apply andb_true_iff in P as [P P3]. apply andb_true_iff in P as [P1 P2].
  apply negb_true_iff in P1.
  rewrite start_plan_setup_breaks in E; [|exact P1|unfold setup_breaks; rewrite P3; apply orb_true_r].
  injection E as <- <-. intro H. injection H as <- <-. simpl. auto 10.
Qed.

Lemma restart_never_panics s h c s' ev r : step s (ORestart h c) = (s', ev, r) -> r <> RPanic.
Proof.
  simpl. unfold do_restart. destruct (find_inst h (known s)) as [o|]; [|intro H; injection H as <- <- <-; discriminate].
  destruct (restart_body o c (set_wg s (wg_add (i_root o) 1 (wg s)))) as [[s1 e1] r1] eqn:E.
  intro H. injection H as <- <- <-.
  apply restart_body_cases in E. cbv zeta in E.
  destruct E as [[_ [_ [-> _]]]|[_ [e2 [ok2 [saved [_ [[_ [_ [-> _]]]|[_ [e3 [_ [-> _]]]]]]]]]]]; discriminate.
Qed.

(* Instance.Restart: a plugin that panics while the new configuration is set up fails the
   restart like an error does: the old instance's restart callbacks, NewContext of the new
   instance, ALL restart-failed callbacks; the old instance is returned and everything stays
   as it was *)
Lemma reload_panicking_setup_fails s h c o :
  find_inst h (known s) = Some o ->
  c_parse_fail c = false -> c_setup_panic c = true ->
  existsb cb_fail (c_restart (i_cfg o)) = false ->
  exists s',
    step s (ORestart h c) =
      (s', cb_events KRestart h (labels (c_restart (i_cfg o))) ++ [ENew (next s)]
           ++ cb_events KRestartFailed h (labels (c_rfailed (i_cfg o))), RInst false h) /\
    insts s' = insts s /\ known s' = known s /\ serving s' = serving s /\ once s' = once s /\
    (forall x, wg s' x = wg s x).
Proof.
  intros F P B R.
  simpl. unfold do_restart. rewrite F.
  destruct (restart_body o c (set_wg s (wg_add (i_root o) 1 (wg s)))) as [[s1 e1] r1] eqn:E1.
  apply restart_body_cases in E1. cbv zeta in E1. rewrite (find_inst_id _ _ _ F) in E1.
  destruct E1 as [[D _]|[_ [e2 [ok2 [saved [Pl C]]]]]]; [congruence|].
  rewrite start_plan_setup_breaks in Pl; [|exact P|unfold setup_breaks; rewrite B; apply orb_true_r].
  injection Pl as <- <- <-.
  destruct C as [[_ [-> [-> ->]]]|[D _]]; [|discriminate].
  eexists. split; [reflexivity|]. simpl. repeat split; auto.
  intro x. apply wg_done_add.
Qed.

Definition panic_cfg : config :=
  mkCfg false false false [mkCb 0 false] [mkCb 0 false] [] [] [mkCb 0 false] [mkCb 0 false] [mkSrv 0 true 1 false false] true.

(* ================================================================== deepening: reload is never a first start *)
Lemma listen_loop_no_fds old oi i : (forall a, fds_lookup a old = None) ->
  forall l j, listen_loop true old oi i j l = listen_loop false [] 0 i j l.
Proof.
  intros Hn. induction l as [|sp l IH]; intros j; simpl; [reflexivity|].
  rewrite Hn. destruct (sv_graceful sp); simpl; rewrite IH; reflexivity.
Qed.

Lemma in_after_false i oi e j k : is_listen_ev i oi e = true -> e <> EAfter j k.
Proof. intros H ->. discriminate. Qed.

(* whatever the old instance looks like — no server at all, only non-graceful servers, listeners
   without a file descriptor — a reload runs no first-startup callback of anyone and no
   OnStartupComplete (restartFds is an empty map, not nil) *)
Lemma reload_never_first_start s h c s' ev r :
  step s (ORestart h c) = (s', ev, r) ->
  (forall i l, ~ In (ECb KFirst i l) ev) /\ (forall i j, ~ In (EAfter i j) ev).
Proof.
  intro H. split.
  - intros i l Hin. destruct (first_startup_only_in_start _ _ _ _ _ _ _ H Hin) as [c' [D _]]. discriminate.
  - intros i j Hin. simpl in H. unfold do_restart in H.
    destruct (find_inst h (known s)) as [o|] eqn:F; [|injection H as _ <- _; contradiction].
    destruct (restart_body o c (set_wg s (wg_add (i_root o) 1 (wg s)))) as [[s1 e1] r1] eqn:E.
    injection H as _ <- _.
    apply restart_body_cases in E. cbv zeta in E.
    assert (Hcb : forall k i' ns, ~ In (EAfter i j) (cb_events k i' ns)).
    { intros k i' ns C0. apply in_cb_events in C0 as [n [D _]]. discriminate. }
    destruct E as [[_ [_ [_ ->]]]|[_ [e2 [ok2 [saved [P C]]]]]].
    + apply in_app_or in Hin as [C0|C0]; eapply Hcb; eauto.
    + pose proof (start_plan_shape _ _ _ _ _ _ _ _ P) as [hd f su li tl Heq Hhd _ _ Hf _ _ Hli Htl Hft Hok].
      assert (He2 : ~ In (EAfter i j) e2).
      { rewrite Heq. intro C0. repeat (apply in_app_or in C0 as [C0|C0]).
        - destruct Hhd as [->|[->| ->]]; simpl in C0; intuition discriminate.
        - rewrite (Hf eq_refl) in C0. contradiction.
        - eapply Hcb; eauto.
        - eapply forallb_In in Hli; eauto. discriminate.
        - destruct ok2.
          + destruct (Hok eq_refl) as [_ [_ [_ [_ [_ ->]]]]]. simpl in C0. rewrite app_nil_r in C0.
            unfold serve_events in C0. apply in_map_iff in C0 as [x [D _]]. discriminate.
          + rewrite (Hft eq_refl) in C0. contradiction. }
      destruct C as [[_ [_ [_ ->]]]|[_ [e3 [S3 [_ ->]]]]].
      * repeat (apply in_app_or in Hin as [Hin|Hin]); try (eapply Hcb; eauto; fail). contradiction.
      * pose proof (stop_inst_events _ _ _ _ S3) as Hst.
        repeat (apply in_app_or in Hin as [Hin|Hin]); try (eapply Hcb; eauto; fail); try contradiction.
        -- eapply forallb_In in Hst; eauto. discriminate.
        -- simpl in Hin. destruct Hin as [D|[]]. discriminate.
Qed.

(* ... and when nothing can be handed over every listener is obtained as in a first start: the
   complete event list of such a reload *)
Lemma reload_without_inheritable_listener s h c s' ev n o :
  step s (ORestart h c) = (s', ev, RInst true n) ->
  find_inst h (known s) = Some o ->
  (forall a, fds_lookup a (i_srv o) = None) ->
  exists li saved e3,
    n = next s /\ listen_loop false [] 0 n 0 (c_servers c) = (li, true, saved) /\
    forallb (is_listen_ev n 0) li = true /\ forallb (is_stop_ev h) e3 = true /\
    ev = cb_events KRestart h (labels (c_restart (i_cfg o)))
         ++ (ENew n :: EMake n :: cb_events KStartup n (labels (c_startup c)) ++ li ++ serve_events n saved)
         ++ e3 ++ cb_events KShutdown h (labels (c_shutdown (i_cfg o))) ++ [EHook HInstanceStartup n].
Proof.
  intros H F Hn.
  destruct (reload_ok_shape _ _ _ _ _ _ H) as (o' & li & saved & e3 & F' & -> & LL & Hli & Hst & ->).
  rewrite F in F'. injection F' as <-.
  rewrite (listen_loop_no_fds _ _ _ Hn) in LL.
  exists li, saved, e3. repeat split; auto.
  pose proof (listen_loop_events _ _ _ _ _ _ _ _ _ LL) as Hl0. exact Hl0.
Qed.

Definition nofd_old : config :=
  mkCfg false false false [mkCb 0 false] [mkCb 0 false] [] [] [mkCb 0 false] []
        [mkSrv 0 true 0 false false; mkSrv 1 false 1 false false] false.

(* ================================================================== deepening: shutdown against concurrent Stop *)

Lemma conc_run_app w a : forall m b,
  conc_run w m (a ++ b) = match conc_run w m a with Some m' => conc_run w m' b | None => None end.
Proof.
  induction a as [|c a IH]; intros m b; simpl; [reflexivity|].
  destruct (conc_step w m c); [apply IH | reflexivity].
Qed.

(* while the handler holds the lock (wide), after CAcquire: array and length never change *)
Record held (m0 m : shm) : Prop := mkHeld {
  h_arr : sh_arr m = sh_arr m0;
  h_len : sh_len m = sh_len m0;
  h_n : sh_n m = Some (sh_len m0);
  h_idx : sh_idx m <= sh_len m0;
  h_lock : sh_done m = false -> sh_lock m = true;
  h_done : sh_done m = true -> sh_idx m = sh_len m0;
  h_out : sh_out m = sh_out m0 ++ all_shutdown (firstn (sh_idx m) (live_of m0)) }.

Lemma firstn_S_nth {A} (l : list A) i x : nth_error l i = Some x -> firstn (S i) l = firstn i l ++ [x].
Proof.
  revert i; induction l as [|y l IH]; intros [|i] H; simpl in *; try discriminate.
  - injection H as ->. reflexivity.
  - rewrite (IH i H). reflexivity.
Qed.

Lemma nth_error_firstn {A} (l : list A) n i : i < n -> nth_error (firstn n l) i = nth_error l i.
Proof.
  revert n i; induction l as [|y l IH]; intros [|n] [|i] H; simpl; try reflexivity; try lia.
  apply IH. lia.
Qed.

Lemma all_shutdown_app a b : all_shutdown (a ++ b) = all_shutdown a ++ all_shutdown b.
Proof. unfold all_shutdown. apply flat_map_app. Qed.

(* what happens after the handler has finished cannot be said in terms of m0's array any more
   (Stops proceed), but the output is final *)
Record after (m0 m : shm) : Prop := mkAfter {
  a_n : sh_n m = Some (sh_len m0);
  a_idx : sh_idx m = sh_len m0;
  a_done : sh_done m = true;
  a_out : sh_out m = sh_out m0 ++ all_shutdown (live_of m0) }.

Lemma held_step m0 m c m' :
  sh_len m0 <= length (sh_arr m0) ->
  held m0 m -> conc_step true m c = Some m' -> held m0 m' \/ after m0 m'.
Proof.
  intros Hcap [Ha Hl Hn Hi Hlk Hd Ho] H. destruct c; simpl in H.
  - rewrite Hn in H. discriminate.
  - rewrite Hn in H. destruct (sh_idx m <? sh_len m0) eqn:E; [|discriminate].
    apply Nat.ltb_lt in E.
    destruct (nth_error (sh_arr m) (sh_idx m)) as [x|] eqn:Ex; [|discriminate].
    assert (Hnd : sh_done m = false).
    { destruct (sh_done m) eqn:Ed; [|reflexivity]. specialize (Hd eq_refl). lia. }
    injection H as <-. left.
    constructor; cbn [sh_arr sh_len sh_lock sh_n sh_idx sh_done sh_out]; auto; try lia; try discriminate.
    rewrite Ho. rewrite <- app_assoc. f_equal.
    assert (Ex' : nth_error (live_of m0) (sh_idx m) = Some x).
    { unfold live_of. rewrite nth_error_firstn by exact E. rewrite <- Ha. exact Ex. }
    rewrite (firstn_S_nth _ _ _ Ex'), all_shutdown_app. unfold all_shutdown at 3. simpl. rewrite app_nil_r. reflexivity.
  - rewrite Hn in H. destruct ((sh_idx m =? sh_len m0) && negb (sh_done m)) eqn:E; [|discriminate].
    apply andb_true_iff in E as [E1 E2]. apply Nat.eqb_eq in E1.
    injection H as <-. right. constructor; cbn [sh_arr sh_len sh_lock sh_n sh_idx sh_done sh_out]; auto.
    rewrite Ho, E1. f_equal. f_equal. unfold live_of. apply firstn_all2.
    rewrite firstn_length. lia.
  - destruct (sh_done m) eqn:Ed.
    + (* the loop is over: the state is described by [after] *)
      right.
      assert (Hidx := Hd eq_refl).
      assert (Hout : sh_out m = sh_out m0 ++ all_shutdown (live_of m0)).
      { rewrite Ho, Hidx. f_equal. f_equal. apply firstn_all2. unfold live_of. rewrite firstn_length. lia. }
      destruct (sh_lock m); [discriminate|].
      destruct (index_of h (live_of m)); injection H as <-; constructor; simpl; auto.
    + rewrite (Hlk eq_refl) in H. discriminate.
Qed.

Lemma after_step w m0 m c m' : after m0 m -> conc_step w m c = Some m' -> after m0 m'.
Proof.
  intros [An Ai Ad Ao] H. destruct c; simpl in H.
  - rewrite An in H. discriminate.
  - rewrite An, Ai, Nat.ltb_irrefl in H. discriminate.
  - rewrite An, Ad in H. rewrite andb_false_r in H. discriminate.
  - destruct (sh_lock m); [discriminate|].
    destruct (index_of h (live_of m)); injection H as <-; constructor; simpl; auto.
Qed.

Lemma after_run w m0 cs : forall m m', after m0 m -> conc_run w m cs = Some m' -> after m0 m'.
Proof.
  induction cs as [|c cs IH]; intros m m' A H; simpl in H.
  - injection H as <-. exact A.
  - destruct (conc_step w m c) as [m1|] eqn:E; [|discriminate]. eapply IH; [eapply after_step; eauto | exact H].
Qed.

Lemma held_run m0 cs : sh_len m0 <= length (sh_arr m0) -> forall m m',
  held m0 m -> conc_run true m cs = Some m' -> held m0 m' \/ after m0 m'.
Proof.
  intros Hcap. induction cs as [|c cs IH]; intros m m' A H; simpl in H.
  - injection H as <-. left. exact A.
  - destruct (conc_step true m c) as [m1|] eqn:E; [|discriminate].
    destruct (held_step _ _ _ _ Hcap A E) as [A1|A1]; [eapply IH; eauto|].
    right. eapply after_run; eauto.
Qed.

Lemma acquire_held m0 m1 :
  conc_step true m0 CAcquire = Some m1 ->
  held (mkShm (sh_arr m0) (sh_len m0) false None 0 false (sh_out m0)) m1 /\ sh_n m0 = None.
Proof.
  simpl. destruct (sh_n m0); [discriminate|]. destruct (sh_lock m0); [discriminate|].
  intros H. injection H as <-. split; [|reflexivity]. constructor; simpl; auto; try lia.
  rewrite app_nil_r. reflexivity.
Qed.


(* ---- Stops before the handler takes the lock: the slice stays a duplicate-free sub-list ---- *)
Lemma index_of_remove h l : forall j, index_of h l = Some j ->
  j < length l /\ remove_id h l = firstn j l ++ skipn (S j) l.
Proof.
  induction l as [|o r IH]; intros j H; simpl in H; [discriminate|].
  simpl remove_id. destruct (i_id o =? h).
  - injection H as <-. simpl. split; [lia | reflexivity].
  - destruct (index_of h r) as [j'|]; [|discriminate]. injection H as <-.
    destruct (IH j' eq_refl) as [L E]. simpl. split; [lia|]. rewrite E. reflexivity.
Qed.

Lemma index_of_none h l : index_of h l = None -> remove_id h l = l.
Proof.
  induction l as [|o r IH]; intros H; simpl in *; [reflexivity|].
  destruct (i_id o =? h); [discriminate|]. destruct (index_of h r); [discriminate|]. rewrite IH; reflexivity.
Qed.

Lemma firstn_firstn_le {A} (l : list A) j n : j <= n -> firstn j (firstn n l) = firstn j l.
Proof. intros H. rewrite firstn_firstn. f_equal. lia. Qed.

Lemma splice_live j len arr :
  j < len -> len <= length arr ->
  length (splice_at j len arr) = length arr /\
  firstn (len - 1) (splice_at j len arr) = firstn j (firstn len arr) ++ skipn (S j) (firstn len arr).
Proof.
  intros Hj Hl. unfold splice_at.
  assert (L1 : length (firstn j arr) = j) by (rewrite firstn_length; lia).
  assert (L2 : length (skipn (S j) (firstn len arr)) = len - S j) by (rewrite skipn_length, firstn_length; lia).
  split.
  - rewrite app_length, app_length, L1, L2, skipn_length. lia.
  - rewrite app_assoc. rewrite firstn_app.
    replace (len - 1 - length (firstn j arr ++ skipn (S j) (firstn len arr))) with 0
      by (rewrite app_length, L1, L2; lia).
    rewrite firstn_O, app_nil_r. rewrite firstn_all2 by (rewrite app_length, L1, L2; lia).
    rewrite firstn_firstn_le by lia. reflexivity.
Qed.

(* the concurrent Stop's splice is the sequential model's [remove_id] on the live list *)
Lemma splice_step w m h m' :
  sh_len m <= length (sh_arr m) ->
  conc_step w m (CSplice h) = Some m' ->
  live_of m' = remove_id h (live_of m) /\ sh_len m' <= length (sh_arr m') /\
  sh_n m' = sh_n m /\ sh_out m' = sh_out m /\ sh_idx m' = sh_idx m /\ sh_done m' = sh_done m /\ sh_lock m' = false.
Proof.
  intros Hcap H. simpl in H. destruct (sh_lock m) eqn:El; [discriminate|].
  destruct (index_of h (live_of m)) as [j|] eqn:E; injection H as <-.
  - destruct (index_of_remove _ _ _ E) as [Hj Hr]. unfold live_of in Hj. rewrite firstn_length in Hj.
    destruct (splice_live j (sh_len m) (sh_arr m)) as [L F]; [lia | exact Hcap |].
    unfold live_of at 1. simpl. rewrite F, Hr. unfold live_of. repeat split; auto. rewrite L. lia.
  - rewrite (index_of_none _ _ E). repeat split; auto.
Qed.

Lemma remove_id_ids_nodup h l : NoDup (ids l) -> NoDup (ids (remove_id h l)).
Proof. apply remove_id_nodup. Qed.

Record pre_ok (m : shm) : Prop := mkPre {
  p_cap : sh_len m <= length (sh_arr m);
  p_nd : NoDup (ids (live_of m));
  p_n : sh_n m = None;
  p_lock : sh_lock m = false;
  p_out : sh_out m = [] }.

Lemma pre_init l : NoDup (ids l) -> pre_ok (conc_init l).
Proof.
  intros H. constructor; simpl; auto. unfold live_of. simpl. rewrite firstn_all. exact H.
Qed.

Lemma pre_run w pre : forall m m1, pre_ok m -> forallb is_splice pre = true ->
  conc_run w m pre = Some m1 -> pre_ok m1 /\ incl (live_of m1) (live_of m).
Proof.
  induction pre as [|c pre IH]; intros m m1 P F H; simpl in *.
  - injection H as <-. split; [exact P | apply incl_refl].
  - apply andb_true_iff in F as [F1 F2]. destruct c; try discriminate.
    destruct (conc_step w m (CSplice h)) as [m2|] eqn:E; [|discriminate].
    destruct P as [Pc Pn Pnn Pl Po].
    destruct (splice_step _ _ _ _ Pc E) as (A & B & C & D & _ & _ & L).
    assert (P2 : pre_ok m2).
    { constructor; auto; try congruence. rewrite A. apply remove_id_nodup. exact Pn. }
    destruct (IH m2 m1 P2 F2 H) as [Q I]. split; [exact Q|].
    intros x Hx. apply I in Hx. rewrite A in Hx. eapply remove_id_incl; eauto.
Qed.

(* main: any schedule = Stops that complete before the signal handler takes the lock (pre), the
   acquisition, anything afterwards (post: iterations, Stops trying to get in, the release,
   Stops going on).  m1 = the state at the acquisition: its live list is "the instances live at
   the first signal". *)
Lemma shutdown_once_under_concurrent_stop l pre post m1 m' :
  NoDup (ids l) ->
  forallb is_splice pre = true ->
  conc_run true (conc_init l) pre = Some m1 ->
  conc_run true m1 (CAcquire :: post) = Some m' ->
  (* at every moment: what has run is a prefix, instance by instance, of the live list *)
  sh_out m' = all_shutdown (firstn (sh_idx m') (live_of m1)) /\
  (* when the handler is through: every live instance's callbacks, exactly once, in order *)
  (sh_done m' = true ->
   sh_out m' = all_shutdown (live_of m1) /\
   forall x, In x (live_of m1) ->
     proj KShutdown (i_id x) (sh_out m') = labels (c_shutdown (i_cfg x)) /\
     proj KFinal (i_id x) (sh_out m') = labels (c_final (i_cfg x))).
Proof.
  intros Hnd Fp Hpre H.
  destruct (pre_run true pre _ _ (pre_init l Hnd) Fp Hpre) as [[Pc Pn Pnn Pl Po] _].
  change (conc_run true m1 (CAcquire :: post)) with
    (match conc_step true m1 CAcquire with Some mm => conc_run true mm post | None => None end) in H.
  destruct (conc_step true m1 CAcquire) as [m2|] eqn:E; [|discriminate].
  destruct (acquire_held _ _ E) as [Hh _].
  set (m0 := mkShm (sh_arr m1) (sh_len m1) false None 0 false (sh_out m1)) in *.
  assert (L0 : live_of m0 = live_of m1) by reflexivity.
  assert (O0 : sh_out m0 = []) by exact Po.
  destruct (held_run m0 post Pc _ _ Hh H) as [[_ _ _ Hi _ Hd Ho]|[_ Ai Ad Ao]].
  - rewrite O0, L0 in Ho. simpl in Ho. split; [exact Ho|]. intros D.
    assert (Hall : sh_out m' = all_shutdown (live_of m1)).
    { rewrite Ho, (Hd D). f_equal. apply firstn_all2. unfold live_of. rewrite firstn_length. simpl. lia. }
    split; [exact Hall|]. intros x Hx. rewrite Hall. split; [apply proj_all_shutdown | apply proj_final_all]; auto.
  - rewrite O0, L0 in Ao. simpl in Ao.
    assert (Hf : firstn (sh_idx m') (live_of m1) = live_of m1).
    { apply firstn_all2. rewrite Ai. unfold live_of. rewrite firstn_length. simpl. lia. }
    split; [rewrite Hf; exact Ao|]. intros _. split; [exact Ao|].
    intros x Hx. rewrite Ao. split; [apply proj_all_shutdown | apply proj_final_all]; auto.
Qed.

(* the handler is never blocked by Stops: once it holds the lock it can run to the end *)
Lemma handler_can_finish m0 : sh_len m0 <= length (sh_arr m0) -> forall k m,
  held m0 m -> sh_done m = false -> k = sh_len m0 - sh_idx m ->
  exists m', conc_run true m (repeat CIter k ++ [CRelease]) = Some m' /\ sh_done m' = true.
Proof.
  intros Hcap. induction k as [|k IH]; intros m Hh Hnd Hk.
  - destruct Hh as [Ha Hl Hn Hi Hlk Hd Ho]. simpl. rewrite Hn, Hnd.
    replace (sh_idx m =? sh_len m0) with true by (symmetry; apply Nat.eqb_eq; lia).
    simpl. eexists. split; reflexivity.
  - assert (Hh' := Hh). destruct Hh as [Ha Hl Hn Hi Hlk Hd Ho].
    assert (Hlt : sh_idx m < sh_len m0) by lia.
    destruct (nth_error (sh_arr m) (sh_idx m)) as [x|] eqn:Ex.
    2:{ apply nth_error_None in Ex. rewrite Ha in Ex. lia. }
    simpl. rewrite Hn. replace (sh_idx m <? sh_len m0) with true by (symmetry; apply Nat.ltb_lt; exact Hlt).
    rewrite Ex.
    match goal with |- context [conc_run true ?mm _] => set (m2 := mm) end.
    assert (E : conc_step true m CIter = Some m2).
    { simpl. rewrite Hn. replace (sh_idx m <? sh_len m0) with true by (symmetry; apply Nat.ltb_lt; exact Hlt).
      rewrite Ex. reflexivity. }
    destruct (held_step _ _ _ _ Hcap Hh' E) as [H2|[_ _ Ad _]]; [|discriminate Ad].
    apply (IH m2 H2); [reflexivity | simpl; lia].
Qed.

(* the variant that iterates outside the lock over the un-copied slice (what narrowing the lock
   to the snapshot gives): with three live instances and a Stop of the first one while its
   callback runs, the second instance's callbacks never run and the third one's run twice *)
Definition conc_cfg : config := mkCfg false false false [] [] [] [] [mkCb 0 false] [mkCb 0 false] [] false.
Definition conc_three : list inst := [mkInst 0 0 conc_cfg []; mkInst 1 1 conc_cfg []; mkInst 2 2 conc_cfg []].

Lemma unlocked_snapshot_refuted :
  exists cs m', conc_run false (conc_init conc_three) cs = Some m' /\ sh_done m' = true /\
    proj KShutdown 1 (sh_out m') = [] /\ proj KShutdown 2 (sh_out m') = [0; 0] /\
    proj KFinal 2 (sh_out m') = [0; 0].
Proof.
  exists [CAcquire; CIter; CSplice 0; CIter; CIter; CRelease]. eexists. vm_compute. repeat split; reflexivity.
Qed.

(* the same schedule against the code as it is: the Stop cannot get in *)
Lemma locked_blocks_stop :
  conc_run true (conc_init conc_three) [CAcquire; CIter; CSplice 0] = None.
Proof. vm_compute. reflexivity. Qed.

(* ================================================================== Restart against signals and Stops *)
Definition rinv (m : rst) : Prop :=
  NoDup (ids (r_live m)) /\
  NoDup (ids (r_iters m)) /\
  htrace m = (if r_once m then [EHook HShutdown 0] else []) ++ all_shutdown (r_iters m) /\
  (r_once m = false -> r_iters m = [] /\ r_hq m = None /\ r_pend m = false) /\
  (r_pend m = true -> r_iters m = [] /\ r_hq m = None) /\
  (forall q, r_hq m = Some q -> NoDup (ids (r_iters m ++ q)) /\ r_pend m = false).

Lemma htrace_app_false (tr : list (bool * event)) e :
  map snd (filter fst (tr ++ [(false, e)])) = map snd (filter fst tr).
Proof. rewrite filter_app. simpl. now rewrite app_nil_r. Qed.

Lemma htrace_app_true (tr : list (bool * event)) (l : list event) :
  map snd (filter fst (tr ++ map (pair true) l)) = map snd (filter fst tr) ++ l.
Proof.
  rewrite filter_app, map_app. f_equal.
  induction l as [|a l IH]; simpl; [reflexivity| now rewrite IH].
Qed.

Lemma has_id_false h l : has_id h l = false -> ~ In h (ids l).
Proof.
  unfold has_id, ids. intros H Hin. apply in_map_iff in Hin. destruct Hin as [x [Hx Hin]].
  rewrite existsb_false_iff in H. specialize (H x Hin). subst h. now rewrite Nat.eqb_refl in H.
Qed.

Lemma ids_app a b : ids (a ++ b) = ids a ++ ids b.
Proof. unfold ids. apply map_app. Qed.

Lemma all_shutdown_snoc l x : all_shutdown (l ++ [x]) = all_shutdown l ++ shutdown_cbs x.
Proof. unfold all_shutdown. rewrite flat_map_app. simpl. now rewrite app_nil_r. Qed.

Lemma nodup_app_l {A} (a b : list A) : NoDup (a ++ b) -> NoDup a.
Proof.
  induction a as [|x a IH]; simpl; intros H; [constructor|].
  inversion H as [|? ? Hn Hd]; subst. constructor; [|now apply IH].
  intros Hin. apply Hn. apply in_or_app. now left.
Qed.

Ltac rfin Ho Hp Hq := auto; try (simpl; constructor); try (apply Ho; assumption); try (apply Hp; assumption); try (eapply Hq; eassumption); try discriminate; try congruence.

Lemma rstep_inv m c m' : rinv m -> rstep m c = Some m' -> rinv m'.
Proof.
  intros (Hl & Hi & Ht & Ho & Hp & Hq) Hs. unfold htrace in *.
  destruct c; simpl in Hs.
  - (* ChR *)
    destruct (r_prog m) as [|a p]; [discriminate|]. destruct a as [e|ni|i|h].
    + injection Hs as <-. unfold rinv, htrace; simpl. rewrite htrace_app_false. repeat split; rfin Ho Hp Hq.
    + destruct (r_lock m || has_id (i_id ni) (r_live m)) eqn:E; [discriminate|].
      apply Bool.orb_false_iff in E. destruct E as [_ E]. apply has_id_false in E.
      injection Hs as <-. unfold rinv, htrace; simpl. repeat split; rfin Ho Hp Hq.
      rewrite ids_app. simpl. now apply nodup_snoc.
    + injection Hs as <-. unfold rinv, htrace; simpl. repeat split; rfin Ho Hp Hq.
    + destruct (r_lock m); [discriminate|]. injection Hs as <-. unfold rinv, htrace; simpl.
      repeat split; rfin Ho Hp Hq. now apply remove_id_nodup.
  - (* ChSig *)
    destruct (r_once m) eqn:E.
    + injection Hs as <-. unfold rinv, htrace. rewrite E. repeat split; rfin Ho Hp Hq.
    + destruct (Ho eq_refl) as (Hi0 & Hq0 & Hp0).
      injection Hs as <-. unfold rinv, htrace; simpl.
      change [(true, EHook HShutdown 0)] with (map (pair true) [EHook HShutdown 0]).
      rewrite htrace_app_true, Ht, ?E, Hi0. simpl.
      repeat split; rfin Ho Hp Hq.
  - (* ChAcq *)
    destruct (r_pend m && negb (r_lock m)) eqn:E; [|discriminate].
    apply Bool.andb_true_iff in E. destruct E as [E _]. destruct (Hp E) as (Hi0 & Hq0).
    injection Hs as <-. unfold rinv, htrace; simpl. rewrite Hi0 in *.
    repeat split; auto; try discriminate;
      try (match goal with H : r_once m = false |- _ => destruct (Ho H) as (_ & _ & Hpf); congruence end).
    all: try (match goal with H : Some _ = Some _ |- _ => injection H as <-; simpl; assumption end).
  - (* ChIter *)
    destruct (r_hq m) as [[|x q]|] eqn:E; try discriminate.
    destruct (Hq _ eq_refl) as (Hnd & Hpf).
    assert (Hon : r_once m = true).
    { destruct (r_once m) eqn:E1; [reflexivity|]. destruct (Ho eq_refl) as (_ & Hq0 & _). discriminate. }
    assert (Hnd1 : NoDup (ids (r_iters m ++ q))).
    { rewrite ids_app in *. simpl in Hnd. now apply NoDup_remove_1 in Hnd. }
    assert (Hnd2 : NoDup (ids ((r_iters m ++ [x]) ++ q))) by now rewrite <- app_assoc.
    assert (Hnd3 : NoDup (ids (r_iters m ++ [x]))).
    { rewrite ids_app in Hnd2. now apply nodup_app_l in Hnd2. }
    destruct (existsb (Nat.eqb (i_id x)) (r_unreg m)).
    + injection Hs as <-. unfold rinv, htrace; simpl. repeat split; auto; try congruence.
      all: try (match goal with H : Some _ = Some _ |- _ => injection H as <-; assumption end).
    + injection Hs as <-. unfold rinv, htrace; simpl.
      rewrite htrace_app_true, Ht, all_shutdown_snoc, Hon, app_assoc.
      repeat split; auto; try congruence.
      all: try (match goal with H : Some _ = Some _ |- _ => injection H as <-; assumption end).
  - (* ChRel *)
    destruct (r_hq m) as [[|x q]|] eqn:E; try discriminate.
    destruct (Hq _ eq_refl) as (Hnd & Hpf).
    assert (Hon : r_once m = true).
    { destruct (r_once m) eqn:E1; [reflexivity|]. destruct (Ho eq_refl) as (_ & Hq0 & _). congruence. }
    injection Hs as <-. unfold rinv, htrace; simpl. repeat split; auto; try discriminate; try congruence.
  - (* ChStop *)
    destruct (r_lock m); [discriminate|]. injection Hs as <-. unfold rinv, htrace; simpl.
    repeat split; rfin Ho Hp Hq. now apply remove_id_nodup.
Qed.

Lemma rinv_init l p : NoDup (ids l) -> rinv (rinit l p).
Proof.
  intros H. unfold rinv, rinit, htrace; simpl. repeat split; auto; try constructor; try discriminate.
Qed.

Lemma rrun_inv cs : forall m m', rinv m -> rrun m cs = Some m' -> rinv m'.
Proof.
  induction cs as [|c cs IH]; simpl; intros m m' Hi H.
  - now injection H as <-.
  - destruct (rstep m c) as [m1|] eqn:E; [|discriminate]. eapply IH; [|exact H]. eapply rstep_inv; eauto.
Qed.

(* over ALL schedules of one Restart (any program), any number of signals and any Stops: the
   handlers together emit one shutdown event and run the shutdown + final-shutdown callbacks of
   pairwise distinct instances, each exactly once, in order *)
Lemma race_handlers_once l p cs m :
  NoDup (ids l) -> rrun (rinit l p) cs = Some m ->
  NoDup (ids (r_iters m)) /\
  htrace m = (if r_once m then [EHook HShutdown 0] else []) ++ all_shutdown (r_iters m).
Proof.
  intros Hn Hr. destruct (rrun_inv cs _ _ (rinv_init l p Hn) Hr) as (_ & H1 & H2 & _). now split.
Qed.

Lemma rfilter_true (tr : list (bool * event)) (l : list event) :
  filter (fun x => negb (fst x)) (tr ++ map (pair true) l) = filter (fun x => negb (fst x)) tr.
Proof.
  rewrite filter_app. replace (filter _ (map (pair true) l)) with (@nil (bool * event)); [now rewrite app_nil_r|].
  induction l as [|a l IH]; simpl; auto.
Qed.

Lemma rstep_order m c m' : rstep m c = Some m' ->
  rtrace m' ++ prog_events (r_prog m') = rtrace m ++ prog_events (r_prog m).
Proof.
  unfold rtrace. intros Hs. destruct c; simpl in Hs.
  - destruct (r_prog m) as [|a p]; [discriminate|]. destruct a as [e|ni|i|h].
    + injection Hs as <-. simpl. rewrite filter_app, map_app. simpl. now rewrite <- app_assoc.
    + destruct (r_lock m || has_id (i_id ni) (r_live m)); [discriminate|]. now injection Hs as <-.
    + now injection Hs as <-.
    + destruct (r_lock m); [discriminate|]. now injection Hs as <-.
  - destruct (r_once m); injection Hs as <-; [reflexivity|]. simpl.
    change [(true, EHook HShutdown 0)] with (map (pair true) [EHook HShutdown 0]). now rewrite rfilter_true.
  - destruct (r_pend m && negb (r_lock m)); [|discriminate]. now injection Hs as <-.
  - destruct (r_hq m) as [[|x q]|]; try discriminate.
    destruct (existsb (Nat.eqb (i_id x)) (r_unreg m)); injection Hs as <-; simpl; [reflexivity|].
    now rewrite rfilter_true.
  - destruct (r_hq m) as [[|x q]|]; try discriminate. now injection Hs as <-.
  - destruct (r_lock m); [discriminate|]. now injection Hs as <-.
Qed.

(* over ALL schedules the Restart thread's own events are a prefix of its program, in program order *)
Lemma race_program_order l p cs : forall m, rrun (rinit l p) cs = Some m ->
  rtrace m ++ prog_events (r_prog m) = prog_events p.
Proof.
  assert (G : forall cs0 m0 m, rrun m0 cs0 = Some m ->
              rtrace m ++ prog_events (r_prog m) = rtrace m0 ++ prog_events (r_prog m0)).
  { induction cs0 as [|c cs0 IH]; simpl; intros m0 m H.
    - now injection H as <-.
    - destruct (rstep m0 c) as [m1|] eqn:E; [|discriminate]. rewrite (IH _ _ H). exact (rstep_order _ _ _ E). }
  intros m H. now rewrite (G _ _ _ H).
Qed.

Lemma prog_events_app a b : prog_events (a ++ b) = prog_events a ++ prog_events b.
Proof. unfold prog_events. apply flat_map_app. Qed.
Lemma prog_events_ev l : prog_events (map AEv l) = l.
Proof. induction l as [|a l IH]; simpl; [reflexivity| now rewrite IH]. Qed.
Lemma prog_events_ins i l : prog_events (ins_reg i l) = l.
Proof.
  induction l as [|a l IH]; simpl; [reflexivity|].
  destruct a; simpl; try now rewrite IH.
  destruct (i0 =? i); simpl; [now rewrite prog_events_ev | now rewrite IH].
Qed.

(* without a handler step the program is the sequential Restart: same events *)
Lemma restart_prog_refines o c s :
  prog_events (restart_prog o c s) = snd (fst (restart_body o c s)).
Proof.
  unfold restart_prog, restart_body.
  destruct (run_stop KRestart (i_id o) (c_restart (i_cfg o))) as [e1 ok1].
  destruct ok1; simpl.
  2:{ now rewrite prog_events_app, !prog_events_ev. }
  destruct (start_plan c (next s) true (i_srv o) (i_id o)) as [[e2 ok2] saved].
  destruct ok2; simpl.
  - destruct (stop_inst o (commit (mkInst (next s) (i_root o) c saved) (next_after c (next s)) s)) as [s2 e3].
    simpl. rewrite prog_events_app, prog_events_ev. simpl. rewrite prog_events_app, prog_events_ins.
    rewrite prog_events_app, prog_events_ev. simpl. rewrite prog_events_app, prog_events_ev. simpl.
    repeat rewrite <- app_assoc. simpl. reflexivity.
  - rewrite prog_events_app, prog_events_ev. simpl. rewrite prog_events_app, prog_events_ins. simpl.
    rewrite prog_events_ev. repeat rewrite <- app_assoc. reflexivity.
Qed.

(* the witness: a reload of instance 0 held in the new instance's first OnStartup callback while
   a signal arrives *)
Definition race_cfg : config :=
  mkCfg false false false [] [mkCb 0 false; mkCb 1 false] [] [] [mkCb 0 false] [] [] false.
Definition race_state : state := final init [OStart race_cfg].
Definition race_old : inst := mkInst 0 0 race_cfg [].
Definition race_sched : list rchoice :=
  repeat ChR 5 ++ [ChSig; ChAcq; ChIter; ChIter; ChRel] ++ repeat ChR 4.

Lemma race_old_shutdown_twice :
  exists m, rrun (rinit (insts race_state) (restart_prog race_old race_cfg race_state)) race_sched = Some m
            /\ r_prog m = [] /\ NoDup (ids (insts race_state))
            /\ count_ev (ECb KShutdown 0 0) (ftrace m) = 2
            /\ ordered (is_cb KStartup 1) (is_cb KShutdown 1) (ftrace m) = false.
Proof.
  eexists. split; [vm_compute; reflexivity|].
  split; [reflexivity|]. split; [vm_compute; repeat constructor; simpl; tauto|]. split; reflexivity.
Qed.

Lemma count_ev_app e a b : count_ev e (a ++ b) = count_ev e a + count_ev e b.
Proof. unfold count_ev. now rewrite filter_app, app_length. Qed.

Lemma count_split e (tr : list (bool * event)) :
  count_ev e (map snd tr) =
  count_ev e (map snd (filter fst tr)) + count_ev e (map snd (filter (fun x => negb (fst x)) tr)).
Proof.
  induction tr as [|[b x] tr IH]; [reflexivity|].
  change (map snd ((b, x) :: tr)) with ([x] ++ map snd tr). rewrite count_ev_app, IH.
  destruct b; simpl.
  - change (x :: map snd (filter fst tr)) with ([x] ++ map snd (filter fst tr)). rewrite count_ev_app. lia.
  - change (x :: map snd (filter (fun x0 => negb (fst x0)) tr)) with ([x] ++ map snd (filter (fun x0 => negb (fst x0)) tr)).
    rewrite count_ev_app. lia.
Qed.

(* the strongest true form of "at most once" for the WHOLE trace: over all schedules an event
   occurs at most as often as the handlers' single pass over pairwise distinct instances emits
   it plus as often as the sequential reload itself does *)
Lemma race_whole_trace_bound l p cs m :
  NoDup (ids l) -> rrun (rinit l p) cs = Some m ->
  NoDup (ids (r_iters m)) /\
  forall e, count_ev e (ftrace m) <=
            count_ev e ((if r_once m then [EHook HShutdown 0] else []) ++ all_shutdown (r_iters m))
            + count_ev e (prog_events p).
Proof.
  intros Hn Hr. destruct (race_handlers_once l p cs m Hn Hr) as [H1 H2]. split; [exact H1|].
  intros e. unfold ftrace. rewrite count_split.
  change (map snd (filter fst (r_tr m))) with (htrace m).
  change (map snd (filter (fun x => negb (fst x)) (r_tr m))) with (rtrace m).
  rewrite H2. pose proof (race_program_order l p cs m Hr) as Hp. rewrite <- Hp.
  rewrite (count_ev_app e (rtrace m)). lia.
Qed.
