Require Import V.Lib V.C16_Model.
Open Scope nat_scope.
