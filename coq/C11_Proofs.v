Require Import V.Lib V.C11_Model.
Open Scope Z_scope.

Lemma tk_ok d i : 0 <= i < dlen d -> exists t, tk d i = Ok t.
Proof.
  intros [H0 H1]. unfold tk. destruct (Z.ltb_spec i 0); [lia|]. unfold idx.
  destruct (nth_error (d_tokens d) (Z.to_nat i)) eqn:E; [eauto|].
  apply nth_error_None in E. unfold dlen in H1. lia.
Qed.

Definition good (d d' : disp) (b : bool) : Prop :=
  cursor_ok d' /\ d_tokens d' = d_tokens d /\ d_cursor d <= d_cursor d' /\
  (b = true -> d_cursor d < d_cursor d').

Lemma dlen_same d d' : d_tokens d' = d_tokens d -> dlen d' = dlen d.
Proof. unfold dlen. intros ->. reflexivity. Qed.

Ltac fin := eexists _, _; (split; [reflexivity|]);
  unfold good, cursor_ok, with_cursor, with_nesting, dlen in *; cbn in *;
  repeat split; auto; try lia; try discriminate; try congruence.

Ltac cases :=
  repeat match goal with
  | |- context [Z.ltb ?a ?b] => destruct (Z.ltb_spec a b)
  | |- context [Z.leb ?a ?b] => destruct (Z.leb_spec a b)
  end.

(* ---- Next ---- *)
Theorem next_total d : cursor_ok d -> exists b d', d_next d = Ok (b, d') /\ good d d' b /\ d_nesting d' = d_nesting d.
Proof.
  intros [H1 H2]. unfold d_next. cases; fin.
Qed.

(* ---- NextArg ---- *)
Theorem next_arg_total d : cursor_ok d -> exists b d', d_next_arg d = Ok (b, d') /\ good d d' b /\ d_nesting d' = d_nesting d.
Proof.
  intros [H1 H2]. unfold d_next_arg.
  destruct (Z.ltb_spec (d_cursor d) 0).
  { fin. }
  destruct (Z.leb_spec (dlen d) (d_cursor d)).
  { fin. }
  destruct (Z.ltb_spec (d_cursor d) (dlen d - 1)).
  - destruct (tk_ok d (d_cursor d)) as [a Ea]; [lia|].
    destruct (tk_ok d (d_cursor d + 1)) as [b Eb]; [lia|].
    rewrite Ea, Eb. cbn [rbind]. unfold num_lb.
    destruct (Z.ltb_spec (d_cursor d) 0); [lia|]. destruct (Z.leb_spec (dlen d) (d_cursor d)); [lia|].
    cbn [orb]. rewrite Ea. cbn [rbind].
    destruct (_ && _).
    + fin.
    + fin.
  - fin.
Qed.

(* ---- nextOnSameLine / NextLine ---- *)
Theorem next_on_same_line_total d : cursor_ok d ->
  exists b d', d_next_on_same_line d = Ok (b, d') /\ good d d' b /\ d_nesting d' = d_nesting d.
Proof.
  intros [H1 H2]. unfold d_next_on_same_line.
  destruct (Z.ltb_spec (d_cursor d) 0).
  { fin. }
  destruct (Z.leb_spec (dlen d - 1) (d_cursor d)).
  { fin. }
  destruct (tk_ok d (d_cursor d)) as [a Ea]; [lia|].
  destruct (tk_ok d (d_cursor d + 1)) as [b Eb]; [lia|].
  rewrite Ea, Eb. cbn [rbind]. destruct (negb _).
  - fin.
  - fin.
Qed.

Theorem next_line_total d : cursor_ok d ->
  exists b d', d_next_line d = Ok (b, d') /\ good d d' b /\ d_nesting d' = d_nesting d.
Proof.
  intros [H1 H2]. unfold d_next_line.
  destruct (Z.ltb_spec (d_cursor d) 0).
  { fin. }
  destruct (Z.leb_spec (dlen d - 1) (d_cursor d)).
  { fin. }
  destruct (tk_ok d (d_cursor d)) as [a Ea]; [lia|].
  destruct (tk_ok d (d_cursor d + 1)) as [b Eb]; [lia|].
  rewrite Ea, Eb. cbn [rbind]. destruct (next_on_new_line a b).
  - fin.
  - fin.
Qed.

(* ---- Val ---- *)
Theorem val_total d : cursor_ok d -> exists v, d_val d = Ok v.
Proof.
  intros [H1 H2]. unfold d_val.
  destruct (Z.ltb_spec (d_cursor d) 0); [cbn; eauto|].
  destruct (Z.leb_spec (dlen d) (d_cursor d)); [cbn; eauto|]. cbn [orb].
  destruct (tk_ok d (d_cursor d)) as [a Ea]; [lia|]. rewrite Ea. cbn. eauto.
Qed.

(* ---- NextBlock ---- *)
Ltac fin2 := eexists _, _; (split; [reflexivity|]);
  unfold cursor_ok, with_cursor, with_nesting, dlen in *; cbn in *;
  repeat match goal with H : d_tokens ?a = d_tokens ?b |- _ => rewrite H in *; clear H end;
  repeat split; try lia; try congruence; try discriminate.

Theorem next_block_total d initial : cursor_ok d ->
  exists b d', d_next_block d initial = Ok (b, d') /\ cursor_ok d' /\ d_tokens d' = d_tokens d /\
               d_cursor d <= d_cursor d' /\ (b = true -> d_cursor d < d_cursor d').
Proof.
  intros Hc. unfold d_next_block. destruct (initial <? d_nesting d).
  - destruct (next_total d Hc) as (ok & d1 & E1 & (C1 & T1 & L1 & P1) & _). rewrite E1. cbn [rbind].
    destruct ok; cbn [negb]; [|fin2].
    specialize (P1 eq_refl).
    destruct (val_total d1 C1) as (v & Ev). rewrite Ev. cbn [rbind].
    destruct (leqb v RBRACE).
    + destruct (next_on_same_line_total d1 C1) as (same & d2 & E2 & (C2 & T2 & L2 & P2) & _).
      rewrite E2. cbn [rbind]. destruct same; cbn [negb]; [|fin2].
      destruct (val_total d2 C2) as (v' & Ev'). rewrite Ev'. cbn [rbind].
      destruct (leqb v' LBRACE); [|fin2].
      destruct (next_on_same_line_total d2 C2) as (same3 & d3 & E3 & (C3 & T3 & L3 & P3) & _).
      rewrite E3. cbn [rbind]. destruct same3; cbn [negb]; fin2.
    + destruct (leqb v LBRACE); [|fin2].
      destruct (next_on_same_line_total d1 C1) as (same & d2 & E2 & (C2 & T2 & L2 & P2) & _).
      rewrite E2. cbn [rbind]. destruct same; cbn [negb]; fin2.
  - destruct (next_on_same_line_total d Hc) as (same & d1 & E1 & (C1 & T1 & L1 & P1) & _).
    rewrite E1. cbn [rbind]. destruct same; cbn [negb]; [|fin2].
    specialize (P1 eq_refl). destruct (val_total d1 C1) as (v & Ev). rewrite Ev. cbn [rbind].
    destruct (leqb v LBRACE); cbn [negb]; [|fin2].
    destruct (next_total d1 C1) as (ok & d2 & E2 & (C2 & T2 & L2 & P2) & _). rewrite E2. cbn [rbind].
    destruct (val_total d2 C2) as (v2 & Ev2). rewrite Ev2. cbn [rbind].
    destruct (leqb v2 RBRACE); fin2.
Qed.

(* ---- RemainingArgs ---- *)
Theorem remaining_args_total : forall fuel d acc, cursor_ok d ->
  exists args d', d_remaining_args fuel d acc = Ok (args, d') /\ cursor_ok d' /\
                  d_tokens d' = d_tokens d /\ d_cursor d <= d_cursor d'.
Proof.
  induction fuel as [|f IH]; intros d acc Hc; cbn [d_remaining_args]; [fin2|].
  destruct (next_arg_total d Hc) as (ok & d1 & E1 & (C1 & T1 & L1 & P1) & _). rewrite E1. cbn [rbind].
  destruct ok; cbn [negb]; [|fin2].
  specialize (P1 eq_refl). destruct (val_total d1 C1) as (v & Ev). rewrite Ev. cbn [rbind].
  destruct (leqb v LBRACE); [fin2|].
  destruct (IH d1 (v :: acc) C1) as (args & d' & E & C' & T' & L'). rewrite E. fin2.
Qed.

(* A loop `for c.Next() { body }` (likewise NextArg / NextLine / NextBlock) whose body only uses
   dispenser operations runs at most len(tokens)+1 times: the cursor is bounded and every [true]
   strictly advances it while no operation ever moves it back. *)
Theorem loop_bound d d' b : cursor_ok d -> good d d' b -> b = true -> dlen d - d_cursor d' < dlen d - d_cursor d.
Proof. intros _ (_ & _ & _ & P) H. specialize (P H). lia. Qed.

Theorem cursor_bounded d : cursor_ok d -> 0 <= Z.max (dlen d - 1) 0 - d_cursor d <= Z.max (dlen d) 1.
Proof. intros [H1 H2]. unfold dlen in *. lia. Qed.

Lemma init_cursor_ok toks : cursor_ok {| d_tokens := toks; d_cursor := -1; d_nesting := 0 |}.
Proof. unfold cursor_ok, dlen; cbn. lia. Qed.

(* ---- parseUpstream: the port text u[len(us)+1 : portsEnd] ----
   us = u[:colon] with colon = LastIndex(u, ":"); portsEnd = colon + k with k = Index(u[colon:], "/"), or len(u)
   when there is none.  u[colon] is ':' and not '/', so a slash found in u[colon:] has k >= 1. *)
Lemma upstream_port_cut_in_bounds (len colon k : Z) :
  0 <= colon < len -> (k = -1 \/ (1 <= k /\ colon + k + 1 <= len)) ->
  let portsEnd := if k =? -1 then len else colon + k in
  0 <= colon + 1 /\ colon + 1 <= portsEnd /\ portsEnd <= len.
Proof. intros H [->|[K1 K2]]; simpl; [lia|]. destruct (Z.eqb_spec k (-1)); lia. Qed.

(* the end searched from the host instead (a seeded variant): the first '/' after the host may come BEFORE the
   last ':' - "localhost/a:b": len 13, last colon at 11, first slash at 9 *)
Lemma upstream_port_cut_from_host_refuted :
  exists len colon hostStart k : Z,
    0 <= hostStart /\ hostStart <= colon /\ colon < len /\ 0 <= k /\ hostStart + k + 1 <= len /\
    ~ (colon + 1 <= hostStart + k).
Proof. exists 13, 11, 0, 9. lia. Qed.
