(* C08 — a failed load or reload leaves nothing behind: property theorems only.  Each is closed by
   [exact] of a lemma proved in C08_Proofs.v and followed by Print Assumptions.

   State = the process-global registries (instance list, event hooks, htpasswd cache and its mutex,
   log rollers, listening sockets with their descriptors, running proxy health-check workers);
   [attempt m step e c g] is casket.Start / ValidateAndExecuteDirectives(justValidate) / Instance.Restart /
   the SIGUSR1 handler (loader first, then purge / Restart / restore) applied to the abstract configuration
   [c] in environment [e]; [attempt_panic] is a reload during which a plugin's setup panics (Restart turns the
   panic into an error); [run] folds a history of attempts, contained panics and htpasswd-file rewrites.  All
   statements quantify over ALL configurations, states and histories. *)
Require Import V.Lib V.C08_Model V.C08_Proofs V.C08_QuicProofs.
Open Scope N_scope.

(* ---- 1. a failed attempt never takes anything away (full, every mode, every well-formed state) ----
   The instance list, the mutex and the event-hook registry are exactly as before; every roller is as
   before; the table of listening sockets with their descriptor counts is EXACTLY as
   before: what a failing start opened (new listeners, duplicated descriptors of inherited ones) it
   closed again (fix of F-C08-2/2b/2c).  [wf] holds in every reachable state, see 9. *)
Theorem C08_failed_attempt_loses_nothing :
  forall m step e c g r g',
  wf g -> attempt m step e c g = (r, g') -> r <> ROk ->
  g_insts g' = g_insts g /\ g_htlock g' = g_htlock g /\
  g_hooks g' = g_hooks g /\
  (forall f x, assoc f (g_rollers g) = Some x -> assoc f (g_rollers g') = Some x) /\
  g_socks g' = g_socks g.
Proof. exact failed_attempt_loses_nothing. Qed.
Print Assumptions C08_failed_attempt_loses_nothing.

Example C08_failed_attempt_loses_nothing_nonvacuous :
  (exists g', attempt Load 1 [] (mkcfg 1 [] [AEph 1; ABusy]) g0 = (RErr, g') /\ g_socks g' = g_socks g0) /\
  (exists g1 g', attempt Load 1 [] (mkcfg 1 [] [AEph 1]) g0 = (ROk, g1) /\
                 attempt Reload 2 [] (mkcfg 2 [] [AEph 1; AEph 2; ABusy]) g1 = (RErr, g') /\
                 g_socks g' = g_socks g1 /\ sum_fds (g_socks g1) = 1%nat).
Proof. exact listeners_closed_witness. Qed.

(* ---- 2. a failed attempt leaves the running sites untouched (full) ----
   Same instances (hence same configuration marker and same basic-auth matcher for every site), every
   server's socket still open, every site still writes through the roller it had. *)
Theorem C08_failed_attempt_sites_untouched :
  forall m step e c g r g',
  wf g -> attempt m step e c g = (r, g') -> r <> ROk ->
  g_insts g' = g_insts g /\
  (forall i, In i (g_insts g) -> alive g i -> alive g' i) /\
  (forall i x, In i (g_insts g) -> roller_of g i = Some x -> roller_of g' i = Some x).
Proof. exact failed_attempt_sites_untouched. Qed.
Print Assumptions C08_failed_attempt_sites_untouched.

(* ---- 3. EVERY failed attempt leaves the event-hook registry exactly as it was (full: every mode, every
        state, every configuration; fix of F-C08-1/1b/1c/1d — formerly true of the SIGUSR1 path only) ---- *)
Theorem C08_failed_attempt_restores_hooks :
  forall m step e c g r g',
  attempt m step e c g = (r, g') -> r <> ROk -> g_hooks g' = g_hooks g.
Proof. exact failed_attempt_hooks. Qed.
Print Assumptions C08_failed_attempt_restores_hooks.

Example C08_failed_attempt_restores_hooks_nonvacuous :
  (exists g', attempt Load 1 [] (mkcfg 1 [EOn 1; EBad] [AEph 1]) g0 = (RErr, g') /\ g_hooks g' = []) /\
  (exists g', attempt Validate 1 [] (mkcfg 1 [EOn 1; EAuth 2 1] [AEph 1]) g0 = (RErr, g') /\ g_hooks g' = []) /\
  (exists g', attempt Execute 1 [] (mkcfg 1 [EOn 2; EBad] [AEph 1]) g0 = (RErr, g') /\ g_hooks g' = []) /\
  (exists g', attempt Load 1 [] (mkcfg 1 [EOn 1] [AEph 1; ABusy]) g0 = (RErr, g') /\ g_hooks g' = []) /\
  (exists g1 g2, attempt Load 1 [] (mkcfg 1 [EOn 1] [AEph 1]) g0 = (ROk, g1) /\
                 attempt Reload 2 [] (mkcfg 2 [EOn 2; EBad] [AEph 1]) g1 = (RErr, g2) /\
                 g_hooks g2 = [1] /\ g_hooks g1 = [1]) /\
  (exists g1 g2, attempt Load 1 [] (mkcfg 1 [EOn 1] [AEph 1]) g0 = (ROk, g1) /\
                 attempt Sigusr1 2 [] (mkcfg 2 [EOn 2; EBad] [AEph 1]) g1 = (RErr, g2) /\
                 g_hooks g2 = [1] /\ g_hooks g1 = [1]).
Proof. exact hooks_restored_witness. Qed.

(* ---- 3b. SIGUSR1 when the loader fails at signal time (Casketfile removed / unreadable / loader plugin
        failing): NOTHING is changed — not up to anything, in any state whatsoever (full).  The handler asks the
        loader before it backs up and purges the hooks, and leaves right there.  The same holds for every other
        way of attempting a Casketfile that cannot be loaded. ---- *)
Theorem C08_failed_sigusr1_load_changes_nothing :
  forall step e c g, loader_fails c = true -> attempt Sigusr1 step e c g = (RErr, g).
Proof. exact failed_sigusr1_load_changes_nothing. Qed.
Print Assumptions C08_failed_sigusr1_load_changes_nothing.

Theorem C08_unloadable_casketfile_changes_nothing :
  forall m step e c g, loader_fails c = true -> attempt m step e c g = (RErr, g).
Proof. exact unloadable_changes_nothing. Qed.
Print Assumptions C08_unloadable_casketfile_changes_nothing.

Example C08_failed_sigusr1_load_changes_nothing_nonvacuous :
  loader_fails {| c_id := 2; c_parse := PLoader; c_effs := [EOn 1]; c_addrs := [AEph 1] |} = true /\
  exists g1, attempt Load 1 [] (mkcfg 1 [EOn 2] [AEph 1]) g0 = (ROk, g1) /\ g_hooks g1 = [1; 1] /\
             attempt Sigusr1 2 [] {| c_id := 2; c_parse := PLoader; c_effs := [EOn 1]; c_addrs := [AEph 1] |} g1 = (RErr, g1).
Proof. split; [reflexivity|]. eexists. vm_compute. repeat split; reflexivity. Qed.

(* ... whereas the handler with "back up and purge the hooks" moved in front of the load ([do_sigusr1_gen true];
   the two orders are the same function whenever the loader succeeds) leaves the registry of a reachable state
   purged: every hook of the still-running configuration is gone. *)
Theorem C08_sigusr1_purge_before_load_refuted :
  exists h c rs e g g',
    run 1 h ([], g0) = (rs, (e, g)) /\ loader_fails c = true /\
    do_sigusr1_gen true 2 e c g = (RErr, g') /\ g_hooks g = [1; 1] /\ g_hooks g' = [] /\
    do_sigusr1_gen false 2 e c g = (RErr, g).
Proof. exact sigusr1_purge_before_load_refuted. Qed.
Print Assumptions C08_sigusr1_purge_before_load_refuted.

Theorem C08_sigusr1_order_irrelevant_when_loader_succeeds :
  forall step e c g, loader_fails c = false -> do_sigusr1_gen true step e c g = do_sigusr1_gen false step e c g.
Proof. exact sigusr1_order_irrelevant_when_loaded. Qed.
Print Assumptions C08_sigusr1_order_irrelevant_when_loader_succeeds.

Example C08_sigusr1_order_irrelevant_nonvacuous :
  loader_fails (mkcfg 2 [EOn 1; EBad] [AEph 1]) = false /\
  loader_fails {| c_id := 2; c_parse := PSyntax; c_effs := []; c_addrs := [AEph 1] |} = false.
Proof. split; reflexivity. Qed.

(* ---- 4. bounded time: over ALL histories no attempt ever blocks, and the htpasswd mutex is free
        after every history (full; this is the clause the fix ee9fbaa made true) ---- *)
Theorem C08_no_attempt_ever_hangs :
  forall h step e g rs e' g',
  g_htlock g = false -> run step h (e, g) = (rs, (e', g')) ->
  g_htlock g' = false /\ ~ In RHang rs.
Proof. exact run_never_hangs. Qed.
Print Assumptions C08_no_attempt_ever_hangs.

(* ... whereas the code before the fix returned with the mutex held when the htpasswd file could not be
   opened or parsed: the next configuration using htpasswd — a valid one that loads in a fresh process —
   never returns. *)
Theorem C08_htpasswd_lock_before_fix_refuted :
  exists e e' f u g1,
    get_matcher_gen false e g0 f u = (RErr, g1, None) /\
    eff_valid e' (EAuth f u) = true /\
    fst (fst (get_matcher_gen false e' g1 f u)) = RHang /\
    fst (fst (get_matcher_gen false e' g0 f u)) = ROk.
Proof. exact prefix_lock_refuted. Qed.
Print Assumptions C08_htpasswd_lock_before_fix_refuted.

(* ---- 5. the htpasswd cache is transparent (full; fix of F-C08-4/4b/4c) ----
   In every reachable state ([wf]: what is cached was parsed from a file that was there) the answer of
   GetHtpasswdMatcher — error or the password the user's matcher accepts — is the answer the file on disk
   gives NOW; and whatever an attempt does from a state, it does from the state with any other cache:
   same outcome, same resulting state up to what the cache holds. *)
Theorem C08_htpasswd_matcher_answers_from_the_file :
  forall e g f u r g' o,
  g_htlock g = false -> cache_ok g -> get_matcher e g f u = (r, g', o) ->
  (r, o) = lookup_now e f u /\ same_but_cache g g' /\ cache_ok g'.
Proof. exact matcher_answers_from_the_file. Qed.
Print Assumptions C08_htpasswd_matcher_answers_from_the_file.

Theorem C08_attempt_ignores_htpasswd_cache :
  forall m step e c g1 g2 r g1',
  cache_ok g1 -> cache_ok g2 -> same_but_cache g1 g2 -> attempt m step e c g1 = (r, g1') ->
  exists g2', attempt m step e c g2 = (r, g2') /\ same_but_cache g1' g2' /\ cache_ok g2'.
Proof. exact attempt_ignores_cache. Qed.
Print Assumptions C08_attempt_ignores_htpasswd_cache.

Example C08_htpasswd_cache_nonvacuous :
  (exists rs e' g', run 1 [OAttempt Load (mkcfg 1 [EAuth 2 1] [AEph 1]); OWrite 2 (users [(1, 2); (2, 1)])]
                      ([(2, users [(2, 1)])], g0) = (rs, (e', g')) /\ rs = [RErr; ROk] /\
                    fst (do_load 9 e' (mkcfg 2 [EAuth 2 1] [AEph 1]) g') = ROk) /\
  (exists rs e' g' gb, run 1 [OAttempt Load (mkcfg 1 [EAuth 1 1; EBad] [AEph 1]); OWrite 1 (users [(1, 2)])]
                      ([(1, users [(1, 1)])], g0) = (rs, (e', g')) /\ rs = [RErr; ROk] /\
                    do_load 9 e' (mkcfg 2 [EAuth 1 1] [AEph 1]) g' = (ROk, gb) /\
                    map auth_view (g_insts gb) = [[4; 4; 2]]) /\
  (exists rs e' g', run 1 [OAttempt Validate (mkcfg 1 [EAuth 1 1] [AEph 1]); OWrite 1 ht_missing]
                      ([(1, users [(1, 1)])], g0) = (rs, (e', g')) /\ rs = [ROk; ROk] /\
                    fst (do_load 9 e' (mkcfg 2 [EAuth 1 1] [AEph 1]) g') = RErr).
Proof. exact htpasswd_cache_witness. Qed.

(* ---- 6. the frame theorem ----
   Full statement "after a failed attempt the state equals the state before, up to the transparent
   htpasswd cache" is FALSE of the code as it is for the two registries that STARTUP CALLBACKS write to: the
   roller map (F-C08-3, open) and the list of running proxy health-check workers (F-C08-5f, open: a discarded
   instance never runs its shutdown callbacks).  The listening sockets with their descriptors, the event-hook
   registry and the htpasswd cache are not among the witnesses: see 1, 3 and 5. *)
Theorem C08_failed_attempt_frame_refuted :
  exists c g', attempt Load 1 [] c g0 = (RErr, g') /\ g_rollers g' <> g_rollers g0.
Proof. exact frame_refuted. Qed.
Print Assumptions C08_failed_attempt_frame_refuted.

(* ---- 6b. health-check workers (fix of F-C08-5/5b-5e: they are started by the startup callbacks of the
        instance, not while `proxy` is parsed).  A validation and an API-driven execution of the directives
        start nothing, whatever their outcome (full).  A failed load / reload / SIGUSR1 reload leaves the worker
        list EXACTLY as it was unless the attempt got as far as startServers with a proxy health check set up
        and a listener that fails to bind ([probe_safe] on the part of the configuration the attempt reaches:
        a configuration rejected by a directive, or by a failing startup callback of `log`, reaches no
        listener) ... ---- *)
Theorem C08_validation_starts_no_health_checker :
  forall m step e c g r g',
  (m = Validate \/ m = Execute) -> attempt m step e c g = (r, g') -> g_probers g' = g_probers g.
Proof. exact validate_starts_nothing. Qed.
Print Assumptions C08_validation_starts_no_health_checker.

Theorem C08_failed_attempt_leaves_health_checkers_partial :
  forall m step e c g r g',
  probe_safe m (reached c) = true ->
  attempt m step e c g = (r, g') -> r <> ROk -> g_probers g' = g_probers g.
Proof. exact failed_attempt_probers. Qed.
Print Assumptions C08_failed_attempt_leaves_health_checkers_partial.

Example C08_failed_attempt_leaves_health_checkers_partial_nonvacuous :
  (exists g', attempt Validate 1 [] (mkcfg 1 [EProxy; EBad] [AEph 1]) g0 = (RErr, g') /\ g_probers g' = []) /\
  (exists g', attempt Validate 1 [] (mkcfg 1 [EProxy] [AEph 1]) g0 = (ROk, g') /\ g_probers g' = []) /\
  (exists g', attempt Load 1 [] (mkcfg 1 [EProxy; EBad] [AEph 1; ABusy]) g0 = (RErr, g') /\ g_probers g' = []) /\
  (exists g', attempt Load 1 [] (mkcfg 1 [ELog 1 1 false; EProxy] [AEph 1]) g0 = (RErr, g') /\ g_probers g' = []) /\
  (exists g1 g2, attempt Load 1 [] (mkcfg 1 [EProxy] [AEph 1]) g0 = (ROk, g1) /\ g_probers g1 = [1] /\
                 attempt Reload 2 [] (mkcfg 2 [EProxy; EBad] [AEph 1]) g1 = (RErr, g2) /\ g_probers g2 = [1]) /\
  (exists g1 g2, attempt Load 1 [] (mkcfg 1 [EProxy] [AEph 1]) g0 = (ROk, g1) /\ g_probers g1 = [1] /\
                 attempt Sigusr1 2 [] (mkcfg 2 [EProxy; EBad] [AEph 1]) g1 = (RErr, g2) /\ g_probers g2 = [1]) /\
  (exists g1 g2, attempt Load 1 [] (mkcfg 1 [EProxy] [AEph 1]) g0 = (ROk, g1) /\
                 attempt Reload 2 [] (mkcfg 2 [EProxy] [AEph 1]) g1 = (ROk, g2) /\ g_probers g2 = [2]).
Proof. exact health_checkers_witness. Qed.

(* ... and without the side condition the statement is FALSE of the code as it is (F-C08-5f, open): a listener
   that fails to bind after the startup callbacks ran leaves the workers of the rejected configuration probing *)
Theorem C08_failed_attempt_leaves_health_checkers_refuted :
  (exists g', attempt Load 1 [] (mkcfg 1 [EProxy] [ABusy]) g0 = (RErr, g') /\ g_probers g' = [1]) /\
  (exists g1 g2, attempt Load 1 [] (mkcfg 1 [EProxy] [AEph 1]) g0 = (ROk, g1) /\ g_probers g1 = [1] /\
                 attempt Reload 2 [] (mkcfg 2 [EProxy] [AEph 1; ABusy]) g1 = (RErr, g2) /\ g_probers g2 = [1; 2]) /\
  (exists g1 g2, attempt Load 1 [] (mkcfg 1 [EProxy] [AEph 1]) g0 = (ROk, g1) /\
                 attempt Sigusr1 2 [] (mkcfg 2 [EProxy] [AEph 1; ABusy]) g1 = (RErr, g2) /\ g_probers g2 = [1; 2]).
Proof. exact health_checkers_refuted. Qed.
Print Assumptions C08_failed_attempt_leaves_health_checkers_refuted.

(* FULL, NO SIDE CONDITION, for the state without these two registries (and up to what the transparent cache
   holds): whatever fails, in whatever mode, however far it got — the instance list, the hook registry, the
   mutex, the socket table with its descriptor counts and the name supply are EXACTLY as before
   ([same_but_leaks]); and of the two registries that are still written to, nothing is taken away or changed:
   every roller is as before (rollers are only added), the worker list is the list before followed by workers
   of this very attempt (none is stopped), and it is untouched under the side condition of 6b. *)
Theorem C08_failed_attempt_frame_without_rollers :
  forall m step e c g r g',
  wf g -> attempt m step e c g = (r, g') -> r <> ROk ->
  same_but_leaks g g' /\
  (forall f x, assoc f (g_rollers g) = Some x -> assoc f (g_rollers g') = Some x) /\
  (exists k, g_probers g' = g_probers g ++ repeat step k) /\
  (probe_safe m (reached c) = true -> g_probers g' = g_probers g).
Proof. exact failed_attempt_frame_without_rollers. Qed.
Print Assumptions C08_failed_attempt_frame_without_rollers.

Example C08_failed_attempt_frame_without_rollers_nonvacuous :
  exists g1 g2, attempt Load 1 [] (mkcfg 1 [EOn 1] [AEph 1]) g0 = (ROk, g1) /\ wf g1 /\
    attempt Reload 2 [] (mkcfg 2 [EOn 2; ELog 1 1 true; EProxy] [AEph 1; AEph 2; ABusy]) g1 = (RErr, g2) /\
    g_rollers g2 <> g_rollers g1 /\ g_probers g2 <> g_probers g1.
Proof.
  eexists. eexists. split; [vm_compute; reflexivity|]. split.
  - eapply (run_wf [OAttempt Load (mkcfg 1 [EOn 1] [AEph 1])] 1 [] g0 _ _ _ wf_g0). vm_compute. reflexivity.
  - split; [vm_compute; reflexivity|]. split; vm_compute; discriminate.
Qed.

(* the same from any two states that differ in the roller map and the worker list only: an attempt reads neither
   (it only extends them, and takes out the workers of the instance it stops) *)
Theorem C08_attempt_ignores_rollers_and_workers :
  forall m step e c g1 g2 r g1',
  cache_ok g1 -> cache_ok g2 -> same_but_leaks g1 g2 -> attempt m step e c g1 = (r, g1') ->
  exists g2', attempt m step e c g2 = (r, g2') /\ same_but_leaks g1' g2' /\ cache_ok g2'.
Proof. exact attempt_ignores_leaks. Qed.
Print Assumptions C08_attempt_ignores_rollers_and_workers.

Example C08_attempt_ignores_rollers_and_workers_nonvacuous :
  exists g', attempt Load 1 [] (mkcfg 1 [ELog 1 1 true; EProxy] [ABusy]) g0 = (RErr, g') /\
             cache_ok g0 /\ cache_ok g' /\ same_but_leaks g0 g' /\ g' <> g0 /\
             fst (attempt Load 2 [] (mkcfg 2 [ELog 1 50 true] [AEph 1]) g') = ROk.
Proof.
  eexists. split; [vm_compute; reflexivity|]. split; [intros f h; discriminate|]. split; [intros f h; discriminate|].
  split; [repeat split; reflexivity|]. split; [discriminate|vm_compute; reflexivity].
Qed.

(* Strongest true statement: the ENTIRE state except what the (transparent) cache holds is unchanged by a
   failed attempt that does not REACH the remaining leak.  [reached c] is the part of the configuration an
   attempt can execute (nothing of a configuration that does not parse; of one with a bad directive only the
   directives before it, minus the startup callbacks they merely schedule); in it — unless the attempt ends
   after the directives (validate, execute) — no log roller, and no proxy health check together with a listener
   that fails to bind.  Listeners as such, `on` hooks and htpasswd lines are no side condition: whatever the failing attempt opened it closed again, whatever it
   registered it took out again, whatever it cached is consulted only for the version of the file that is on disk.
   [wf] (nobody serves the foreign address, every socket of the table has a descriptor, what is cached was
   parsed) holds in every reachable state, see 9. *)
Theorem C08_attempt_depends_only_on_what_it_reaches :
  forall m step e c g, attempt m step e c g = attempt m step e (reached c) g.
Proof. exact attempt_reached. Qed.
Print Assumptions C08_attempt_depends_only_on_what_it_reaches.

Theorem C08_failed_attempt_frame_partial :
  forall m step e c g r g',
  wf g -> harmless m c = true -> attempt m step e c g = (r, g') -> r <> ROk -> same_but_cache g g'.
Proof. exact failed_harmless_identity. Qed.
Print Assumptions C08_failed_attempt_frame_partial.

Example C08_failed_attempt_frame_partial_nonvacuous :
  harmless Load (mkcfg 1 [EBad] [AEph 1]) = true /\
  harmless Load {| c_id := 1; c_parse := PSyntax; c_effs := [EOn 2; ELog 1 1 true; EAuth 1 1]; c_addrs := [AEph 1; ABusy] |} = true /\
  harmless Reload (mkcfg 1 [ELog 1 1 true; EBad; EOn 2; EAuth 1 1] [AEph 1; ABusy]) = true /\
  harmless Load (mkcfg 1 [EOn 1; EBad] [AEph 1]) = true /\
  harmless Load (mkcfg 1 [EAuth 1 1; EBad] [AEph 1]) = true /\
  harmless Load (mkcfg 1 [EOn 2; EAuth 1 1] [AEph 1; AEph 2; ABusy]) = true /\
  harmless Reload (mkcfg 1 [] [AEph 1; ABusy]) = true /\
  harmless Load (mkcfg 1 [ELog 1 1 true] [ABusy]) = false /\
  harmless Sigusr1 (mkcfg 1 [EOn 2; EBad] [ABusy; AEph 1]) = true /\
  harmless Validate {| c_id := 1; c_parse := PSyntax; c_effs := [ELog 1 1 false]; c_addrs := [AEph 1; ABusy] |} = true /\
  fst (attempt Load 1 [] (mkcfg 1 [EBad] [AEph 1]) g0) = RErr.
Proof. vm_compute. repeat split; reflexivity. Qed.

(* ---- 7. a valid configuration after any sequence of failures ----
   Over ALL histories of attempts that failed and environment changes, from ANY reachable state: if the
   failed attempts are harmless in the sense of 6, the global state is the state before the history up to
   what the cache holds, so every later attempt — in particular loading a valid configuration — has the
   outcome and the effect it has without the failures (from [g0]: in a fresh process). *)
Theorem C08_valid_after_failures_partial :
  forall h step0 e g rs e' g',
  wf g -> forallb harmless_op h = true ->
  run step0 h (e, g) = (rs, (e', g')) -> attempts_failed h rs ->
  same_but_cache g g' /\ e' = writes h e /\
  forall m step v r ga, attempt m step (writes h e) v g = (r, ga) ->
  exists gb, attempt m step e' v g' = (r, gb) /\ same_but_cache ga gb.
Proof. exact valid_after_harmless_failures. Qed.
Print Assumptions C08_valid_after_failures_partial.

Example C08_valid_after_failures_partial_nonvacuous :
  let h := [OAttempt Load (mkcfg 1 [EOn 1; EAuth 1 1; EBad] [AEph 1]);
            OAttempt Validate {| c_id := 2; c_parse := PImport; c_effs := []; c_addrs := [AEph 1] |};
            OWrite 1 (users [(1, 1)]);
            OAttempt Load (mkcfg 3 [EOn 2; EAuth 1 2] [AEph 1; ABusy; AEph 2])] in
  forallb harmless_op h = true /\ attempts_failed h (fst (run 1 h ([], g0))).
Proof. vm_compute. repeat split; discriminate. Qed.

(* FULL, NO SIDE CONDITION on the configurations, for the state without the two leaking registries: over ALL
   histories of attempts that fail (every mode, every kind of failure at every stage, the contained panics of 10
   included) and of file rewrites, from ANY reachable state, the state is the state before the history up to the
   cache, the roller map and the worker list; so every later attempt — in particular loading a valid
   configuration — has the outcome it has without the failures (from [g0]: in a fresh process) and the same
   effect on everything but these three. *)
Theorem C08_valid_after_failures_without_rollers :
  forall h step0 e g rs e' g',
  wf g ->
  run step0 h (e, g) = (rs, (e', g')) -> attempts_failed h rs ->
  same_but_leaks g g' /\ e' = writes h e /\
  forall m step v r ga, attempt m step (writes h e) v g = (r, ga) ->
  exists gb, attempt m step e' v g' = (r, gb) /\ same_but_leaks ga gb.
Proof. exact valid_after_failures_without_rollers. Qed.
Print Assumptions C08_valid_after_failures_without_rollers.

Example C08_valid_after_failures_without_rollers_nonvacuous :
  let h := [OAttempt Load (mkcfg 1 [EOn 1; ELog 1 1 true; EAuth 1 1; EProxy] [AEph 1; ABusy]);
            OAttempt Sigusr1 {| c_id := 2; c_parse := PLoader; c_effs := []; c_addrs := [AEph 1] |};
            OWrite 1 (users [(1, 1)]);
            OAttempt Execute (mkcfg 3 [EProxy; EBad] [AEph 1]);
            OPanic false (mkcfg 5 [EOn 1; EProxy] [AEph 1]);
            OAttempt Load (mkcfg 4 [ELog 1 1 true; ELog 3 7 false] [AEph 2])] in
  forallb harmless_op h = false /\
  attempts_failed h (fst (run 1 h ([(1, users [(1, 1)])], g0))).
Proof. vm_compute. repeat split; discriminate. Qed.

(* Without the side condition the statement is FALSE of the code as it is: a valid configuration loads after
   a failed attempt but behaves differently from a fresh process: it rotates its log with the settings of
   the rejected configuration (F-C08-3, open). *)
Theorem C08_valid_after_failures_behaviour_refuted :
  exists h v rs e' g' ga gb,
     run 1 h ([], g0) = (rs, (e', g')) /\ attempts_failed h rs /\ cfg_valid e' v = true /\
     do_load 9 e' v g0 = (ROk, ga) /\ do_load 9 e' v g' = (ROk, gb) /\ roll_view ga <> roll_view gb.
Proof. exact valid_after_failures_behaviour_refuted. Qed.
Print Assumptions C08_valid_after_failures_behaviour_refuted.

(* ---- 8. what holds over ALL histories without any side condition (full) ----
   After ANY history whatsoever (failed and successful attempts of every kind, file rewrites) a valid
   configuration loads — it succeeds, in bounded time (4), its instance is appended to the list, serves
   its own marker and authenticates against the CURRENT contents of its htpasswd file ([expected_auth]
   is computed from the configuration and the environment alone).  (Formerly this needed the hypothesis
   that the htpasswd cache is not stale for the files the configuration uses, and was refuted without it.) *)
Theorem C08_valid_config_loads_after_any_history :
  forall h e rs e' g' step v,
  run 1 h (e, g0) = (rs, (e', g')) ->
  cfg_valid e' v = true ->
  exists g'' ni, do_load step e' v g' = (ROk, g'') /\ g_insts g'' = g_insts g' ++ [ni] /\ i_cfg ni = c_id v /\
                 i_auth ni = expected_auth e' (c_effs v) None.
Proof. exact valid_load_after_any_history. Qed.
Print Assumptions C08_valid_config_loads_after_any_history.

Theorem C08_valid_reload_succeeds :
  forall step e c g old rest,
  g_htlock g = false -> cache_ok g -> g_insts g = old :: rest -> cfg_valid e c = true ->
  exists g' ni, do_reload step e c g = (ROk, g') /\ g_insts g' = rest ++ [ni] /\ i_cfg ni = c_id c /\
                i_auth ni = expected_auth e c.(c_effs) None.
Proof. exact valid_reload_succeeds. Qed.
Print Assumptions C08_valid_reload_succeeds.

Example C08_valid_config_loads_nonvacuous :
  cfg_valid [(1, users [(1, 1)])] (mkcfg 7 [EOn 1; ELog 1 50 true; EAuth 1 1] [AEph 1; AEph 2]) = true.
Proof. vm_compute. reflexivity. Qed.

(* ---- 10. a panic contained by Restart (fix of F-C08-6/6b) ----
   Restart turns a panic of a plugin's setup into an error: it returns the old instance and the error, the
   clean-up of startWithListenerFds runs (it is keyed on not having reached the end), the SIGUSR1 handler
   restores the registry it purged.  [attempt_panic sig] is such a reload (through the API, or through SIGUSR1
   when [sig]).  FULL frame, every configuration, every well-formed state: it never reports success and the
   ENTIRE state is as before up to what the transparent htpasswd cache holds — no half-made instance in the
   instance list, no hook of the rejected configuration, the hooks of the running configuration still there
   after SIGUSR1, no listener, no worker, no roller (the startup callbacks are never reached).  It is a
   failed reload of the configuration followed by a failing directive, so everything proved of failed attempts
   holds of it; after ANY history including such panics a valid configuration still loads (8), no attempt
   blocks (4) and the state is well-formed (9). *)
Theorem C08_contained_panic_frame :
  forall sg step e c g r g',
  wf g -> attempt_panic sg step e c g = (r, g') -> r <> ROk /\ same_but_cache g g'.
Proof. exact contained_panic_frame. Qed.
Print Assumptions C08_contained_panic_frame.

Theorem C08_contained_panic_is_a_failed_reload :
  forall sg step e c g,
  attempt_panic sg step e c g = attempt (if sg then Sigusr1 else Reload) step e (with_panic c) g.
Proof. exact attempt_panic_is_attempt. Qed.
Print Assumptions C08_contained_panic_is_a_failed_reload.

Example C08_contained_panic_frame_nonvacuous :
  exists g1 g2 g3,
    attempt Load 1 [] (mkcfg 1 [EOn 1] [AEph 1]) g0 = (ROk, g1) /\ g_hooks g1 = [1] /\ length (g_insts g1) = 1%nat /\
    attempt_panic false 2 [] (mkcfg 2 [EOn 1] [AEph 1]) g1 = (RErr, g2) /\
    g_hooks g2 = [1] /\ length (g_insts g2) = 1%nat /\
    attempt_panic true 3 [] (mkcfg 3 [EOn 1] [AEph 1]) g1 = (RErr, g3) /\
    g_hooks g3 = [1] /\ length (g_insts g3) = 1%nat.
Proof. exact contained_panic_witness. Qed.

(* ---- 9. the well-formedness used above is an invariant of every history ---- *)
Theorem C08_reachable_states_wellformed :
  forall h step e rs e' g', run step h (e, g0) = (rs, (e', g')) -> wf g'.
Proof. intros h step e rs e' g' R. eapply run_wf; [exact wf_g0|exact R]. Qed.
Print Assumptions C08_reachable_states_wellformed.

(* ---- 11. the steps AFTER a refused attempt (the damage of an instance left in the list shows two steps later) ----
   FULL, every mode and every kind of failure at every stage (a failing startup callback included), every
   well-formed state with one running site: the refused attempt leaves the instance list as it was; the next
   reload (API or SIGUSR1) of a valid configuration succeeds and the list is exactly its instance; the reload
   after that succeeds too and the list is exactly ITS instance: what a reload restarts - instances[0] - is
   always the running instance, never one that a failed start left behind.  On the implementation side the
   harness observes casket.Instances() after every step (length, the configuration each entry was made from,
   which entries serve: [insts_live], [o_ids] in [frame] / [as_if]). *)
Theorem C08_two_reloads_after_a_refused_attempt :
  forall m step e c g r g1 old m1 s1 c1 m2 s2 c2,
  wf g -> g_htlock g = false -> g_insts g = [old] ->
  attempt m step e c g = (r, g1) -> r <> ROk ->
  needs_instance m1 = true -> needs_instance m2 = true ->
  cfg_valid e c1 = true -> cfg_valid e c2 = true ->
  g_insts g1 = [old] /\
  exists g2 n1 g3 n2,
    attempt m1 s1 e c1 g1 = (ROk, g2) /\ g_insts g2 = [n1] /\ i_cfg n1 = c_id c1 /\
    attempt m2 s2 e c2 g2 = (ROk, g3) /\ g_insts g3 = [n2] /\ i_cfg n2 = c_id c2.
Proof. exact two_reloads_after_a_refused_attempt. Qed.
Print Assumptions C08_two_reloads_after_a_refused_attempt.

Example C08_two_reloads_after_a_refused_attempt_nonvacuous :
  exists g1 g2,
    attempt Load 1 [] (mkcfg 1 [] [AEph 1]) g0 = (ROk, g1) /\ wf g1 /\ g_htlock g1 = false /\
    (exists old, g_insts g1 = [old]) /\
    attempt Sigusr1 2 [] (mkcfg 2 [ELog 1 50 true; ELog 3 7 false] [AEph 1]) g1 = (RErr, g2) /\
    cfg_valid [] (mkcfg 3 [] [AEph 1]) = true /\ cfg_valid [] (mkcfg 4 [EOn 1] [AEph 1]) = true.
Proof. exact two_reloads_witness. Qed.

(* ---- 12. a rejected htpasswd file stays rejected; a rejected configuration, retried, is rejected again ----
   "The outcome of loading a configuration depends only on that configuration and the environment, not on earlier
   failed attempts", for the state named in the anchors (basicauth.htpasswords).  FULL, every state a history
   reaches, every file: GetHtpasswdMatcher asked again with the file untouched gives the SAME answer (error or
   the password the user's matcher accepts); a file with a damaged line is rejected and leaves the table exactly
   as it was - the file is parsed into a temporary map and stored only after a complete parse, so not even the
   entries in front of the damaged line are remembered ([h_users] = the entries before the damaged line,
   [h_after] = those behind it). *)
Theorem C08_rejected_htpasswd_stays_rejected :
  forall e g f u r g' o,
  g_htlock g = false -> cache_ok g -> get_matcher e g f u = (r, g', o) ->
  (exists g'', get_matcher e g' f u = (r, g'', o) /\ cache_ok g'') /\
  (h_present (env_get e f) = true -> h_bad (env_get e f) = true ->
   r = RErr /\ o = None /\ g_htcache g' = g_htcache g /\ g_htlock g' = false).
Proof. exact rejected_htpasswd_stays_rejected. Qed.
Print Assumptions C08_rejected_htpasswd_stays_rejected.

(* FULL, every mode, every kind of failure, every well-formed state: after a rejected attempt EVERY attempt - in
   any mode, under any step number, of any configuration, in particular the SAME configuration retried with the
   files untouched (load, validate, reload, SIGUSR1) - has exactly the outcome it has from the state before the
   rejected attempt, and the same effect on everything but the cache, the roller map and the worker list.  With
   7 (from [g0]) that outcome is the one of a fresh process.  On the implementation side the harness attempts the
   same configuration two and three times with the files untouched and holds the result and the class of the error
   message of every attempt on an invalid configuration against those of the same attempt in a process that did
   not see the earlier failures ([fresh_ok] in [spec_hist]). *)
Theorem C08_retry_of_a_rejected_configuration :
  forall m step e c g r g',
  wf g -> attempt m step e c g = (r, g') -> r <> ROk ->
  same_but_leaks g g' /\
  forall m2 step2 v r2 ga, attempt m2 step2 e v g = (r2, ga) ->
  exists gb, attempt m2 step2 e v g' = (r2, gb) /\ same_but_leaks ga gb.
Proof. exact retry_after_rejected. Qed.
Print Assumptions C08_retry_of_a_rejected_configuration.

Example C08_rejected_htpasswd_stays_rejected_nonvacuous :
  let e := [(2, ht_damaged [(1, 1)] [(2, 1)])] in
  let c := mkcfg 1 [EOn 1; EAuth 2 1] [AEph 1] in
  exists g1 g2 g3 g4,
    attempt Load 1 e c g0 = (RErr, g1) /\ attempt Load 2 e c g1 = (RErr, g2) /\
    attempt Validate 3 e c g2 = (RErr, g3) /\ g_htcache g3 = [] /\
    attempt Load 4 e (mkcfg 2 [EAuth 2 2] [AEph 1]) g3 = (RErr, g4) /\ wf g0.
Proof. exact rejected_stays_rejected_witness. Qed.

(* ... whereas GetHtpasswdMatcher with the table entry stored BEFORE the file is parsed and the parser filling the
   entry's map in place ([get_matcher_early], a seeded "no temporary map" tidy-up) - the same function on every
   file without a damaged line - remembers the file it rejected: the second attempt with the file untouched is
   ACCEPTED for a user in front of the damaged line although no fresh process accepts that configuration, and
   fails with "user not found" instead of the parse error for a user behind it. *)
Theorem C08_htpasswd_stored_before_parse_same_on_wellformed_files :
  forall e g f u, h_bad (env_get e f) = false -> get_matcher_early e g f u = get_matcher e g f u.
Proof. exact early_cache_same_on_wellformed. Qed.
Print Assumptions C08_htpasswd_stored_before_parse_same_on_wellformed_files.

Theorem C08_htpasswd_stored_before_parse_refuted :
  exists e f u u2 g1,
    eff_valid e (EAuth f u) = false /\
    get_matcher_early e g0 f u = (RErr, g1, None) /\
    get_matcher_early e g1 f u = (ROk, g1, Some 1) /\
    get_matcher_early e g1 f u2 = (RErr, g1, None) /\ assoc u2 (h_after (env_get e f)) = Some 1 /\
    ~ cache_ok g1 /\
    (exists g1', get_matcher e g0 f u = (RErr, g1', None) /\ fst (fst (get_matcher e g1' f u)) = RErr /\
                 g_htcache g1' = []).
Proof. exact early_cache_refuted. Qed.
Print Assumptions C08_htpasswd_stored_before_parse_refuted.

(* ---- attempts that OVERLAP in time ----
   casket.instances while an attempt B is held inside the setup of its directives (its instance is listed from the
   moment startWithListenerFds begins) and other attempts run to their end.  FRAME: for every list of running
   instances, every sequence of attempts completing meanwhile (loads; reloads, which append the new instance and
   splice the old one out IN FRONT of B's entry; refused reloads; stops) that do not name B, when B is then refused -
   at a directive, at Listen, in a startup callback - the list is exactly what those attempts alone make of it:
   every instance they left running is listed in the same order and B is not.  The harness holds the real
   casket.Start / Instance.Restart / Instance.Stop against ov_lists at four points of every overlap case, and
   the observations against ov_spec (every listed instance serves its own configuration; casket.Stop() then stops
   every site and leaves no listening socket). *)
Theorem C08_overlap_refused_attempt_is_frame :
  forall l b bid inner,
  ~ In bid l -> (forall o, In o inner -> ~ In bid (ov_names o)) ->
  ov_end (ov_steps (ov_begin l bid) inner) b bid false = ov_steps l inner.
Proof. exact overlap_refused_is_frame. Qed.
Print Assumptions C08_overlap_refused_attempt_is_frame.

Theorem C08_overlap_refused_attempt_keeps_running_instances :
  forall l b bid inner x,
  ~ In bid l -> (forall o, In o inner -> ~ In bid (ov_names o)) ->
  (In x (ov_end (ov_steps (ov_begin l bid) inner) b bid false) <-> In x (ov_steps l inner)) /\
  ~ In bid (ov_end (ov_steps (ov_begin l bid) inner) b bid false).
Proof. exact overlap_refused_keeps_running. Qed.
Print Assumptions C08_overlap_refused_attempt_keeps_running_instances.

Example C08_overlap_refused_attempt_is_frame_nonvacuous :
  let inner := [(OvReload 1 3, 0); (OvLoad 4, 0); (OvReloadBad 4 5, 1); (OvStop 4, 0)] in
  ~ In 2 [1] /\ (forall o, In o inner -> ~ In 2 (ov_names o)) /\
  ov_steps (ov_begin [1] 2) inner = [2; 3] /\ ov_end (ov_steps (ov_begin [1] 2) inner) OvBLoad 2 false = [3].
Proof.
  cbv zeta. split; [|split; [|split]].
  - intros [E|[]]; discriminate.
  - intros o [<-|[<-|[<-|[<-|[]]]]]; cbn; intuition discriminate.
  - vm_compute. reflexivity.
  - vm_compute. reflexivity.
Qed.

(* The clean-up that remembers the POSITION at which B's instance was appended (seeded C08-m9) is the same function
   on every sequential history ... *)
Theorem C08_overlap_slot_cleanup_sequential_partial :
  forall l bid, ~ In bid l ->
  ov_end_slot (ov_begin l bid) (length l) = ov_end (ov_begin l bid) OvBLoad bid false.
Proof. exact overlap_slot_same_when_sequential. Qed.
Print Assumptions C08_overlap_slot_cleanup_sequential_partial.

(* ... and drops the RUNNING instance, keeping the refused one, as soon as a reload completes while B is held *)
Theorem C08_overlap_slot_cleanup_refuted :
  exists l bid inner,
    ~ In bid l /\ (forall o, In o inner -> ~ In bid (ov_names o)) /\
    let l3 := ov_steps (ov_begin l bid) inner in
    ov_steps l inner = [3] /\ ov_end_slot l3 (length l) = [bid] /\
    ov_end l3 OvBLoad bid false = [3].
Proof. exact overlap_slot_refuted. Qed.
Print Assumptions C08_overlap_slot_cleanup_refuted.

(* The event hooks along an overlap case (finding F-C08-7).  startWithListenerFds / ValidateAndExecuteDirectives
   copy the registry when an attempt begins and put the COPY back when it is refused.  Sequentially that is the
   frame clause; with another load or reload completing in between, the hooks that one registered are wiped by the
   refusal of B: "a failed attempt leaves the registered event hooks as they were" is false of the model (and of
   the code: Sig overlap:hooks-registered-meanwhile-lost), and true when nothing registers a hook meanwhile. *)
Theorem C08_overlap_refused_attempt_keeps_hooks_partial :
  forall h inner, (forall o, In o inner -> snd o = 0) ->
  ov_hooks_end h (ov_hooks_steps h inner) false = ov_hooks_steps h inner.
Proof. exact overlap_hooks_partial. Qed.
Print Assumptions C08_overlap_refused_attempt_keeps_hooks_partial.

Theorem C08_overlap_refused_attempt_keeps_hooks_refuted :
  exists h inner, ov_hooks_steps h inner = 3 /\ ov_hooks_end h (ov_hooks_steps h inner) false = 1.
Proof. exact overlap_hooks_refuted. Qed.
Print Assumptions C08_overlap_refused_attempt_keeps_hooks_refuted.

(* The packet-connection stage of startServers (QUIC flag on): every server opens a TCP listener and then a UDP
   socket on the same address, and the attempt may fail BETWEEN the two (TCP port free, UDP port in use).  Whatever
   the position of the failing server, whichever stage fails, whatever is inherited from the old instance: the
   deferred clean-up closes the listener opened just before, the packet connections and the listeners of the
   servers before it - both descriptor tables are EXACTLY what they were. *)
Theorem C08_packet_stage_failure_closes_what_it_opened :
  forall held old addrs t u t' u',
  q_start_servers QcFull held old addrs [] t u = (false, (t', u')) -> t' = t /\ u' = u.
Proof. exact packet_stage_failure_closes_what_it_opened. Qed.
Print Assumptions C08_packet_stage_failure_closes_what_it_opened.
Example C08_packet_stage_failure_closes_what_it_opened_nonvacuous :
  q_start_servers QcFull true [QEph 1] [QEph 1; QEph 2; QUdpHeld] [] [QEph 1] [QEph 1] = (false, ([QEph 1], [QEph 1]))
  /\ q_start_servers QcFull true [] [QEph 2; QTcpHeld] [] [] [] = (false, ([], [])).
Proof. exact packet_stage_failure_closes_what_it_opened_nonvacuous_w. Qed.

(* a refused attempt of ANY kind (load, validation, execution, API reload, SIGUSR1) in a process with the flag on
   leaves the whole state - instance list, both descriptor tables, hooks - as it was *)
Theorem C08_quic_refused_attempt_changes_nothing :
  forall m id addrs on held st,
  fst (q_attempt m id addrs on held st) = false -> snd (q_attempt m id addrs on held st) = st.
Proof. exact quic_refused_attempt_changes_nothing. Qed.
Print Assumptions C08_quic_refused_attempt_changes_nothing.
Example C08_quic_refused_attempt_changes_nothing_nonvacuous :
  let st := snd (q_attempt Load 1 [QEph 1] 1 true q0) in
  fst (q_attempt Reload 2 [QEph 1; QUdpHeld] 2 true st) = false /\ fst (q_attempt Sigusr1 3 [QTcpHeld] 0 true st) = false
  /\ fst (q_attempt Load 4 [QEph 2; QUdpHeld; QEph 3] 1 true st) = false.
Proof. exact quic_refused_attempt_changes_nothing_nonvacuous_w. Qed.

(* over ALL histories of refused attempts - the failure between Listen and ListenPacket included - the state is
   the state: the next attempt, whatever it is, has the outcome and the effect it has without them ... *)
Theorem C08_quic_attempt_after_refused_history :
  forall ops held st m id addrs on,
  q_all_refused held ops st ->
  q_attempt m id addrs on (fst (q_final held ops st)) (snd (q_final held ops st)) = q_attempt m id addrs on held st.
Proof. exact quic_attempt_after_refused_history. Qed.
Print Assumptions C08_quic_attempt_after_refused_history.

(* ... and a configuration whose addresses are free loads *)
Theorem C08_quic_valid_loads_after_refused_history :
  forall ops held st id addrs on,
  q_all_refused held ops st -> (held = false \/ forallb q_is_eph addrs = true) ->
  fst (q_attempt Load id addrs on (fst (q_final held ops st)) (snd (q_final held ops st))) = true.
Proof. exact quic_valid_loads_after_refused_history. Qed.
Print Assumptions C08_quic_valid_loads_after_refused_history.
Example C08_quic_valid_loads_after_refused_history_nonvacuous :
  q_all_refused true [QAttempt Load 1 [QUdpHeld] 1; QAttempt Load 2 [QEph 1; QTcpHeld] 0; QAttempt Reload 3 [QEph 1] 0] q0.
Proof. exact quic_valid_loads_after_refused_history_nonvacuous_w. Qed.

(* the clean-up with ln / pc re-declared inside the loop (seeded C08-m11): the listener of the server whose
   ListenPacket failed stays open; it is the faithful clean-up on every call in which no ListenPacket fails, which
   is why only the failure point between the two stages shows it *)
Theorem C08_packet_stage_shadowed_cleanup_refuted :
  exists held old addrs t u, q_start_servers QcShadow held old addrs [] t u = (false, ([QUdpHeld], [])) /\ t = [] /\ u = [].
Proof. exact packet_stage_shadowed_cleanup_refuted. Qed.
Print Assumptions C08_packet_stage_shadowed_cleanup_refuted.
Theorem C08_packet_stage_shadowed_cleanup_same_without_packet_failure_partial :
  forall held old addrs acc t u,
  forallb (fun a => existsb (qaddr_eqb a) old || q_listen_packet held a) addrs = true ->
  q_start_servers QcShadow held old addrs acc t u = q_start_servers QcFull held old addrs acc t u.
Proof. exact packet_stage_shadowed_same_without_packet_failure. Qed.
Print Assumptions C08_packet_stage_shadowed_cleanup_same_without_packet_failure_partial.
Example C08_packet_stage_shadowed_cleanup_same_without_packet_failure_partial_nonvacuous :
  forallb (fun a => existsb (qaddr_eqb a) [] || q_listen_packet true a) [QEph 1; QTcpHeld] = true.
Proof. exact packet_stage_shadowed_cleanup_same_without_packet_failure_partial_nonvacuous_w. Qed.

(* the code before the fix a443b2e (finding F-C08-8): ListenPacket handed back a typed nil, pc.Close() panicked
   after ln.Close() and what was opened for the servers before the failing one stayed open *)
Theorem C08_packet_stage_typed_nil_cleanup_refuted :
  exists held old addrs t u, q_start_servers QcTypedNil held old addrs [] t u = (false, ([QEph 1], [QEph 1])) /\ t = [] /\ u = [].
Proof. exact packet_stage_typed_nil_cleanup_refuted. Qed.
Print Assumptions C08_packet_stage_typed_nil_cleanup_refuted.
