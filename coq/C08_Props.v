Require Import V.Lib V.C08_Model V.C08_Proofs.
Theorem C08_stub : g_htlock g0 = false. Proof. exact stub. Qed.
Print Assumptions C08_stub.
