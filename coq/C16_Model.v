(* C16 — lifecycle callbacks fire exactly once, in order, across start / reload / stop.

   Executable model (definitions only) of casket.go: Start, startWithListenerFds, startServers,
   Instance.Restart, Instance.Stop, Stop, Instance.ShutdownCallbacks, Instance.Wait and of
   sigtrap.go: executeShutdownCallbacks (sync.Once guard), allShutdownCallbacks — a near
   transliteration over abstract instances:

   * a configuration (what a Casketfile of the probe server type sets up) is six lists of
     callbacks (label, does it return an error), a list of servers (address, graceful or not,
     does its listener expose a file descriptor, does Listen fail) and three stage faults
     (the Casketfile does not parse / a directive's setup fails / MakeServers fails);
   * every callback invocation, NewContext, MakeServers, Listen, listener hand-over, Serve,
     Stop, Serve-returning, OnStartupComplete and event-hook emission is a labelled event;
   * the wait group shared along an instance lineage is a counter per lineage root.

   Besides the operation-level model there are (i) Instance.Stop / Instance.Restart with the
   servers' stop errors written out ([stop_inst_e], [restart_body_e]: a drain timeout is logged,
   Stop returns nil), proved equal to what [step] runs, and (ii) a small-step interleaving model
   of allShutdownCallbacks against concurrent Instance.Stop over the shared backing array of the
   instance list ([conc_step]: lock acquisition, one loop iteration, the release and a Stop's
   locked splice are the atomic steps).

   A history is a list of operations applied to the process state; [run] yields one record
   (operation, events, result) per operation.  Goroutines started by startServers (Serve)
   are asynchronous in the code: the model emits their events at the earliest possible point
   and [judge] compares synchronous events exactly and asynchronous ones as multisets per
   operation; the order constraints on asynchronous events are part of the executable spec. *)
Require Import V.Lib.
From Coq Require Import Arith.
Open Scope nat_scope.

(* ------------------------------------------------------------------ configurations *)
Inductive kind := KFirst | KStartup | KRestart | KRestartFailed | KShutdown | KFinal.

Definition kind_eqb (a b : kind) : bool :=
  match a, b with
  | KFirst, KFirst | KStartup, KStartup | KRestart, KRestart
  | KRestartFailed, KRestartFailed | KShutdown, KShutdown | KFinal, KFinal => true
  | _, _ => false
  end.

Record cb := mkCb { cb_id : nat; cb_fail : bool }.

(* sv_file: 0 = the listener has no File() (not handed over on reload), 1 = File() works,
   2 = File() returns an error (the reload fails while taking the listener over);
   sv_stop_err: GracefulServer.Stop returns an error (httpserver: `context deadline exceeded` when
   a connection outlives the graceful timeout) — Instance.Stop logs it and goes on *)
Record srvspec := mkSrv { sv_addr : nat; sv_graceful : bool; sv_file : nat; sv_listen_fail : bool;
                          sv_stop_err : bool }.

Record config := mkCfg {
  c_parse_fail : bool;   (* loadServerBlocks fails: no context is created *)
  c_setup_fail : bool;   (* a directive's setup function returns an error *)
  c_make_fail : bool;    (* Context.MakeServers returns an error *)
  c_first : list cb; c_startup : list cb; c_restart : list cb;
  c_rfailed : list cb; c_shutdown : list cb; c_final : list cb;
  c_servers : list srvspec;
  c_setup_panic : bool   (* a directive's setup function panics *) }.

(* the directives of the configuration cannot be executed: a setup function returns an error
   or panics.  Instance.Restart recovers the panic and fails the restart with an error;
   casket.Start does not recover: the panic reaches the caller, after the deferred clean-up of
   startWithListenerFds (keyed on its [succeeded] flag) has taken the instance out of the list *)
Definition setup_breaks (c : config) : bool := c_setup_fail c || c_setup_panic c.
Definition start_panics (c : config) : bool :=
  negb (c_parse_fail c) && negb (c_setup_fail c) && c_setup_panic c.

Definition cbs_of (k : kind) (c : config) : list cb :=
  match k with
  | KFirst => c_first c | KStartup => c_startup c | KRestart => c_restart c
  | KRestartFailed => c_rfailed c | KShutdown => c_shutdown c | KFinal => c_final c
  end.

Definition labels (l : list cb) : list nat := map cb_id l.
Definition nfail (l : list cb) : nat := length (filter cb_fail l).

(* ------------------------------------------------------------------ events, operations *)
Inductive hook := HInstanceStartup | HShutdown.

Inductive event :=
| ENew (i : nat)                    (* ServerType.NewContext for instance i *)
| EMake (i : nat)                   (* Context.MakeServers *)
| ECb (k : kind) (i : nat) (l : nat) (* callback l of list k of instance i is invoked *)
| EListen (i s : nat) (ok : bool)   (* Server.Listen of server s of instance i *)
| EFile (i s : nat) (ok : bool)     (* File() of the OLD instance's listener during a reload *)
| EInherit (i s : nat)              (* new server s takes the old listener over (WrapListener) *)
| EAfter (i s : nat)                (* AfterStartup.OnStartupComplete *)
| EServe (i s : nat)                (* asynchronous: Serve called in its goroutine *)
| EStop (i s : nat)                 (* GracefulServer.Stop *)
| ERet (i s : nat)                  (* asynchronous: Serve returned *)
| EHook (h : hook) (i : nat).       (* EmitEvent: InstanceStartupEvent i / ShutdownEvent *)

Inductive op :=
| OStart (c : config)               (* casket.Start *)
| ORestart (h : nat) (c : config)   (* Instance.Restart on instance h *)
| OStopInst (h : nat)               (* Instance.Stop *)
| OStopAll                          (* casket.Stop *)
| OShutdownCbs (h : nat)            (* Instance.ShutdownCallbacks *)
| OExecShutdown                     (* executeShutdownCallbacks: what SIGINT/SIGTERM run *)
| OWait (h : nat).                  (* does Instance.Wait return now? *)

Inductive result :=
| RInst (ok : bool) (id : nat)      (* Start/Restart: no error?, instance returned (0 for a failed Start) *)
| RPanic                            (* casket.Start: a plugin's panic reached the caller *)
| RNum (n : nat)                    (* number of callback errors / exit code *)
| RBool (b : bool)
| RUnit.

(* ------------------------------------------------------------------ process state *)
Record inst := mkInst { i_id : nat; i_root : nat; i_cfg : config; i_srv : list (nat * srvspec) }.

Record state := mkSt {
  insts : list inst;                  (* var instances *)
  known : list inst;                  (* every instance ever started successfully (handles) *)
  next : nat;                         (* next instance number (NewContext calls so far) *)
  wg : nat -> nat;                    (* wait-group counter per lineage root *)
  serving : list (nat * nat * nat);   (* (instance, server, root): Serve goroutines running *)
  once : bool }.                      (* shutdownCallbacksOnce has fired *)

Definition init : state := mkSt [] [] 0 (fun _ => 0) [] false.

Definition wg_add (r n : nat) (w : nat -> nat) : nat -> nat :=
  fun x => if x =? r then w x + n else w x.
Definition wg_done (r : nat) (w : nat -> nat) : nat -> nat :=
  fun x => if x =? r then pred (w x) else w x.

Definition set_wg (s : state) (w : nat -> nat) : state :=
  mkSt (insts s) (known s) (next s) w (serving s) (once s).
Definition set_next (s : state) (n : nat) : state :=
  mkSt (insts s) (known s) n (wg s) (serving s) (once s).

Fixpoint find_inst (h : nat) (l : list inst) : option inst :=
  match l with
  | [] => None
  | o :: r => if i_id o =? h then Some o else find_inst h r
  end.

(* splice the first entry with this id out of the list (the loop with [break] in Stop) *)
Fixpoint remove_id (h : nat) (l : list inst) : list inst :=
  match l with
  | [] => []
  | o :: r => if i_id o =? h then r else o :: remove_id h r
  end.

(* ------------------------------------------------------------------ callbacks *)
(* for _, fn := range list { err = fn(); if err != nil { return err } } *)
Fixpoint run_stop (k : kind) (i : nat) (l : list cb) : list event * bool :=
  match l with
  | [] => ([], true)
  | c :: r => if cb_fail c then ([ECb k i (cb_id c)], false)
              else let '(ev, ok) := run_stop k i r in (ECb k i (cb_id c) :: ev, ok)
  end.

(* every callback runs whatever the others return *)
Definition run_all (k : kind) (i : nat) (l : list cb) : list event :=
  map (fun c => ECb k i (cb_id c)) l.

(* ------------------------------------------------------------------ startServers *)
(* restartFds: address -> listener of the old instance; built by a loop over the old servers
   that overwrites earlier entries, so the LAST graceful server with that address and a
   file-capable listener wins *)
Fixpoint fds_lookup (addr : nat) (old : list (nat * srvspec)) : option (nat * nat) :=
  match old with
  | [] => None
  | (j, sp) :: r =>
      match fds_lookup addr r with
      | Some x => Some x
      | None => if sv_graceful sp && (0 <? sv_file sp) && (sv_addr sp =? addr)
                then Some (j, sv_file sp) else None
      end
  end.

(* first loop of startServers: obtain a listener for every server; returns the events, whether
   all succeeded, and inst.servers as far as it was filled *)
Fixpoint listen_loop (restart : bool) (old : list (nat * srvspec)) (oi i j : nat) (l : list srvspec)
  : list event * bool * list (nat * srvspec) :=
  match l with
  | [] => ([], true, [])
  | sp :: r =>
      match (if restart && sv_graceful sp then fds_lookup (sv_addr sp) old else None) with
      | Some (oj, mode) =>
          if mode =? 2 then ([EFile oi oj false], false, [])
          else let '(ev, ok, saved) := listen_loop restart old oi i (S j) r in
               (EFile oi oj true :: EInherit i j :: ev, ok, (j, sp) :: saved)
      | None =>
          if sv_listen_fail sp then ([EListen i j false], false, [])
          else let '(ev, ok, saved) := listen_loop restart old oi i (S j) r in
               (EListen i j true :: ev, ok, (j, sp) :: saved)
      end
  end.

Definition serve_events (i : nat) (saved : list (nat * srvspec)) : list event :=
  map (fun x => EServe i (fst x)) saved.
Definition after_events (i : nat) (saved : list (nat * srvspec)) : list event :=
  map (fun x => EAfter i (fst x)) saved.

(* second loop of startServers: per server inst.wg.Add(2), two goroutines (Serve, ServePacket);
   the probe servers' ServePacket returns at once (its deferred wg.Done runs), Serve blocks *)
Fixpoint spawn (i root : nat) (saved : list (nat * srvspec)) (w : nat -> nat) (sv : list (nat * nat * nat))
  : (nat -> nat) * list (nat * nat * nat) :=
  match saved with
  | [] => (w, sv)
  | (j, _) :: r => spawn i root r (wg_done root (wg_add root 2 w)) (sv ++ [(i, j, root)])
  end.

(* ------------------------------------------------------------------ startWithListenerFds *)
(* the events of startWithListenerFds for instance number i, whether it succeeded, inst.servers.
   [restart] = (restartFds != nil): casket.Start passes nil; Instance.Restart passes a map made
   with make() BEFORE its loop over the old servers, which is therefore non-nil also when the
   old instance has no server at all, only non-graceful ones, or listeners without a file
   descriptor (an empty map: every new server listens afresh, but it is still a reload).  The instance is appended to [instances] first and removed
   again by the deferred function on error; no operation of a sequential history observes the
   list in between, so the model appends on success only. *)
Definition start_plan (c : config) (i : nat) (restart : bool) (old : list (nat * srvspec)) (oi : nat)
  : list event * bool * list (nat * srvspec) :=
  if c_parse_fail c then ([], false, []) else
  if setup_breaks c then ([ENew i], false, []) else
  if c_make_fail c then ([ENew i; EMake i], false, []) else
  let '(e1, ok1) := if restart then ([], true) else run_stop KFirst i (c_first c) in
  if negb ok1 then (ENew i :: EMake i :: e1, false, []) else
  let '(e2, ok2) := run_stop KStartup i (c_startup c) in
  if negb ok2 then (ENew i :: EMake i :: e1 ++ e2, false, []) else
  let '(e3, ok3, saved) := listen_loop restart old oi i 0 (c_servers c) in
  if negb ok3 then (ENew i :: EMake i :: e1 ++ e2 ++ e3, false, saved) else
  (ENew i :: EMake i :: e1 ++ e2 ++ e3 ++ serve_events i saved
     ++ (if restart then [] else after_events i saved), true, saved).

Definition next_after (c : config) (n : nat) : nat := if c_parse_fail c then n else S n.

(* append the started instance and account for its goroutines *)
Definition commit (ni : inst) (nx : nat) (s : state) : state :=
  let '(w, sv) := spawn (i_id ni) (i_root ni) (i_srv ni) (wg s) (serving s) in
  mkSt (insts s ++ [ni]) (known s ++ [ni]) nx w sv (once s).

(* ------------------------------------------------------------------ Instance.Stop *)
(* the Serve goroutine of server j of instance i, if it is running: the root of the wait group
   its closure captured, and the list without it *)
Fixpoint take_serving (i j : nat) (sv : list (nat * nat * nat)) : option (nat * list (nat * nat * nat)) :=
  match sv with
  | [] => None
  | x :: rest =>
      if (fst (fst x) =? i) && (snd (fst x) =? j) then Some (snd x, rest)
      else match take_serving i j rest with
           | Some (r, l) => Some (r, x :: l)
           | None => None
           end
  end.

(* gs.Stop() for every graceful server: its Serve goroutine returns, whose deferred wg.Done runs *)
Fixpoint stop_servers (i : nat) (srv : list (nat * srvspec)) (w : nat -> nat) (sv : list (nat * nat * nat))
  : (nat -> nat) * list (nat * nat * nat) * list event :=
  match srv with
  | [] => (w, sv, [])
  | (j, sp) :: r =>
      if sv_graceful sp then
        match take_serving i j sv with
        | Some (root, sv1) =>
            let '(w', sv', ev) := stop_servers i r (wg_done root w) sv1 in
            (w', sv', EStop i j :: ERet i j :: ev)
        | None =>
            let '(w', sv', ev) := stop_servers i r w sv in (w', sv', EStop i j :: ev)
        end
      else stop_servers i r w sv
  end.

Definition stop_inst (o : inst) (s : state) : state * list event :=
  let '(w, sv, ev) := stop_servers (i_id o) (i_srv o) (wg s) (serving s) in
  (mkSt (remove_id (i_id o) (insts s)) (known s) (next s) w sv (once s), ev).

(* casket.Stop: while instances is not empty { inst := instances[0]; inst.wg.Add(1);
   defer inst.wg.Done(); inst.Stop() } — the deferred Done()s run when Stop returns *)
Fixpoint stop_all (l : list inst) (s : state) : state * list event :=
  match l with
  | [] => (s, [])
  | o :: r =>
      let s0 := set_wg s (wg_add (i_root o) 1 (wg s)) in
      let '(s1, e1) := stop_inst o s0 in
      let '(s2, e2) := stop_all r s1 in
      (set_wg s2 (wg_done (i_root o) (wg s2)), e1 ++ e2)
  end.

(* ------------------------------------------------------------------ the operations *)
Definition do_start (c : config) (s : state) : state * list event * result :=
  let i := next s in
  let '(ev, ok, saved) := start_plan c i false [] 0 in
  if ok then (commit (mkInst i i c saved) (next_after c i) s, ev ++ [EHook HInstanceStartup i], RInst true i)
  else (set_next s (next_after c i), ev, if start_panics c then RPanic else RInst false 0).

(* Instance.Restart between i.wg.Add(1) and the deferred i.wg.Done() *)
Definition restart_body (o : inst) (c : config) (s : state) : state * list event * result :=
  let h := i_id o in
  let failed := run_all KRestartFailed h (c_rfailed (i_cfg o)) in
  let '(e1, ok1) := run_stop KRestart h (c_restart (i_cfg o)) in
  if negb ok1 then (s, e1 ++ failed, RInst false h) else
  let i := next s in
  let '(e2, ok2, saved) := start_plan c i true (i_srv o) h in
  if negb ok2 then (set_next s (next_after c i), e1 ++ e2 ++ failed, RInst false h) else
  let s1 := commit (mkInst i (i_root o) c saved) (next_after c i) s in
  (* success! stop the old instance *)
  let '(s2, e3) := stop_inst o s1 in
  (* every OnShutdown callback of the old instance runs; an error is logged only: the reload
     has succeeded *)
  let e4 := run_all KShutdown h (c_shutdown (i_cfg o)) in
  (s2, e1 ++ e2 ++ e3 ++ e4 ++ [EHook HInstanceStartup i], RInst true i).

Definition do_restart (h : nat) (c : config) (s : state) : state * list event * result :=
  match find_inst h (known s) with
  | None => (s, [], RUnit)
  | Some o =>
      let s0 := set_wg s (wg_add (i_root o) 1 (wg s)) in
      let '(s1, ev, r) := restart_body o c s0 in
      (set_wg s1 (wg_done (i_root o) (wg s1)), ev, r)
  end.

Definition shutdown_cbs (o : inst) : list event :=
  run_all KShutdown (i_id o) (c_shutdown (i_cfg o)) ++ run_all KFinal (i_id o) (c_final (i_cfg o)).
Definition shutdown_errs (o : inst) : nat := nfail (c_shutdown (i_cfg o)) + nfail (c_final (i_cfg o)).

(* allShutdownCallbacks *)
Definition all_shutdown (l : list inst) : list event := flat_map shutdown_cbs l.
Definition all_errs (l : list inst) : nat := fold_right (fun o n => shutdown_errs o + n) 0 l.

(* ------------------------------------------------------------------ Stop / Restart with stop errors *)
(* Instance.Stop with the servers' stop errors written out: an error returned by a
   GracefulServer.Stop is logged ([EStop] is followed by the next server all the same) and
   Instance.Stop returns nil; the last component is the error Instance.Stop returns *)
Fixpoint stop_servers_e (i : nat) (srv : list (nat * srvspec)) (w : nat -> nat) (sv : list (nat * nat * nat))
  : (nat -> nat) * list (nat * nat * nat) * list event * list nat :=
  match srv with
  | [] => (w, sv, [], [])
  | (j, sp) :: r =>
      if sv_graceful sp then
        let lg := if sv_stop_err sp then [j] else [] in   (* log.Printf("[ERROR] Stopping ...") *)
        match take_serving i j sv with
        | Some (root, sv1) =>
            let '(w', sv', ev, l) := stop_servers_e i r (wg_done root w) sv1 in
            (w', sv', EStop i j :: ERet i j :: ev, lg ++ l)
        | None =>
            let '(w', sv', ev, l) := stop_servers_e i r w sv in (w', sv', EStop i j :: ev, lg ++ l)
        end
      else stop_servers_e i r w sv
  end.

Definition stop_inst_e (o : inst) (s : state) : state * list event * list nat * bool :=
  let '(w, sv, ev, lg) := stop_servers_e (i_id o) (i_srv o) (wg s) (serving s) in
  (mkSt (remove_id (i_id o) (insts s)) (known s) (next s) w sv (once s), ev, lg,
   false (* return nil *)).

(* Instance.Restart with  err = i.Stop(); if err != nil { return i, err }  written out *)
Definition restart_body_e (o : inst) (c : config) (s : state) : state * list event * result :=
  let h := i_id o in
  let failed := run_all KRestartFailed h (c_rfailed (i_cfg o)) in
  let '(e1, ok1) := run_stop KRestart h (c_restart (i_cfg o)) in
  if negb ok1 then (s, e1 ++ failed, RInst false h) else
  let i := next s in
  let '(e2, ok2, saved) := start_plan c i true (i_srv o) h in
  if negb ok2 then (set_next s (next_after c i), e1 ++ e2 ++ failed, RInst false h) else
  let s1 := commit (mkInst i (i_root o) c saved) (next_after c i) s in
  let '(s2, e3, _, stop_failed) := stop_inst_e o s1 in
  if stop_failed then (s2, e1 ++ e2 ++ e3 ++ failed, RInst false h) else
  let e4 := run_all KShutdown h (c_shutdown (i_cfg o)) in
  (s2, e1 ++ e2 ++ e3 ++ e4 ++ [EHook HInstanceStartup i], RInst true i).

(* ------------------------------------------------------------------ shutdown against concurrent Stop *)
(* allShutdownCallbacks against concurrent Instance.Stop: the package-level slice [instances] is
   a backing array and a length; Stop's  instances = append(instances[:j], instances[j+1:]...)
   shifts the tail of the SAME array one place to the left (the last cell keeps its old content)
   and shortens the slice; the loop  for _, inst := range instances  evaluates the slice header
   once (its length) and reads cell idx of the array at iteration idx. *)
Record shm := mkShm {
  sh_arr : list inst;      (* backing array *)
  sh_len : nat;            (* len(instances) *)
  sh_lock : bool;          (* instancesMu held by the signal handler *)
  sh_n : option nat;       (* the handler's loop: Some n = range evaluated with length n *)
  sh_idx : nat;            (* next iteration *)
  sh_done : bool;          (* the loop has finished (and the lock is released) *)
  sh_out : list event }.   (* what the handler's callbacks logged *)

Definition live_of (m : shm) : list inst := firstn (sh_len m) (sh_arr m).

Fixpoint index_of (h : nat) (l : list inst) : option nat :=
  match l with
  | [] => None
  | o :: r => if i_id o =? h then Some 0 else match index_of h r with Some j => Some (S j) | None => None end
  end.

(* append(a[:j], a[j+1:len]...) in place *)
Definition splice_at (j len : nat) (arr : list inst) : list inst :=
  firstn j arr ++ skipn (S j) (firstn len arr) ++ skipn (len - 1) arr.

Inductive cstep :=
| CAcquire           (* allShutdownCallbacks: instancesMu.Lock(); the range expression is evaluated *)
| CIter              (* one iteration: inst.ShutdownCallbacks() of the cell read now *)
| CRelease           (* loop over: instancesMu.Unlock() *)
| CSplice (h : nat). (* the tail of a concurrent Instance.Stop of instance h: Lock, splice, Unlock *)

(* [wide] = the lock is held for the whole loop (the code as it is); [wide = false] is the
   variant that copies the slice HEADER under the lock and iterates outside it *)
Definition conc_step (wide : bool) (m : shm) (c : cstep) : option shm :=
  match c with
  | CAcquire =>
      match sh_n m with
      | None => if sh_lock m then None
                else Some (mkShm (sh_arr m) (sh_len m) wide (Some (sh_len m)) 0 false (sh_out m))
      | Some _ => None
      end
  | CIter =>
      match sh_n m with
      | Some n =>
          if sh_idx m <? n then
            match nth_error (sh_arr m) (sh_idx m) with
            | Some x => Some (mkShm (sh_arr m) (sh_len m) (sh_lock m) (sh_n m) (S (sh_idx m)) false
                                    (sh_out m ++ shutdown_cbs x))
            | None => None
            end
          else None
      | None => None
      end
  | CRelease =>
      match sh_n m with
      | Some n => if (sh_idx m =? n) && negb (sh_done m)
                  then Some (mkShm (sh_arr m) (sh_len m) false (sh_n m) (sh_idx m) true (sh_out m))
                  else None
      | None => None
      end
  | CSplice h =>
      if sh_lock m then None   (* blocks on instancesMu *)
      else match index_of h (live_of m) with
           | Some j => Some (mkShm (splice_at j (sh_len m) (sh_arr m)) (sh_len m - 1) false
                                   (sh_n m) (sh_idx m) (sh_done m) (sh_out m))
           | None => Some m
           end
  end.

Fixpoint conc_run (wide : bool) (m : shm) (cs : list cstep) : option shm :=
  match cs with
  | [] => Some m
  | c :: r => match conc_step wide m c with Some m' => conc_run wide m' r | None => None end
  end.

Definition conc_init (l : list inst) : shm := mkShm l (length l) false None 0 false [].

Definition is_splice (c : cstep) : bool := match c with CSplice _ => true | _ => false end.


(* the Stops of a list of handles one after the other: their events *)
Fixpoint stops_events (s : state) (hs : list nat) : list event :=
  match hs with
  | [] => []
  | h :: r => match find_inst h (known s) with
              | Some x => let '(s', ev) := stop_inst x s in ev ++ stops_events s' r
              | None => stops_events s r
              end
  end.

Definition step (s : state) (o : op) : state * list event * result :=
  match o with
  | OStart c => do_start c s
  | ORestart h c => do_restart h c s
  | OStopInst h =>
      match find_inst h (known s) with
      | None => (s, [], RUnit)
      | Some x => let '(s', ev) := stop_inst x s in (s', ev, RUnit)
      end
  | OStopAll => let '(s', ev) := stop_all (insts s) s in (s', ev, RUnit)
  | OShutdownCbs h =>
      match find_inst h (known s) with
      | None => (s, [], RUnit)
      | Some x => (s, shutdown_cbs x, RNum (shutdown_errs x))
      end
  | OExecShutdown =>
      if once s then (s, [], RNum 0)
      else (mkSt (insts s) (known s) (next s) (wg s) (serving s) true,
            EHook HShutdown 0 :: all_shutdown (insts s),
            RNum (if all_errs (insts s) =? 0 then 0 else 4))
  | OWait h =>
      match find_inst h (known s) with
      | None => (s, [], RUnit)
      | Some x => (s, [], RBool (wg s (i_root x) =? 0))
      end
  end.

Definition record : Type := op * list event * result.

Fixpoint run (s : state) (ops : list op) : list record :=
  match ops with
  | [] => []
  | o :: r => let '(s', ev, res) := step s o in (o, ev, res) :: run s' r
  end.

Fixpoint final (s : state) (ops : list op) : state :=
  match ops with
  | [] => s
  | o :: r => final (fst (fst (step s o))) r
  end.

Definition rec_op (r : record) : op := fst (fst r).
Definition rec_events (r : record) : list event := snd (fst r).
Definition rec_result (r : record) : result := snd r.
Definition trace (rs : list record) : list event := flat_map rec_events rs.

(* ------------------------------------------------------------------ equality tests *)
Definition hook_eqb (a b : hook) : bool :=
  match a, b with HInstanceStartup, HInstanceStartup | HShutdown, HShutdown => true | _, _ => false end.

Definition ev_eqb (a b : event) : bool :=
  match a, b with
  | ENew i, ENew i' => i =? i'
  | EMake i, EMake i' => i =? i'
  | ECb k i l, ECb k' i' l' => kind_eqb k k' && (i =? i') && (l =? l')
  | EListen i s ok, EListen i' s' ok' => (i =? i') && (s =? s') && Bool.eqb ok ok'
  | EFile i s ok, EFile i' s' ok' => (i =? i') && (s =? s') && Bool.eqb ok ok'
  | EInherit i s, EInherit i' s' => (i =? i') && (s =? s')
  | EAfter i s, EAfter i' s' => (i =? i') && (s =? s')
  | EServe i s, EServe i' s' => (i =? i') && (s =? s')
  | EStop i s, EStop i' s' => (i =? i') && (s =? s')
  | ERet i s, ERet i' s' => (i =? i') && (s =? s')
  | EHook h i, EHook h' i' => hook_eqb h h' && (i =? i')
  | _, _ => false
  end.

Definition res_eqb (a b : result) : bool :=
  match a, b with
  | RInst ok i, RInst ok' i' => Bool.eqb ok ok' && (i =? i')
  | RNum n, RNum n' => n =? n'
  | RBool x, RBool y => Bool.eqb x y
  | RUnit, RUnit => true
  | RPanic, RPanic => true
  | _, _ => false
  end.

Definition is_async (e : event) : bool :=
  match e with EServe _ _ | ERet _ _ => true | _ => false end.

Definition sync_of (l : list event) : list event := filter (fun e => negb (is_async e)) l.
Definition async_of (l : list event) : list event := filter is_async l.

Definition count_ev (e : event) (l : list event) : nat := length (filter (ev_eqb e) l).
Definition same_multiset (a b : list event) : bool :=
  (length a =? length b) && forallb (fun e => count_ev e a =? count_ev e b) a.

Definition nat_list_eqb (a b : list nat) : bool := list_beq Nat.eqb a b.

(* model record against observed record *)
Definition rec_agree (m : record) (obs_ev : list event) (obs_res : result) : bool :=
  list_beq ev_eqb (sync_of (rec_events m)) (sync_of obs_ev)
  && same_multiset (async_of (rec_events m)) (async_of obs_ev)
  && res_eqb (rec_result m) obs_res.

Fixpoint recs_agree (m o : list record) : bool :=
  match m, o with
  | [], [] => true
  | a :: m', b :: o' => rec_agree a (rec_events b) (rec_result b) && recs_agree m' o'
  | _, _ => false
  end.

(* ================================================================== executable spec *)
(* The statement of the property evaluated on the OBSERVED records alone (operations, events,
   results): it does not call [step].  It keeps its own, API-level notion of which instances
   are live: a successful Start adds one, a successful Restart replaces the old by the new one,
   a failed Restart changes nothing, Instance.Stop removes one, Stop removes all. *)

Definition is_cb (k : kind) (i : nat) (e : event) : bool :=
  match e with ECb k' i' _ => kind_eqb k k' && (i =? i') | _ => false end.
Definition is_kind (k : kind) (e : event) : bool :=
  match e with ECb k' _ _ => kind_eqb k k' | _ => false end.
Definition cb_label (e : event) : nat := match e with ECb _ _ l => l | _ => 0 end.
Definition proj (k : kind) (i : nat) (l : list event) : list nat := map cb_label (filter (is_cb k i) l).

Fixpoint is_prefix (a b : list nat) : bool :=
  match a, b with
  | [], _ => true
  | x :: a', y :: b' => (x =? y) && is_prefix a' b'
  | _, _ => false
  end.

(* the labels that a stop-at-first-error loop runs *)
Fixpoint upto_fail (l : list cb) : list nat :=
  match l with
  | [] => []
  | c :: r => if cb_fail c then [cb_id c] else cb_id c :: upto_fail r
  end.

(* no event satisfying [late] is followed by one satisfying [early] *)
Fixpoint ordered (early late : event -> bool) (l : list event) : bool :=
  match l with
  | [] => true
  | e :: r => (if late e then negb (existsb early r) else true) && ordered early late r
  end.

Definition new_ids (l : list event) : list nat :=
  flat_map (fun e => match e with ENew i => [i] | _ => [] end) l.

Definition ev_inst (e : event) : option nat :=
  match e with
  | ENew i | EMake i | ECb _ i _ | EListen i _ _ | EFile i _ _ | EInherit i _ | EAfter i _
  | EServe i _ | EStop i _ | ERet i _ => Some i
  | EHook HInstanceStartup i => Some i
  | EHook HShutdown _ => None
  end.

Definition about (i : nat) (e : event) : bool :=
  match ev_inst e with Some j => j =? i | None => false end.

Definition is_accept (i : nat) (e : event) : bool :=
  match e with
  | EListen i' _ _ | EInherit i' _ | EServe i' _ => i' =? i
  | _ => false
  end.
Definition is_open (i : nat) (e : event) : bool :=
  match e with EListen i' _ true | EInherit i' _ => i' =? i | _ => false end.
Definition is_serve (i : nat) (e : event) : bool :=
  match e with EServe i' _ => i' =? i | _ => false end.
Definition is_stop (i : nat) (e : event) : bool :=
  match e with EStop i' _ => i' =? i | _ => false end.
Definition is_hook (e : event) : bool := match e with EHook _ _ => true | _ => false end.

(* the configuration an instance was created from: the record that holds its ENew *)
Fixpoint cfg_of (i : nat) (rs : list record) : option config :=
  match rs with
  | [] => None
  | (o, ev, _) :: r =>
      if existsb (Nat.eqb i) (new_ids ev) then
        match o with OStart c | ORestart _ c => Some c | _ => None end
      else cfg_of i r
  end.

(* the instance a reload was applied to, for every instance created by a reload *)
Fixpoint parent_of (i : nat) (rs : list record) : option nat :=
  match rs with
  | [] => None
  | (o, ev, _) :: r =>
      if existsb (Nat.eqb i) (new_ids ev) then
        match o with ORestart h _ => Some h | _ => None end
      else parent_of i r
  end.

(* i is h or was created by a chain of reloads starting from h *)
Fixpoint descends (fuel : nat) (rs : list record) (h i : nat) : bool :=
  (i =? h) ||
  match fuel with
  | 0 => false
  | S f => match parent_of i rs with Some p => descends f rs h p | None => false end
  end.

Definition graceful_ids (c : config) : list nat :=
  let fix go (j : nat) (l : list srvspec) : list nat :=
    match l with
    | [] => []
    | sp :: r => if sv_graceful sp then j :: go (S j) r else go (S j) r
    end in go 0 (c_servers c).

Definition stop_ids (i : nat) (l : list event) : list nat :=
  flat_map (fun e => match e with EStop i' s => if i' =? i then [s] else [] | _ => [] end) l.

(* ---- one creating operation: instance n made from configuration c inside events ev ---- *)
Definition spec_creation (c : config) (n : nat) (fresh ok : bool) (ev : list event) : bool :=
  (* startup callbacks: all of them, once, in order, when the start succeeds; a stop-at-first-
     error prefix otherwise *)
  (if ok then nat_list_eqb (proj KStartup n ev) (labels (c_startup c))
   else is_prefix (proj KStartup n ev) (labels (c_startup c)))
  (* first-startup callbacks only on a fresh start *)
  && (if fresh then
        (if ok then nat_list_eqb (proj KFirst n ev) (labels (c_first c))
         else is_prefix (proj KFirst n ev) (labels (c_first c)))
      else match proj KFirst n ev with [] => true | _ => false end)
  (* a start in which one of these callbacks returned an error does not succeed *)
  && (negb ok || negb (existsb cb_fail (c_startup c) || (fresh && existsb cb_fail (c_first c))))
  (* ... before the instance accepts connections: no startup / first-startup callback after
     a listener of the instance exists or one of its servers serves *)
  && ordered (fun e => is_cb KStartup n e || is_cb KFirst n e) (is_accept n) ev
  && ordered (is_cb KFirst n) (is_cb KStartup n) ev
  (* nothing serves unless the start succeeded, and only on a listener obtained before *)
  && (ok || negb (existsb (is_serve n) ev))
  && ordered (is_open n) (is_serve n) ev
  && forallb (fun e => match e with
                       | EServe i s => negb (i =? n) ||
                           existsb (fun x => match x with
                                             | EListen i' s' true | EInherit i' s' => (i' =? n) && (s' =? s)
                                             | _ => false end) ev
                       | _ => true end) ev
  (* the instance startup event fires exactly when the operation succeeds, after everything synchronous *)
  && (if ok then
        match rev (sync_of ev) with EHook HInstanceStartup i :: r => (i =? n) && negb (existsb is_hook r) | _ => false end
      else negb (existsb is_hook ev)).

(* ---- a successful reload of h (configuration ch) into n ---- *)
Definition spec_reload_ok (ch : config) (h n : nat) (ev : list event) : bool :=
  nat_list_eqb (proj KRestart h ev) (labels (c_restart ch))
  && nat_list_eqb (proj KShutdown h ev) (labels (c_shutdown ch))
  && negb (existsb (fun e => is_kind KRestartFailed e || is_kind KFinal e || is_kind KFirst e) ev)
  && nat_list_eqb (stop_ids h ev) (graceful_ids ch)
  (* old OnRestart -> new instance set up -> new listeners -> old servers stopped -> old OnShutdown *)
  && ordered (is_cb KRestart h) (about n) ev
  && ordered (fun e => is_open n e || is_cb KStartup n e) (is_stop h) ev
  && ordered (fun e => is_open n e || is_cb KStartup n e || is_stop h e) (is_cb KShutdown h) ev
  (* the old instance takes no other action *)
  && forallb (fun e => negb (about h e) ||
                       match e with ECb KRestart _ _ | ECb KShutdown _ _ | EStop _ _ | ERet _ _ | EFile _ _ _ => true
                                  | _ => false end) ev.

(* ---- a failed reload of h ---- *)
Definition spec_reload_fail (ch : config) (h : nat) (ev : list event) : bool :=
  is_prefix (proj KRestart h ev) (labels (c_restart ch))
  && nat_list_eqb (proj KRestartFailed h ev) (labels (c_rfailed ch))
  (* restart-failed callbacks come last, and nothing else of the old instance happens *)
  && ordered (fun e => negb (is_cb KRestartFailed h e)) (is_cb KRestartFailed h) ev
  && forallb (fun e => negb (about h e) ||
                       match e with ECb KRestart _ _ | ECb KRestartFailed _ _ | EFile _ _ _ => true
                                  | _ => false end) ev
  && negb (existsb (fun e => is_kind KFinal e || is_kind KFirst e || is_kind KShutdown e) ev).

Definition only_about (ids : list nat) (ev : list event) : bool :=
  forallb (fun e => match ev_inst e with Some i => existsb (Nat.eqb i) ids | None => false end) ev.

(* ---- per-record checks ---- *)
Definition spec_record (all : list record) (r : record) : bool :=
  let '(o, ev, res) := r in
  match o, res with
  | OStart c, RInst ok n0 =>
      match new_ids ev with
      | [] => negb ok && match ev with [] => true | _ => false end
      | [n] => (negb ok || (n0 =? n)) && only_about [n] ev && spec_creation c n true ok ev
               && negb (existsb (fun e => is_kind KRestart e || is_kind KRestartFailed e
                                          || is_kind KShutdown e || is_kind KFinal e) ev)
               && negb (existsb (fun e => match e with EStop _ _ | ERet _ _ => true | _ => false end) ev)
      | _ => false
      end
  (* a plugin's panic reaches the caller of casket.Start (never the caller of Restart, which
     reports an error instead): only when the configuration has such a plugin, and the start
     has got no further than a failed one *)
  | OStart c, RPanic =>
      c_setup_panic c &&
      match new_ids ev with
      | [n] => only_about [n] ev && spec_creation c n true false ev
               && negb (existsb (fun e => match e with ECb _ _ _ | EListen _ _ _ | EStop _ _ | ERet _ _ => true | _ => false end) ev)
      | _ => false
      end
  | ORestart h c, RInst ok n0 =>
      match cfg_of h all with
      | None => false
      | Some ch =>
          if ok then
            match new_ids ev with
            | [n] => (n0 =? n) && only_about [h; n] ev && spec_creation c n false true ev
                     && spec_reload_ok ch h n ev
            | _ => false
            end
          else
            (n0 =? h) && spec_reload_fail ch h ev &&
            match new_ids ev with
            | [] => only_about [h] ev
            | [n] => only_about [h; n] ev && spec_creation c n false false ev
            | _ => false
            end
      end
  | OStopInst h, RUnit =>
      match cfg_of h all with
      | None => match ev with [] => true | _ => false end
      | Some ch => only_about [h] ev && nat_list_eqb (stop_ids h ev) (graceful_ids ch)
                   && forallb (fun e => match e with EStop _ _ | ERet _ _ => true | _ => false end) ev
      end
  | OStopAll, RUnit =>
      forallb (fun e => match e with EStop _ _ | ERet _ _ => true | _ => false end) ev
  | OShutdownCbs h, RNum k =>
      match cfg_of h all with
      | None => false
      | Some ch => list_beq ev_eqb ev (run_all KShutdown h (c_shutdown ch) ++ run_all KFinal h (c_final ch))
                   && (k =? nfail (c_shutdown ch) + nfail (c_final ch))
      end
  | OExecShutdown, RNum _ => true   (* judged by the walk below *)
  | OWait _, RBool _ => match ev with [] => true | _ => false end
  (* the handle does not name an instance: nothing happens *)
  | ORestart _ _, RUnit | OShutdownCbs _, RUnit | OWait _, RUnit => match ev with [] => true | _ => false end
  | _, _ => false
  end.

(* ---- the walk: live instances, the once guard, waiting ---- *)
Definition remove_nat (h : nat) (l : list nat) : list nat := filter (fun x => negb (x =? h)) l.

Definition exec_expected (all : list record) (live : list nat) : option (list event * nat) :=
  fold_right (fun i acc =>
                match acc, cfg_of i all with
                | Some (ev, k), Some c =>
                    Some (run_all KShutdown i (c_shutdown c) ++ run_all KFinal i (c_final c) ++ ev,
                          nfail (c_shutdown c) + nfail (c_final c) + k)
                | _, _ => None
                end) (Some ([], 0)) live.

Definition still_serving (fuel : nat) (all : list record) (h : nat) (before : list event) : bool :=
  existsb (fun e => match e with
                    | EServe i s => descends fuel all h i && negb (existsb (ev_eqb (ERet i s)) before)
                    | _ => false end) before.

Fixpoint spec_walk (all : list record) (live : list nat) (fired : bool) (before : list event) (rs : list record) : bool :=
  match rs with
  | [] => true
  | (o, ev, res) :: r =>
      let before' := before ++ ev in
      match o, res with
      | OStart _, RInst true n => spec_walk all (live ++ [n]) fired before' r
      | ORestart h _, RInst true n => spec_walk all (remove_nat h live ++ [n]) fired before' r
      | OStopInst h, _ => spec_walk all (remove_nat h live) fired before' r
      | OStopAll, _ =>
          (* every live instance's graceful servers are stopped *)
          forallb (fun i => match cfg_of i all with
                            | Some c => nat_list_eqb (stop_ids i ev) (graceful_ids c)
                            | None => false end) live
          && spec_walk all [] fired before' r
      | OExecShutdown, RNum code =>
          (if fired then match ev with [] => code =? 0 | _ => false end
           else match exec_expected all live with
                | Some (exp, k) => list_beq ev_eqb ev (EHook HShutdown 0 :: exp)
                                   && (code =? (if k =? 0 then 0 else 4))
                | None => false
                end)
          && spec_walk all live true before' r
      | OWait h, RBool true =>
          negb (still_serving (length all) all h before) && spec_walk all live fired before' r
      | _, _ => spec_walk all live fired before' r
      end
  end.

(* ---- whole-history checks ---- *)
Definition all_ids (rs : list record) : list nat := new_ids (trace rs).

Fixpoint nodup_nat (l : list nat) : bool :=
  match l with
  | [] => true
  | x :: r => negb (existsb (Nat.eqb x) r) && nodup_nat r
  end.

Definition explicit_cbs (h : nat) (rs : list record) : bool :=
  existsb (fun r => match rec_op r with OShutdownCbs h' => h' =? h | _ => false end) rs.

Definition creating_record_has (i : nat) (ev : list event) : bool := existsb (Nat.eqb i) (new_ids ev).

Fixpoint each_preceded (need : event -> list event) (before l : list event) : bool :=
  match l with
  | [] => true
  | e :: r => forallb (fun x => existsb (ev_eqb x) before) (need e) && each_preceded need (before ++ [e]) r
  end.

(* process shutdown is terminal: after executeShutdownCallbacks only further signals, Stop (the
   SIGTERM tail) and Wait follow *)
Definition terminal_op (o : op) : bool :=
  match o with OExecShutdown | OStopAll | OWait _ => true | _ => false end.
Fixpoint exec_terminal (ops : list op) : bool :=
  match ops with
  | [] => true
  | OExecShutdown :: r => forallb terminal_op r
  | _ :: r => exec_terminal r
  end.

Definition spec_global (rs : list record) : bool :=
  let tr := trace rs in
  nodup_nat (all_ids rs)
  (* startup and first-startup callbacks of an instance run only in the operation that creates it;
     restart callbacks only in a reload of that instance *)
  && forallb (fun r => forallb (fun e => match e with
                                         | ECb KStartup i _ | ECb KFirst i _ => creating_record_has i (rec_events r)
                                         | ECb KRestart i _ | ECb KRestartFailed i _ =>
                                             match rec_op r with ORestart h _ => h =? i | _ => false end
                                         | ECb KFinal _ _ =>
                                             match rec_op r with OShutdownCbs _ | OExecShutdown => true | _ => false end
                                         | ECb KShutdown _ _ =>
                                             match rec_op r with OShutdownCbs _ | OExecShutdown | ORestart _ _ => true | _ => false end
                                         | _ => true end) (rec_events r)) rs
  (* first-startup callbacks never in a reload *)
  && forallb (fun r => match rec_op r with
                       | OStart _ => true
                       | _ => negb (existsb (is_kind KFirst) (rec_events r)) end) rs
  (* shutdown callbacks of an instance at most once over the whole history (unless the embedding
     program calls Instance.ShutdownCallbacks itself), final-shutdown likewise *)
  && forallb (fun i => negb (exec_terminal (map rec_op rs)) || explicit_cbs i rs ||
                       match cfg_of i rs with
                       | Some c => is_prefix (proj KShutdown i tr) (labels (c_shutdown c))
                                   && is_prefix (proj KFinal i tr) (labels (c_final c))
                       | None => false end) (all_ids rs)
  (* a server serves at most once and returns at most once, after it was stopped *)
  && forallb (fun e => match e with
                       | EServe _ _ | ERet _ _ => count_ev e tr =? 1
                       | _ => true end) tr
  && each_preceded (fun e => match e with ERet i s => [EServe i s; EStop i s] | _ => [] end) [] tr.

Definition spec_hist (rs : list record) : bool :=
  forallb (spec_record rs) rs && spec_walk rs [] false [] rs && spec_global rs.

(* ================================================================== signals (child processes) *)
Inductive sig := SigInt | SigTerm.

(* what the process does between the first signal and its exit, as far as it is deterministic:
   the shutdown event and every live instance's shutdown and final-shutdown callbacks, once *)
Definition signal_events (s : state) : list event :=
  EHook HShutdown 0 :: all_shutdown (insts s).

Definition is_cb_or_hook (e : event) : bool :=
  match e with ECb _ _ _ | EHook _ _ => true | _ => false end.

Fixpoint count_int (l : list sig) : nat :=
  match l with [] => 0 | SigInt :: r => S (count_int r) | _ :: r => count_int r end.

Fixpoint ev_prefix (a b : list event) : bool :=
  match a, b with
  | [], _ => true
  | x :: a', y :: b' => ev_eqb x y && ev_prefix a' b'
  | _, _ => false
  end.

Fixpoint live_after (live : list nat) (rs : list record) : list nat :=
  match rs with
  | [] => live
  | (o, _, res) :: r =>
      match o, res with
      | OStart _, RInst true n => live_after (live ++ [n]) r
      | ORestart h _, RInst true n => live_after (remove_nat h live ++ [n]) r
      | OStopInst h, _ => live_after (remove_nat h live) r
      | OStopAll, _ => live_after [] r
      | _, _ => live_after live r
      end
  end.

(* ================================================================== Restart against signals and Stops *)
(* Small-step model of ONE Instance.Restart running concurrently with any number of
   executeShutdownCallbacks calls (signal handlers) and with the locked splices of concurrent
   Instance.Stop calls, at the granularity of the locks taken: the Restart thread is a program of
   atomic actions — one callback / server action (no lock), startWithListenerFds' locked append of
   the new instance, the point at which the directives have registered the new instance's
   callbacks, a locked splice (Instance.Stop of the old instance, or the deferred removal of the
   new one after a failed start).  The handler's steps: the once-guard, instancesMu.Lock() with
   the evaluation of the range expression, one iteration, the release.  While the handler holds
   the lock, appends and splices block; callbacks do not. *)
Inductive ract :=
| AEv (e : event)        (* a callback / server action / hook of the Restart thread *)
| AAppend (ni : inst)    (* instancesMu.Lock(); instances = append(instances, inst); Unlock() *)
| AReg (i : nat)         (* the directives of instance i have been executed: its callbacks exist *)
| ARemove (h : nat).     (* Lock(); splice h out; Unlock() *)

Record rst := mkRst {
  r_live : list inst;            (* var instances *)
  r_unreg : list nat;            (* appended, callbacks not registered yet *)
  r_lock : bool;                 (* instancesMu held by the handler *)
  r_once : bool;                 (* shutdownCallbacksOnce fired *)
  r_pend : bool;                 (* inside once.Do, before allShutdownCallbacks' Lock *)
  r_hq : option (list inst);     (* the handler's loop: what is left of the range *)
  r_iters : list inst;           (* ghost: instances whose callbacks the handler has run *)
  r_prog : list ract;            (* rest of the Restart thread *)
  r_tr : list (bool * event) }.  (* the trace; true = emitted by a handler *)

Inductive rchoice :=
| ChR                (* next action of the Restart thread *)
| ChSig              (* a signal handler calls executeShutdownCallbacks: the once-guard *)
| ChAcq | ChIter | ChRel
| ChStop (h : nat).  (* the locked splice of a concurrent Instance.Stop *)

Definition has_id (h : nat) (l : list inst) : bool := existsb (fun x => i_id x =? h) l.

Definition rstep (m : rst) (c : rchoice) : option rst :=
  match c with
  | ChR =>
      match r_prog m with
      | [] => None
      | AEv e :: p => Some (mkRst (r_live m) (r_unreg m) (r_lock m) (r_once m) (r_pend m) (r_hq m) (r_iters m) p
                                  (r_tr m ++ [(false, e)]))
      | AAppend ni :: p =>
          if r_lock m || has_id (i_id ni) (r_live m) then None
          else Some (mkRst (r_live m ++ [ni]) (i_id ni :: r_unreg m) (r_lock m) (r_once m) (r_pend m) (r_hq m) (r_iters m) p (r_tr m))
      | AReg i :: p => Some (mkRst (r_live m) (remove_nat i (r_unreg m)) (r_lock m) (r_once m) (r_pend m) (r_hq m)
                                   (r_iters m) p (r_tr m))
      | ARemove h :: p =>
          if r_lock m then None
          else Some (mkRst (remove_id h (r_live m)) (r_unreg m) (r_lock m) (r_once m) (r_pend m) (r_hq m) (r_iters m) p (r_tr m))
      end
  | ChSig =>
      if r_once m then Some m   (* idempotent: returns 0 *)
      else Some (mkRst (r_live m) (r_unreg m) (r_lock m) true true (r_hq m) (r_iters m) (r_prog m)
                       (r_tr m ++ [(true, EHook HShutdown 0)]))
  | ChAcq =>
      if r_pend m && negb (r_lock m)
      then Some (mkRst (r_live m) (r_unreg m) true (r_once m) false (Some (r_live m)) (r_iters m) (r_prog m) (r_tr m))
      else None
  | ChIter =>
      match r_hq m with
      | Some (x :: q) =>
          if existsb (Nat.eqb (i_id x)) (r_unreg m)
          then Some (mkRst (r_live m) (r_unreg m) (r_lock m) (r_once m) (r_pend m) (Some q) (r_iters m) (r_prog m) (r_tr m))
          else Some (mkRst (r_live m) (r_unreg m) (r_lock m) (r_once m) (r_pend m) (Some q) (r_iters m ++ [x]) (r_prog m)
                           (r_tr m ++ map (pair true) (shutdown_cbs x)))
      | _ => None
      end
  | ChRel =>
      match r_hq m with
      | Some [] => Some (mkRst (r_live m) (r_unreg m) false (r_once m) (r_pend m) None (r_iters m) (r_prog m) (r_tr m))
      | _ => None
      end
  | ChStop h =>
      if r_lock m then None
      else Some (mkRst (remove_id h (r_live m)) (r_unreg m) (r_lock m) (r_once m) (r_pend m) (r_hq m) (r_iters m) (r_prog m) (r_tr m))
  end.

Fixpoint rrun (m : rst) (cs : list rchoice) : option rst :=
  match cs with
  | [] => Some m
  | c :: r => match rstep m c with Some m' => rrun m' r | None => None end
  end.

Definition rinit (l : list inst) (p : list ract) : rst := mkRst l [] false false false None [] p [].

Definition htrace (m : rst) : list event := map snd (filter fst (r_tr m)).
Definition rtrace (m : rst) : list event := map snd (filter (fun x => negb (fst x)) (r_tr m)).
Definition ftrace (m : rst) : list event := map snd (r_tr m).
Definition prog_events (p : list ract) : list event :=
  flat_map (fun a => match a with AEv e => [e] | _ => [] end) p.

(* the registration point: right after NewContext (the directives run between NewContext and
   MakeServers) *)
Fixpoint ins_reg (i : nat) (l : list event) : list ract :=
  match l with
  | [] => []
  | ENew j :: r => if j =? i then AEv (ENew j) :: AReg i :: map AEv r else AEv (ENew j) :: ins_reg i r
  | e :: r => AEv e :: ins_reg i r
  end.

(* Instance.Restart of o with configuration c in process state s, as a program *)
Definition restart_prog (o : inst) (c : config) (s : state) : list ract :=
  let h := i_id o in
  let failed := map AEv (run_all KRestartFailed h (c_rfailed (i_cfg o))) in
  let '(e1, ok1) := run_stop KRestart h (c_restart (i_cfg o)) in
  if negb ok1 then map AEv e1 ++ failed else
  let i := next s in
  let '(e2, ok2, saved) := start_plan c i true (i_srv o) h in
  let ni := mkInst i (i_root o) c saved in
  if negb ok2 then map AEv e1 ++ AAppend ni :: ins_reg i e2 ++ ARemove i :: failed else
  let s1 := commit ni (next_after c i) s in
  let '(_, e3) := stop_inst o s1 in
  map AEv e1 ++ AAppend ni :: ins_reg i e2 ++ map AEv e3 ++ ARemove h ::
  map AEv (run_all KShutdown h (c_shutdown (i_cfg o))) ++ [AEv (EHook HInstanceStartup i)].

(* the schedule the harness forces: the Restart thread runs up to and including the first
   callback of kind [g] (held there), a signal handler runs to completion, the Restart goes on *)
Fixpoint gate_pos (g : kind) (p : list ract) : option nat :=
  match p with
  | [] => None
  | AEv (ECb k _ _) :: r => if kind_eqb k g then Some 1 else option_map S (gate_pos g r)
  | _ :: r => option_map S (gate_pos g r)
  end.

Definition gate_run (g : kind) (m : rst) : option rst :=
  match gate_pos g (r_prog m) with
  | Some n =>
      match rrun m (repeat ChR n) with
      | Some m1 =>
          match rrun m1 (ChSig :: ChAcq :: repeat ChIter (length (r_live m1)) ++ [ChRel]) with
          | Some m2 => rrun m2 (repeat ChR (length (r_prog m2)))
          | None => None
          end
      | None => None
      end
  | None => rrun m (repeat ChR (length (r_prog m)))
  end.

(* ================================================================== cases *)
Inductive case :=
| CHist (recs : list record)
  (* a child process ran the history (observed [recs]), trapped signals, received [sigs]
     (the 2nd.. while the first shutdown callback was held if [gated]); [tail] are the events
     logged after the first signal, [code] the exit status *)
| CChild (recs : list record) (sigs : list sig) (gated : bool) (tail : list event) (code : nat)
  (* after the history [recs], executeShutdownCallbacks ran while Instance.Stop of every handle
     in [stops] was called from other goroutines DURING the first shutdown callback (which was
     held until those Stops had returned or were seen blocked); [ev] = everything logged from
     the call until all of it had returned, [code] the exit status, [after] casket.Instances()
     at the end *)
| CConc (recs : list record) (stops : list nat) (ev : list event) (code : nat) (after : list nat)
  (* after the history [recs], Instance.Restart of handle [h] with configuration [c] was held
     inside its first callback of kind [g]; while it was held executeShutdownCallbacks ran to
     completion (exit status [code]; 0 when no such callback ran); then the Restart went on:
     [ev] = everything logged, [res] what Restart returned *)
| CRace (recs : list record) (h : nat) (c : config) (g : kind) (ev : list event) (res : result) (code : nat).

Definition judge (c : case) : N :=
  match c with
  | CHist recs =>
      let ops := map rec_op recs in
      verdict (recs_agree (run init ops) recs) (spec_hist recs)
  | CChild recs sigs gated tail code =>
      let ops := map rec_op recs in
      let s := final init ops in
      let cbs := filter is_cb_or_hook tail in
      let force := 2 <=? count_int sigs in   (* a second SIGINT force-quits: exit 2 at once *)
      let model_ev := signal_events s in
      let model_code := if all_errs (insts s) =? 0 then 0 else 4 in
      let one_sig := match sigs with [_] => true | _ => false end in
      let agree :=
        recs_agree (run init ops) recs &&
        (if force then ev_prefix cbs model_ev else list_beq ev_eqb cbs model_ev) &&
        (if one_sig then code =? model_code
         else (code =? model_code) || (code =? 0) || (force && (code =? 2))) in
      (* the property: every live instance's shutdown callbacks exactly once (never twice,
         whatever the signals; all of them unless the user force-quits) *)
      let spec :=
        spec_hist recs &&
        match exec_expected recs (live_after [] recs) with
        | Some (exp, k) =>
            let want := EHook HShutdown 0 :: exp in
            (if force then ev_prefix cbs want else list_beq ev_eqb cbs want)
            && (if one_sig then code =? (if k =? 0 then 0 else 4) else true)
        | None => false
        end in
      verdict agree spec
  | CConc recs stops ev code after =>
      let ops := map rec_op recs in
      let s := final init ops in
      let cbs := filter is_cb_or_hook ev in
      let others := filter (fun e => negb (is_cb_or_hook e)) ev in
      (* the schedule the harness forces, as far as the lock lets it: the Stops come while the
         first callback runs — they block until the handler has released the lock *)
      let sched := CAcquire :: repeat CIter (length (insts s)) ++ CRelease :: map CSplice stops in
      let agree :=
        recs_agree (run init ops) recs &&
        match conc_run true (conc_init (insts s)) sched with
        | Some m => list_beq ev_eqb cbs (EHook HShutdown 0 :: sh_out m)
                    && nat_list_eqb after (map i_id (live_of m))
        | None => false
        end &&
        same_multiset others (stops_events s stops) &&
        (code =? (if all_errs (insts s) =? 0 then 0 else 4)) in
      let spec :=
        spec_hist recs &&
        match exec_expected recs (live_after [] recs) with
        | Some (exp, k) => list_beq ev_eqb cbs (EHook HShutdown 0 :: exp)
                           && (code =? (if k =? 0 then 0 else 4))
        | None => false
        end
        && nat_list_eqb after (filter (fun i => negb (existsb (Nat.eqb i) stops)) (live_after [] recs)) in
      verdict agree spec
  | CRace recs h c g ev res code =>
      let ops := map rec_op recs in
      let s := final init ops in
      match find_inst h (known s) with
      | None => verdict false false
      | Some o =>
          let all := recs ++ [(ORestart h c, ev, res)] in
          let agree :=
            recs_agree (run init ops) recs &&
            match gate_run g (rinit (insts s) (restart_prog o c s)) with
            | Some m => list_beq ev_eqb (sync_of (ftrace m)) (sync_of ev)
                        && same_multiset (async_of (ftrace m)) (async_of ev)
                        && (code =? (if all_errs (r_iters m) =? 0 then 0 else 4))
            | None => false
            end &&
            res_eqb res (snd (do_restart h c s)) in
          (* whatever the interleaving: one shutdown event at most, and every instance's shutdown
             and final-shutdown callbacks at most once, in order *)
          let spec :=
            spec_hist recs &&
            (count_ev (EHook HShutdown 0) ev <=? 1) &&
            forallb (fun i => match cfg_of i all with
                              | Some ci => is_prefix (proj KShutdown i ev) (labels (c_shutdown ci))
                                           && is_prefix (proj KFinal i ev) (labels (c_final ci))
                              | None => false end) (all_ids all) in
          verdict agree spec
      end
  end.
