(* C15 — automatic HTTPS: qualification, TLS enabling, plaintext redirect synthesis and the
   redirect handler: executable model.  Definitions only.
   Mirrors casket.go (IsLoopback, IsInternal), caskettls/tls.go (QualifiesForManagedTLS),
   certmagic v0.20.0 certificates.go (SubjectQualifiesFor[Public]Cert, SubjectIsIP, SubjectIsInternal),
   caskettls/setup.go (the flags the tls directive sets), caskethttp/httpserver/https.go
   (markQualifiedForAutoHTTPS, enableAutoHTTPS, makePlaintextRedirects, hostHasOtherPort,
   redirPlaintextHost), httpserver/plugin.go (standardizeAddress scheme/port rules, MakeServers'
   TLS-disabling loop, groupSiteConfigsByListenAddr's default port), and Go's net.SplitHostPort,
   net.ParseIP (netip.ParseAddr), IPNet.Contains for the four literal CIDRs. *)
Require Import V.Lib V.GoPath V.Gen_C15.
Open Scope N_scope.
Arguments bs _%string_scope.

(* ------------------------------------------------------------------ bytes helpers *)
Definition COLON : N := 58.
Definition LBR : N := 91.
Definition RBR : N := 93.
Definition STAR : N := 42.
Definition PERCENT : N := 37.

Definition contains_byte (c : N) (s : bytes) : bool := existsb (N.eqb c) s.
Definition contains_any (s set : bytes) : bool := existsb (fun c => contains_byte c set) s.
Definition count_byte (c : N) (s : bytes) : nat := length (filter (N.eqb c) s).

Fixpoint index_byte (c : N) (s : bytes) : option nat :=
  match s with
  | [] => None
  | x :: r => if x =? c then Some O else option_map S (index_byte c r)
  end.

Fixpoint last_index_byte (c : N) (s : bytes) : option nat :=
  match s with
  | [] => None
  | x :: r => match last_index_byte c r with
              | Some i => Some (S i)
              | None => if x =? c then Some O else None
              end
  end.

Fixpoint trim_left (set : bytes) (s : bytes) : bytes :=
  match s with
  | c :: r => if contains_byte c set then trim_left set r else s
  | [] => []
  end.
(* strings.Trim(s, set) for an ASCII cutset *)
Definition trim (set s : bytes) : bytes := rev (trim_left set (rev (trim_left set s))).
Definition trim_brackets (s : bytes) : bytes := trim [LBR; RBR] s.

(* ------------------------------------------------------------------ net.SplitHostPort *)
Definition split_host_port (hp : bytes) : option (bytes * bytes) :=
  match last_index_byte COLON hp with
  | None => None                                             (* missing port *)
  | Some i =>
    match hp with
    | [] => None
    | c0 :: tl0 =>
      if c0 =? LBR then
        match index_byte RBR hp with
        | None => None                                       (* missing ']' *)
        | Some e =>
          if Nat.eqb (S e) (length hp) then None             (* missing port *)
          else if Nat.eqb (S e) i then
            if contains_byte LBR tl0 then None               (* unexpected '[' *)
            else if contains_byte RBR (skipn (S e) hp) then None  (* unexpected ']' *)
            else Some (firstn (e - 1) tl0, skipn (S i) hp)
          else None                                          (* too many colons / missing port *)
        end
      else
        let h := firstn i hp in
        if contains_byte COLON h then None                   (* too many colons *)
        else if contains_byte LBR hp then None
        else if contains_byte RBR hp then None
        else Some (h, skipn (S i) hp)
    end
  end.

(* ------------------------------------------------------------------ net.ParseIP *)
Definition is_digit (c : N) : bool := (48 <=? c) && (c <=? 57).
Definition hex_digit (c : N) : option N :=
  if is_digit c then Some (c - 48)
  else if (97 <=? c) && (c <=? 102) then Some (c - 87)
  else if (65 <=? c) && (c <=? 70) then Some (c - 55) else None.

Definition dec_value (s : bytes) : N := fold_left (fun a c => 10 * a + (c - 48)) s 0.

(* one dotted-quad field: 1..3 digits, no leading zero unless it is "0", value <= 255 *)
Definition v4_field (f : bytes) : option N :=
  match f with
  | [] => None
  | c :: r =>
    if forallb is_digit f && Nat.leb (length f) 3
       && (match r with [] => true | _ => negb (c =? 48) end)
       && (dec_value f <=? 255)
    then Some (dec_value f) else None
  end.

Definition parse_ipv4 (s : bytes) : option (list N) :=
  match split DOT s with
  | [a; b; c; d] =>
    match v4_field a, v4_field b, v4_field c, v4_field d with
    | Some a', Some b', Some c', Some d' => Some [a'; b'; c'; d']
    | _, _, _, _ => None
    end
  | _ => None
  end.

(* leading hex digits of s: (count, value, rest) *)
Fixpoint scan_hex (s : bytes) (n : nat) (acc : N) : nat * N * bytes :=
  match s with
  | c :: r => match hex_digit c with
              | Some v => scan_hex r (S n) (16 * acc + v)
              | None => (n, acc, s)
              end
  | [] => (n, acc, [])
  end.

(* the main loop of netip.parseIPv6 after the leading "::" was handled; [acc] are the bytes
   written so far (i = length acc), [ell] the byte position of the ellipsis.
   Result: bytes, ellipsis, unparsed rest. *)
Fixpoint v6_loop (fuel : nat) (s : bytes) (acc : list N) (ell : option nat)
  : option (list N * option nat * bytes) :=
  match fuel with
  | O => Some (acc, ell, s)
  | S fuel' =>
    if Nat.leb 16 (length acc) then Some (acc, ell, s)
    else
      let '(off, v, rest) := scan_hex s 0 0 in
      if Nat.leb 5 off then None
      else if Nat.eqb off 0 then None
      else
        match rest with
        | c :: _ =>
          if c =? DOT then
            if (match ell with None => negb (Nat.eqb (length acc) 12) | Some _ => false end) then None
            else if Nat.ltb 16 (length acc + 4) then None
            else match parse_ipv4 s with
                 | Some q => Some (acc ++ q, ell, [])
                 | None => None
                 end
          else
            let acc' := acc ++ [v / 256; v mod 256] in
            if negb (c =? COLON) then None
            else match rest with
                 | [_] => None
                 | _ :: c2 :: r2 =>
                   if c2 =? COLON then
                     match ell with
                     | Some _ => None
                     | None => match r2 with
                               | [] => Some (acc', Some (length acc'), [])
                               | _ => v6_loop fuel' r2 acc' (Some (length acc'))
                               end
                     end
                   else v6_loop fuel' (c2 :: r2) acc' ell
                 | [] => None
                 end
        | [] => Some (acc ++ [v / 256; v mod 256], ell, [])
        end
  end.

Definition parse_ipv6 (s : bytes) : option (list N) :=
  if contains_byte PERCENT s then None       (* zones are rejected by net.ParseIP *)
  else
    let '(s1, ell0) := match s with
                       | a :: b :: r => if (a =? COLON) && (b =? COLON) then (r, Some O) else (s, None)
                       | _ => (s, None)
                       end in
    match ell0, s1 with
    | Some _, [] => Some (repeat 0 16)
    | _, _ =>
      match v6_loop 9 s1 [] ell0 with
      | None => None
      | Some (acc, ell, rest) =>
        match rest with
        | _ :: _ => None
        | [] =>
          if Nat.ltb (length acc) 16 then
            match ell with
            | None => None
            | Some e => Some (firstn e acc ++ repeat 0 (16 - length acc) ++ skipn e acc)
            end
          else match ell with Some _ => None | None => Some acc end
        end
      end
    end.

Definition v4_mapped (q : list N) : list N := repeat 0 10 ++ [255; 255] ++ q.

(* netip.ParseAddr dispatches on the first of '.', ':' or '%' *)
Fixpoint ip_dispatch (s : bytes) : N :=
  match s with
  | [] => 0
  | c :: r => if c =? DOT then 4 else if c =? COLON then 6 else if c =? PERCENT then 0 else ip_dispatch r
  end.

(* net.ParseIP: the 16-byte form, None when s is not an IP literal *)
Definition parse_ip (s : bytes) : option (list N) :=
  match ip_dispatch s with
  | 4 => option_map v4_mapped (parse_ipv4 s)
  | 6 => parse_ipv6 s
  | _ => None
  end.

(* IP.To4 *)
Definition to4 (ip : list N) : option (list N) :=
  if list_beq N.eqb (firstn 12 ip) (repeat 0 10 ++ [255; 255]) then Some (skipn 12 ip) else None.

(* net.IPNet.Contains for a network (IP, Mask) as net.ParseCIDR returns it (4+4 bytes for an IPv4
   network, 16+16 for an IPv6 one): the address is first reduced by To4, a length mismatch is "no",
   otherwise the masked bytes are compared *)
Fixpoint masked_eq (nn m ip : list N) : bool :=
  match nn, m, ip with
  | a :: nn', k :: m', b :: ip' => (N.land a k =? N.land b k) && masked_eq nn' m' ip'
  | [], _, [] => true
  | _, _, _ => false
  end.
Definition ipnet_contains (n : list N * list N) (ip : list N) : bool :=
  let ip' := match to4 ip with Some x => x | None => ip end in
  Nat.eqb (length ip') (length (fst n)) && masked_eq (fst n) (snd n) ip'.

(* the loop over privateNetworks (table regenerated from casket.go: Gen_C15.v) *)
Definition in_private_net (ip : list N) : bool :=
  existsb (fun n => ipnet_contains n ip) gen_c15_private_nets.

(* the same membership in closed form, for the table as it stands: 10.0.0.0/8, 172.16.0.0/12,
   192.168.0.0/16 on the To4 form, fc00::/7 on the first byte otherwise (proved equal to the fold on
   every 16-byte address in C15_Proofs) *)
Definition in_private_net_closed (ip : list N) : bool :=
  match to4 ip with
  | Some (a :: b :: _) =>
      (a =? 10) || ((a =? 172) && (16 <=? b) && (b <=? 31)) || ((a =? 192) && (b =? 168))
  | Some _ => false
  | None => match ip with b0 :: _ => (b0 / 2 =? 126) | [] => false end
  end.

(* ------------------------------------------------------------------ casket.IsLoopback / IsInternal *)
(* the return expression of IsLoopback on the host it extracted; the literals are regenerated from
   casket.go (Gen_C15.v): host == "localhost" || strings.Trim(host, "[]") == "::1" ||
   strings.HasPrefix(host, "127.") || strings.HasSuffix(host, ".localhost") *)
Definition is_loopback_host (host : bytes) : bool :=
  existsb (beq host) gen_c15_loopback_eq
  || existsb (fun ct => beq (trim (fst ct) host) (snd ct)) gen_c15_loopback_trim_eq
  || existsb (has_prefix host) gen_c15_loopback_prefixes
  || existsb (has_suffix host) gen_c15_loopback_suffixes.

(* on a SplitHostPort error the UNLOWERED address is judged *)
Definition loopback_hostpart (addr : bytes) : bytes :=
  match split_host_port (to_lower addr) with Some (h, _) => h | None => addr end.
Definition is_loopback (addr : bytes) : bool := is_loopback_host (loopback_hostpart addr).

Definition private_tlds : list bytes := gen_c15_private_tlds.

Definition internal_hostpart (addr : bytes) : bytes :=
  match split_host_port addr with Some (h, _) => h | None => trim_brackets addr end.
Definition is_internal_host (host : bytes) : bool :=
  existsb (has_suffix host) private_tlds ||
  match parse_ip host with Some ip => in_private_net ip | None => false end.
Definition is_internal (addr : bytes) : bool := is_internal_host (internal_hostpart addr).

(* ------------------------------------------------------------------ certmagic subject checks *)
Definition is_space (c : N) : bool := ((9 <=? c) && (c <=? 13)) || (c =? 32).
(* the ContainsAny set of SubjectQualifiesForCert: brackets, braces, angle brackets, space, tab, newline,
   double quote, backslash and ! @ # $ % ^ & | ; ' + =   (table: Gen_C15.v) *)
Definition cert_special : bytes := gen_c15_cert_special.

Definition subject_qualifies_for_cert (s : bytes) : bool :=
  negb (forallb is_space s)
  && negb (has_prefix s [DOT]) && negb (has_suffix s [DOT])
  && (negb (contains_byte STAR s) || has_prefix s [STAR; DOT] || beq s [STAR])
  && negb (contains_any s cert_special).

(* subj == "localhost" || HasSuffix .localhost / .local / .home.arpa  (tables: Gen_C15.v) *)
Definition subject_is_internal (s : bytes) : bool :=
  existsb (beq s) gen_c15_cert_internal_eq || existsb (has_suffix s) gen_c15_cert_internal_suffixes.

Definition subject_is_ip (s : bytes) : bool := match parse_ip s with Some _ => true | None => false end.

Definition subject_public (s : bytes) : bool :=
  subject_qualifies_for_cert s && negb (subject_is_internal s) && negb (subject_is_ip s)
  && (negb (contains_byte STAR s)
      || (Nat.eqb (count_byte STAR s) 1 && Nat.ltb 1 (count_byte DOT s) && Nat.ltb 2 (length s)
          && has_prefix s [STAR; DOT])).

(* ------------------------------------------------------------------ sites *)
Record tlsf := { en : bool; mg : bool; mn : bool; ss : bool; nr : bool; od : bool; email : bytes }.
Record site := { scheme : bytes; host : bytes; port : bytes; listen : bytes; tls : tlsf;
                 redir : option bytes (* Some p: synthesised redirect site with redirPort p *) }.

Definition tls0 : tlsf := {| en := false; mg := false; mn := false; ss := false; nr := false; od := false; email := [] |}.

Definition set_en (b : bool) (t : tlsf) : tlsf :=
  {| en := b; mg := mg t; mn := mn t; ss := ss t; nr := nr t; od := od t; email := email t |}.
Definition set_mg (b : bool) (t : tlsf) : tlsf :=
  {| en := en t; mg := b; mn := mn t; ss := ss t; nr := nr t; od := od t; email := email t |}.
Definition with_tls (s : site) (t : tlsf) : site :=
  {| scheme := scheme s; host := host s; port := port s; listen := listen s; tls := t; redir := redir s |}.
Definition with_scheme (s : site) (x : bytes) : site :=
  {| scheme := x; host := host s; port := port s; listen := listen s; tls := tls s; redir := redir s |}.
Definition with_port (s : site) (x : bytes) : site :=
  {| scheme := scheme s; host := host s; port := x; listen := listen s; tls := tls s; redir := redir s |}.

Definition P80 : bytes := bs "80".
Definition P443 : bytes := bs "443".
Definition P2015 : bytes := bs "2015".
Definition HTTP : bytes := bs "http".
Definition HTTPS : bytes := bs "https".

(* ---- the tls directive (caskettls/setup.go): which flags a directive leaves behind ---- *)
Inductive targ := A0 | A1 (e : bytes) | A2.
Inductive tlsdir := TAbsent | TDir (a : targ) (load ondemand noredir : bool).

(* None = setup error *)
Definition tls_setup (d : tlsdir) : option tlsf :=
  match d with
  | TAbsent => Some tls0
  | TDir a load ond nred =>
    match a with
    | A1 e =>
      if beq e (bs "off") then
        Some {| en := false; mg := false; mn := false; ss := false; nr := false; od := false; email := e |}
      else
        Some {| en := true; mg := false; mn := load; ss := beq e (bs "self_signed"); nr := nred; od := ond; email := e |}
    | A0 =>
      if load || ond || nred
      then Some {| en := true; mg := false; mn := load; ss := false; nr := nred; od := ond; email := [] |}
      else None
    | A2 => Some {| en := true; mg := false; mn := true; ss := false; nr := nred; od := ond; email := [] |}
    end
  end.

(* ---- standardizeAddress: scheme/port rules on a structured declaration ---- *)
Definition std_port (p : bytes) : bytes :=
  if beq p HTTPS then P443 else if beq p HTTP then P80 else p.
(* None = "scheme and port violate convention" *)
Definition std_addr (sch prt : bytes) : option (bytes * bytes) :=
  let sch := to_lower sch in
  let p0 := std_port prt in
  let p := match p0 with
           | [] => if beq sch HTTP then P80 else if beq sch HTTPS then P443 else []
           | _ => p0
           end in
  if (beq sch HTTP && beq p P443) || (beq sch HTTPS && beq p P80) then None
  else
    let sch' := match sch with
                | [] => if beq p P80 then HTTP else if beq p P443 then HTTPS else []
                | _ => sch
                end in
    Some (sch', p).

(* ---- caskettls.QualifiesForManagedTLS ---- *)
Definition qualifies_for_managed_tls (s : site) : bool :=
  let t := tls s in
  (negb (mn t) || od t) && negb (ss t) && negb (beq (port s) P80) && negb (beq (email t) (bs "off"))
  && (subject_public (host s) || od t).

(* ---- markQualifiedForAutoHTTPS ---- *)
Definition qualifies (s : site) : bool :=
  negb (is_loopback (host s)) && negb (is_loopback (listen s))
  && negb (is_internal (host s)) && negb (is_internal (listen s))
  && qualifies_for_managed_tls s && negb (beq (scheme s) HTTP).

Definition mark_one (s : site) : site :=
  if qualifies s then with_tls s (set_mg true (tls s)) else s.

(* ---- enableAutoHTTPS ---- *)
Definition enable_one (s : site) : site :=
  let t := tls s in
  if mg t && negb (od t) then
    let s1 := with_scheme (with_tls s (set_en true t)) HTTPS in
    if beq (port s1) [] && (negb (mn t) || od t) && negb (beq (host s1) (bs "localhost"))
    then with_port s1 P443 else s1
  else s.

(* ---- makePlaintextRedirects ---- *)
Fixpoint other_has (all : list site) (j i : nat) (h p : bytes) : bool :=
  match all with
  | [] => false
  | o :: r => (negb (Nat.eqb j i) && beq (host o) h && beq (port o) p) || other_has r (S j) i h p
  end.
Definition host_has_other_port (all : list site) (i : nat) (p : bytes) : bool :=
  match nth_error all i with
  | Some c => other_has all 0 i (host c) p
  | None => false
  end.

Definition redir_port (c : site) : bytes := if beq (port c) P443 then [] else port c.
Definition redir_site (c : site) : site :=
  {| scheme := []; host := host c; port := P80; listen := listen c;
     tls := {| en := false; mg := false; mn := false; ss := false; nr := false; od := od (tls c); email := [] |};
     redir := Some (redir_port c) |}.

(* explicitly-HTTP sites (port 80 or scheme http) are skipped: MakeServers disables their TLS *)
Definition wants_redirect (all : list site) (i : nat) (c : site) : bool :=
  en (tls c) && negb (nr (tls c)) && negb (beq (port c) P80) && negb (beq (scheme c) HTTP)
  && negb (host_has_other_port all i P80)
  && (beq (port c) P443 || negb (host_has_other_port all i P443)).

(* `for i, cfg := range allConfigs` ranges over the ORIGINAL length while the list grows *)
Fixpoint mpr (n i : nat) (all : list site) : list site :=
  match n with
  | O => all
  | S n' =>
    match nth_error all i with
    | Some c => mpr n' (S i) (if wants_redirect all i c then all ++ [redir_site c] else all)
    | None => all
    end
  end.
Definition make_plaintext_redirects (all : list site) : list site := mpr (length all) 0 all.

(* ---- MakeServers: TLS off for explicitly-HTTP sites, scheme/port defaults; then
        groupSiteConfigsByListenAddr fills the default port ---- *)
Definition ms_one (s : site) : site :=
  let t := tls s in
  if en t then
    let s1 := if beq (port s) P80 || beq (scheme s) HTTP then with_tls s (set_en false t)
              else match scheme s with [] => with_scheme s HTTPS | _ => s end in
    if beq (port s1) [] && ((negb (mn t) && negb (ss t)) || od t) then with_port s1 P443 else s1
  else s.
Definition group_one (s : site) : site := match port s with [] => with_port s P2015 | _ => s end.

Definition stage_a (init : list site) : list site :=
  make_plaintext_redirects (map enable_one (map mark_one init)).
Definition stage_b (a : list site) : list site := map group_one (map ms_one a).
Definition pipeline (init : list site) : list site := stage_b (stage_a init).

(* ---- the redirect handler of a synthesised site ---- *)
Definition hexd (v : N) : N := if v <? 10 then 48 + v else 87 + v.
(* strconv.AppendInt(b, int64(c), 16): no zero padding (c >= 0x80 always has two digits) *)
Definition hex_escape_non_ascii (s : bytes) : bytes :=
  flat_map (fun c => if c <? 128 then [c] else [PERCENT; hexd (c / 16); hexd (c mod 16)]) s.

(* requestHost: net.SplitHostPort only decides whether r.Host carries a port; what is dropped is
   the ":port" suffix (strings.TrimSuffix(r.Host, ":"+port)), so an IPv6 literal keeps its brackets *)
Definition strip_port_go (hh : bytes) : bytes :=
  match split_host_port hh with
  | Some (_, p) => if has_suffix hh (COLON :: p) then firstn (length hh - S (length p)) hh else hh
  | None => hh
  end.

Definition redir_location (rport hosthdr uri : bytes) : bytes :=
  hex_escape_non_ascii
    (bs "https://" ++ strip_port_go hosthdr ++ (match rport with [] => [] | _ => COLON :: rport end) ++ uri).

(* what the handler answers: status, Location, and the Connection header it sets before http.Redirect *)
Definition redir_response (rport hosthdr uri : bytes) : N * bytes * bytes :=
  (301, redir_location rport hosthdr uri, bs "close").

(* ================================================================== executable spec *)
(* the property's own words, evaluated on the implementation's output *)

Record dsite := {
  ds_scheme : bytes; ds_port : bytes;               (* as written: scheme "", "http", "https"; port "", "80", "http", ... *)
  da_scheme : bytes; da_host : bytes; da_port : bytes;  (* Address after standardizeAddress + Normalize *)
  d_listen : bytes;                                 (* bind argument, "" when absent *)
  d_tls : tlsdir }.

(* observed site: what the harness reads off a *SiteConfig *)
Definition osite := site.

Definition declared_http (d : dsite) : bool :=
  beq (to_lower (ds_scheme d)) HTTP || beq (ds_port d) P80 || beq (ds_port d) HTTP.

Definition local_addr (a : bytes) : bool := is_loopback a || is_internal a.

(* "tls directive is not off, manual, self-signed or email off"; on-demand TLS lifts the manual
   restriction (the certificate is then obtained during handshakes) *)
Definition tlsdir_allows_managed (d : tlsdir) : bool :=
  match d with
  | TAbsent => true
  | TDir a load ond _ =>
    match a with
    | A1 e => negb (beq e (bs "off")) && negb (beq e (bs "self_signed")) && (negb load || ond)
    | A0 => negb load || ond
    | A2 => ond
    end
  end.
Definition tlsdir_on_demand (d : tlsdir) : bool :=
  match d with
  | TDir (A1 e) _ ond _ => ond && negb (beq e (bs "off"))
  | TDir _ _ ond _ => ond
  | TAbsent => false
  end.

Definition spec_qualifies (d : dsite) : bool :=
  (subject_public (da_host d) || tlsdir_on_demand d.(d_tls))
  && negb (local_addr (da_host d)) && negb (local_addr (d_listen d))
  && negb (declared_http d)
  && tlsdir_allows_managed (d_tls d).

Definition is_synth (s : site) : bool := match redir s with Some _ => true | None => false end.

(* S1: Managed exactly for the qualifying declared sites; never for synthesised ones *)
Fixpoint spec_managed (ds : list dsite) (obs : list osite) : bool :=
  match ds, obs with
  | d :: ds', o :: obs' => Bool.eqb (mg (tls o)) (spec_qualifies d) && negb (is_synth o) && spec_managed ds' obs'
  | [], _ => forallb (fun o => is_synth o && negb (mg (tls o))) obs
  | _ :: _, [] => false
  end.

(* S2: plain-HTTP declarations never end with TLS enabled; synthesised sites are plain HTTP on :80 *)
Fixpoint spec_http_no_tls (ds : list dsite) (obsb : list osite) : bool :=
  match ds, obsb with
  | d :: ds', o :: obs' => (negb (declared_http d) || negb (en (tls o))) && spec_http_no_tls ds' obs'
  | [], _ => forallb (fun o => negb (en (tls o)) && beq (port o) P80 && negb (beq (scheme o) HTTPS)) obsb
  | _ :: _, [] => false
  end.

(* S3: redirects.  [fin] = the final site list (declared sites first, then synthesised ones). *)
Definition declared_of (fin : list osite) : list osite := filter (fun o => negb (is_synth o)) fin.
Definition synth_of (fin : list osite) : list osite := filter is_synth fin.
Definition https_site (o : osite) : bool := en (tls o) && negb (beq (port o) P80) && negb (beq (scheme o) HTTP).
Definition has_plain_sibling (decl : list osite) (h : bytes) : bool :=
  existsb (fun o => beq (host o) h && beq (port o) P80) decl.
Definition target_matches (t : bytes) (o : osite) : bool :=
  (* the redirect names the site's port, omitted when it is the HTTPS default (or unspecified) *)
  match t with
  | [] => beq (port o) P443 || beq (port o) [] || beq (port o) P2015
  | _ => beq t (port o)
  end.
(* R1: every synthesised site redirects to an HTTPS site of the same host, never to the HTTP port,
       and only where the host has no plaintext site of its own *)
Definition spec_redirect_sound (fin : list osite) : bool :=
  let decl := declared_of fin in
  forallb (fun r =>
    match redir r with
    | Some t =>
      negb (beq t P80) && negb (beq t P443) && negb (has_plain_sibling decl (host r))
      && existsb (fun o => beq (host o) (host r) && https_site o && negb (nr (tls o)) && target_matches t o) decl
    | None => true
    end) fin.
(* R2: every HTTPS site without plaintext sibling (and without no_redirect) has its redirect site *)
Definition spec_redirect_complete (fin : list osite) : bool :=
  let decl := declared_of fin in
  let syn := synth_of fin in
  forallb (fun o => negb (https_site o) || nr (tls o) || has_plain_sibling decl (host o)
                    || existsb (fun r => beq (host r) (host o)) syn) decl.
(* R3: one redirect site per host *)
Fixpoint nodup_hosts (l : list osite) : bool :=
  match l with
  | [] => true
  | r :: l' => negb (existsb (fun x => beq (host x) (host r)) l') && nodup_hosts l'
  end.
Definition spec_redirects (fin : list osite) : bool :=
  spec_redirect_sound fin && spec_redirect_complete fin && nodup_hosts (synth_of fin).

(* the redirect handler: same host (port stripped, brackets kept), https, port omitted when default,
   same path and query.  [target] is the request-target as sent. *)
Definition all_digits (s : bytes) : bool := forallb is_digit s.
Definition spec_strip_port (hh : bytes) : bytes :=
  match last_index_byte COLON hh with
  | None => hh
  | Some i =>
    let h := firstn i hh in
    let p := skipn (S i) hh in
    if negb (contains_byte RBR p) && (negb (contains_byte COLON h) || (has_prefix h [LBR] && has_suffix h [RBR]))
    then h else hh
  end.
Definition safe_uri_char (c : N) : bool :=
  ((48 <=? c) && (c <=? 57)) || ((65 <=? c) && (c <=? 90)) || ((97 <=? c) && (c <=? 122))
  || contains_byte c (bs "-._~!$&'()*+,;=:@/").
Fixpoint safe_path (s : bytes) : bool :=
  match s with
  | [] => true
  | c :: r =>
    if c =? PERCENT then
      match r with
      | a :: b :: r' => match hex_digit a, hex_digit b with Some _, Some _ => safe_path r' | _, _ => false end
      | _ => false
      end
    else safe_uri_char c && safe_path r
  end.
Definition safe_target (t : bytes) : bool :=
  has_prefix t [SLASH] &&
  match index_byte 63 t with
  | None => safe_path t
  | Some q => safe_path (firstn q t) && forallb (fun c => safe_uri_char c || (c =? 63) || (c =? PERCENT)) (skipn (S q) t)
  end.
Definition host_char (c : N) : bool :=
  ((48 <=? c) && (c <=? 57)) || ((65 <=? c) && (c <=? 90)) || ((97 <=? c) && (c <=? 122))
  || contains_byte c (bs "-._:[]").
(* an IPv6 literal in a Host header is bracketed; unbracketed multi-colon values are not judged *)
Definition safe_host (h : bytes) : bool :=
  negb (beq h []) && forallb host_char h && (Nat.leb (count_byte COLON h) 1 || has_prefix h [LBR]).

Definition spec_location (rport hostsent target : bytes) : bytes :=
  bs "https://" ++ spec_strip_port hostsent ++ (match rport with [] => [] | _ => COLON :: rport end) ++ target.

(* ================================================================== cases *)
Inductive hlabel :=
| LLoopName | LLoopV4 | LLoopV6 | LPrivV4 | LPubV4 | LUlaV6 | LPubV6 | LPrivTld | LCertInternal
| LPublic | LEmpty | LBadChars | LWildOk | LWildBad | LAny.

(* expected (loopback, internal, public-cert) for a host built by construction for the label;
   None = not constrained *)
Definition expect (l : hlabel) : option bool * option bool * option bool :=
  match l with
  | LLoopName => (Some true, None, Some false)
  | LLoopV4 => (Some true, Some false, Some false)
  | LLoopV6 => (Some true, Some false, Some false)
  | LPrivV4 => (Some false, Some true, Some false)
  | LPubV4 => (Some false, Some false, Some false)
  | LUlaV6 => (Some false, Some true, Some false)
  | LPubV6 => (Some false, Some false, Some false)
  | LPrivTld => (Some false, Some true, None)
  | LCertInternal => (None, None, Some false)
  | LPublic => (Some false, Some false, Some true)
  | LEmpty => (Some false, Some false, Some false)
  | LBadChars => (None, None, Some false)
  | LWildOk => (Some false, Some false, Some true)
  | LWildBad => (None, None, Some false)
  | LAny => (None, None, None)
  end.
Definition meets (e : option bool) (o : bool) : bool := match e with None => true | Some b => Bool.eqb b o end.

(* ================================================================== process-level settings *)
(* httpserver.Port (-port), httpserver.Host (-host), certmagic.HTTPPort (-http-port), certmagic.HTTPSPort
   (-https-port) as strings; the functions above are the pipeline at [settings0].  What stays a literal in
   the code stays a literal here: caskettls.QualifiesForManagedTLS compares the port with "80", and
   InspectServerBlocks compares Port with DefaultPort "2015" / Host with DefaultHost "". *)
Record settings := { s_port : bytes; s_host : bytes; s_http : bytes; s_https : bytes }.
Definition settings0 : settings := {| s_port := P2015; s_host := []; s_http := P80; s_https := P443 |}.

Definition with_host (s : site) (x : bytes) : site :=
  {| scheme := scheme s; host := x; port := port s; listen := listen s; tls := tls s; redir := redir s |}.

(* standardizeAddress with the configured HTTP/HTTPS ports *)
Definition std_port_s (st : settings) (p : bytes) : bytes :=
  if beq p HTTPS then s_https st else if beq p HTTP then s_http st else p.
Definition std_addr_s (st : settings) (sch prt : bytes) : option (bytes * bytes) :=
  let sch := to_lower sch in
  let p0 := std_port_s st prt in
  let p := match p0 with
           | [] => if beq sch HTTP then s_http st else if beq sch HTTPS then s_https st else []
           | _ => p0
           end in
  if (beq sch HTTP && beq p (s_https st)) || (beq sch HTTPS && beq p (s_http st)) then None
  else
    let sch' := match sch with
                | [] => if beq p (s_http st) then HTTP else if beq p (s_https st) then HTTPS else []
                | _ => sch
                end in
    Some (sch', p).

(* InspectServerBlocks, after standardizeAddress and Normalize: "fill in address components from
   command line" — the scheme is NOT inferred again *)
Definition default_host_s (st : settings) (h : bytes) : bytes :=
  match h with [] => (match s_host st with [] => h | _ => s_host st end) | _ => h end.
Definition default_port_s (st : settings) (p : bytes) : bytes :=
  match p with [] => if beq (s_port st) P2015 then p else s_port st | _ => p end.

Definition enable_one_s (st : settings) (s : site) : site :=
  let t := tls s in
  if mg t && negb (od t) then
    let s1 := with_scheme (with_tls s (set_en true t)) HTTPS in
    if beq (port s1) [] && (negb (mn t) || od t) && negb (beq (host s1) (bs "localhost"))
    then with_port s1 (s_https st) else s1
  else s.

Definition redir_port_s (st : settings) (c : site) : bytes := if beq (port c) (s_https st) then [] else port c.
Definition redir_site_s (st : settings) (c : site) : site :=
  {| scheme := []; host := host c; port := s_http st; listen := listen c;
     tls := {| en := false; mg := false; mn := false; ss := false; nr := false; od := od (tls c); email := [] |};
     redir := Some (redir_port_s st c) |}.
Definition wants_redirect_s (st : settings) (all : list site) (i : nat) (c : site) : bool :=
  en (tls c) && negb (nr (tls c)) && negb (beq (port c) (s_http st)) && negb (beq (scheme c) HTTP)
  && negb (host_has_other_port all i (s_http st))
  && (beq (port c) (s_https st) || negb (host_has_other_port all i (s_https st))).
Fixpoint mpr_s (st : settings) (n i : nat) (all : list site) : list site :=
  match n with
  | O => all
  | S n' =>
    match nth_error all i with
    | Some c => mpr_s st n' (S i) (if wants_redirect_s st all i c then all ++ [redir_site_s st c] else all)
    | None => all
    end
  end.
Definition make_plaintext_redirects_s (st : settings) (all : list site) : list site := mpr_s st (length all) 0 all.

(* MakeServers' per-site loop: "make sure TLS is disabled for explicitly-HTTP sites":
   cfg.Addr.Port == httpPort || cfg.Addr.Scheme == "http" *)
Definition ms_one_s (st : settings) (s : site) : site :=
  let t := tls s in
  if en t then
    let s1 := if beq (port s) (s_http st) || beq (scheme s) HTTP then with_tls s (set_en false t)
              else match scheme s with [] => with_scheme s HTTPS | _ => s end in
    if beq (port s1) [] && ((negb (mn t) && negb (ss t)) || od t) then with_port s1 (s_https st) else s1
  else s.
Definition group_one_s (st : settings) (s : site) : site := match port s with [] => with_port s (s_port st) | _ => s end.

Definition stage_a_s (st : settings) (init : list site) : list site :=
  make_plaintext_redirects_s st (map (enable_one_s st) (map mark_one init)).
Definition stage_b_s (st : settings) (a : list site) : list site := map (group_one_s st) (map (ms_one_s st) a).
Definition pipeline_s (st : settings) (init : list site) : list site := stage_b_s st (stage_a_s st init).

(* ---- executable spec under settings, on the implementation's own observations ---- *)
(* a site is a plain-HTTP site when its scheme is http or its EFFECTIVE port (whatever its source: the
   address text, the scheme, or the default-port setting) is the HTTP port *)
Definition http_site_s (st : settings) (o : osite) : bool := beq (port o) (s_http st) || beq (scheme o) HTTP.
Definition declared_http_s (st : settings) (d : dsite) : bool :=
  declared_http d || beq (da_scheme d) HTTP || beq (da_port d) P80 || beq (da_port d) (s_http st).
Definition spec_qualifies_s (st : settings) (d : dsite) : bool :=
  (subject_public (da_host d) || tlsdir_on_demand d.(d_tls))
  && negb (local_addr (da_host d)) && negb (local_addr (d_listen d))
  && negb (declared_http_s st d)
  && tlsdir_allows_managed (d_tls d).
Fixpoint spec_managed_s (st : settings) (ds : list dsite) (obs : list osite) : bool :=
  match ds, obs with
  | d :: ds', o :: obs' => Bool.eqb (mg (tls o)) (spec_qualifies_s st d) && negb (is_synth o) && spec_managed_s st ds' obs'
  | [], _ => forallb (fun o => is_synth o && negb (mg (tls o))) obs
  | _ :: _, [] => false
  end.
(* S2 under settings: after MakeServers no plain-HTTP site has TLS enabled or the scheme https;
   synthesised sites are plain sites on the HTTP port *)
Definition spec_http_site_no_tls_s (st : settings) (obsb : list osite) : bool :=
  forallb (fun o => negb (http_site_s st o) || (negb (en (tls o)) && negb (beq (scheme o) HTTPS))) obsb
  && forallb (fun o => negb (is_synth o) || (negb (en (tls o)) && beq (port o) (s_http st))) obsb.
(* the servers MakeServers built: (listener port, has a TLS configuration) *)
Definition spec_servers_s (st : settings) (srv : list (bytes * bool)) : bool :=
  forallb (fun x => negb (beq (fst x) (s_http st)) || negb (snd x)) srv.

Definition https_site_s (st : settings) (o : osite) : bool :=
  en (tls o) && negb (beq (port o) (s_http st)) && negb (beq (scheme o) HTTP).
Definition has_plain_sibling_s (st : settings) (decl : list osite) (h : bytes) : bool :=
  existsb (fun o => beq (host o) h && beq (port o) (s_http st)) decl.
Definition target_matches_s (st : settings) (t : bytes) (o : osite) : bool :=
  match t with
  | [] => beq (port o) (s_https st) || beq (port o) [] || beq (port o) (s_port st)
  | _ => beq t (port o)
  end.
Definition spec_redirect_sound_s (st : settings) (fin : list osite) : bool :=
  let decl := declared_of fin in
  forallb (fun r =>
    match redir r with
    | Some t =>
      negb (beq t (s_http st)) && negb (beq t (s_https st)) && negb (has_plain_sibling_s st decl (host r))
      && existsb (fun o => beq (host o) (host r) && https_site_s st o && negb (nr (tls o)) && target_matches_s st t o) decl
    | None => true
    end) fin.
Definition spec_redirect_complete_s (st : settings) (fin : list osite) : bool :=
  let decl := declared_of fin in
  let syn := synth_of fin in
  forallb (fun o => negb (https_site_s st o) || nr (tls o) || has_plain_sibling_s st decl (host o)
                    || existsb (fun r => beq (host r) (host o)) syn) decl.
Definition spec_redirects_s (st : settings) (fin : list osite) : bool :=
  spec_redirect_sound_s st fin && spec_redirect_complete_s st fin && nodup_hosts (synth_of fin).


Inductive case :=
(* whole pipeline on a set of declared sites; obs_a after the parsing callback's stages,
   obs_b after MakeServers (None when MakeServers was not run) *)
| CPipe (ds : list dsite) (obs_a : list osite) (obs_b : option (list osite))
(* the same under process-level settings (-port, -host, -http-port, -https-port): whosts = the host of each
   declaration as written ("" = none), srv = (listener port, has TLS config) of the servers MakeServers built *)
| CPipeS (st : settings) (whosts : list bytes) (ds : list dsite) (obs_a : list osite) (obs_b : option (list osite))
         (srv : list (bytes * bool))
(* the tls directive alone failed to set up *)
| CSetupErr (d : tlsdir)
(* standardizeAddress rejected the declaration *)
| CAddrErr (sch prt : bytes)
(* one request to a synthesised redirect site: handler inputs r.Host and r.URL.RequestURI() as net/http
   parsed them, the raw Host/target sent, observed status and Location *)
| CRedir (rport hosthdr uri hostsent target : bytes) (obs_status : N) (obs_loc obs_conn : bytes)
(* classifiers on one string *)
| CClass (l : hlabel) (s : bytes) (o_loop o_int o_pub : bool)
| CIP (s : bytes) (obs : option (list N))
(* IPNet.Contains of the four private networks (parsed by net.ParseCIDR in the harness) on net.ParseIP(s) *)
| CNet (s : bytes) (obs : list bool)
| CSplit (s : bytes) (obs : option (bytes * bytes))
(* input the harness could not turn into a run (e.g. net/http rejected the request line) *)
| CSkip.

Definition tlsf_eqb (a b : tlsf) : bool :=
  Bool.eqb (en a) (en b) && Bool.eqb (mg a) (mg b) && Bool.eqb (mn a) (mn b) && Bool.eqb (ss a) (ss b)
  && Bool.eqb (nr a) (nr b) && Bool.eqb (od a) (od b) && beq (email a) (email b).
Definition obytes_eqb (a b : option bytes) : bool :=
  match a, b with Some x, Some y => beq x y | None, None => true | _, _ => false end.
Definition site_eqb (a b : site) : bool :=
  beq (scheme a) (scheme b) && beq (host a) (host b) && beq (port a) (port b) && beq (listen a) (listen b)
  && tlsf_eqb (tls a) (tls b) && obytes_eqb (redir a) (redir b).

Definition init_site (d : dsite) : option site :=
  match tls_setup (d_tls d) with
  | Some t => Some {| scheme := da_scheme d; host := da_host d; port := da_port d; listen := d_listen d;
                      tls := t; redir := None |}
  | None => None
  end.
Fixpoint init_sites (ds : list dsite) : option (list site) :=
  match ds with
  | [] => Some []
  | d :: r => match init_site d, init_sites r with
              | Some s, Some l => Some (s :: l)
              | _, _ => None
              end
  end.

Definition addr_agrees (d : dsite) : bool :=
  match std_addr (ds_scheme d) (ds_port d) with
  | Some (sc, p) => beq sc (da_scheme d) && beq p (da_port d)
  | None => false
  end.

Definition addr_agrees_s (st : settings) (d : dsite) : bool :=
  match std_addr_s st (ds_scheme d) (ds_port d) with
  | Some (sc, p) => beq sc (da_scheme d) && beq (default_port_s st p) (da_port d)
  | None => false
  end.
(* a declaration without host gets the default host; other hosts come from url.Parse + Normalize (oracle) *)
Fixpoint hosts_agree_s (st : settings) (wh : list bytes) (ds : list dsite) : bool :=
  match wh, ds with
  | w :: wh', d :: ds' => (match w with [] => beq (da_host d) (default_host_s st []) | _ => true end) && hosts_agree_s st wh' ds'
  | [], [] => true
  | _, _ => false
  end.

Definition judge (c : case) : N :=
  match c with
  | CPipe ds oa ob =>
      let agree :=
        forallb addr_agrees ds &&
        (* Address.Normalize: site hosts reach the (case-sensitive) classifiers lower-cased *)
        forallb (fun d => beq (to_lower (da_host d)) (da_host d)) ds &&
        match init_sites ds with
        | None => false
        | Some init =>
          let a := stage_a init in
          list_beq site_eqb a oa &&
          match ob with Some b => list_beq site_eqb (stage_b a) b | None => true end
        end in
      let spec :=
        spec_managed ds oa &&
        match ob with
        | Some b => spec_http_no_tls ds b && spec_redirects b
        | None => true
        end in
      verdict agree spec
  | CPipeS st wh ds oa ob srv =>
      let agree :=
        forallb (addr_agrees_s st) ds && hosts_agree_s st wh ds &&
        forallb (fun d => beq (to_lower (da_host d)) (da_host d)) ds &&
        match init_sites ds with
        | None => false
        | Some init =>
          let a := stage_a_s st init in
          list_beq site_eqb a oa &&
          match ob with Some b => list_beq site_eqb (stage_b_s st a) b | None => true end
        end in
      let spec :=
        spec_managed_s st ds oa &&
        match ob with
        | Some b => spec_http_site_no_tls_s st b && spec_redirects_s st b && spec_servers_s st srv
        | None => true
        end in
      verdict agree spec
  | CSetupErr d => verdict (match tls_setup d with None => true | Some _ => false end) true
  | CAddrErr sch prt => verdict (match std_addr sch prt with None => true | Some _ => false end) true
  | CRedir rport hh uri hs target st loc conn =>
      let '(mst, mloc, mconn) := redir_response rport hh uri in
      let agree := (st =? mst) && beq mloc loc && beq mconn conn in
      let spec :=
        (st =? 301) && has_prefix loc (bs "https://") &&
        (if safe_host hs && safe_target target then beq loc (spec_location rport hs target) else true) in
      verdict agree spec
  | CClass l s ol oi op =>
      let agree := Bool.eqb (is_loopback s) ol && Bool.eqb (is_internal s) oi && Bool.eqb (subject_public s) op in
      let '(el, ei, ep) := expect l in
      verdict agree (meets el ol && meets ei oi && meets ep op)
  | CIP s obs =>
      verdict (match parse_ip s, obs with
               | Some a, Some b => list_beq N.eqb a b
               | None, None => true
               | _, _ => false
               end) true
  | CNet s obs =>
      match parse_ip s with
      | Some ip =>
          verdict (list_beq Bool.eqb (map (fun n => ipnet_contains n ip) gen_c15_private_nets) obs)
                  (Bool.eqb (existsb (fun b => b) obs) (in_private_net_closed ip))
      | None => verdict (match obs with [] => true | _ => false end) true
      end
  | CSplit s obs =>
      verdict (match split_host_port s, obs with
               | Some (h, p), Some (h', p') => beq h h' && beq p p'
               | None, None => true
               | _, _ => false
               end) true
  | CSkip => 0
  end.
