Require Import V.Lib V.GoPath V.GoNet V.C01_Model.
From Coq Require Import Permutation ZifyBool ZifyN.
Open Scope N_scope.

(* ---------- longest path prefix ---------- *)
Lemma match_path_from_spec t h path : forall k s q,
  match_path_from t h path k = Some (s, q) ->
  exists j, (1 <= j <= k)%nat /\ q = firstn j path /\ lookup t h q = Some s /\
            forall j', (j < j' <= k)%nat -> lookup t h (firstn j' path) = None.
Proof.
  induction k as [|k IH]; intros s q H; cbn [match_path_from] in H; [discriminate|].
  destruct (lookup t h (firstn (S k) path)) as [s'|] eqn:E.
  - injection H as <- <-. exists (S k). split; [lia|]. split; [reflexivity|]. split; [exact E|]. intros j' Hj. lia.
  - destruct (IH _ _ H) as (j & Hj & Hq & Hl & Hn). exists j. split; [lia|]. split; [exact Hq|]. split; [exact Hl|].
    intros j' Hj'. destruct (Nat.eq_dec j' (S k)) as [->|Hne]; [exact E|]. apply Hn. lia.
Qed.

Lemma match_path_from_none t h path : forall k,
  match_path_from t h path k = None ->
  forall j, (1 <= j <= k)%nat -> lookup t h (firstn j path) = None.
Proof.
  induction k as [|k IH]; intros H j Hj; [lia|]. cbn [match_path_from] in H.
  destruct (lookup t h (firstn (S k) path)) eqn:E; [discriminate|].
  destruct (Nat.eq_dec j (S k)) as [->|Hne]; [exact E|]. apply IH; auto. lia.
Qed.

Lemma has_prefix_firstn : forall (p s : bytes), has_prefix s p = true -> p = firstn (length p) s.
Proof.
  induction p as [|y p IH]; intros [|x s] H; simpl in *; try reflexivity; try discriminate.
  apply andb_true_iff in H as [H1 H2]. apply N.eqb_eq in H1. subst. f_equal. apply IH. exact H2.
Qed.

Lemma has_prefix_length : forall (p s : bytes), has_prefix s p = true -> (length p <= length s)%nat.
Proof.
  induction p as [|y p IH]; intros [|x s] H; simpl in *; try lia; try discriminate.
  apply andb_true_iff in H as [_ H2]. specialize (IH _ H2). lia.
Qed.

(* The site chosen owns the LONGEST stored path that is a byte-wise prefix of the request path. *)
Theorem match_path_longest t h path s q :
  match_path t h path = Some (s, q) ->
  has_prefix path q = true /\ q <> [] /\ lookup t h q = Some s /\
  forall q', q' <> [] -> has_prefix path q' = true -> lookup t h q' <> None ->
             (length q' <= length q)%nat.
Proof.
  unfold match_path. intros H. apply match_path_from_spec in H as (j & Hj & -> & Hl & Hn).
  assert (Hlen : length (firstn j path) = j) by (rewrite firstn_length; lia).
  repeat split.
  - clear. revert j. induction path as [|c path IH]; intros [|j]; simpl; auto.
    rewrite N.eqb_refl. apply IH.
  - intro E. rewrite E in Hlen. simpl in Hlen. lia.
  - exact Hl.
  - intros q' Hne Hp Hs. rewrite Hlen.
    destruct (Nat.le_gt_cases (length q') j) as [|Hgt]; [assumption|].
    exfalso. apply Hs. rewrite (has_prefix_firstn _ _ Hp). apply Hn.
    split; [exact Hgt|]. apply has_prefix_length. exact Hp.
Qed.

Theorem match_path_none t h path :
  match_path t h path = None ->
  forall q', q' <> [] -> has_prefix path q' = true -> lookup t h q' = None.
Proof.
  unfold match_path. intros H q' Hne Hp. rewrite (has_prefix_firstn _ _ Hp).
  apply match_path_from_none with (k := length path); auto.
  split; [destruct q'; [congruence|simpl; lia] | apply has_prefix_length; exact Hp].
Qed.

(* ---------- most specific host ---------- *)
Lemma find_first {A} (P : A -> bool) : forall l x,
  find P l = Some x -> exists pre post, l = pre ++ x :: post /\ P x = true /\
                                         forall y, In y pre -> P y = false.
Proof.
  induction l as [|a l IH]; intros x H; simpl in H; [discriminate|].
  destruct (P a) eqn:E.
  - injection H as <-. exists [], l. repeat split; auto. intros y [].
  - destruct (IH _ H) as (pre & post & -> & Px & Hpre). exists (a :: pre), post.
    repeat split; auto. intros y [<-|Hy]; auto.
Qed.

(* The host key used is the FIRST candidate present: the exact name if it is declared, otherwise
   the wildcard pattern with the fewest leading "*" labels. *)
Theorem match_host_most_specific t host k :
  match_host t host = Some k ->
  host_present t k = true /\
  (k = host \/
   host_present t host = false /\
   exists j, (1 <= j <= length (split DOT host))%nat /\
     k = join [DOT] (star_labels j (split DOT host)) /\
     forall j', (1 <= j' < j)%nat ->
       host_present t (join [DOT] (star_labels j' (split DOT host))) = false).
Proof.
  unfold match_host, host_candidates. intros H. cbn [find] in H.
  destruct (host_present t host) eqn:Eh.
  - injection H as <-. auto.
  - unfold wildcard_candidates in H. set (labels := split DOT host) in *.
    apply find_first in H as (pre & post & Hsplit & Pk & Hpre). split; [exact Pk|]. right.
    split; [reflexivity|].
    (* position of k in the mapped seq *)
    assert (Hlen : (length pre < length labels)%nat).
    { apply (f_equal (@length _)) in Hsplit. rewrite map_length, seq_length, app_length in Hsplit.
      simpl in Hsplit. lia. }
    exists (S (length pre)). split; [lia|]. split.
    + apply (f_equal (fun l => nth (length pre) l [])) in Hsplit.
      rewrite nth_middle in Hsplit. rewrite <- Hsplit.
      rewrite (nth_indep _ [] (join [DOT] (star_labels 0 labels)))
        by (rewrite map_length, seq_length; lia).
      rewrite map_nth with (d := 0%nat). rewrite seq_nth by lia. reflexivity.
    + intros j' Hj'. apply Hpre.
      assert (Hn : nth (j' - 1) (map (fun k0 => join [DOT] (star_labels k0 labels)) (seq 1 (length labels)))
                       (join [DOT] (star_labels 0 labels)) = join [DOT] (star_labels j' labels)).
      { rewrite map_nth with (d := 0%nat). rewrite seq_nth by lia. f_equal. f_equal. lia. }
      rewrite Hsplit in Hn. rewrite app_nth1 in Hn by lia. rewrite <- Hn. apply nth_In. lia.
Qed.

Theorem exact_host_wins t host : host_present t host = true -> match_host t host = Some host.
Proof. intros H. unfold match_host, host_candidates. cbn [find]. rewrite H. reflexivity. Qed.

(* ---------- not found ---------- *)
Theorem not_found_status t xf hh up proto st :
  serve t xf hh up proto = NotFound st -> st = (if 2 <=? proto then 421 else 404).
Proof.
  unfold serve. destruct (trie_match _ _ _) as [[s p]|]; [discriminate|].
  intros H; injection H as <-. reflexivity.
Qed.

(* ---------- order independence ---------- *)
Definition key_of (s : bytes * N) : bytes * bytes := split_host_path (fst s).
Definition entry_of (s : bytes * N) : entry :=
  {| e_host := fst (key_of s); e_path := snd (key_of s); e_site := snd s |}.

Lemma same_key_iff h p e : same_key h p e = true <-> (e_host e, e_path e) = (h, p).
Proof.
  unfold same_key. rewrite andb_true_iff, !beq_eq. split; [intros [-> ->]; reflexivity|].
  intros H; injection H as -> ->. auto.
Qed.

Lemma insert_entry t s : insert t (fst s) (snd s) =
  entry_of s :: filter (fun e => negb (same_key (fst (key_of s)) (snd (key_of s)) e)) t.
Proof. unfold insert, entry_of, key_of. destruct (split_host_path (fst s)). reflexivity. Qed.

Lemma build_snoc sites s : build (sites ++ [s]) = insert (build sites) (fst s) (snd s).
Proof. unfold build. rewrite fold_left_app. reflexivity. Qed.

Lemma filter_all_true {A} (P : A -> bool) l : (forall x, In x l -> P x = true) -> filter P l = l.
Proof.
  induction l as [|a l IH]; intros H; simpl; [reflexivity|].
  rewrite (H a (or_introl eq_refl)). f_equal. apply IH. intros x Hx. apply H. right. exact Hx.
Qed.

Lemma build_distinct : forall sites, NoDup (map key_of sites) -> build sites = rev (map entry_of sites).
Proof.
  induction sites as [|s sites IH] using rev_ind; intros Hnd; [reflexivity|].
  rewrite build_snoc, insert_entry, map_app, rev_app_distr. cbn [map rev app].
  rewrite map_app in Hnd. cbn [map] in Hnd. apply NoDup_remove in Hnd as [Hnd' Hnotin].
  rewrite app_nil_r in Hnd', Hnotin. rewrite IH by exact Hnd'. f_equal.
  apply filter_all_true. intros e He. apply negb_true_iff.
  destruct (same_key _ _ e) eqn:E; [|reflexivity]. exfalso. apply Hnotin.
  apply same_key_iff in E. apply in_rev in He. apply in_map_iff in He as (s' & <- & Hs').
  apply in_map_iff. exists s'. split; [|exact Hs'].
  unfold entry_of in E. cbn in E. destruct (key_of s'), (key_of s). cbn in E. exact E.
Qed.

Lemma find_unique_perm (l l' : list entry) h p :
  NoDup (map (fun e => (e_host e, e_path e)) l) -> Permutation l l' ->
  find (same_key h p) l = find (same_key h p) l'.
Proof.
  intros Hnd Hperm.
  destruct (find (same_key h p) l) as [e|] eqn:E.
  - apply find_some in E as [Hin Hk].
    destruct (find (same_key h p) l') as [e'|] eqn:E'.
    + apply find_some in E' as [Hin' Hk']. f_equal.
      apply same_key_iff in Hk, Hk'.
      apply (Permutation_in _ (Permutation_sym Hperm)) in Hin'.
      (* two entries of l with the same key are equal *)
      clear - Hnd Hin Hin' Hk Hk'. induction l as [|a l IH]; [contradiction|].
      simpl in Hnd. inversion Hnd as [|x xs Hnotin Hnd']; subst.
      destruct Hin as [->|Hin], Hin' as [->|Hin']; auto.
      * exfalso. apply Hnotin. apply in_map_iff. exists e'. split; [congruence|exact Hin'].
      * exfalso. apply Hnotin. apply in_map_iff. exists e. split; [congruence|exact Hin].
    + exfalso. pose proof (find_none _ _ E' e (Permutation_in _ Hperm Hin)) as Hk2. congruence.
  - destruct (find (same_key h p) l') as [e'|] eqn:E'; [|reflexivity].
    apply find_some in E' as [Hin' Hk'].
    rewrite (find_none _ _ E e' (Permutation_in _ (Permutation_sym Hperm) Hin')) in Hk'. discriminate.
Qed.

Lemma entries_keys sites :
  map (fun e => (e_host e, e_path e)) (map entry_of sites) = map key_of sites.
Proof.
  rewrite map_map. apply map_ext. intros s. unfold entry_of. cbn. destruct (key_of s). reflexivity.
Qed.

Lemma existsb_perm {A} (P : A -> bool) l l' : Permutation l l' -> existsb P l = existsb P l'.
Proof.
  induction 1 as [|x l l' _ IH|x y l|l l' l'' _ IH1 _ IH2]; simpl.
  - reflexivity.
  - rewrite IH. reflexivity.
  - destruct (P x), (P y); reflexivity.
  - congruence.
Qed.

Lemma lookup_perm sites sites' h p :
  NoDup (map key_of sites) -> Permutation sites sites' ->
  lookup (build sites) h p = lookup (build sites') h p.
Proof.
  intros Hnd Hperm.
  assert (Hnd' : NoDup (map key_of sites')) by
    (eapply Permutation_NoDup; [apply Permutation_map; exact Hperm | exact Hnd]).
  rewrite !build_distinct by assumption. unfold lookup.
  rewrite (find_unique_perm (rev (map entry_of sites)) (rev (map entry_of sites')) h p); [reflexivity| |].
  - rewrite map_rev, entries_keys. apply NoDup_rev. exact Hnd.
  - eapply Permutation_trans; [apply Permutation_sym, Permutation_rev|].
    eapply Permutation_trans; [|apply Permutation_rev]. apply Permutation_map. exact Hperm.
Qed.

Lemma host_present_perm sites sites' h :
  NoDup (map key_of sites) -> Permutation sites sites' ->
  host_present (build sites) h = host_present (build sites') h.
Proof.
  intros Hnd Hperm.
  assert (Hnd' : NoDup (map key_of sites')) by
    (eapply Permutation_NoDup; [apply Permutation_map; exact Hperm | exact Hnd]).
  rewrite !build_distinct by assumption. unfold host_present. apply existsb_perm.
  eapply Permutation_trans; [apply Permutation_sym, Permutation_rev|].
  eapply Permutation_trans; [|apply Permutation_rev]. apply Permutation_map. exact Hperm.
Qed.

(* everything downstream depends on the table only through lookup and host_present *)
Lemma match_path_from_ext t t' h path :
  (forall p, lookup t h p = lookup t' h p) ->
  forall k, match_path_from t h path k = match_path_from t' h path k.
Proof. intros H. induction k as [|k IH]; simpl; [reflexivity|]. rewrite H, IH. reflexivity. Qed.

Lemma first_some_ext {A B} (f g : A -> option B) l :
  (forall x, f x = g x) -> first_some f l = first_some g l.
Proof. intros H. induction l as [|a l IH]; simpl; [reflexivity|]. rewrite H, IH. reflexivity. Qed.

Lemma find_ext' {A} (f g : A -> bool) l : (forall x, f x = g x) -> find f l = find g l.
Proof. intros H. induction l as [|a l IH]; simpl; [reflexivity|]. rewrite H, IH. reflexivity. Qed.

Lemma serve_ext t t' xf hh up proto :
  (forall h p, lookup t h p = lookup t' h p) ->
  (forall h, host_present t h = host_present t' h) ->
  serve t xf hh up proto = serve t' xf hh up proto.
Proof.
  intros Hl Hp. unfold serve, trie_match.
  destruct (split_host_path (strip_port hh ++ up)) as [host path].
  assert (Hm : forall h, match_host t h = match_host t' h).
  { intros h. unfold match_host. apply find_ext'. exact Hp. }
  rewrite (first_some_ext (match_host t) (match_host t') _ Hm).
  destruct (first_some (match_host t') _) as [hk|]; [|reflexivity].
  unfold match_path. rewrite (match_path_from_ext t t' hk path (Hl hk)). reflexivity.
Qed.

(* The outcome never depends on the order in which the sites were declared. *)
Theorem route_order_independent sites sites' xf hh up proto :
  NoDup (map key_of sites) -> Permutation sites sites' ->
  serve (build sites) xf hh up proto = serve (build sites') xf hh up proto.
Proof.
  intros Hnd Hperm. apply serve_ext.
  - intros h p. apply lookup_perm; assumption.
  - intros h. apply host_present_perm; assumption.
Qed.

(* the routed site is one of the declared ones, reached through a key it owns; exactly one site
   is chosen (serve is a function) and its path key is a prefix of the request path *)
Theorem serve_site_declared sites xf hh up proto s prefix :
  NoDup (map key_of sites) ->
  serve (build sites) xf hh up proto = Site s prefix ->
  exists key, In (key, s) sites /\ snd (split_host_path key) = prefix /\
              has_prefix (snd (split_host_path (strip_port hh ++ up))) prefix = true.
Proof.
  intros Hnd. unfold serve, trie_match.
  destruct (split_host_path (strip_port hh ++ up)) as [host path] eqn:Esp. cbn [snd].
  destruct (first_some _ _) as [hk|]; [|discriminate].
  destruct (match_path (build sites) hk path) as [[s' q]|] eqn:Em; [|discriminate].
  intros H; injection H as <- <-.
  apply match_path_longest in Em as (Hp & _ & Hl & _).
  unfold lookup in Hl. destruct (find _ _) as [e|] eqn:Ef; [|discriminate]. injection Hl as <-.
  apply find_some in Ef as [Hin Hk]. apply same_key_iff in Hk.
  rewrite build_distinct in Hin by exact Hnd. apply in_rev in Hin.
  apply in_map_iff in Hin as ([key sid] & <- & Hs).
  exists key. split; [exact Hs|]. split; [|exact Hp].
  unfold entry_of, key_of in Hk. cbn in Hk. injection Hk as _ Hq. exact Hq.
Qed.

(* ====================================================================================== *)
(* The real trie (vtrie: edges keyed by string(byte), insert_path / tmatch_path walking the *)
(* key) refines the finite map.                                                            *)
(* ====================================================================================== *)

Lemma edge_get_upd_same k f es :
  edge_get k (edge_upd k f es) =
  Some (f (match edge_get k es with Some t => t | None => empty_trie end)).
Proof.
  induction es as [|[k' t] es IH]; simpl.
  - rewrite beq_refl. reflexivity.
  - destruct (beq k' k) eqn:E; simpl; rewrite E; [reflexivity|exact IH].
Qed.

Lemma edge_get_upd_other k k' f es : k <> k' -> edge_get k' (edge_upd k f es) = edge_get k' es.
Proof.
  intros Hne. induction es as [|[k0 t] es IH]; simpl.
  - destruct (beq k k') eqn:E; [apply beq_eq in E; contradiction|reflexivity].
  - destruct (beq k0 k) eqn:E; simpl.
    + apply beq_eq in E. subst k0.
      destruct (beq k k') eqn:E2; [apply beq_eq in E2; contradiction|reflexivity].
    + rewrite IH. reflexivity.
Qed.

(* a Go map holds each key once: edge_upd keeps that *)
Definition edge_keys (es : list (bytes * vtrie)) : list bytes := map fst es.
Lemma edge_upd_keys_nodup k f es : NoDup (edge_keys es) -> NoDup (edge_keys (edge_upd k f es)).
Proof.
  induction es as [|[k' t] es IH]; intros Hnd; simpl.
  - constructor; [intros []|constructor].
  - destruct (beq k' k) eqn:E; simpl.
    + exact Hnd.
    + inversion Hnd as [|x xs Hnotin Hnd']; subst. constructor; [|apply IH; exact Hnd'].
      intro Hin. apply Hnotin. clear - Hin E. induction es as [|[k0 t0] es IH]; simpl in *.
      * destruct Hin as [<-|[]]. rewrite beq_refl in E. discriminate.
      * destruct (beq k0 k); simpl in Hin; destruct Hin as [<-|Hin]; auto.
Qed.

Lemma edge_key_inj c c' : edge_key c = edge_key c' -> c = c'.
Proof.
  unfold edge_key. destruct (c <? 128) eqn:E1, (c' <? 128) eqn:E2; intros H; try discriminate.
  - injection H; auto.
  - assert (H1 : 192 + c / 64 = 192 + c' / 64) by congruence.
    assert (H2 : 128 + c mod 64 = 128 + c' mod 64) by congruence.
    apply N.add_cancel_l in H1, H2.
    rewrite (N.div_mod c 64), (N.div_mod c' 64) by discriminate. rewrite H1, H2. reflexivity.
Qed.

Lemma get_empty k : get k empty_trie = None.
Proof. destruct k; reflexivity. Qed.

(* get after insert *)
Lemma get_insert_same : forall k o s t, get k (insert_path k o s t) = Some (s, o).
Proof.
  induction k as [|c k IH]; intros o s t; [reflexivity|].
  cbn [insert_path get t_edges]. rewrite edge_get_upd_same. apply IH.
Qed.

Lemma get_insert_other : forall k k' o s t, k <> k' -> get k' (insert_path k o s t) = get k' t.
Proof.
  induction k as [|c k IH]; intros [|c' k'] o s t Hne; cbn [insert_path get t_edges t_site];
    try reflexivity; try congruence.
  destruct (N.eq_dec c c') as [->|Hc].
  - rewrite edge_get_upd_same.
    destruct (edge_get (edge_key c') (t_edges t)) as [n|]; rewrite IH by congruence;
      [reflexivity|apply get_empty].
  - rewrite edge_get_upd_other; [reflexivity|]. intro E. apply edge_key_inj in E. contradiction.
Qed.

(* matchPath = the longest stored prefix *)
Fixpoint longest_from {V} (g : bytes -> option V) (path : bytes) (k : nat) : option V :=
  match k with
  | O => None
  | S k' => match g (firstn (S k') path) with Some v => Some v | None => longest_from g path k' end
  end.

Lemma longest_from_cons t c r next :
  edge_get (edge_key c) (t_edges t) = Some next ->
  forall k, longest_from (fun q => get q t) (c :: r) (S k) =
            match longest_from (fun q => get q next) r k with Some v => Some v | None => t_site next end.
Proof.
  intros E. induction k as [|k IH].
  - cbn [longest_from firstn get]. rewrite E. destruct (t_site next); reflexivity.
  - change (longest_from (fun q => get q t) (c :: r) (S (S k)))
      with (match get (c :: firstn (S k) r) t with
            | Some v => Some v | None => longest_from (fun q => get q t) (c :: r) (S k) end).
    cbn [get]. rewrite E. cbn [longest_from].
    destruct (get (firstn (S k) r) next); [reflexivity|exact IH].
Qed.

Lemma longest_from_no_edge t c r :
  edge_get (edge_key c) (t_edges t) = None ->
  forall k, longest_from (fun q => get q t) (c :: r) k = None.
Proof.
  intros E. induction k as [|k IH]; [reflexivity|].
  change (longest_from (fun q => get q t) (c :: r) (S k))
    with (match get (c :: firstn k r) t with
          | Some v => Some v | None => longest_from (fun q => get q t) (c :: r) k end).
  cbn [get]. rewrite E. exact IH.
Qed.

Lemma tmatch_path_longest_from : forall rem t acc,
  tmatch_path rem t acc =
  match longest_from (fun q => get q t) rem (length rem) with Some v => Some v | None => acc end.
Proof.
  induction rem as [|c r IH]; intros t acc; [reflexivity|].
  cbn [tmatch_path length]. destruct (edge_get (edge_key c) (t_edges t)) as [next|] eqn:E.
  - rewrite IH, (longest_from_cons _ _ _ _ E).
    destruct (longest_from (fun q => get q next) r (length r)); [reflexivity|].
    destruct (t_site next); reflexivity.
  - rewrite (longest_from_no_edge _ _ _ E). reflexivity.
Qed.

Lemma longest_from_some {V} (g : bytes -> option V) path : forall k v,
  longest_from g path k = Some v ->
  exists j, (1 <= j <= k)%nat /\ g (firstn j path) = Some v /\
            forall j', (j < j' <= k)%nat -> g (firstn j' path) = None.
Proof.
  induction k as [|k IH]; intros v H; cbn [longest_from] in H; [discriminate|].
  destruct (g (firstn (S k) path)) as [v'|] eqn:E.
  - injection H as <-. exists (S k). split; [lia|]. split; [exact E|]. intros j' Hj. lia.
  - destruct (IH _ H) as (j & Hj & Hg & Hn). exists j. split; [lia|]. split; [exact Hg|].
    intros j' Hj'. destruct (Nat.eq_dec j' (S k)) as [->|Hne]; [exact E|]. apply Hn. lia.
Qed.

Lemma longest_from_none {V} (g : bytes -> option V) path : forall k,
  longest_from g path k = None -> forall j, (1 <= j <= k)%nat -> g (firstn j path) = None.
Proof.
  induction k as [|k IH]; intros H j Hj; [lia|]. cbn [longest_from] in H.
  destruct (g (firstn (S k) path)) eqn:E; [discriminate|].
  destruct (Nat.eq_dec j (S k)) as [->|Hne]; [exact E|]. apply IH; auto. lia.
Qed.

Lemma has_prefix_firstn_self : forall (path : bytes) j, has_prefix path (firstn j path) = true.
Proof. induction path as [|c path IH]; intros [|j]; simpl; auto. rewrite N.eqb_refl. apply IH. Qed.

(* ANY trie (not only built ones): matchPath returns what is stored at the longest non-empty
   prefix of the path that carries a site *)
Theorem trie_match_path_longest b path v :
  tmatch_path path b None = Some v ->
  exists q, q <> [] /\ has_prefix path q = true /\ get q b = Some v /\
    forall q', q' <> [] -> has_prefix path q' = true -> get q' b <> None ->
               (length q' <= length q)%nat.
Proof.
  rewrite tmatch_path_longest_from. intros H.
  destruct (longest_from (fun q => get q b) path (length path)) as [v'|] eqn:E; [|discriminate].
  injection H as ->. apply longest_from_some in E as (j & Hj & Hg & Hn).
  assert (Hlen : length (firstn j path) = j) by (rewrite firstn_length; lia).
  exists (firstn j path). repeat split.
  - intro E. rewrite E in Hlen. simpl in Hlen. lia.
  - apply has_prefix_firstn_self.
  - exact Hg.
  - intros q' Hne Hp Hs. rewrite Hlen.
    destruct (Nat.le_gt_cases (length q') j) as [|Hgt]; [assumption|].
    exfalso. apply Hs. rewrite (has_prefix_firstn _ _ Hp). apply Hn.
    split; [exact Hgt|]. apply has_prefix_length. exact Hp.
Qed.

Theorem trie_match_path_none b path :
  tmatch_path path b None = None ->
  forall q', q' <> [] -> has_prefix path q' = true -> get q' b = None.
Proof.
  rewrite tmatch_path_longest_from. intros H q' Hne Hp.
  destruct (longest_from (fun q => get q b) path (length path)) eqn:E; [discriminate|].
  rewrite (has_prefix_firstn _ _ Hp). apply (longest_from_none _ _ _ E).
  split; [destruct q'; [congruence|simpl; lia] | apply has_prefix_length; exact Hp].
Qed.

(* ---------- refinement relation ---------- *)
Definition refines (root : vtrie) (m : list entry) : Prop :=
  (forall h, thost_present root h = host_present m h) /\
  (forall h p, tlookup root h p = option_map (fun s => (s, p)) (lookup m h p)).

Lemma refines_empty : refines empty_trie [].
Proof. split; intros; reflexivity. Qed.

Lemma split_host_path_slash key : exists r, snd (split_host_path key) = SLASH :: r.
Proof. unfold split_host_path. destruct (split_first_slash key []) as [h rest]. cbn. eauto. Qed.

Lemma find_filter_keep {A} (P Q : A -> bool) l :
  (forall x, P x = true -> Q x = true) -> find P (filter Q l) = find P l.
Proof.
  intros H. induction l as [|a l IH]; simpl; [reflexivity|].
  destruct (Q a) eqn:Eq; simpl.
  - rewrite IH. reflexivity.
  - destruct (P a) eqn:Ep; [rewrite (H _ Ep) in Eq; discriminate|exact IH].
Qed.

Lemma existsb_filter_keep {A} (P Q : A -> bool) l :
  (forall x, P x = true -> Q x = true) -> existsb P (filter Q l) = existsb P l.
Proof.
  intros H. induction l as [|a l IH]; simpl; [reflexivity|].
  destruct (Q a) eqn:Eq; simpl.
  - rewrite IH. reflexivity.
  - destruct (P a) eqn:Ep; [rewrite (H _ Ep) in Eq; discriminate|exact IH].
Qed.

(* the finite map after one insertion *)
Lemma lookup_insert m key s h' p' :
  lookup (insert m key s) h' p' =
  if beq (fst (split_host_path key)) h' && beq (snd (split_host_path key)) p' then Some s
  else lookup m h' p'.
Proof.
  unfold insert, lookup. destruct (split_host_path key) as [h p]. cbn [fst snd find].
  unfold same_key at 1. cbn [e_host e_path e_site].
  destruct (beq h h' && beq p p') eqn:E; [reflexivity|].
  rewrite find_filter_keep; [reflexivity|].
  intros e He. apply negb_true_iff. destruct (same_key h p e) eqn:E2; [|reflexivity].
  apply same_key_iff in He, E2. rewrite He in E2. injection E2 as -> ->.
  rewrite !beq_refl in E. discriminate.
Qed.

Lemma host_present_insert m key s h' :
  host_present (insert m key s) h' = beq (fst (split_host_path key)) h' || host_present m h'.
Proof.
  unfold insert, host_present. destruct (split_host_path key) as [h p]. cbn [fst existsb e_host].
  destruct (beq h h') eqn:E; [reflexivity|]. cbn [orb].
  apply existsb_filter_keep. intros e He. apply negb_true_iff.
  destruct (same_key h p e) eqn:E2; [|reflexivity].
  apply same_key_iff in E2. injection E2 as E2 _. apply beq_eq in He.
  assert (Hhh : h = h') by congruence. rewrite Hhh, beq_refl in E. discriminate.
Qed.

Lemma refines_insert root m key s :
  refines root m -> refines (tinsert root key s) (insert m key s).
Proof.
  intros [Hh Hl]. split.
  - intros h'. rewrite host_present_insert. unfold tinsert, thost_present.
    destruct (split_host_path key) as [h p]. cbn [fst t_edges].
    destruct (beq h h') eqn:E.
    + apply beq_eq in E. subst h'. rewrite edge_get_upd_same. reflexivity.
    + rewrite edge_get_upd_other by (intro E'; subst h'; rewrite beq_refl in E; discriminate).
      cbn [orb]. apply Hh.
  - intros h' p'. rewrite lookup_insert. unfold tinsert, tlookup.
    destruct (split_host_path_slash key) as [r Hp].
    destruct (split_host_path key) as [h p]. cbn [fst snd t_edges] in *.
    destruct (beq h h') eqn:E.
    + apply beq_eq in E. subst h'. rewrite edge_get_upd_same. cbn [andb].
      destruct (beq p p') eqn:E2.
      * apply beq_eq in E2. subst p'. rewrite get_insert_same. reflexivity.
      * rewrite get_insert_other by (intro E'; subst p'; rewrite beq_refl in E2; discriminate).
        rewrite <- Hl. unfold tlookup.
        destruct (edge_get h (t_edges root)); [reflexivity|apply get_empty].
    + rewrite edge_get_upd_other by (intro E'; subst h'; rewrite beq_refl in E; discriminate).
      cbn [andb]. apply Hl.
Qed.

Lemma tbuild_snoc sites s : tbuild (sites ++ [s]) = tinsert (tbuild sites) (fst s) (snd s).
Proof. unfold tbuild. rewrite fold_left_app. reflexivity. Qed.

(* The trie built by inserting ANY list of sites is extensionally the finite map. *)
Theorem trie_refines_map : forall sites, refines (tbuild sites) (build sites).
Proof.
  induction sites as [|s sites IH] using rev_ind; [exact refines_empty|].
  rewrite tbuild_snoc, build_snoc. apply refines_insert. exact IH.
Qed.

(* the stored node.path is the path spelled by the edges leading to the node *)
Corollary trie_stored_path sites h p s o :
  tlookup (tbuild sites) h p = Some (s, o) -> o = p.
Proof.
  destruct (trie_refines_map sites) as [_ Hl]. rewrite Hl.
  destruct (lookup (build sites) h p); cbn; [|discriminate]. intros H; injection H as _ <-. reflexivity.
Qed.

(* ---------- the lookup algorithms agree under the refinement ---------- *)
Lemma first_some_edge_find root l :
  first_some (fun c => edge_get c (t_edges root)) l =
  match find (thost_present root) l with Some k => edge_get k (t_edges root) | None => None end.
Proof.
  induction l as [|c l IH]; [reflexivity|]. cbn [first_some find]. unfold thost_present at 1.
  destruct (edge_get c (t_edges root)) eqn:E; [rewrite E; reflexivity|exact IH].
Qed.

Lemma tmatch_host_refines root m host :
  refines root m ->
  tmatch_host root host =
  match match_host m host with Some k => edge_get k (t_edges root) | None => None end.
Proof.
  intros [Hh _]. unfold tmatch_host, match_host. rewrite first_some_edge_find.
  rewrite (find_ext' (thost_present root) (host_present m) _ Hh). reflexivity.
Qed.

Lemma match_host_present m host k : match_host m host = Some k -> host_present m k = true.
Proof. unfold match_host. intros H. apply find_some in H as [_ H]. exact H. Qed.

Lemma first_some_host_refines root m hs :
  refines root m ->
  first_some (tmatch_host root) hs =
  match first_some (match_host m) hs with Some k => edge_get k (t_edges root) | None => None end
  /\ (forall k, first_some (match_host m) hs = Some k -> thost_present root k = true).
Proof.
  intros R. induction hs as [|h hs [IH1 IH2]]; [split; [reflexivity|discriminate]|].
  cbn [first_some]. rewrite (tmatch_host_refines _ _ _ R).
  destruct (match_host m h) as [k|] eqn:E.
  - pose proof (match_host_present _ _ _ E) as Hp. destruct R as [Hh _]. rewrite <- Hh in Hp.
    unfold thost_present in Hp. split.
    + destruct (edge_get k (t_edges root)); [reflexivity|discriminate].
    + intros k' H; injection H as <-. unfold thost_present. exact Hp.
  - split; [exact IH1|exact IH2].
Qed.

Lemma longest_from_match_path_from m k g path :
  (forall q, g q = option_map (fun s => (s, q)) (lookup m k q)) ->
  forall n, longest_from g path n = match_path_from m k path n.
Proof.
  intros Hg. induction n as [|n IH]; [reflexivity|]. cbn [longest_from match_path_from].
  rewrite Hg. destruct (lookup m k (firstn (S n) path)); cbn; [reflexivity|exact IH].
Qed.

Theorem tserve_refines root m xf hh up proto :
  refines root m -> tserve root xf hh up proto = serve m xf hh up proto.
Proof.
  intros R. unfold tserve, serve, ttrie_match, trie_match.
  destruct (split_host_path (strip_port hh ++ up)) as [host path].
  destruct (first_some_host_refines root m (host :: default_fallbacks ++ xf) R) as [H1 H2].
  rewrite H1. destruct (first_some (match_host m) (host :: default_fallbacks ++ xf)) as [k|]; [|reflexivity].
  specialize (H2 k eq_refl). unfold thost_present in H2.
  destruct (edge_get k (t_edges root)) as [b|] eqn:Eb; [|discriminate].
  rewrite tmatch_path_longest_from. unfold match_path.
  rewrite (longest_from_match_path_from m k (fun q => get q b) path).
  - destruct (match_path_from m k path (length path)) as [[s q]|]; reflexivity.
  - intros q. destruct R as [_ Hl]. rewrite <- Hl. unfold tlookup. rewrite Eb. reflexivity.
Qed.

(* the real data structure routes exactly as the finite map: every theorem about
   [serve (build sites)] is a theorem about [tserve (tbuild sites)] *)
Theorem tserve_build sites xf hh up proto :
  tserve (tbuild sites) xf hh up proto = serve (build sites) xf hh up proto.
Proof. apply tserve_refines, trie_refines_map. Qed.

(* ====================================================================================== *)
(* End-to-end specification: serve (build sites) = spec sites, for all site lists/requests *)
(* ====================================================================================== *)

Lemma split_first_slash_spec : forall s acc,
  fst (split_first_slash s acc) = rev acc ++ upto_slash s /\
  match snd (split_first_slash s acc) with Some r => r | None => [] end = after_slash s.
Proof.
  induction s as [|c s IH]; intros acc; cbn [split_first_slash upto_slash after_slash].
  - cbn. rewrite app_nil_r. auto.
  - destruct (c =? SLASH).
    + cbn. rewrite app_nil_r. auto.
    + destruct (IH (c :: acc)) as [H1 H2]. rewrite H1, H2. cbn [rev]. rewrite <- app_assoc. auto.
Qed.

Lemma split_host_path_addr key : split_host_path key = (addr_host key, addr_path key).
Proof.
  unfold split_host_path, addr_host, addr_path, spec_norm_host.
  destruct (split_first_slash_spec key []) as [H1 H2].
  destruct (split_first_slash key []) as [h rest]. cbn [fst snd rev app] in H1, H2.
  subst h. rewrite <- H2. reflexivity.
Qed.

Lemma lookup_build_owner : forall sites h p, lookup (build sites) h p = owner sites h p.
Proof.
  induction sites as [|x sites IH] using rev_ind; intros h p; [reflexivity|].
  rewrite build_snoc, lookup_insert, split_host_path_addr. cbn [fst snd].
  unfold owner. rewrite rev_app_distr. cbn [rev app find]. unfold at_addr at 1.
  destruct (beq (addr_host (fst x)) h && beq (addr_path (fst x)) p); [reflexivity|].
  rewrite IH. reflexivity.
Qed.

Lemma host_present_build : forall sites h, host_present (build sites) h = host_declared sites h.
Proof.
  induction sites as [|x sites IH] using rev_ind; intros h; [reflexivity|].
  rewrite build_snoc, host_present_insert, split_host_path_addr. cbn [fst].
  unfold host_declared. rewrite existsb_app. cbn [existsb]. rewrite orb_false_r, orb_comm.
  rewrite IH. reflexivity.
Qed.

Lemma star_labels_wild : forall j l, (j <= length l)%nat -> star_labels j l = wild j l.
Proof.
  unfold wild. induction j as [|j IH]; intros l Hj.
  - destruct l; reflexivity.
  - destruct l as [|x r]; [simpl in Hj; lia|]. cbn [star_labels repeat skipn app].
    rewrite IH by (simpl in Hj; lia). reflexivity.
Qed.

Lemma host_candidates_patterns host : host_candidates host = patterns host.
Proof.
  unfold host_candidates, wildcard_candidates, patterns. f_equal.
  apply map_ext_in. intros j Hj. apply in_seq in Hj. rewrite star_labels_wild by lia. reflexivity.
Qed.

Lemma match_path_from_prefixes t h path : forall k,
  match_path_from t h path k =
  first_some (fun q => option_map (fun s => (s, q)) (lookup t h q))
             (map (fun k => firstn k path) (rev (seq 1 k))).
Proof.
  induction k as [|k IH]; [reflexivity|].
  rewrite seq_S, rev_app_distr. cbn [rev app map first_some plus match_path_from].
  destruct (lookup t h (firstn (S k) path)); cbn [option_map]; [reflexivity|exact IH].
Qed.

Lemma match_host_build sites h :
  match_host (build sites) h = find (host_declared sites) (patterns h).
Proof.
  unfold match_host. rewrite host_candidates_patterns. apply find_ext'.
  intros x. apply host_present_build.
Qed.

Lemma governing_build sites fbs host :
  first_some (match_host (build sites)) (host :: fbs) = governing_pattern sites fbs host.
Proof. unfold governing_pattern. apply first_some_ext. intros h. apply match_host_build. Qed.

(* serve_http (build sites) req = spec sites req — for ALL site lists (duplicates, any order,
   any bytes) and ALL requests (any Host bytes, any path bytes, any protocol version) *)
Theorem route_spec_map sites xf hh up proto :
  serve (build sites) xf hh up proto = spec sites xf hh up proto.
Proof.
  unfold serve, trie_match, spec. rewrite split_host_path_addr, governing_build.
  destruct (governing_pattern sites _ _) as [pat|]; [|reflexivity].
  unfold match_path. rewrite match_path_from_prefixes. unfold prefixes_longest_first.
  rewrite (first_some_ext _ (fun q => option_map (fun s => (s, q)) (owner sites pat q)))
    by (intros q; rewrite lookup_build_owner; reflexivity).
  destruct (first_some _ _) as [[s q]|]; reflexivity.
Qed.

Theorem route_spec sites xf hh up proto :
  tserve (tbuild sites) xf hh up proto = spec sites xf hh up proto.
Proof. rewrite tserve_build. apply route_spec_map. Qed.

(* ---------- corollaries of the specification ---------- *)
Definition addr_key (s : bytes * N) : bytes * bytes := (addr_host (fst s), addr_path (fst s)).

Lemma key_of_addr_key sites : map key_of sites = map addr_key sites.
Proof. apply map_ext. intros s. unfold key_of, addr_key. apply split_host_path_addr. Qed.

(* order independence, restated on the specification and on the real trie *)
Theorem spec_order_independent sites sites' xf hh up proto :
  NoDup (map addr_key sites) -> Permutation sites sites' ->
  spec sites xf hh up proto = spec sites' xf hh up proto /\
  tserve (tbuild sites) xf hh up proto = tserve (tbuild sites') xf hh up proto.
Proof.
  intros Hnd Hperm. rewrite <- key_of_addr_key in Hnd.
  rewrite !route_spec, <- !route_spec_map.
  split; apply route_order_independent; assumption.
Qed.

(* with two sites declared at the same normalised address the later one wins, so the
   uniqueness hypothesis cannot be dropped *)
Lemma order_dependent_with_duplicates :
  exists sites sites' xf hh up proto,
    Permutation sites sites' /\
    tserve (tbuild sites) xf hh up proto <> tserve (tbuild sites') xf hh up proto.
Proof.
  exists [(bs "a.com"%string, 1); (bs "A.com:80"%string, 2)],
         [(bs "A.com:80"%string, 2); (bs "a.com"%string, 1)], [], (bs "a.com"%string), (bs "/"%string), 1.
  split; [apply perm_swap|]. vm_compute. discriminate.
Qed.

Lemma owner_some sites h p s :
  owner sites h p = Some s ->
  exists key, In (key, s) sites /\ addr_host key = h /\ addr_path key = p.
Proof.
  unfold owner. destruct (find (at_addr h p) (rev sites)) as [[key s']|] eqn:E; [|discriminate].
  cbn. intros H; injection H as ->. apply find_some in E as [Hin Hk]. apply in_rev in Hin.
  unfold at_addr in Hk. cbn [fst] in Hk. apply andb_true_iff in Hk as [H1 H2].
  apply beq_eq in H1, H2. eauto.
Qed.

Lemma owner_declared sites key s :
  In (key, s) sites -> owner sites (addr_host key) (addr_path key) <> None.
Proof.
  intros Hin. unfold owner.
  destruct (find (at_addr (addr_host key) (addr_path key)) (rev sites)) eqn:E; [discriminate|].
  apply in_rev in Hin. pose proof (find_none _ _ E _ Hin) as H. unfold at_addr in H. cbn [fst] in H.
  rewrite !beq_refl in H. discriminate.
Qed.

Lemma first_some_first {A B} (f : A -> option B) : forall l y,
  first_some f l = Some y ->
  exists pre x post, l = pre ++ x :: post /\ f x = Some y /\ forall z, In z pre -> f z = None.
Proof.
  induction l as [|a l IH]; intros y H; cbn [first_some] in H; [discriminate|].
  destruct (f a) as [b|] eqn:E.
  - injection H as <-. exists [], a, l. repeat split; auto. intros z [].
  - destruct (IH _ H) as (pre & x & post & -> & Hx & Hpre). exists (a :: pre), x, post.
    repeat split; auto. intros z [<-|Hz]; auto.
Qed.

Lemma first_some_none {A B} (f : A -> option B) : forall l,
  first_some f l = None -> forall z, In z l -> f z = None.
Proof.
  induction l as [|a l IH]; intros H z Hz; [destruct Hz|]. cbn [first_some] in H.
  destruct (f a) eqn:E; [discriminate|]. destruct Hz as [<-|Hz]; auto.
Qed.

(* the governing pattern is the most specific declared pattern of the first host (request host,
   then the fallbacks in order) that has any declared pattern *)
Theorem governing_pattern_most_specific sites fbs host pat :
  governing_pattern sites fbs host = Some pat ->
  host_declared sites pat = true /\
  exists before h after pre post,
    host :: fbs = before ++ h :: after /\ patterns h = pre ++ pat :: post /\
    (forall p, In p pre -> host_declared sites p = false) /\
    (forall h', In h' before -> forall p, In p (patterns h') -> host_declared sites p = false).
Proof.
  unfold governing_pattern. intros H.
  apply first_some_first in H as (before & h & after & Hl & Hf & Hb).
  apply find_first in Hf as (pre & post & Hp & Hd & Hpre).
  split; [exact Hd|]. exists before, h, after, pre, post. repeat split; auto.
  intros h' Hh' p Hp'. exact (find_none _ _ (Hb _ Hh') _ Hp').
Qed.

(* relational reading of a hit: the site is a declared one whose host pattern is the governing
   pattern and whose path is the LONGEST declared byte-wise prefix of the request path under
   that pattern (last declaration wins on equal addresses); exactly that site's chain runs *)
Theorem route_site_characterised sites xf hh up proto s q :
  tserve (tbuild sites) xf hh up proto = Site s q ->
  let key := strip_port hh ++ up in
  exists pat,
    governing_pattern sites (default_fallbacks ++ xf) (addr_host key) = Some pat /\
    owner sites pat q = Some s /\ q <> [] /\ has_prefix (addr_path key) q = true /\
    (exists a, In (a, s) sites /\ addr_host a = pat /\ addr_path a = q) /\
    (forall a' s', In (a', s') sites -> addr_host a' = pat ->
                   has_prefix (addr_path key) (addr_path a') = true ->
                   (length (addr_path a') <= length q)%nat) /\
    handlers_run (tserve (tbuild sites) xf hh up proto) = [s].
Proof.
  intros H key. assert (Hrun : handlers_run (tserve (tbuild sites) xf hh up proto) = [s])
    by (rewrite H; reflexivity).
  rewrite tserve_build in H. unfold serve, trie_match in H.
  rewrite split_host_path_addr, governing_build in H. fold key in H.
  destruct (governing_pattern sites (default_fallbacks ++ xf) (addr_host key)) as [pat|]; [|discriminate].
  destruct (match_path (build sites) pat (addr_path key)) as [[s' q']|] eqn:Em; [|discriminate].
  injection H as -> ->. apply match_path_longest in Em as (Hp & Hne & Hl & Hmax).
  rewrite lookup_build_owner in Hl. exists pat. repeat split; auto.
  - apply owner_some. exact Hl.
  - intros a' s' Hin Hpat Hpre. apply Hmax; [discriminate|exact Hpre|].
    rewrite lookup_build_owner, <- Hpat. apply (owner_declared _ _ _ Hin).
Qed.

(* ---------- no match <=> not found, and then no site's handlers run ---------- *)
(* "the request matches no site": no pattern of the request host or of a fallback host is
   declared, or the governing pattern has no site whose path is a prefix of the request path *)
Definition no_site_matches (sites : list (bytes * N)) (xf : list bytes) (hh up : bytes) : Prop :=
  let key := strip_port hh ++ up in
  match governing_pattern sites (default_fallbacks ++ xf) (addr_host key) with
  | None => True
  | Some pat => forall a s, In (a, s) sites -> addr_host a = pat ->
                            has_prefix (addr_path key) (addr_path a) = false
  end.

Theorem no_match_runs_no_handler sites xf hh up proto :
  no_site_matches sites xf hh up <->
  (tserve (tbuild sites) xf hh up proto = NotFound (if 2 <=? proto then 421 else 404) /\
   handlers_run (tserve (tbuild sites) xf hh up proto) = []).
Proof.
  unfold no_site_matches. rewrite tserve_build. unfold serve, trie_match.
  rewrite split_host_path_addr, governing_build.
  set (key := strip_port hh ++ up).
  destruct (governing_pattern sites (default_fallbacks ++ xf) (addr_host key)) as [pat|].
  2:{ split; auto. }
  destruct (match_path (build sites) pat (addr_path key)) as [[s q]|] eqn:Em.
  - split; [|intros [H _]; discriminate]. intros Hno. exfalso.
    apply match_path_longest in Em as (Hp & _ & Hl & _). rewrite lookup_build_owner in Hl.
    apply owner_some in Hl as (a & Hin & Ha & Hq). rewrite <- Hq, (Hno _ _ Hin Ha) in Hp. discriminate.
  - split; [auto|]. intros _ a s Hin Ha.
    destruct (has_prefix (addr_path key) (addr_path a)) eqn:Hp; [|reflexivity]. exfalso.
    apply (owner_declared _ _ _ Hin). rewrite <- lookup_build_owner, Ha.
    apply (match_path_none _ _ _ Em); [discriminate|exact Hp].
Qed.

(* at most one site's chain runs, and it is the routed one *)
Theorem handlers_run_at_most_one sites xf hh up proto :
  (length (handlers_run (tserve (tbuild sites) xf hh up proto)) <= 1)%nat.
Proof. destruct (tserve _ _ _ _ _); cbn; lia. Qed.

(* ---------- host matching ignores letter case and port ---------- *)
Definition no_byte (c : N) (s : bytes) : bool := forallb (fun x => negb (x =? c)) s.
(* a host name / port text without ':', '[', ']' and '/' *)
Definition plain (s : bytes) : bool :=
  no_byte COLON s && no_byte LBR s && no_byte RBR s && no_byte SLASH s.
Definition with_port (h : bytes) (port : option bytes) : bytes :=
  match port with Some p => h ++ COLON :: p | None => h end.

Lemma no_byte_app c a b : no_byte c (a ++ b) = no_byte c a && no_byte c b.
Proof. unfold no_byte. apply forallb_app. Qed.

Lemma no_byte_rev c a : no_byte c (rev a) = no_byte c a.
Proof.
  induction a as [|x a IH]; [reflexivity|]. cbn [rev]. rewrite no_byte_app, IH. cbn.
  rewrite andb_true_r. apply andb_comm.
Qed.

Lemma index_of_none c s : no_byte c s = true -> index_of c s = None.
Proof.
  induction s as [|x s IH]; [reflexivity|]. cbn. intros H. apply andb_true_iff in H as [H1 H2].
  apply negb_true_iff in H1. rewrite H1, (IH H2). reflexivity.
Qed.

Lemma index_of_app c a b : no_byte c a = true -> index_of c (a ++ c :: b) = Some (length a).
Proof.
  induction a as [|x a IH]; cbn.
  - rewrite N.eqb_refl. reflexivity.
  - intros H. apply andb_true_iff in H as [H1 H2]. apply negb_true_iff in H1.
    rewrite H1, (IH H2). reflexivity.
Qed.

Lemma contains_byte_none c s : no_byte c s = true -> contains_byte c s = false.
Proof. intros H. unfold contains_byte. rewrite (index_of_none _ _ H). reflexivity. Qed.

Lemma no_byte_mid c h p :
  no_byte c h = true -> no_byte c p = true -> (COLON =? c) = false ->
  no_byte c (h ++ COLON :: p) = true.
Proof.
  intros H1 H2 H3. rewrite no_byte_app, H1. unfold no_byte in *. cbn [forallb andb].
  rewrite H3, H2. reflexivity.
Qed.

Lemma split_host_port_plain h p :
  plain h = true -> plain p = true -> split_host_port (h ++ COLON :: p) = Some (h, p).
Proof.
  unfold plain. intros Hh Hp.
  apply andb_true_iff in Hh as [Hh Hh4]. apply andb_true_iff in Hh as [Hh Hh3].
  apply andb_true_iff in Hh as [Hh1 Hh2].
  apply andb_true_iff in Hp as [Hp Hp4]. apply andb_true_iff in Hp as [Hp Hp3].
  apply andb_true_iff in Hp as [Hp1 Hp2].
  unfold split_host_port, last_index.
  rewrite rev_app_distr. cbn [rev]. rewrite <- app_assoc. cbn [app].
  rewrite index_of_app by (rewrite no_byte_rev; exact Hp1).
  rewrite rev_length, app_length. cbn [length].
  replace (length h + S (length p) - 1 - length p)%nat with (length h) by lia.
  assert (Hc0 : match h ++ COLON :: p with [] => None | c0 :: _ =>
            if c0 =? LBR then @None (bytes * bytes) else Some (h, p) end = Some (h, p)).
  { destruct h as [|c h']; [reflexivity|]. cbn in Hh2. apply andb_true_iff in Hh2 as [Hc _].
    apply negb_true_iff in Hc. cbn [app]. rewrite Hc. reflexivity. }
  destruct (h ++ COLON :: p) as [|c0 rest] eqn:E; [discriminate|].
  destruct (c0 =? LBR) eqn:Ec; [discriminate|].
  rewrite <- E. rewrite firstn_app, firstn_all, Nat.sub_diag. cbn [firstn]. rewrite app_nil_r.
  rewrite (contains_byte_none _ _ Hh1).
  rewrite !contains_byte_none by (apply no_byte_mid; auto).
  replace (length h + 1)%nat with (length h + 1 + 0)%nat by lia.
  rewrite skipn_app, skipn_all2 by lia. cbn [app].
  replace (length h + 1 + 0 - length h)%nat with 1%nat by lia. reflexivity.
Qed.

Lemma split_host_port_no_colon h : no_byte COLON h = true -> split_host_port h = None.
Proof.
  intros H. unfold split_host_port, last_index.
  rewrite index_of_none by (rewrite no_byte_rev; exact H). reflexivity.
Qed.

Lemma strip_port_with_port h port :
  plain h = true -> match port with Some p => plain p = true | None => True end ->
  strip_port (with_port h port) = h.
Proof.
  intros Hh Hp. unfold strip_port, with_port. destruct port as [p|].
  - rewrite split_host_port_plain by assumption. reflexivity.
  - unfold plain in Hh. apply andb_true_iff in Hh as [Hh _]. apply andb_true_iff in Hh as [Hh _].
    apply andb_true_iff in Hh as [Hh _]. rewrite split_host_port_no_colon by exact Hh. reflexivity.
Qed.

Lemma upto_slash_app h x : no_byte SLASH h = true -> upto_slash (h ++ x) = h ++ upto_slash x.
Proof.
  induction h as [|c h IH]; [reflexivity|]. cbn. intros H. apply andb_true_iff in H as [H1 H2].
  apply negb_true_iff in H1. rewrite H1, (IH H2). reflexivity.
Qed.

Lemma after_slash_app h x : no_byte SLASH h = true -> after_slash (h ++ x) = after_slash x.
Proof.
  induction h as [|c h IH]; [reflexivity|]. cbn. intros H. apply andb_true_iff in H as [H1 H2].
  apply negb_true_iff in H1. rewrite H1. apply IH. exact H2.
Qed.

(* the routing outcome depends on the Host header only through its lower-cased name: any
   letter case, with or without any port *)
Theorem host_case_port_irrelevant sites xf h h' port port' up proto :
  plain h = true -> plain h' = true ->
  match port with Some p => plain p = true | None => True end ->
  match port' with Some p => plain p = true | None => True end ->
  to_lower h = to_lower h' ->
  tserve (tbuild sites) xf (with_port h port) up proto =
  tserve (tbuild sites) xf (with_port h' port') up proto.
Proof.
  intros Hh Hh' Hp Hp' Hl. rewrite !route_spec. unfold spec.
  rewrite !strip_port_with_port by assumption.
  assert (Hs : no_byte SLASH h = true /\ no_byte SLASH h' = true).
  { unfold plain in Hh, Hh'. apply andb_true_iff in Hh as [_ Hh], Hh' as [_ Hh']. auto. }
  destruct Hs as [Hs Hs'].
  assert (Hhost : addr_host (h ++ up) = addr_host (h' ++ up)).
  { unfold addr_host, spec_norm_host. rewrite !upto_slash_app by assumption.
    unfold to_lower in *. rewrite !map_app, Hl. reflexivity. }
  assert (Hpath : addr_path (h ++ up) = addr_path (h' ++ up)).
  { unfold addr_path. rewrite !after_slash_app by assumption. reflexivity. }
  rewrite Hhost, Hpath. reflexivity.
Qed.

(* ---------- bracketed IPv6 literals: brackets and port are ignored too ---------- *)
Definition bracketed (a : bytes) (port : option bytes) : bytes :=
  LBR :: a ++ RBR :: match port with Some p => COLON :: p | None => [] end.

Lemma index_of_rbr a rest :
  no_byte RBR a = true -> index_of RBR (LBR :: a ++ RBR :: rest) = Some (S (length a)).
Proof.
  intros H. cbn [index_of]. change (LBR =? RBR) with false. cbv iota.
  rewrite index_of_app by exact H. reflexivity.
Qed.

Lemma skipn_app_exact {A} (l1 l2 : list A) : skipn (length l1) (l1 ++ l2) = l2.
Proof. induction l1; cbn; auto. Qed.
Lemma firstn_app_exact {A} (l1 l2 : list A) : firstn (length l1) (l1 ++ l2) = l1.
Proof. induction l1; cbn; auto. f_equal; auto. Qed.

Lemma split_host_port_bracket_port a p :
  no_byte LBR a = true -> no_byte RBR a = true -> plain p = true ->
  split_host_port (bracketed a (Some p)) = Some (a, p).
Proof.
  unfold plain, bracketed. intros Ha1 Ha2 Hp.
  apply andb_true_iff in Hp as [Hp Hp4]. apply andb_true_iff in Hp as [Hp Hp3].
  apply andb_true_iff in Hp as [Hp1 Hp2].
  remember (a ++ RBR :: COLON :: p) as tl eqn:Etl.
  assert (Htl : tl = (a ++ [RBR]) ++ COLON :: p) by (rewrite Etl, <- app_assoc; reflexivity).
  assert (Hlen : length tl = (length a + 2 + length p)%nat)
    by (rewrite Etl, app_length; cbn [length]; lia).
  assert (F1 : last_index COLON (LBR :: tl) = Some (S (S (length a)))).
  { unfold last_index. cbn [rev length]. rewrite Hlen, Htl, rev_app_distr. cbn [rev].
    rewrite <- !app_assoc. cbn [app].
    rewrite index_of_app by (rewrite no_byte_rev; exact Hp1).
    rewrite rev_length. f_equal. lia. }
  assert (F2 : index_of RBR (LBR :: tl) = Some (S (length a))) by (rewrite Etl; apply index_of_rbr; exact Ha2).
  assert (F4 : contains_byte LBR tl = false).
  { apply contains_byte_none. rewrite Etl, no_byte_app, Ha1. unfold no_byte in *. cbn. exact Hp2. }
  assert (F5 : skipn (S (length a)) tl = COLON :: p).
  { rewrite Htl. replace (S (length a)) with (length (a ++ [RBR])) by (rewrite app_length; cbn; lia).
    apply skipn_app_exact. }
  assert (F6 : firstn (length a) tl = a) by (rewrite Etl; apply firstn_app_exact).
  unfold split_host_port. rewrite F1, F2. change (LBR =? LBR) with true. cbv iota.
  cbn [length]. rewrite Hlen.
  replace (Nat.eqb (S (length a) + 1) (S (length a + 2 + length p))) with false
    by (symmetry; apply Nat.eqb_neq; lia).
  replace (Nat.eqb (S (length a) + 1) (S (S (length a)))) with true
    by (symmetry; apply Nat.eqb_eq; lia).
  cbn [skipn]. rewrite F4.
  assert (E1 : skipn (S (length a) + 1) (LBR :: tl) = COLON :: p).
  { replace (S (length a) + 1)%nat with (S (S (length a))) by lia. exact F5. }
  assert (E2 : skipn (S (S (length a)) + 1) (LBR :: tl) = p).
  { replace (S (S (length a)) + 1)%nat with (S (S (S (length a)))) by lia.
    change (skipn (S (S (length a))) tl = p).
    replace tl with ((a ++ [RBR; COLON]) ++ p) by (rewrite Etl, <- app_assoc; reflexivity).
    replace (S (S (length a))) with (length (a ++ [RBR; COLON])) by (rewrite app_length; cbn; lia).
    apply skipn_app_exact. }
  assert (E3 : firstn (S (length a) - 1) tl = a).
  { replace (S (length a) - 1)%nat with (length a) by lia. exact F6. }
  rewrite E1, E2, E3.
  rewrite contains_byte_none by (unfold no_byte in *; cbn; exact Hp3). reflexivity.
Qed.

Lemma split_host_port_bracket_noport a :
  no_byte RBR a = true -> split_host_port (bracketed a None) = None.
Proof.
  unfold bracketed. intros Ha. unfold split_host_port.
  destruct (last_index COLON (LBR :: a ++ [RBR])); [|reflexivity].
  change (LBR =? LBR) with true. cbv iota. rewrite index_of_rbr by exact Ha.
  cbn [length]. rewrite app_length. cbn [length].
  replace (Nat.eqb (S (length a) + 1) (S (length a + 1))) with true
    by (symmetry; apply Nat.eqb_eq; lia).
  reflexivity.
Qed.

Lemma unbracket_bracketed a : unbracket (bracketed a None) = a.
Proof.
  unfold unbracket, bracketed. change (LBR =? LBR) with true. cbv iota.
  rewrite rev_app_distr. cbn [rev app]. change (RBR =? RBR) with true. cbv iota. apply rev_involutive.
Qed.

Lemma lower_byte_fix c x :
  (c <? 65) || ((90 <? c) && (c <? 97)) || (122 <? c) = true ->
  (lower_byte x =? c) = (x =? c).
Proof.
  intros Hc. unfold lower_byte. destruct ((65 <=? x) && (x <=? 90)) eqn:E; [|reflexivity].
  destruct (N.eqb_spec (x + 32) c), (N.eqb_spec x c); try reflexivity; exfalso; lia.
Qed.

Lemma no_byte_to_lower c s :
  (c <? 65) || ((90 <? c) && (c <? 97)) || (122 <? c) = true ->
  no_byte c (to_lower s) = no_byte c s.
Proof.
  intros Hc. unfold no_byte, to_lower. induction s as [|x s IH]; [reflexivity|].
  cbn [map forallb]. rewrite IH, (lower_byte_fix _ _ Hc). reflexivity.
Qed.

Lemma to_lower_bracketed a : to_lower (bracketed a None) = bracketed (to_lower a) None.
Proof. unfold bracketed, to_lower. cbn [map]. rewrite map_app. reflexivity. Qed.

Lemma unbracket_no_lbr a : no_byte LBR a = true -> unbracket a = a.
Proof.
  destruct a as [|c a]; [reflexivity|]. cbn. intros H. apply andb_true_iff in H as [H _].
  apply negb_true_iff in H. rewrite H. reflexivity.
Qed.

(* [a] is the text between the brackets: no brackets, no slash, and not itself of the form
   host:port (an IPv6 address has at least two colons) *)
Theorem host_bracket_port_irrelevant sites xf a a' port port' up proto :
  no_byte LBR a = true -> no_byte RBR a = true -> no_byte SLASH a = true ->
  no_byte LBR a' = true -> no_byte RBR a' = true -> no_byte SLASH a' = true ->
  split_host_port (to_lower a) = None ->
  match port with Some p => plain p = true | None => True end ->
  match port' with Some p => plain p = true | None => True end ->
  to_lower a = to_lower a' -> upto_slash up = [] ->
  tserve (tbuild sites) xf (bracketed a port) up proto =
  tserve (tbuild sites) xf (bracketed a' port') up proto.
Proof.
  intros Ha1 Ha2 Ha3 Hb1 Hb2 Hb3 Hnp Hp Hp' Hl Hup. rewrite !route_spec. unfold spec.
  assert (K : forall b o, no_byte LBR b = true -> no_byte RBR b = true -> no_byte SLASH b = true ->
                          split_host_port (to_lower b) = None ->
                          match o with Some p => plain p = true | None => True end ->
                          addr_host (strip_port (bracketed b o) ++ up) = to_lower b /\
                          addr_path (strip_port (bracketed b o) ++ up) = SLASH :: after_slash up).
  { intros b o B1 B2 B3 Bn Bo. destruct o as [p|].
    - unfold strip_port. rewrite split_host_port_bracket_port by assumption.
      unfold addr_host, addr_path, spec_norm_host.
      rewrite upto_slash_app, after_slash_app, Hup, app_nil_r by assumption. rewrite Bn.
      rewrite unbracket_no_lbr by (rewrite no_byte_to_lower by reflexivity; exact B1). auto.
    - unfold strip_port. rewrite split_host_port_bracket_noport by assumption.
      assert (Hs : no_byte SLASH (bracketed b None) = true).
      { unfold bracketed. cbv iota. change (LBR :: b ++ [RBR]) with ([LBR] ++ b ++ [RBR]).
        rewrite !no_byte_app, B3. reflexivity. }
      unfold addr_host, addr_path, spec_norm_host.
      rewrite upto_slash_app, after_slash_app, Hup, app_nil_r by assumption.
      rewrite to_lower_bracketed.
      rewrite split_host_port_bracket_noport by (rewrite no_byte_to_lower by reflexivity; exact B2).
      rewrite unbracket_bracketed. auto. }
  destruct (K a port Ha1 Ha2 Ha3 Hnp Hp) as [K1 K2].
  assert (Hnp' : split_host_port (to_lower a') = None) by (rewrite <- Hl; exact Hnp).
  destruct (K a' port' Hb1 Hb2 Hb3 Hnp' Hp') as [K1' K2'].
  rewrite K1, K2, K1', K2', Hl. reflexivity.
Qed.

(* a bracketed text with exactly one colon is read as host:port once the brackets are gone:
   there the port is NOT ignored *)
Lemma host_bracket_one_colon_differs :
  exists sites xf a port up proto,
    no_byte LBR a = true /\ no_byte RBR a = true /\ no_byte SLASH a = true /\ plain port = true /\
    tserve (tbuild sites) xf (bracketed a (Some port)) up proto <>
    tserve (tbuild sites) xf (bracketed a None) up proto.
Proof.
  exists [(bs "a.com"%string, 1)], [], (bs "a.com:1"%string), (bs "2"%string), (bs "/"%string), 1.
  vm_compute. repeat split; discriminate.
Qed.

(* ================= several listeners in one process ================= *)
Lemma tserve_full_default root xf hh up proto :
  tserve root xf hh up proto = tserve_full root (default_fallbacks ++ xf) hh up proto.
Proof. reflexivity. Qed.

Lemma upd_nth_same {A} (f : A -> A) (d : A) : forall (l : list A) k,
  f (nth k l d) = nth k l d -> upd_nth k f l = l.
Proof.
  induction l as [|x l IH]; intros [|k] H; cbn in *; try reflexivity.
  - rewrite H. reflexivity.
  - rewrite IH; auto.
Qed.

(* append to a slice whose capacity is used up never touches an existing array: the heap only
   grows, and the result reads as old contents ++ new elements *)
Lemma go_append_full hp s xs :
  sl_len s = sl_cap s -> (sl_arr s < length hp)%nat -> sl_len s = length (nth (sl_arr s) hp []) ->
  exists ext, fst (go_append hp s xs) = hp ++ ext /\
    (sl_arr (snd (go_append hp s xs)) < length (hp ++ ext))%nat /\
    slice_read (hp ++ ext) (snd (go_append hp s xs)) = slice_read hp s ++ xs.
Proof.
  intros Hfull Harr Hlen. unfold go_append.
  destruct (Nat.leb (sl_len s + length xs) (sl_cap s)) eqn:E.
  - apply Nat.leb_le in E. assert (Hx : xs = []) by (destruct xs; [reflexivity|cbn in E; lia]).
    subst xs. exists []. cbn [fst snd sl_arr sl_len]. rewrite app_nil_r, Nat.add_0_r.
    rewrite (upd_nth_same _ []).
    + split; [reflexivity|]. split; [exact Harr|]. unfold slice_read. cbn [sl_arr sl_len]. rewrite app_nil_r. reflexivity.
    + cbn [app]. apply firstn_skipn.
  - eexists. cbn [fst snd sl_arr sl_len]. split; [reflexivity|]. split; [rewrite app_length; cbn; lia|].
    unfold slice_read. cbn [sl_arr sl_len]. rewrite app_nth2 by lia. rewrite Nat.sub_diag. cbn [nth].
    rewrite app_assoc. rewrite firstn_app.
    assert (Hl : length (firstn (sl_len s) (nth (sl_arr s) hp []) ++ xs) = (sl_len s + length xs)%nat).
    { rewrite app_length, firstn_length. lia. }
    rewrite Hl, Nat.sub_diag. cbn [firstn]. rewrite app_nil_r.
    rewrite firstn_all2 by lia. reflexivity.
Qed.

Lemma slice_read_ext hp ext s : (sl_arr s < length hp)%nat -> slice_read (hp ++ ext) s = slice_read hp s.
Proof. intros H. unfold slice_read. rewrite app_nth1 by exact H. reflexivity. Qed.

(* the invariant of the process: listener j holds the trie of group j, and its fallback list,
   read from the CURRENT heap, is the built-in list followed by group j's own fallback hosts *)
Definition srv_ok (hp : heap) (g : group) (sv : vtrie * gslice) : Prop :=
  fst sv = tbuild (fst g) /\ (sl_arr (snd sv) < length hp)%nat /\
  slice_read hp (snd sv) = default_fallbacks ++ snd g.

Lemma srv_ok_ext hp ext g sv : srv_ok hp g sv -> srv_ok (hp ++ ext) g sv.
Proof.
  intros (H1 & H2 & H3). split; [exact H1|]. split; [rewrite app_length; lia|].
  rewrite slice_read_ext; auto.
Qed.

Lemma Forall2_weaken {A B} (P Q : A -> B -> Prop) : (forall a b, P a b -> Q a b) ->
  forall l l', Forall2 P l l' -> Forall2 Q l l'.
Proof. intros H l l' F. induction F; constructor; auto. Qed.

Lemma new_server_inv hp srvs gs g :
  Forall2 (srv_ok hp) gs srvs ->
  Forall2 (srv_ok (fst (new_server (hp, srvs) g))) (gs ++ [g]) (snd (new_server (hp, srvs) g)).
Proof.
  intros Hinv. unfold new_server, lit_slice.
  set (hp1 := hp ++ [default_fallbacks]).
  set (s1 := {| sl_arr := length hp; sl_len := length default_fallbacks; sl_cap := length default_fallbacks |}).
  destruct (go_append_full hp1 s1 (snd g)) as (ext & He & Ha & Hr).
  - reflexivity.
  - unfold hp1, s1. cbn [sl_arr]. rewrite app_length. cbn. lia.
  - unfold hp1, s1. cbn [sl_arr sl_len]. rewrite app_nth2 by lia. rewrite Nat.sub_diag. reflexivity.
  - destruct (go_append hp1 s1 (snd g)) as [hp2 s2] eqn:E. cbn [fst snd] in *. subst hp2.
    apply Forall2_app.
    + unfold hp1. rewrite <- app_assoc. revert Hinv. apply Forall2_weaken. intros a b. apply srv_ok_ext.
    + constructor; [|constructor]. split; [reflexivity|]. split; [exact Ha|]. cbn [snd]. rewrite Hr.
      unfold slice_read, hp1, s1. cbn [sl_arr sl_len]. rewrite app_nth2 by lia. rewrite Nat.sub_diag. cbn [nth].
      rewrite firstn_all. reflexivity.
Qed.

Lemma process_inv : forall groups, Forall2 (srv_ok (fst (process groups))) groups (snd (process groups)).
Proof.
  induction groups as [|g gs IH] using rev_ind.
  - constructor.
  - unfold process in *. rewrite fold_left_app. cbn [fold_left].
    destruct (fold_left new_server gs ([], [])) as [hp srvs]. cbn [fst snd] in IH.
    apply new_server_inv. exact IH.
Qed.

Lemma Forall2_nth_error {A B} (P : A -> B -> Prop) : forall l l' i a,
  Forall2 P l l' -> nth_error l i = Some a -> exists b, nth_error l' i = Some b /\ P a b.
Proof.
  induction l as [|x l IH]; intros l' [|i] a H Hn; cbn in Hn; try discriminate; inversion H; subst.
  - injection Hn as <-. eexists; split; [reflexivity|assumption].
  - cbn. eapply IH; eauto.
Qed.

(* routing on listener i depends only on listener i's own site group: whatever other listeners
   were created before or after it in the process, it routes as a server created alone *)
Lemma fallback_list_is_per_listener : forall groups i g hh up proto,
  nth_error groups i = Some g ->
  mserve groups i hh up proto = Some (tserve (tbuild (fst g)) (snd g) hh up proto).
Proof.
  intros groups i g hh up proto Hn.
  destruct (Forall2_nth_error _ _ _ _ _ (process_inv groups) Hn) as ([root s] & Hs & Hroot & _ & Hread).
  unfold mserve, mserve_st. rewrite Hs. cbn [fst snd] in *. subst root. rewrite Hread. reflexivity.
Qed.

Lemma listener_independent : forall groups groups' i i' hh up proto,
  nth_error groups i = nth_error groups' i' -> nth_error groups i <> None ->
  mserve groups i hh up proto = mserve groups' i' hh up proto.
Proof.
  intros groups groups' i i' hh up proto He Hs.
  destruct (nth_error groups i) as [g|] eqn:E; [|contradiction].
  rewrite (fallback_list_is_per_listener _ _ _ _ _ _ E), (fallback_list_is_per_listener _ _ _ _ _ _ (eq_sym He)).
  reflexivity.
Qed.

Lemma listener_routes_as_spec : forall groups i g hh up proto,
  nth_error groups i = Some g ->
  mserve groups i hh up proto = Some (spec (fst g) (snd g) hh up proto).
Proof.
  intros. rewrite (fallback_list_is_per_listener _ _ _ _ _ _ H), route_spec. reflexivity.
Qed.

(* what the per-listener allocation buys: were the list one shared slice with spare capacity
   (three successive appends leave len 3 / cap 4), the second listener's append would overwrite
   the first listener's designated fallback host *)
Lemma shared_list_leaks :
  let hp0 := [default_fallbacks ++ [[]]] in
  let shared := {| sl_arr := 0; sl_len := 3; sl_cap := 4 |} in
  let ga : group := ([(bs "a.example"%string, 1)], [bs "a.example"%string]) in
  let gb : group := ([(bs "b.example"%string, 2)], [bs "b.example"%string]) in
  mserve_st (fold_left (new_server_shared shared) [ga; gb] (hp0, [])) 0 (bs "zzz"%string) (bs "/"%string) 1
    = Some (NotFound 404) /\
  mserve [ga; gb] 0 (bs "zzz"%string) (bs "/"%string) 1 = Some (Site 1 (bs "/"%string)).
Proof. vm_compute. split; reflexivity. Qed.

(* ---- request sequences: the routing of request i is a function of the site set and of request
   i alone ---- *)
Lemma serve_seq_map : forall st qs,
  serve_seq st qs = map (fun q => mserve_st st (rq_srv q) (rq_host q) (rq_path q) (rq_proto q)) qs.
Proof.
  intros st qs. induction qs as [|q t IH]; [reflexivity|].
  simpl. rewrite IH. reflexivity.
Qed.

Lemma routing_is_stateless : forall groups qs k q g,
  nth_error qs k = Some q -> nth_error groups (rq_srv q) = Some g ->
  nth_error (serve_seq (process groups) qs) k
    = Some (Some (spec (fst g) (snd g) (rq_host q) (rq_path q) (rq_proto q))).
Proof.
  intros groups qs k q g Hq Hg. rewrite serve_seq_map.
  rewrite (map_nth_error _ _ _ Hq). f_equal.
  exact (listener_routes_as_spec groups (rq_srv q) g (rq_host q) (rq_path q) (rq_proto q) Hg).
Qed.

Lemma request_history_irrelevant : forall groups pre q,
  serve_seq (process groups) (pre ++ [q])
    = serve_seq (process groups) pre ++ [mserve groups (rq_srv q) (rq_host q) (rq_path q) (rq_proto q)].
Proof.
  intros groups pre q. rewrite !serve_seq_map, map_app. reflexivity.
Qed.

Lemma unknown_host_cache_poisons :
  let sites := [(bs "example.com/app"%string, 1); (bs "example.com/api"%string, 2)] in
  let q1 := (bs "example.com"%string, bs "/favicon.ico"%string, 1) in
  let q2 := (bs "example.com"%string, bs "/app/index"%string, 1) in
  let r q := {| rq_srv := 0; rq_host := fst (fst q); rq_path := snd (fst q); rq_proto := snd q |} in
  serve_seq_cached (tbuild sites) default_fallbacks [] [q1; q2] = [NotFound 404; NotFound 404] /\
  serve_seq_cached (tbuild sites) default_fallbacks [] [q2; q1; q2] = [Site 1 (bs "/app"%string); NotFound 404; NotFound 404] /\
  serve_seq (process [(sites, [])]) [r q1; r q2] = [Some (NotFound 404); Some (Site 1 (bs "/app"%string))].
Proof. vm_compute. repeat split; reflexivity. Qed.

(* ===================== the outcome is a function of the declared (host, path) -> site map ===== *)
Lemma host_declared_owner sites h :
  host_declared sites h = true <-> exists p, owner sites h p <> None.
Proof.
  split.
  - intros H. unfold host_declared in H. apply existsb_exists in H as [[key s] [Hin Hk]].
    cbn [fst] in Hk. apply beq_eq in Hk. subst h. exists (addr_path key).
    eapply owner_declared; eassumption.
  - intros [p Hp]. destruct (owner sites h p) as [s|] eqn:E; [|congruence].
    apply owner_some in E as [key [Hin [Hh _]]]. unfold host_declared. apply existsb_exists.
    exists (key, s). split; [assumption|]. cbn [fst]. rewrite Hh. apply beq_refl.
Qed.

Lemma host_declared_ext sites sites' :
  (forall h p, owner sites h p = owner sites' h p) ->
  forall h, host_declared sites h = host_declared sites' h.
Proof.
  intros Hown h.
  destruct (host_declared sites h) eqn:E1, (host_declared sites' h) eqn:E2; try reflexivity.
  - apply host_declared_owner in E1 as [p Hp]. rewrite Hown in Hp.
    assert (host_declared sites' h = true) by (apply host_declared_owner; eauto). congruence.
  - apply host_declared_owner in E2 as [p Hp]. rewrite <- Hown in Hp.
    assert (host_declared sites h = true) by (apply host_declared_owner; eauto). congruence.
Qed.

Theorem spec_function_of_owner sites sites' :
  (forall h p, owner sites h p = owner sites' h p) ->
  forall xf hh up proto, spec sites xf hh up proto = spec sites' xf hh up proto.
Proof.
  intros Hown xf hh up proto. unfold spec, governing_pattern.
  rewrite (first_some_ext _ (fun h => find (host_declared sites') (patterns h)))
    by (intros h; apply find_ext'; apply host_declared_ext; assumption).
  destruct (first_some _ _) as [pat|]; [|reflexivity].
  rewrite (first_some_ext _ (fun q => option_map (fun s => (s, q)) (owner sites' pat q)))
    by (intros q; rewrite Hown; reflexivity).
  reflexivity.
Qed.

Theorem route_function_of_owner sites sites' :
  (forall h p, owner sites h p = owner sites' h p) ->
  forall xf hh up proto,
    tserve (tbuild sites) xf hh up proto = tserve (tbuild sites') xf hh up proto.
Proof. intros H xf hh up proto. rewrite !route_spec. apply spec_function_of_owner. exact H. Qed.

(* with unique normalised addresses the map is the SET of declarations *)
Lemma nodup_map_inj {A B} (f : A -> B) : forall l x y,
  NoDup (map f l) -> In x l -> In y l -> f x = f y -> x = y.
Proof.
  induction l as [|a l IH]; intros x y Hnd Hx Hy Hf; [destruct Hx|].
  cbn [map] in Hnd. inversion Hnd as [|? ? Hni Hnd']; subst.
  destruct Hx as [Hx|Hx], Hy as [Hy|Hy].
  - congruence.
  - subst a. exfalso. apply Hni. rewrite Hf. apply in_map. assumption.
  - subst a. exfalso. apply Hni. rewrite <- Hf. apply in_map. assumption.
  - eapply IH; eassumption.
Qed.

Lemma owner_of_set sites h p s :
  NoDup (map addr_key sites) ->
  (owner sites h p = Some s <-> exists a, In (a, s) sites /\ addr_host a = h /\ addr_path a = p).
Proof.
  intros Hnd. split; [apply owner_some|].
  intros [a [Hin [Hh Hp]]]. pose proof (owner_declared _ _ _ Hin) as Hd. rewrite Hh, Hp in Hd.
  destruct (owner sites h p) as [s'|] eqn:E; [|congruence].
  apply owner_some in E as [a' [Hin' [Hh' Hp']]].
  assert (Heq : (a', s') = (a, s)).
  { eapply nodup_map_inj; try eassumption. unfold addr_key. cbn [fst]. congruence. }
  congruence.
Qed.

Theorem route_function_of_declared_set sites sites' :
  NoDup (map addr_key sites) -> NoDup (map addr_key sites') ->
  (forall a s, In (a, s) sites <-> In (a, s) sites') ->
  forall xf hh up proto,
    tserve (tbuild sites) xf hh up proto = tserve (tbuild sites') xf hh up proto.
Proof.
  intros Hnd Hnd' Hset. apply route_function_of_owner. intros h p.
  destruct (owner sites h p) as [s|] eqn:E.
  - symmetry. apply owner_of_set; [assumption|]. apply owner_of_set in E; [|assumption].
    destruct E as [a [Hin H]]. exists a. split; [apply Hset; assumption|assumption].
  - destruct (owner sites' h p) as [s|] eqn:E'; [|reflexivity].
    apply owner_of_set in E'; [|assumption]. destruct E' as [a [Hin H]].
    assert (owner sites h p = Some s) by (apply owner_of_set; [assumption|]; exists a; split; [apply Hset; assumption|assumption]).
    congruence.
Qed.

(* ===================== the request-target: routing sees the decoded path only ================= *)
Lemma unescape_spells : forall raw p, unescape raw = Some p <-> spells raw p.
Proof.
  intros raw p. split.
  - revert p. remember (length raw) as n eqn:Hn. revert raw Hn.
    induction n as [n IH] using lt_wf_ind. intros raw Hn p H.
    destruct raw as [|c r]; cbn [unescape] in H.
    + injection H as <-. constructor.
    + destruct (c =? PCT) eqn:Ec.
      * apply N.eqb_eq in Ec. subst c.
        destruct r as [|h [|l r']]; try discriminate.
        destruct (hexval h) as [a|] eqn:Ea; [|discriminate].
        destruct (hexval l) as [b|] eqn:Eb; [|discriminate].
        destruct (unescape r') as [p'|] eqn:Er; [|discriminate].
        cbn [option_map] in H. injection H as <-.
        apply spells_esc; try assumption.
        eapply (IH (length r')); [|reflexivity|assumption]. subst n. cbn [length]. lia.
      * apply N.eqb_neq in Ec.
        destruct (unescape r) as [p'|] eqn:Er; [|discriminate].
        cbn [option_map] in H. injection H as <-.
        apply spells_lit; [assumption|].
        eapply (IH (length r)); [|reflexivity|assumption]. subst n. cbn [length]. lia.
  - intros H. induction H as [|c r p Hc _ IH|h l a b r p Ha Hb _ IH].
    + reflexivity.
    + cbn [unescape]. apply N.eqb_neq in Hc. rewrite Hc, IH. reflexivity.
    + cbn [unescape]. rewrite N.eqb_refl, Ha, Hb, IH. reflexivity.
Qed.

Theorem target_route_decoded sites xf hh raw p proto :
  target_ok raw = true -> spells (upto_q raw) p ->
  tserve_target (tbuild sites) xf hh raw proto = Some (spec sites xf hh p proto).
Proof.
  intros Hok Hsp. unfold tserve_target, target_path. rewrite Hok.
  apply unescape_spells in Hsp. rewrite Hsp. cbn [option_map]. rewrite route_spec. reflexivity.
Qed.

Theorem target_route_spelling_irrelevant sites xf hh raw raw' p proto :
  target_ok raw = true -> target_ok raw' = true ->
  spells (upto_q raw) p -> spells (upto_q raw') p ->
  tserve_target (tbuild sites) xf hh raw proto = tserve_target (tbuild sites) xf hh raw' proto.
Proof.
  intros H1 H2 H3 H4.
  rewrite (target_route_decoded _ _ _ _ p _ H1 H3), (target_route_decoded _ _ _ _ p _ H2 H4).
  reflexivity.
Qed.

(* a spelling never decodes to two different paths, and a rejected target has none *)
Theorem spells_functional raw p p' : spells raw p -> spells raw p' -> p = p'.
Proof. intros H H'. apply unescape_spells in H, H'. congruence. Qed.

Theorem target_rejected_iff raw :
  target_path raw = None <-> (target_ok raw = false \/ forall p, ~ spells (upto_q raw) p).
Proof.
  unfold target_path. destruct (target_ok raw); split.
  - intros H. right. intros p Hp. apply unescape_spells in Hp. congruence.
  - intros [H|H]; [discriminate|]. destruct (unescape (upto_q raw)) as [p|] eqn:E; [|reflexivity].
    exfalso. apply (H p). apply unescape_spells. assumption.
  - auto.
  - reflexivity.
Qed.

(* hex digits: either letter case has the same value *)
Lemma hexval_case h : (65 <=? h) && (h <=? 70) = true -> hexval (h + 32) = hexval h.
Proof.
  intros H. apply andb_true_iff in H as [H1 H2]. apply N.leb_le in H1, H2.
  assert (Hc : h = 65 \/ h = 66 \/ h = 67 \/ h = 68 \/ h = 69 \/ h = 70) by lia.
  destruct Hc as [->|[->|[->|[->|[->| ->]]]]]; reflexivity.
Qed.

(* the literal spelling: a path without "%" spells itself, and every path has the all-escaped
   spelling, so every decoded path is reachable by a target *)
Lemma spells_literal : forall p, forallb (fun c => negb (c =? PCT)) p = true -> spells p p.
Proof.
  induction p as [|c p IH]; intros H; [constructor|].
  cbn [forallb] in H. apply andb_true_iff in H as [Hc Hr].
  apply spells_lit; [|apply IH; assumption].
  apply negb_true_iff in Hc. apply N.eqb_neq. assumption.
Qed.

(* ===================== host folding as Go does it (non-ASCII, invalid UTF-8) ================== *)
Lemma go_lower_ascii s : forallb (fun c => c <? 128) s = true -> go_lower s = to_lower s.
Proof. intros H. unfold go_lower. rewrite H. reflexivity. Qed.

Theorem route_u_fold_only sites xf hh hh' up proto :
  lower_key (strip_port hh ++ up) = lower_key (strip_port hh' ++ up) ->
  tserve_u sites xf hh up proto = tserve_u sites xf hh' up proto.
Proof. intros H. unfold tserve_u. rewrite H. reflexivity. Qed.

Theorem route_u_declared_fold_only sites sites' xf hh up proto :
  map (fun s => (lower_key (fst s), snd s)) sites = map (fun s => (lower_key (fst s), snd s)) sites' ->
  tserve_u sites xf hh up proto = tserve_u sites' xf hh up proto.
Proof. intros H. unfold tserve_u. rewrite H. reflexivity. Qed.

(* "the exact name" is the name after Go's folding: two host names that differ in a byte which is
   no letter at all are one name when both bytes are ill-formed UTF-8 *)
Lemma invalid_utf8_hosts_collide :
  exists sites hh up,
    sites = [([97; 255; 46; 99; 111; 109], 1)] /\ hh = [97; 254; 46; 99; 111; 109] /\
    to_lower hh <> to_lower [97; 255; 46; 99; 111; 109] /\
    tserve_u sites [] hh up 1 = Site 1 [SLASH].
Proof.
  exists [([97; 255; 46; 99; 111; 109], 1)], [97; 254; 46; 99; 111; 109], [SLASH].
  repeat split; try reflexivity. vm_compute. discriminate.
Qed.

(* on ASCII host text the explicit Go folding changes nothing: tserve_u is tserve *)
Lemma lower_byte_slash c : (lower_byte c =? SLASH) = (c =? SLASH).
Proof. apply lower_byte_fix. reflexivity. Qed.

Lemma lower_byte_idem c : lower_byte (lower_byte c) = lower_byte c.
Proof.
  unfold lower_byte. destruct ((65 <=? c) && (c <=? 90)) eqn:E; [|rewrite E; reflexivity].
  apply andb_true_iff in E as [E1 E2]. apply N.leb_le in E1, E2.
  destruct ((65 <=? c + 32) && (c + 32 <=? 90)) eqn:E'; [|reflexivity].
  apply andb_true_iff in E' as [_ E3]. apply N.leb_le in E3. lia.
Qed.

Lemma to_lower_idem s : to_lower (to_lower s) = to_lower s.
Proof. unfold to_lower. rewrite map_map. apply map_ext. intros c. apply lower_byte_idem. Qed.

Lemma upto_slash_lowered : forall k,
  upto_slash (to_lower (upto_slash k) ++ skipn (length (upto_slash k)) k) = to_lower (upto_slash k).
Proof.
  induction k as [|c r IH]; [reflexivity|]. cbn [upto_slash].
  destruct (c =? SLASH) eqn:E.
  - cbn [to_lower map length skipn app upto_slash]. rewrite E. reflexivity.
  - unfold to_lower in *. cbn [map length skipn app upto_slash]. rewrite lower_byte_slash, E, IH. reflexivity.
Qed.

Lemma after_slash_lowered : forall k,
  after_slash (to_lower (upto_slash k) ++ skipn (length (upto_slash k)) k) = after_slash k.
Proof.
  induction k as [|c r IH]; [reflexivity|]. cbn [upto_slash].
  destruct (c =? SLASH) eqn:E.
  - cbn [to_lower map length skipn app after_slash]. rewrite E. reflexivity.
  - unfold to_lower in *. cbn [map length skipn app after_slash]. rewrite lower_byte_slash, E, IH. reflexivity.
Qed.

Definition ascii_host (k : bytes) : bool := forallb (fun c => c <? 128) (upto_slash k).

Lemma split_host_path_lower_key k :
  ascii_host k = true -> split_host_path (lower_key k) = split_host_path k.
Proof.
  intros H. rewrite !split_host_path_addr. unfold lower_key. rewrite go_lower_ascii by exact H.
  unfold addr_host, addr_path. rewrite upto_slash_lowered, after_slash_lowered.
  unfold spec_norm_host. rewrite to_lower_idem. reflexivity.
Qed.

Lemma tinsert_lower_key t k s : ascii_host k = true -> tinsert t (lower_key k) s = tinsert t k s.
Proof. intros H. unfold tinsert. rewrite split_host_path_lower_key by exact H. reflexivity. Qed.

Lemma tbuild_lower_keys : forall sites t,
  forallb (fun s => ascii_host (fst s)) sites = true ->
  fold_left (fun t s => tinsert t (fst s) (snd s)) (map (fun s => (lower_key (fst s), snd s)) sites) t =
  fold_left (fun t s => tinsert t (fst s) (snd s)) sites t.
Proof.
  induction sites as [|x sites IH]; intros t H; [reflexivity|].
  cbn [forallb] in H. apply andb_true_iff in H as [Hx Hr].
  cbn [map fold_left fst snd]. rewrite tinsert_lower_key by exact Hx. apply IH. exact Hr.
Qed.

Theorem route_u_ascii sites xf hh up proto :
  forallb (fun s => ascii_host (fst s)) sites = true -> ascii_host (strip_port hh ++ up) = true ->
  tserve_u sites xf hh up proto = tserve (tbuild sites) xf hh up proto.
Proof.
  intros Hs Hh. unfold tserve_u, tserve, tbuild. rewrite tbuild_lower_keys by exact Hs.
  unfold ttrie_match. rewrite split_host_path_lower_key by exact Hh. reflexivity.
Qed.
