Require Import V.Lib V.GoPath V.GoNet V.C01_Model.
From Coq Require Import Permutation.
Open Scope N_scope.

(* ---------- longest path prefix ---------- *)
Lemma match_path_from_spec t h path : forall k s q,
  match_path_from t h path k = Some (s, q) ->
  exists j, (1 <= j <= k)%nat /\ q = firstn j path /\ lookup t h q = Some s /\
            forall j', (j < j' <= k)%nat -> lookup t h (firstn j' path) = None.
Proof.
  induction k as [|k IH]; intros s q H; cbn [match_path_from] in H; [discriminate|].
  destruct (lookup t h (firstn (S k) path)) as [s'|] eqn:E.
  - injection H as <- <-. exists (S k). split; [lia|]. split; [reflexivity|]. split; [exact E|]. intros j' Hj. lia.
  - destruct (IH _ _ H) as (j & Hj & Hq & Hl & Hn). exists j. split; [lia|]. split; [exact Hq|]. split; [exact Hl|].
    intros j' Hj'. destruct (Nat.eq_dec j' (S k)) as [->|Hne]; [exact E|]. apply Hn. lia.
Qed.

Lemma match_path_from_none t h path : forall k,
  match_path_from t h path k = None ->
  forall j, (1 <= j <= k)%nat -> lookup t h (firstn j path) = None.
Proof.
  induction k as [|k IH]; intros H j Hj; [lia|]. cbn [match_path_from] in H.
  destruct (lookup t h (firstn (S k) path)) eqn:E; [discriminate|].
  destruct (Nat.eq_dec j (S k)) as [->|Hne]; [exact E|]. apply IH; auto. lia.
Qed.

Lemma has_prefix_firstn : forall (p s : bytes), has_prefix s p = true -> p = firstn (length p) s.
Proof.
  induction p as [|y p IH]; intros [|x s] H; simpl in *; try reflexivity; try discriminate.
  apply andb_true_iff in H as [H1 H2]. apply N.eqb_eq in H1. subst. f_equal. apply IH. exact H2.
Qed.

Lemma has_prefix_length : forall (p s : bytes), has_prefix s p = true -> (length p <= length s)%nat.
Proof.
  induction p as [|y p IH]; intros [|x s] H; simpl in *; try lia; try discriminate.
  apply andb_true_iff in H as [_ H2]. specialize (IH _ H2). lia.
Qed.

(* The site chosen owns the LONGEST stored path that is a byte-wise prefix of the request path. *)
Theorem match_path_longest t h path s q :
  match_path t h path = Some (s, q) ->
  has_prefix path q = true /\ q <> [] /\ lookup t h q = Some s /\
  forall q', q' <> [] -> has_prefix path q' = true -> lookup t h q' <> None ->
             (length q' <= length q)%nat.
Proof.
  unfold match_path. intros H. apply match_path_from_spec in H as (j & Hj & -> & Hl & Hn).
  assert (Hlen : length (firstn j path) = j) by (rewrite firstn_length; lia).
  repeat split.
  - clear. revert j. induction path as [|c path IH]; intros [|j]; simpl; auto.
    rewrite N.eqb_refl. apply IH.
  - intro E. rewrite E in Hlen. simpl in Hlen. lia.
  - exact Hl.
  - intros q' Hne Hp Hs. rewrite Hlen.
    destruct (Nat.le_gt_cases (length q') j) as [|Hgt]; [assumption|].
    exfalso. apply Hs. rewrite (has_prefix_firstn _ _ Hp). apply Hn.
    split; [exact Hgt|]. apply has_prefix_length. exact Hp.
Qed.

Theorem match_path_none t h path :
  match_path t h path = None ->
  forall q', q' <> [] -> has_prefix path q' = true -> lookup t h q' = None.
Proof.
  unfold match_path. intros H q' Hne Hp. rewrite (has_prefix_firstn _ _ Hp).
  apply match_path_from_none with (k := length path); auto.
  split; [destruct q'; [congruence|simpl; lia] | apply has_prefix_length; exact Hp].
Qed.

(* ---------- most specific host ---------- *)
Lemma find_first {A} (P : A -> bool) : forall l x,
  find P l = Some x -> exists pre post, l = pre ++ x :: post /\ P x = true /\
                                         forall y, In y pre -> P y = false.
Proof.
  induction l as [|a l IH]; intros x H; simpl in H; [discriminate|].
  destruct (P a) eqn:E.
  - injection H as <-. exists [], l. repeat split; auto. intros y [].
  - destruct (IH _ H) as (pre & post & -> & Px & Hpre). exists (a :: pre), post.
    repeat split; auto. intros y [<-|Hy]; auto.
Qed.

(* The host key used is the FIRST candidate present: the exact name if it is declared, otherwise
   the wildcard pattern with the fewest leading "*" labels. *)
Theorem match_host_most_specific t host k :
  match_host t host = Some k ->
  host_present t k = true /\
  (k = host \/
   host_present t host = false /\
   exists j, (1 <= j <= length (split DOT host))%nat /\
     k = join [DOT] (star_labels j (split DOT host)) /\
     forall j', (1 <= j' < j)%nat ->
       host_present t (join [DOT] (star_labels j' (split DOT host))) = false).
Proof.
  unfold match_host, host_candidates. intros H. cbn [find] in H.
  destruct (host_present t host) eqn:Eh.
  - injection H as <-. auto.
  - unfold wildcard_candidates in H. set (labels := split DOT host) in *.
    apply find_first in H as (pre & post & Hsplit & Pk & Hpre). split; [exact Pk|]. right.
    split; [reflexivity|].
    (* position of k in the mapped seq *)
    assert (Hlen : (length pre < length labels)%nat).
    { apply (f_equal (@length _)) in Hsplit. rewrite map_length, seq_length, app_length in Hsplit.
      simpl in Hsplit. lia. }
    exists (S (length pre)). split; [lia|]. split.
    + apply (f_equal (fun l => nth (length pre) l [])) in Hsplit.
      rewrite nth_middle in Hsplit. rewrite <- Hsplit.
      rewrite (nth_indep _ [] (join [DOT] (star_labels 0 labels)))
        by (rewrite map_length, seq_length; lia).
      rewrite map_nth with (d := 0%nat). rewrite seq_nth by lia. reflexivity.
    + intros j' Hj'. apply Hpre.
      assert (Hn : nth (j' - 1) (map (fun k0 => join [DOT] (star_labels k0 labels)) (seq 1 (length labels)))
                       (join [DOT] (star_labels 0 labels)) = join [DOT] (star_labels j' labels)).
      { rewrite map_nth with (d := 0%nat). rewrite seq_nth by lia. f_equal. f_equal. lia. }
      rewrite Hsplit in Hn. rewrite app_nth1 in Hn by lia. rewrite <- Hn. apply nth_In. lia.
Qed.

Theorem exact_host_wins t host : host_present t host = true -> match_host t host = Some host.
Proof. intros H. unfold match_host, host_candidates. cbn [find]. rewrite H. reflexivity. Qed.

(* ---------- not found ---------- *)
Theorem not_found_status t xf hh up proto st :
  serve t xf hh up proto = NotFound st -> st = (if 2 <=? proto then 421 else 404).
Proof.
  unfold serve. destruct (trie_match _ _ _) as [[s p]|]; [discriminate|].
  intros H; injection H as <-. reflexivity.
Qed.

(* ---------- order independence ---------- *)
Definition key_of (s : bytes * N) : bytes * bytes := split_host_path (fst s).
Definition entry_of (s : bytes * N) : entry :=
  {| e_host := fst (key_of s); e_path := snd (key_of s); e_site := snd s |}.

Lemma same_key_iff h p e : same_key h p e = true <-> (e_host e, e_path e) = (h, p).
Proof.
  unfold same_key. rewrite andb_true_iff, !beq_eq. split; [intros [-> ->]; reflexivity|].
  intros H; injection H as -> ->. auto.
Qed.

Lemma insert_entry t s : insert t (fst s) (snd s) =
  entry_of s :: filter (fun e => negb (same_key (fst (key_of s)) (snd (key_of s)) e)) t.
Proof. unfold insert, entry_of, key_of. destruct (split_host_path (fst s)). reflexivity. Qed.

Lemma build_snoc sites s : build (sites ++ [s]) = insert (build sites) (fst s) (snd s).
Proof. unfold build. rewrite fold_left_app. reflexivity. Qed.

Lemma filter_all_true {A} (P : A -> bool) l : (forall x, In x l -> P x = true) -> filter P l = l.
Proof.
  induction l as [|a l IH]; intros H; simpl; [reflexivity|].
  rewrite (H a (or_introl eq_refl)). f_equal. apply IH. intros x Hx. apply H. right. exact Hx.
Qed.

Lemma build_distinct : forall sites, NoDup (map key_of sites) -> build sites = rev (map entry_of sites).
Proof.
  induction sites as [|s sites IH] using rev_ind; intros Hnd; [reflexivity|].
  rewrite build_snoc, insert_entry, map_app, rev_app_distr. cbn [map rev app].
  rewrite map_app in Hnd. cbn [map] in Hnd. apply NoDup_remove in Hnd as [Hnd' Hnotin].
  rewrite app_nil_r in Hnd', Hnotin. rewrite IH by exact Hnd'. f_equal.
  apply filter_all_true. intros e He. apply negb_true_iff.
  destruct (same_key _ _ e) eqn:E; [|reflexivity]. exfalso. apply Hnotin.
  apply same_key_iff in E. apply in_rev in He. apply in_map_iff in He as (s' & <- & Hs').
  apply in_map_iff. exists s'. split; [|exact Hs'].
  unfold entry_of in E. cbn in E. destruct (key_of s'), (key_of s). cbn in E. exact E.
Qed.

Lemma find_unique_perm (l l' : list entry) h p :
  NoDup (map (fun e => (e_host e, e_path e)) l) -> Permutation l l' ->
  find (same_key h p) l = find (same_key h p) l'.
Proof.
  intros Hnd Hperm.
  destruct (find (same_key h p) l) as [e|] eqn:E.
  - apply find_some in E as [Hin Hk].
    destruct (find (same_key h p) l') as [e'|] eqn:E'.
    + apply find_some in E' as [Hin' Hk']. f_equal.
      apply same_key_iff in Hk, Hk'.
      apply (Permutation_in _ (Permutation_sym Hperm)) in Hin'.
      (* two entries of l with the same key are equal *)
      clear - Hnd Hin Hin' Hk Hk'. induction l as [|a l IH]; [contradiction|].
      simpl in Hnd. inversion Hnd as [|x xs Hnotin Hnd']; subst.
      destruct Hin as [->|Hin], Hin' as [->|Hin']; auto.
      * exfalso. apply Hnotin. apply in_map_iff. exists e'. split; [congruence|exact Hin'].
      * exfalso. apply Hnotin. apply in_map_iff. exists e. split; [congruence|exact Hin].
    + exfalso. pose proof (find_none _ _ E' e (Permutation_in _ Hperm Hin)) as Hk2. congruence.
  - destruct (find (same_key h p) l') as [e'|] eqn:E'; [|reflexivity].
    apply find_some in E' as [Hin' Hk'].
    rewrite (find_none _ _ E e' (Permutation_in _ (Permutation_sym Hperm) Hin')) in Hk'. discriminate.
Qed.

Lemma entries_keys sites :
  map (fun e => (e_host e, e_path e)) (map entry_of sites) = map key_of sites.
Proof.
  rewrite map_map. apply map_ext. intros s. unfold entry_of. cbn. destruct (key_of s). reflexivity.
Qed.

Lemma existsb_perm {A} (P : A -> bool) l l' : Permutation l l' -> existsb P l = existsb P l'.
Proof.
  induction 1 as [|x l l' _ IH|x y l|l l' l'' _ IH1 _ IH2]; simpl.
  - reflexivity.
  - rewrite IH. reflexivity.
  - destruct (P x), (P y); reflexivity.
  - congruence.
Qed.

Lemma lookup_perm sites sites' h p :
  NoDup (map key_of sites) -> Permutation sites sites' ->
  lookup (build sites) h p = lookup (build sites') h p.
Proof.
  intros Hnd Hperm.
  assert (Hnd' : NoDup (map key_of sites')) by
    (eapply Permutation_NoDup; [apply Permutation_map; exact Hperm | exact Hnd]).
  rewrite !build_distinct by assumption. unfold lookup.
  rewrite (find_unique_perm (rev (map entry_of sites)) (rev (map entry_of sites')) h p); [reflexivity| |].
  - rewrite map_rev, entries_keys. apply NoDup_rev. exact Hnd.
  - eapply Permutation_trans; [apply Permutation_sym, Permutation_rev|].
    eapply Permutation_trans; [|apply Permutation_rev]. apply Permutation_map. exact Hperm.
Qed.

Lemma host_present_perm sites sites' h :
  NoDup (map key_of sites) -> Permutation sites sites' ->
  host_present (build sites) h = host_present (build sites') h.
Proof.
  intros Hnd Hperm.
  assert (Hnd' : NoDup (map key_of sites')) by
    (eapply Permutation_NoDup; [apply Permutation_map; exact Hperm | exact Hnd]).
  rewrite !build_distinct by assumption. unfold host_present. apply existsb_perm.
  eapply Permutation_trans; [apply Permutation_sym, Permutation_rev|].
  eapply Permutation_trans; [|apply Permutation_rev]. apply Permutation_map. exact Hperm.
Qed.

(* everything downstream depends on the table only through lookup and host_present *)
Lemma match_path_from_ext t t' h path :
  (forall p, lookup t h p = lookup t' h p) ->
  forall k, match_path_from t h path k = match_path_from t' h path k.
Proof. intros H. induction k as [|k IH]; simpl; [reflexivity|]. rewrite H, IH. reflexivity. Qed.

Lemma first_some_ext {A B} (f g : A -> option B) l :
  (forall x, f x = g x) -> first_some f l = first_some g l.
Proof. intros H. induction l as [|a l IH]; simpl; [reflexivity|]. rewrite H, IH. reflexivity. Qed.

Lemma find_ext' {A} (f g : A -> bool) l : (forall x, f x = g x) -> find f l = find g l.
Proof. intros H. induction l as [|a l IH]; simpl; [reflexivity|]. rewrite H, IH. reflexivity. Qed.

Lemma serve_ext t t' xf hh up proto :
  (forall h p, lookup t h p = lookup t' h p) ->
  (forall h, host_present t h = host_present t' h) ->
  serve t xf hh up proto = serve t' xf hh up proto.
Proof.
  intros Hl Hp. unfold serve, trie_match.
  destruct (split_host_path (strip_port hh ++ up)) as [host path].
  assert (Hm : forall h, match_host t h = match_host t' h).
  { intros h. unfold match_host. apply find_ext'. exact Hp. }
  rewrite (first_some_ext (match_host t) (match_host t') _ Hm).
  destruct (first_some (match_host t') _) as [hk|]; [|reflexivity].
  unfold match_path. rewrite (match_path_from_ext t t' hk path (Hl hk)). reflexivity.
Qed.

(* The outcome never depends on the order in which the sites were declared. *)
Theorem route_order_independent sites sites' xf hh up proto :
  NoDup (map key_of sites) -> Permutation sites sites' ->
  serve (build sites) xf hh up proto = serve (build sites') xf hh up proto.
Proof.
  intros Hnd Hperm. apply serve_ext.
  - intros h p. apply lookup_perm; assumption.
  - intros h. apply host_present_perm; assumption.
Qed.

(* the routed site is one of the declared ones, reached through a key it owns; exactly one site
   is chosen (serve is a function) and its path key is a prefix of the request path *)
Theorem serve_site_declared sites xf hh up proto s prefix :
  NoDup (map key_of sites) ->
  serve (build sites) xf hh up proto = Site s prefix ->
  exists key, In (key, s) sites /\ snd (split_host_path key) = prefix /\
              has_prefix (snd (split_host_path (strip_port hh ++ up))) prefix = true.
Proof.
  intros Hnd. unfold serve, trie_match.
  destruct (split_host_path (strip_port hh ++ up)) as [host path] eqn:Esp. cbn [snd].
  destruct (first_some _ _) as [hk|]; [|discriminate].
  destruct (match_path (build sites) hk path) as [[s' q]|] eqn:Em; [|discriminate].
  intros H; injection H as <- <-.
  apply match_path_longest in Em as (Hp & _ & Hl & _).
  unfold lookup in Hl. destruct (find _ _) as [e|] eqn:Ef; [|discriminate]. injection Hl as <-.
  apply find_some in Ef as [Hin Hk]. apply same_key_iff in Hk.
  rewrite build_distinct in Hin by exact Hnd. apply in_rev in Hin.
  apply in_map_iff in Hin as ([key sid] & <- & Hs).
  exists key. split; [exact Hs|]. split; [|exact Hp].
  unfold entry_of, key_of in Hk. cbn in Hk. injection Hk as _ Hq. exact Hq.
Qed.
