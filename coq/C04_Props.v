(* C04 — property theorems only. *)
Require Import V.Lib V.GoPath V.GoNet V.Gen_C04 V.C04_Model V.C04_Proofs.
Open Scope N_scope.

Theorem C04_hlookup_app :
  forall a b k, hlookup (a ++ b) k = match hlookup a k with Some v => Some v | None => hlookup b k end.
Proof. exact hlookup_app. Qed.
Print Assumptions C04_hlookup_app.
