(* C04 — reverse proxy relays requests and responses faithfully: property theorems only.
   Each is closed by [exact] of a lemma proved in C04_Proofs.v and followed by Print Assumptions.
   Headers are Go maps, so statements are pointwise in the looked-up key (hlookup). *)
Require Import V.Lib V.GoPath V.GoNet V.Gen_C04 V.C04_Model V.C04_Proofs V.C04_TrailerProofs V.C04_HeapModel V.C04_HeapProofs.
Open Scope N_scope.

(* ---- request direction: createUpstreamRequest ---- *)

(* End-to-end headers intact: for EVERY header map, client address and key that is neither in the
   hop-by-hop table, nor named in any Connection line, nor X-Forwarded-For, the value that
   leaves createUpstreamRequest is the value that came in. *)
Theorem C04_e2e_request_headers_preserved :
  forall h remote k,
  ~ In k gen_hop_headers ->
  (forall tok, In tok (all_conn_tokens h) -> canon_key tok <> k) ->
  k <> K_XFF ->
  hlookup (create_upstream_headers remote h) k = hlookup h k.
Proof. exact e2e_preserved. Qed.
Print Assumptions C04_e2e_request_headers_preserved.

(* Hop-by-hop headers removed, full clause: EVERY header of the hop-by-hop table (whatever its
   values, an empty first value included) and every header named in ANY Connection line (all values
   of the Connection header, all comma-separated tokens) is absent upstream; and nothing absent is
   invented. (X-Forwarded-For is the one header the proxy writes itself: see C04_xff_appended.) *)
Theorem C04_hop_headers_removed :
  forall h remote,
  (forall k, In k gen_hop_headers -> hlookup (create_upstream_headers remote h) k = None) /\
  (forall tok, In tok (all_conn_tokens h) -> canon_key tok <> K_XFF ->
               hlookup (create_upstream_headers remote h) (canon_key tok) = None) /\
  (forall k, k <> K_XFF -> hlookup h k = None -> hlookup (create_upstream_headers remote h) k = None).
Proof.
  intros h remote. split; [|split].
  - intros k. exact (hop_removed h remote k).
  - intros tok. exact (conn_listed_removed h remote tok).
  - intros k. exact (absent_stays_absent h remote k).
Qed.
Print Assumptions C04_hop_headers_removed.

(* The same in the terms of the executable spec (is_hop_for = RFC hop-by-hop list or named in any
   Connection line of this very header map): no such header reaches the backend. *)
Theorem C04_hop_headers_removed_spec :
  forall h remote k, is_hop_for h k = true -> k <> K_XFF -> hlookup (create_upstream_headers remote h) k = None.
Proof. exact is_hop_for_removed. Qed.
Print Assumptions C04_hop_headers_removed_spec.

Example C04_hop_headers_removed_nonvacuous :
  hlookup (create_upstream_headers (bs "192.0.2.7:4711"%string)
             [(bs "Keep-Alive"%string, [bs "timeout=5"%string]); (bs "Proxy-Authorization"%string, [bs "Basic abc"%string]);
              (K_CONNECTION, [bs "x-a, Keep-Alive"%string]); (bs "X-A"%string, [bs "v"%string]); (bs "X-B"%string, [bs "w"%string])])
          (bs "X-B"%string) = Some [bs "w"%string] /\
  In (bs "Keep-Alive"%string) gen_hop_headers /\ In (bs "x-a"%string) (all_conn_tokens [(K_CONNECTION, [bs "x-a, Keep-Alive"%string])]).
Proof. vm_compute. tauto. Qed.

(* the witness of the former finding F-C04-1: a header named in a SECOND Connection line is removed *)
Example C04_second_connection_line_nonvacuous :
  In (bs "X-Secret"%string) (all_conn_tokens wit_h2) /\ hlookup wit_h2 (bs "X-Secret"%string) = Some [bs "v1"%string] /\
  hlookup (create_upstream_headers (bs "192.0.2.7:4711"%string) wit_h2) (bs "X-Secret"%string) = None.
Proof. exact second_connection_line_removed. Qed.

(* the witness of the former finding F-C04-2: a hop-by-hop header whose FIRST value is empty is removed *)
Example C04_hop_empty_first_value_nonvacuous :
  In (bs "Proxy-Authorization"%string) gen_hop_headers /\
  hlookup wit_h1 (bs "Proxy-Authorization"%string) = Some [[]; bs "Basic abc"%string] /\
  hlookup (create_upstream_headers (bs "192.0.2.7:4711"%string) wit_h1) (bs "Proxy-Authorization"%string) = None.
Proof. exact hop_empty_first_value_removed. Qed.

(* The hop-by-hop table regenerated from reverseproxy.go contains every RFC 7230 / RFC 2616 hop-by-hop
   header (and the de-facto ones): dropping an entry from hopHeaders breaks this obligation. *)
Theorem C04_hop_table_covers_rfc : forallb (fun k => mem k gen_hop_headers) spec_hop = true.
Proof. exact spec_hop_covered. Qed.
Print Assumptions C04_hop_table_covers_rfc.

(* Client address appended to X-Forwarded-For: whatever survives the stripping is folded into ONE
   comma+space separated value ending in the client IP; with prior values the result is their join
   followed by the IP, without any it is the IP alone. *)
Theorem C04_xff_appended :
  forall h remote ip port,
  split_host_port remote = Some (ip, port) ->
  (forall prior, (forall tok, In tok (all_conn_tokens h) -> canon_key tok <> K_XFF) ->
                 hlookup h K_XFF = Some prior -> prior <> [] ->
                 hlookup (create_upstream_headers remote h) K_XFF = Some [join COMMA_SP (prior ++ [ip])]) /\
  (hlookup h K_XFF = None -> hlookup (create_upstream_headers remote h) K_XFF = Some [ip]).
Proof.
  intros h remote ip port Hs. split.
  - intros prior. exact (xff_folded h remote ip port prior Hs).
  - exact (xff_fresh h remote ip port Hs).
Qed.
Print Assumptions C04_xff_appended.

(* ---- path, query: the director ---- *)

(* singleJoiningSlash joins with EXACTLY one slash (independent formulation). *)
Theorem C04_single_joining_slash : forall a b, sjs a b = join_one_slash a b.
Proof. exact sjs_spec. Qed.
Print Assumptions C04_single_joining_slash.

(* Path changed only by the base path and the `without` prefix, query only by the target's own
   query, for every target, prefix and request URL (one application of the director). *)
Theorem C04_path_rewrite_spec :
  forall t without u,
  u_path (director t without u) = join_one_slash (t_path t) (if is_nil without then u_path u else trim_prefix (u_path u) without) /\
  u_query (director t without u) = spec_query t (u_query u) /\
  (t_query t = [] -> u_query (director t without u) = u_query u) /\
  u_rawpath (director t [] u) = spec_rawpath t [] u.
Proof.
  intros t w u. split; [exact (director_path t w u)|]. split; [exact (director_query t w u)|].
  split; [exact (director_query_no_target_query t w u)|exact (director_rawpath_plain t u)].
Qed.
Print Assumptions C04_path_rewrite_spec.

(* ---- header rules: exactly the configured changes ---- *)

(* For EVERY rule table (header_upstream or header_downstream, incl. presets and regex
   replacements), header map and key: the value after mutateHeadersByRules is the value before
   transformed by exactly the operations of the rules that target this key, in table order —
   set = last configured value (skipped when its replacement is empty), + = append every non-empty
   replacement, - = delete, regex = rewrite the first value; every other header is untouched.
   (h0 = r.Header, the client's own header map, which the placeholders read; the rules rewrite a
   different map: the upstream request's own copy, or the backend response's headers.) *)
Theorem C04_header_rules_exact :
  forall e h0 rules res h k,
  hlookup (mutate_headers e h0 rules res h) k =
  fold_left vop_apply (vops_for (subst_of e h0) rules k ++ revops_for (subst_of e h0) res k) (hlookup h k).
Proof. exact mutate_headers_lookup. Qed.
Print Assumptions C04_header_rules_exact.

Theorem C04_header_rules_touch_nothing_else :
  forall e h0 rules res h k,
  (forall r, In r rules -> rule_target (fst r) <> k) ->
  (forall r, In r res -> canon_key (fst r) <> k) ->
  hlookup (mutate_headers e h0 rules res h) k = hlookup h k.
Proof. exact mutate_headers_untouched. Qed.
Print Assumptions C04_header_rules_touch_nothing_else.

(* One attempt of the retry loop started from state st: headers = (stripped headers + upstream
   credentials) transformed by exactly the header_upstream rules; path/query per the director;
   the request goes to the chosen upstream's host. *)
Theorem C04_upstream_request_spec :
  forall c e h0 st t,
  let o := snd (attempt c e h0 st t) in
  (forall k, hlookup (o_hdr o) k =
             fold_left vop_apply (vops_for (subst_of e h0) (c_up c) k ++ revops_for (subst_of e h0) (c_upre c) k)
                       (hlookup (auth_hdr t (s_hdr st)) k)) /\
  u_path (o_url o) = spec_path t (c_without c) (u_path (s_url st)) /\
  u_query (o_url o) = spec_query t (u_query (s_url st)) /\
  o_urlhost o = t_host t.
Proof. exact attempt_spec. Qed.
Print Assumptions C04_upstream_request_spec.

(* ... and with retries (try_duration set) EVERY attempt - the first and each retry, to whichever
   upstream t the policy selects - is that rewrite applied exactly ONCE to the request the client
   sent: base path, `without`, target query, upstream credentials and header rules are never
   applied on top of a previous attempt's result. *)
Theorem C04_retry_every_attempt_spec :
  forall c q ts i t,
  nth_error ts i = Some t ->
  exists o, nth_error (fst (run_request c true q ts)) i = Some o /\
    u_path (o_url o) = spec_path t (c_without c) (u_path (q_url q)) /\
    u_query (o_url o) = spec_query t (u_query (q_url q)) /\
    o_urlhost o = t_host t /\
    (forall k, hlookup (o_hdr o) k =
               fold_left vop_apply (vops_for (subst_of (env_of q) (q_hdr q)) (c_up c) k ++
                                    revops_for (subst_of (env_of q) (q_hdr q)) (c_upre c) k)
                         (hlookup (auth_hdr t (create_upstream_headers (q_remote q) (q_hdr q))) k)).
Proof. exact retry_every_attempt_spec. Qed.
Print Assumptions C04_retry_every_attempt_spec.

(* the witness of the former finding F-C04-4: attempt 2 goes to /base/x?tq=1&a=b with ONE X-A value *)
Example C04_retry_every_attempt_nonvacuous :
  exists o1 o2, fst (run_request wit_c true wit_q [wit_t; wit_t]) = [o1; o2] /\
    u_path (o_url o2) = bs "/base/x"%string /\ u_query (o_url o2) = bs "tq=1&a=b"%string /\
    hlookup (o_hdr o2) (bs "X-A"%string) = Some [bs "lit"%string] /\ o2 = o1.
Proof. exact retry_rewrite_once. Qed.

(* The request the backend receives (first attempt, with or without retries), for EVERY configuration
   and client request: the upstream request has its own header map, so the {>Header} placeholders of
   the rules read what the CLIENT sent (q_hdr q) - never X-Forwarded-For as appended by the proxy,
   the upstream's credentials or what another rule wrote - and the result is the stripped headers
   (+ upstream credentials) transformed by exactly the configured operations. *)
Theorem C04_placeholders_read_client_headers :
  forall c retriable q t ts,
  exists o os, fst (run_request c retriable q (t :: ts)) = o :: os /\
    u_path (o_url o) = spec_path t (c_without c) (u_path (q_url q)) /\
    u_query (o_url o) = spec_query t (u_query (q_url q)) /\
    o_urlhost o = t_host t /\
    (forall k, hlookup (o_hdr o) k =
               fold_left vop_apply (vops_for (subst_of (env_of q) (q_hdr q)) (c_up c) k ++
                                    revops_for (subst_of (env_of q) (q_hdr q)) (c_upre c) k)
                         (hlookup (auth_hdr t (create_upstream_headers (q_remote q) (q_hdr q))) k)).
Proof. exact first_attempt_spec. Qed.
Print Assumptions C04_placeholders_read_client_headers.

(* the witness of the former finding F-C04-5: `header_upstream X-New {>X-Forwarded-For}` yields the
   client's value whether or not the client also sent `Connection: keep-alive` *)
Example C04_placeholders_read_client_headers_nonvacuous :
  exists o o',
    fst (run_request wit_c5 false wit_q [wit_t]) = [o] /\ fst (run_request wit_c5 false wit_q' [wit_t]) = [o'] /\
    hlookup (o_hdr o) (bs "X-New"%string) = Some [bs "1.1.1.1"%string] /\
    hlookup (o_hdr o') (bs "X-New"%string) = Some [bs "1.1.1.1"%string] /\
    hlookup (o_hdr o) K_XFF = Some [bs "1.1.1.1, 192.0.2.7"%string].
Proof. exact placeholder_reads_client_headers. Qed.

(* ---- response direction ---- *)

(* Before the header_downstream rules run: every header of the hop-by-hop table and every header
   named in ANY Connection line of the backend response (all values, all comma-separated tokens) is
   gone, every other backend header is unchanged. *)
Theorem C04_response_headers_spec :
  forall h,
  (forall k, In k gen_hop_headers -> hlookup (resp_strip h) k = None) /\
  (forall tok, In tok (all_conn_tokens h) -> hlookup (resp_strip h) (canon_key tok) = None) /\
  (forall k, ~ In k gen_hop_headers -> (forall tok, In tok (all_conn_tokens h) -> canon_key tok <> k) ->
             hlookup (resp_strip h) k = hlookup h k).
Proof.
  intros h. split; [|split].
  - intros k. exact (resp_hop_removed h k).
  - intros tok. exact (resp_conn_listed_removed h tok).
  - intros k. exact (resp_e2e_preserved h k).
Qed.
Print Assumptions C04_response_headers_spec.

(* The same in the terms of the executable spec: no header that is hop-by-hop for this response
   (RFC list, or named in any of its Connection lines) reaches the client side. *)
Theorem C04_response_hop_headers_removed_spec :
  forall h k, is_hop_for h k = true -> hlookup (resp_strip h) k = None.
Proof. exact resp_is_hop_for_removed. Qed.
Print Assumptions C04_response_hop_headers_removed_spec.

(* the witness of the former finding F-C04-3: a response header named in a SECOND Connection line is removed *)
Example C04_response_second_connection_line_nonvacuous :
  In (bs "X-Secret"%string) (all_conn_tokens wit_h2) /\ hlookup wit_h2 (bs "X-Secret"%string) = Some [bs "v1"%string] /\
  hlookup (resp_strip wit_h2) (bs "X-Secret"%string) = None.
Proof. exact response_second_connection_line_removed. Qed.

(* Status relayed unchanged; trailers: every trailer the backend sent (announced or not) is handed
   to the client side with its values, and nothing else is. *)
Theorem C04_status_and_trailers_spec :
  forall c e live pre b,
  v_status (client_view c e live pre b) = b_status b /\
  (forall k vs, NoDup (map fst (b_trailers b)) -> In (k, vs) (b_trailers b) ->
                hlookup (v_trailers (client_view c e live pre b)) k = Some vs) /\
  (forall k, ~ In k (b_announced b) -> ~ In k (map fst (b_trailers b)) ->
             hlookup (v_trailers (client_view c e live pre b)) k = None).
Proof.
  intros c e live pre b. split; [reflexivity|]. split.
  - intros k vs. exact (trailers_relayed b k vs).
  - intros k. exact (trailers_nothing_else b k).
Qed.
Print Assumptions C04_status_and_trailers_spec.

(* ---- response direction, continued: copyHeader, body bytes, trailers ---- *)

(* Which backend headers reach the client, overwrite vs add. (1) The skip table regenerated from
   reverseproxy.go is exactly the documented one (Content-Type, Content-Disposition, Accept-Ranges,
   Set-Cookie, Cache-Control, Expires). (2) copyHeader, for EVERY destination map, backend header map
   (a Go map with canonical keys) and key k: a header the backend does not send keeps the value the
   ResponseWriter already had; one the writer did not have yet arrives with all its values; when both
   exist a header of the skip table keeps the writer's value, Server gets the backend's values
   appended, every other header is overwritten by the backend's values. (3) The header map handed to
   the client is that function of what the writer already carried (pre) and of the backend header
   after hop-by-hop removal and exactly the header_downstream operations. *)
Theorem C04_response_copy_header_spec :
  (forall k, mem k gen_skip_headers = mem k spec_skip) /\
  (forall dst src k, NoDup (map fst src) -> (forall k', In k' (map fst src) -> canon_key k' = k') ->
     hlookup (copy_header dst src) k = copy_value gen_skip_headers (hlookup dst k) (hlookup src k) k) /\
  (forall c e live pre b k, keys_ok (b_hdr b) -> k <> K_TRAILER \/ b_announced b = [] ->
     hlookup (v_hdr (client_view c e live pre b)) k =
     copy_value gen_skip_headers (hlookup pre k)
       (fold_left vop_apply (vops_for (subst_of e live) (c_down c) k ++ revops_for (subst_of e live) (c_downre c) k)
                  (hlookup (resp_strip (b_hdr b)) k)) k).
Proof. exact response_copy_header_spec. Qed.
Print Assumptions C04_response_copy_header_spec.

Example C04_response_copy_header_nonvacuous :
  let dst : hdr := [(bs "Content-Type"%string, [bs "text/pre"%string]); (K_SERVER, [bs "Casket"%string]); (bs "X-A"%string, [bs "pre"%string])] in
  let src : hdr := [(bs "Content-Type"%string, [bs "text/html"%string]); (K_SERVER, [bs "backend"%string]);
                    (bs "X-A"%string, [bs "v1"%string; bs "v2"%string]); (bs "X-B"%string, [bs "b"%string])] in
  keys_ok src /\
  hlookup (copy_header dst src) (bs "Content-Type"%string) = Some [bs "text/pre"%string] /\
  hlookup (copy_header dst src) K_SERVER = Some [bs "Casket"%string; bs "backend"%string] /\
  hlookup (copy_header dst src) (bs "X-A"%string) = Some [bs "v1"%string; bs "v2"%string] /\
  hlookup (copy_header dst src) (bs "X-B"%string) = Some [bs "b"%string].
Proof. exact copy_header_nonvacuous. Qed.

(* Body bytes. The copy loop of copyResponse/pooledIoCopy (io.CopyBuffer), for EVERY body, EVERY
   behaviour of the backend body reader (any segmentation: a cap for every Read, Reads returning no
   bytes, EOF with or after the last bytes) and EVERY buffer size > 0: the Write calls, concatenated,
   are exactly the body, and each is non-empty and fits the buffer. And whatever the header map and
   the trailers, wherever Flush calls (flush timer) fall between those writes, the bytes the
   ResponseWriter delivers to the client are exactly the body. *)
Theorem C04_body_relay_spec :
  forall bufsz r, (0 < bufsz)%nat ->
  (concat (copy_writes bufsz r) = r_data r /\ Forall (fun w => (0 < length w <= bufsz)%nat) (copy_writes bufsz r)) /\
  (forall h b mid, flush_interleave (map OWrite (copy_writes bufsz r)) mid ->
                   rs_out (rw_run true h (resp_ops_with b mid)) = r_data r).
Proof. exact body_relay_spec. Qed.
Print Assumptions C04_body_relay_spec.

(* Request body with retries: newBufferedBody reads the body once, every attempt re-reads it from
   the start - each of the attempts carries exactly the client's body. (Sharing of the buffer's
   memory with other requests is outside this model: that is what the concurrent cases observe.) *)
Theorem C04_request_body_every_attempt :
  forall body n i, (i < n)%nat -> nth_error (buffered_attempt_bodies body n) i = Some body.
Proof. exact request_body_every_attempt. Qed.
Print Assumptions C04_request_body_every_attempt.

(* Trailers through the ResponseWriter of net/http's server, for EVERY body (every length: shorter
   or longer than the server's 2048-byte buffer), reader behaviour, buffer size and placement of
   flush-timer Flush calls: the status is the backend's; announced trailer keys are sent in the
   Trailer header; whenever there is any trailer the response is chunked (never given a
   Content-Length, which would drop them); and the trailers written after the body are exactly the
   backend's final trailers, key by key - announced ones through their declared keys, and as soon
   as one unannounced trailer arrived, all of them through "Trailer:"-prefixed keys after a Flush.
   Hypotheses: the header map handed to the writer is a map without Content-Length, Trailer or
   "Trailer:"-prefixed keys; trailer keys are distinct canonical single tokens other than "Trailer",
   and an announced key is not also a response header. *)
Theorem C04_trailers_spec :
  forall h b r bufsz mid,
  client_hdr_ok h -> trailer_keys_ok h b -> flush_interleave (map OWrite (copy_writes bufsz r)) mid ->
  let s := rw_run true h (resp_ops_with b mid) in
  rs_status s = Some (b_status b) /\
  (b_announced b <> [] -> hlookup (rs_snap s) K_TRAILER = Some (b_announced b)) /\
  (b_announced b <> [] \/ b_trailers b <> [] -> rs_chunking s = true) /\
  (forall k, olist (hlookup (rw_trailers s) k) = olist (hlookup (final_trailers b) k)).
Proof. exact trailers_spec. Qed.
Print Assumptions C04_trailers_spec.

Example C04_trailers_spec_nonvacuous :
  client_hdr_ok wit_rh /\ trailer_keys_ok wit_rh wit_rb /\ trailer_keys_ok wit_rh wit_rb_unannounced /\
  flush_interleave (map OWrite (copy_writes 4 wit_reader)) (OWrite (bs "012"%string) :: OFlush :: map OWrite [bs "3"%string; bs "4567"%string; bs "89"%string]) /\
  hlookup (rw_trailers (rw_run true wit_rh (resp_ops wit_rb (copy_writes 4 wit_reader)))) (bs "X-U1"%string) = Some [bs "t2"%string; bs "t3"%string] /\
  hlookup (rw_trailers (rw_run true wit_rh (resp_ops wit_rb (copy_writes 4 wit_reader)))) (bs "X-T1"%string) = Some [bs "t1"%string].
Proof. exact trailers_spec_nonvacuous. Qed.

(* the witness of the former finding F-C04-6: without the Flush that precedes unannounced trailers a
   short body gets a Content-Length and the trailers are lost; with it they arrive *)
Example C04_trailers_flush_needed :
  let old := rw_run true wit_rh (resp_ops_old wit_rb_unannounced [bs "short body"%string]) in
  let new := rw_run true wit_rh (resp_ops wit_rb_unannounced [bs "short body"%string]) in
  rs_chunking old = false /\ rs_cl old = Some 10%nat /\ rw_trailers old = [] /\
  rs_chunking new = true /\ hlookup (rw_trailers new) (bs "X-U1"%string) = Some [bs "t2"%string] /\
  rs_out old = rs_out new.
Proof. exact trailers_flush_needed. Qed.

(* ---- retries: a backend that died MID-BODY ---- *)

(* bufferedBody + the rewind before every attempt: whatever the earlier attempts read of the body —
   nothing, k bytes for ANY k (the backend reset the connection mid-body), everything — each attempt
   reads the client's body from its first byte: the k bytes it asks for are the body's first k bytes,
   an attempt that reads to EOF gets exactly the body.  Every body, every offset the previous
   request left, every sequence of attempts. *)
Theorem C04_retry_every_attempt_reads_from_start : forall data ks off,
  attempt_reads {| bb_data := data; bb_off := off |} ks = map (prefix_asked data) ks.
Proof. exact attempt_reads_from_start. Qed.
Print Assumptions C04_retry_every_attempt_reads_from_start.

(* the same on the pattern bodies of the harness (what ties the descriptors of large bodies) *)
Theorem C04_retry_reads_pattern : forall salt len ks off,
  attempt_reads {| bb_data := pat salt len; bb_off := off |} ks =
  map (fun k => match k with Some n => pat salt (N.min (N.of_nat n) len) | None => pat salt len end) ks.
Proof. exact retry_reads_pattern. Qed.
Print Assumptions C04_retry_reads_pattern.

(* A rewind that only acts on a DRAINED body (`if b == nil || b.Len() != 0 { return nil }`) is
   indistinguishable as long as every attempt reads all of the body (or none: connection refused) — *)
Theorem C04_rewind_only_when_drained_all_or_nothing : forall data n,
  attempt_reads_with bb_rewind_if_drained {| bb_data := data; bb_off := 0 |} (repeat None n) = repeat data n.
Proof. exact rewind_only_when_drained_all_or_nothing. Qed.
Print Assumptions C04_rewind_only_when_drained_all_or_nothing.

(* — and wrong as soon as one attempt stops mid-body: the next one gets the suffix only. *)
Theorem C04_rewind_only_when_drained_refuted :
  exists data ks, attempt_reads_with bb_rewind_if_drained {| bb_data := data; bb_off := 0 |} ks <> map (prefix_asked data) ks.
Proof. exact rewind_only_when_drained_differs. Qed.
Print Assumptions C04_rewind_only_when_drained_refuted.

Example C04_retry_mid_body_nonvacuous :
  attempt_reads {| bb_data := [1; 2; 3; 4]; bb_off := 0 |} [Some 0%nat; Some 1%nat; Some 2%nat; Some 9%nat; None] =
    [[]; [1]; [1; 2]; [1; 2; 3; 4]; [1; 2; 3; 4]] /\
  attempt_reads_with bb_rewind_if_drained {| bb_data := [1; 2; 3; 4]; bb_off := 0 |} [Some 1%nat; None] = [[1]; [2; 3; 4]].
Proof. vm_compute. auto. Qed.

(* ---- header_downstream runs AFTER the hop-by-hop removal ---- *)

(* The hop-by-hop removal strips what the BACKEND sent; the configured header_downstream rules are
   applied to the result.  So for a header that is hop-by-hop for this response (RFC table, or named
   in any of its Connection lines) the client sees exactly what the rules make of an ABSENT header:
   a rule that sets or adds it takes effect (`header_downstream Alt-Svc h3=:443`), the backend's own
   value never does.  Every rule table, response header map and key. *)
Theorem C04_downstream_rules_after_hop_removal : forall e live rules res h k,
  is_hop_for h k = true ->
  hlookup (mutate_headers e live rules res (resp_strip h)) k =
  fold_left vop_apply (vops_for (subst_of e live) rules k ++ revops_for (subst_of e live) res k) None.
Proof. exact down_rules_after_hop_removal. Qed.
Print Assumptions C04_downstream_rules_after_hop_removal.

(* the order matters: rules first, removal second would drop the configured header and, with a rule
   deleting Connection, let the backend's Connection-listed header through *)
Example C04_downstream_rules_after_hop_removal_nonvacuous :
  let e := {| e_method := bs "GET"%string; e_host := []; e_remote := [] |} in
  let h := [(bs "Alt-Svc"%string, [bs "old"%string]); (K_CONNECTION, [bs "X-Tok"%string]); (bs "X-Tok"%string, [bs "internal"%string])] in
  let rules := [(bs "Alt-Svc"%string, [bs "h3=:443"%string])] in
  let rules2 := [(bs "-Connection"%string, [[]])] in
  is_hop_for h (bs "Alt-Svc"%string) = true /\
  hlookup (mutate_headers e [] rules [] (resp_strip h)) (bs "Alt-Svc"%string) = Some [bs "h3=:443"%string] /\
  hlookup (resp_strip (mutate_headers e [] rules [] h)) (bs "Alt-Svc"%string) = None /\
  hlookup (mutate_headers e [] rules2 [] (resp_strip h)) (bs "X-Tok"%string) = None /\
  hlookup (resp_strip (mutate_headers e [] rules2 [] h)) (bs "X-Tok"%string) = Some [bs "internal"%string].
Proof. vm_compute. auto 6. Qed.

(* ---- sequences of requests through ONE loaded configuration: every request by itself ----
   Proxy.ServeHTTP builds the replacer, the upstream request and the header_downstream update
   function per request. For EVERY configuration, EVERY history of exchanges served before through
   the same hosts, and EVERY sequence served after it: the result for the i-th request — the headers
   its backend receives and the header map its client receives — is what serving that request ALONE
   gives (serve_one: a function of the request, the chosen target, the headers already on its
   ResponseWriter, its backend's response and the configuration); in particular the
   header_upstream / header_downstream operations applied are the configured ones with their
   placeholders evaluated on THIS request's method, Host, client address and header map. *)
Theorem C04_header_rules_depend_on_own_request :
  forall c retriable hist xs i x,
  nth_error xs i = Some x ->
  exists r, nth_error (serve_seq c retriable hist xs) i = Some r /\
    r = serve_one c retriable x /\
    (forall k, hlookup (o_hdr (xr_sent r)) k =
               fold_left vop_apply (vops_for (subst_of (env_of (x_q x)) (q_hdr (x_q x))) (c_up c) k ++
                                    revops_for (subst_of (env_of (x_q x)) (q_hdr (x_q x))) (c_upre c) k)
                         (hlookup (auth_hdr (x_t x) (create_upstream_headers (q_remote (x_q x)) (q_hdr (x_q x)))) k)) /\
    (forall k, keys_ok (b_hdr (x_b x)) -> k <> K_TRAILER \/ b_announced (x_b x) = [] ->
               hlookup (v_hdr (xr_view r)) k =
               copy_value gen_skip_headers (hlookup (x_pre x) k)
                 (fold_left vop_apply (vops_for (subst_of (env_of (x_q x)) (q_hdr (x_q x))) (c_down c) k ++
                                       revops_for (subst_of (env_of (x_q x)) (q_hdr (x_q x))) (c_downre c) k)
                            (hlookup (resp_strip (b_hdr (x_b x))) k)) k).
Proof. exact header_rules_depend_on_own_request. Qed.
Print Assumptions C04_header_rules_depend_on_own_request.

(* ... hence equal requests get equal results wherever they stand, after whatever other traffic *)
Theorem C04_header_rules_history_independent :
  forall c retriable hist1 hist2 xs1 xs2 i j x,
  nth_error xs1 i = Some x -> nth_error xs2 j = Some x ->
  nth_error (serve_seq c retriable hist1 xs1) i = nth_error (serve_seq c retriable hist2 xs2) j.
Proof. exact header_rules_history_independent. Qed.
Print Assumptions C04_header_rules_history_independent.

(* two clients (GET one.example, Origin app.one / POST two.example, Origin app.two) through
   `header_downstream Access-Control-Allow-Origin {>Origin}` and `header_downstream X-Served "{method} {host}"`:
   the second gets ITS values *)
Example C04_header_rules_depend_on_own_request_nonvacuous :
  acao (nth_error (serve_seq wit_seq_c false [] [wit_seq_x1; wit_seq_x2]) 1) = Some [bs "https://app.two.example"%string] /\
  served (nth_error (serve_seq wit_seq_c false [] [wit_seq_x1; wit_seq_x2]) 1) = Some [bs "POST two.example"%string] /\
  acao (nth_error (serve_seq wit_seq_c false [] [wit_seq_x1; wit_seq_x2]) 0) = Some [bs "https://app.one.example"%string] /\
  keys_ok (b_hdr (x_b wit_seq_x2)).
Proof. exact seq_own_request_witness. Qed.

(* what the theorem excludes: with a response update function built once per host and kept (its
   closure holding the replacer of the first request that reached the host) the first request is
   served as before and the second client receives the FIRST client's Origin, method and Host *)
Example C04_downstream_fn_cached_per_host_differs :
  acao (nth_error (serve_seq_cached wit_seq_c false [] [wit_seq_x1; wit_seq_x2]) 1) = Some [bs "https://app.one.example"%string] /\
  served (nth_error (serve_seq_cached wit_seq_c false [] [wit_seq_x1; wit_seq_x2]) 1) = Some [bs "GET one.example"%string] /\
  nth_error (serve_seq_cached wit_seq_c false [] [wit_seq_x1; wit_seq_x2]) 1 <> Some (serve_one wit_seq_c false wit_seq_x2) /\
  nth_error (serve_seq_cached wit_seq_c false [] [wit_seq_x1; wit_seq_x2]) 0 = Some (serve_one wit_seq_c false wit_seq_x1).
Proof. exact cached_downstream_fn_differs. Qed.

(* ================= trailers that share their NAME with a response header ================= *)

(* C04_trailers_spec asks that no announced trailer key is a key of the header map handed to the
   writer.  A backend may send a field BOTH as a response header (a provisional value) and as an
   announced trailer (the final value), and header_downstream rules may set such a name.  As long as
   every trailer that arrives was announced, the conclusion holds WITHOUT that hypothesis: for every
   header map, every body, every segmentation and flush timing the trailers written after the body
   are exactly the backend's final trailers - ALL values of every key, the header's values of the
   same name not among them (shallowCopyTrailers ASSIGNS the key). *)
Theorem C04_trailers_shared_name_spec :
  forall h b r bufsz mid,
  client_hdr_ok h -> trailer_keys_ok_shared h b -> flush_interleave (map OWrite (copy_writes bufsz r)) mid ->
  let s := rw_run true h (resp_ops_with b mid) in
  rs_status s = Some (b_status b) /\
  (b_announced b <> [] -> hlookup (rs_snap s) K_TRAILER = Some (b_announced b)) /\
  (b_announced b <> [] \/ b_trailers b <> [] -> rs_chunking s = true) /\
  (forall k, olist (hlookup (rw_trailers s) k) = olist (hlookup (final_trailers b) k)).
Proof. exact trailers_shared_name_spec. Qed.
Print Assumptions C04_trailers_shared_name_spec.

Example C04_trailers_shared_name_nonvacuous :
  client_hdr_ok wit_sh /\ trailer_keys_ok_shared wit_sh wit_sb /\ hlookup wit_sh (bs "X-T1"%string) = Some [bs "pending"%string] /\
  hlookup (rw_trailers (rw_run true wit_sh (resp_ops wit_sb [bs "body"%string]))) (bs "X-T1"%string) = Some [bs "t1"%string] /\
  hlookup (rs_snap (rw_run true wit_sh (resp_ops wit_sb [bs "body"%string]))) (bs "X-T1"%string) = Some [bs "pending"%string].
Proof. exact trailers_shared_name_nonvacuous. Qed.

(* ... but NOT once an unannounced trailer arrived too (finding F-C04-7): every trailer then travels
   under the TrailerPrefix while the Trailer header still declares the announced key, and the writer
   also sends what the header map holds under that key: the response header's value comes back as a
   trailer value the backend never sent ([t1; pending] instead of [t1]). *)
Theorem C04_trailers_shared_name_forced_refuted :
  exists h b ws,
    client_hdr_ok h /\ NoDup (b_announced b) /\ NoDup (map fst (b_trailers b)) /\ trailers_forced b = true /\
    exists k, olist (hlookup (rw_trailers (rw_run true h (resp_ops b ws))) k) <> olist (hlookup (final_trailers b) k).
Proof. exact trailers_shared_name_forced_refuted. Qed.
Print Assumptions C04_trailers_shared_name_forced_refuted.

Example C04_trailers_shared_name_forced_witness :
  hlookup (rw_trailers (rw_run true wit_sh (resp_ops wit_sb_forced [bs "body"%string]))) (bs "X-T1"%string)
  = Some [bs "t1"%string; bs "pending"%string].
Proof. exact trailers_shared_name_forced_witness. Qed.

(* ---- proxy-added headers the client names in a Connection line ---- *)

(* X-Forwarded-For named in ANY Connection line (any case, any position): the Connection-listed
   removal runs BEFORE the prior value is read, so the backend sees the client address alone -
   a client cannot have a forged X-Forwarded-For folded in and have it both ways (C04_xff_appended
   covers the other case: not named => prior values kept and folded). *)
Theorem C04_xff_listed_in_connection :
  forall h remote ip port tok,
  split_host_port remote = Some (ip, port) ->
  In tok (all_conn_tokens h) -> canon_key tok = K_XFF ->
  hlookup (create_upstream_headers remote h) K_XFF = Some [ip].
Proof. exact xff_listed_in_connection. Qed.
Print Assumptions C04_xff_listed_in_connection.

Example C04_xff_listed_in_connection_nonvacuous :
  (split_host_port (bs "192.0.2.7:4711"%string) = Some (bs "192.0.2.7"%string, bs "4711"%string)) /\
  (In (bs "x-forwarded-for"%string) (all_conn_tokens wit_xff_conn)) /\
  (canon_key (bs "x-forwarded-for"%string) = K_XFF) /\
  (hlookup (create_upstream_headers (bs "192.0.2.7:4711"%string) wit_xff_conn) K_XFF = Some [bs "192.0.2.7"%string]).
Proof. exact xff_listed_nonvacuous. Qed.

(* Every other header the proxy adds by rule (transparent's Host / X-Real-IP / X-Forwarded-Proto /
   X-Forwarded-Port, any header_upstream rule): named in a Connection line, what the backend gets is
   what the configured operations make of an ABSENT header, for every rule table and header map. *)
Theorem C04_proxy_added_listed_in_connection :
  forall e h0 rules res h remote tok,
  In tok (all_conn_tokens h) -> canon_key tok <> K_XFF ->
  hlookup (mutate_headers e h0 rules res (create_upstream_headers remote h)) (canon_key tok) =
  fold_left vop_apply (vops_for (subst_of e h0) rules (canon_key tok) ++ revops_for (subst_of e h0) res (canon_key tok)) None.
Proof. exact proxy_added_listed_in_connection. Qed.
Print Assumptions C04_proxy_added_listed_in_connection.

(* ---- memory: buffered request bodies, the pooled copy buffers, concurrent relays ---- *)

(* C04_HeapModel: an explicit heap of buffers with owners; newBufferedBody / rewind / the transport's
   reads and pooledIoCopy's Get / Read / Write / Put are steps on ADDRESSES. For EVERY interleaving
   (any trace of labels) of any number of requests and copy loops, every buffer size: a buffer in the
   pool is referenced by nobody, a body's backing array is never a copy loop's buffer, and no buffer
   has two holders. *)
Theorem C04_heap_ownership :
  forall cap tr s,
  run false cap st0 tr = Some s ->
  (forall a, c_owner (s_heap s a) = InPool ->
     (forall r, rq_buf (s_req s r) <> Some a) /\ (forall c, cp_buf (s_cp s c) <> Some a)) /\
  (forall a r c, rq_buf (s_req s r) = Some a -> cp_buf (s_cp s c) <> Some a) /\
  (forall a r r', rq_buf (s_req s r) = Some a -> rq_buf (s_req s r') = Some a -> r = r') /\
  (forall a c c', cp_buf (s_cp s c) = Some a -> cp_buf (s_cp s c') = Some a -> c = c').
Proof. exact heap_ownership. Qed.
Print Assumptions C04_heap_ownership.

(* ... every finished attempt of every request put a prefix of the CLIENT's bytes on the wire, the
   whole body when it read to EOF (Reader.Len() == 0); the running attempt likewise; and the memory
   the reader points into still holds the client's bytes - whatever other requests, retries and
   relays ran in between. *)
Theorem C04_heap_every_attempt_sends_client_body :
  forall cap tr s r,
  run false cap st0 tr = Some s ->
  (forall att fl, In (att, fl) (rq_done (s_req s r)) ->
     att = firstn (List.length att) (rq_orig (s_req s r)) /\ (fl = true -> att = rq_orig (s_req s r))) /\
  (rq_active (s_req s r) = true -> rq_cur (s_req s r) = firstn (rq_off (s_req s r)) (rq_orig (s_req s r))) /\
  (forall a, rq_buf (s_req s r) = Some a -> c_data (s_heap s a) = rq_orig (s_req s r)).
Proof. exact heap_attempts. Qed.
Print Assumptions C04_heap_every_attempt_sends_client_body.

(* ... and every run of pooledIoCopy has delivered exactly what it Read of ITS source. *)
Theorem C04_heap_relay_delivers_own_source :
  forall cap tr s c,
  run false cap st0 tr = Some s ->
  cp_n (s_cp s c) = 0%nat -> cp_out (s_cp s c) = firstn (cp_pos (s_cp s c)) (cp_src (s_cp s c)).
Proof. exact heap_relay. Qed.
Print Assumptions C04_heap_relay_delivers_own_source.

(* reachable: buffer size 2; a relay, then a request retried once while a second relay re-uses the
   pooled buffer between the two attempts *)
Example C04_heap_nonvacuous :
  done_of (run false 2 st0 wit_ok_trace) 0%nat = [([65]%N, false); ([65; 66]%N, true)] /\
  (match run false 2 st0 wit_ok_trace with Some s => cp_out (s_cp s 1%nat) | None => [] end) = [120; 121]%N.
Proof. exact wit_ok_runs. Qed.

(* newBufferedBody borrowing its backing array from bufferPool (seeded C04-m3): a complete attempt
   sends another exchange's bytes. *)
Theorem C04_heap_pooled_body_refuted :
  exists cap tr s r att,
    run true cap st0 tr = Some s /\ In (att, true) (rq_done (s_req s r)) /\ att <> rq_orig (s_req s r).
Proof. exact pooled_body_refuted. Qed.
Print Assumptions C04_heap_pooled_body_refuted.
