(* C17 — property theorems only.  Each is closed by [exact] of a lemma proved in
   C17_Proofs.v and followed by Print Assumptions. *)
Require Import V.Lib V.GoPath V.C17_Model V.C17_Proofs.
From Coq Require Import Permutation.
Open Scope Z_scope.

(* Body limit is exact: for EVERY body, EVERY chunking of the underlying reader (script, and
   whether EOF arrives with the last bytes) and EVERY sequence of caller buffer sizes, what the
   handler receives is a prefix of the body never longer than the limit; EOF is only reported
   after the complete body (which then fits the limit), and the too-large error exactly when
   the body exceeds the limit, after precisely the first [limit] bytes. *)
Theorem C17_limit_exact :
  forall (A : Type) (limit : Z) (body : list A) script eofd bufs d e s',
  0 <= limit ->
  read_all (mbr_init limit body script eofd) bufs = (d, e, s') ->
  d = firstn (length d) body /\ Z.of_nat (length d) <= limit /\
  (e = Some EOF -> d = body /\ Z.of_nat (length body) <= limit) /\
  (e = Some TooLarge -> limit < Z.of_nat (length body) /\ d = firstn (Z.to_nat limit) body) /\
  e <> Some ErrOther.
Proof. intros A. exact (@limit_exact A). Qed.
Print Assumptions C17_limit_exact.

(* ... and a caller that keeps reading gets the verdict: bodies up to the limit arrive intact,
   larger ones are cut at the limit with the too-large error. *)
Theorem C17_limit_complete :
  forall (A : Type) (limit : Z) (body : list A) script eofd bufs d e s',
  0 <= limit ->
  (forall m, In m bufs -> (1 <= m)%nat) ->
  (forall k, In k script -> (1 <= k)%nat) ->
  (length body + 2 <= length bufs)%nat ->
  read_all (mbr_init limit body script eofd) bufs = (d, e, s') ->
  (Z.of_nat (length body) <= limit -> d = body /\ e = Some EOF) /\
  (limit < Z.of_nat (length body) -> d = firstn (Z.to_nat limit) body /\ e = Some TooLarge).
Proof. intros A. exact (@limit_complete A). Qed.
Print Assumptions C17_limit_complete.

Example C17_limit_complete_nonvacuous :
  read_all (mbr_init 3 [1;2;3;4;5]%N [2;1;5]%nat true) [4;4;4;4;4;4;4]%nat
  = ([1;2;3]%N, Some TooLarge,
     {| m_n := 0; m_err := Some TooLarge;
        m_u := {| u_data := [5]%N; u_script := []; u_eof_with_data := true |} |}).
Proof. vm_compute. reflexivity. Qed.

Theorem C17_error_sticky :
  forall (A : Type) (s : @mbr A) x m, m_err s = Some x -> mbr_read s m = ([], Some x, s).
Proof. intros A. exact (@error_sticky A). Qed.
Print Assumptions C17_error_sticky.

Theorem C17_error_is_recorded :
  forall (A : Type) limit (body : list A) script eofd bufs d x s',
  0 <= limit ->
  read_all (mbr_init limit body script eofd) bufs = (d, Some x, s') -> m_err s' = Some x.
Proof. intros A. exact (@error_is_recorded A). Qed.
Print Assumptions C17_error_is_recorded.

(* The limit applied is the one of the longest matching scope, for every table sorted longest
   first (the harness checks that SortPathLimits delivers such a table). *)
Theorem C17_longest_scope_wins :
  forall cs table path lim,
  sorted_len_desc table = true -> select_limit cs table path = Some lim ->
  exists scope, In (scope, lim) table /\ path_matches cs path scope = true /\
    forall b, In b table -> path_matches cs path (fst b) = true ->
              (length (fst b) <= length scope)%nat.
Proof. exact longest_scope_wins. Qed.
Print Assumptions C17_longest_scope_wins.

Theorem C17_no_scope_no_limit :
  forall cs table path, select_limit cs table path = None ->
  forall b, In b table -> path_matches cs path (fst b) = false.
Proof. exact no_scope_no_limit. Qed.
Print Assumptions C17_no_scope_no_limit.

(* Listener-wide merge = strictest configured value (0 = none/unlimited is the laxest),
   default only when no site sets one; independent of site order. *)
Theorem C17_merge_timeout_strictest :
  forall dflt group,
  (forall v, In v (set_values group) -> 0 <= v) ->
  let r := merge_timeout dflt group in
  (set_values group = [] -> r = dflt) /\
  (set_values group <> [] -> (forall v, In v (set_values group) -> v = 0) -> r = 0) /\
  ((exists v, In v (set_values group) /\ 0 < v) ->
     In r (set_values group) /\ 0 < r /\ forall v, In v (set_values group) -> v = 0 \/ r <= v).
Proof. exact merge_timeout_spec. Qed.
Print Assumptions C17_merge_timeout_strictest.

Theorem C17_merge_timeout_order_independent :
  forall dflt g g', Permutation g g' -> merge_timeout dflt g = merge_timeout dflt g'.
Proof. exact merge_timeout_perm. Qed.
Print Assumptions C17_merge_timeout_order_independent.

Theorem C17_merge_header_limit_strictest :
  forall group, (forall v, In v group -> 0 <= v) ->
  let r := merge_header_limit group in
  ((forall v, In v group -> v = 0) -> r = 0) /\
  ((exists v, In v group /\ 0 < v) ->
     In r group /\ 0 < r /\ forall v, In v group -> v = 0 \/ r <= v).
Proof. exact strictest_spec. Qed.
Print Assumptions C17_merge_header_limit_strictest.

Theorem C17_merge_header_limit_order_independent :
  forall l l', Permutation l l' -> merge_header_limit l = merge_header_limit l'.
Proof. exact strictest_perm. Qed.
Print Assumptions C17_merge_header_limit_order_independent.

(* The merge as it was coded before the fix (plain minimum over set values) violates the
   property when a site says "none": kept as a refutation with its witness. *)
Theorem C17_merge_timeout_plain_min_refuted :
  exists dflt group, (forall v, In v (set_values group) -> 0 <= v) /\
    (exists v, In v (set_values group) /\ 0 < v) /\ merge_timeout_plain_min dflt group = 0.
Proof. exact merge_timeout_plain_min_refuted. Qed.
Print Assumptions C17_merge_timeout_plain_min_refuted.
