(* C17 — property theorems only.  Each is closed by [exact] of a lemma proved in
   C17_Proofs.v and followed by Print Assumptions. *)
Require Import V.Lib V.GoPath V.C17_Model V.C17_Proofs.
From Coq Require Import Permutation.
Open Scope Z_scope.

(* Body limit is exact: for EVERY body, EVERY chunking of the underlying reader (script, and
   whether EOF arrives with the last bytes) and EVERY sequence of caller buffer sizes, what the
   handler receives is a prefix of the body never longer than the limit; EOF is only reported
   after the complete body (which then fits the limit), and the too-large error exactly when
   the body exceeds the limit, after precisely the first [limit] bytes. *)
Theorem C17_limit_exact :
  forall (A : Type) (limit : Z) (body : list A) script eofd bufs d e s',
  0 <= limit ->
  read_all (mbr_init limit body script eofd) bufs = (d, e, s') ->
  d = firstn (length d) body /\ Z.of_nat (length d) <= limit /\
  (e = Some EOF -> d = body /\ Z.of_nat (length body) <= limit) /\
  (e = Some TooLarge -> limit < Z.of_nat (length body) /\ d = firstn (Z.to_nat limit) body) /\
  e <> Some ErrOther.
Proof. intros A. exact (@limit_exact A). Qed.
Print Assumptions C17_limit_exact.

(* ... and a caller that keeps reading gets the verdict: bodies up to the limit arrive intact,
   larger ones are cut at the limit with the too-large error. *)
Theorem C17_limit_complete :
  forall (A : Type) (limit : Z) (body : list A) script eofd bufs d e s',
  0 <= limit ->
  (forall m, In m bufs -> (1 <= m)%nat) ->
  (forall k, In k script -> (1 <= k)%nat) ->
  (length body + 2 <= length bufs)%nat ->
  read_all (mbr_init limit body script eofd) bufs = (d, e, s') ->
  (Z.of_nat (length body) <= limit -> d = body /\ e = Some EOF) /\
  (limit < Z.of_nat (length body) -> d = firstn (Z.to_nat limit) body /\ e = Some TooLarge).
Proof. intros A. exact (@limit_complete A). Qed.
Print Assumptions C17_limit_complete.

Example C17_limit_complete_nonvacuous :
  read_all (mbr_init 3 [1;2;3;4;5]%N [2;1;5]%nat true) [4;4;4;4;4;4;4]%nat
  = ([1;2;3]%N, Some TooLarge,
     {| m_n := 0; m_err := Some TooLarge;
        m_u := {| u_data := [5]%N; u_script := []; u_eof_with_data := true |} |}).
Proof. vm_compute. reflexivity. Qed.

Theorem C17_error_sticky :
  forall (A : Type) (s : @mbr A) x m, m_err s = Some x -> mbr_read s m = ([], Some x, s).
Proof. intros A. exact (@error_sticky A). Qed.
Print Assumptions C17_error_sticky.

Theorem C17_error_is_recorded :
  forall (A : Type) limit (body : list A) script eofd bufs d x s',
  0 <= limit ->
  read_all (mbr_init limit body script eofd) bufs = (d, Some x, s') -> m_err s' = Some x.
Proof. intros A. exact (@error_is_recorded A). Qed.
Print Assumptions C17_error_is_recorded.

(* The limit applied is the one of the longest matching scope, for every table sorted longest
   first (the harness checks that SortPathLimits delivers such a table). *)
Theorem C17_longest_scope_wins :
  forall cs table path lim,
  sorted_len_desc table = true -> select_limit cs table path = Some lim ->
  exists scope, In (scope, lim) table /\ path_matches cs path scope = true /\
    forall b, In b table -> path_matches cs path (fst b) = true ->
              (length (fst b) <= length scope)%nat.
Proof. exact longest_scope_wins. Qed.
Print Assumptions C17_longest_scope_wins.

Theorem C17_no_scope_no_limit :
  forall cs table path, select_limit cs table path = None ->
  forall b, In b table -> path_matches cs path (fst b) = false.
Proof. exact no_scope_no_limit. Qed.
Print Assumptions C17_no_scope_no_limit.

(* Listener-wide merge = strictest configured value (0 = none/unlimited is the laxest),
   default only when no site sets one; independent of site order. *)
Theorem C17_merge_timeout_strictest :
  forall dflt group,
  (forall v, In v (set_values group) -> 0 <= v) ->
  let r := merge_timeout dflt group in
  (set_values group = [] -> r = dflt) /\
  (set_values group <> [] -> (forall v, In v (set_values group) -> v = 0) -> r = 0) /\
  ((exists v, In v (set_values group) /\ 0 < v) ->
     In r (set_values group) /\ 0 < r /\ forall v, In v (set_values group) -> v = 0 \/ r <= v).
Proof. exact merge_timeout_spec. Qed.
Print Assumptions C17_merge_timeout_strictest.

Theorem C17_merge_timeout_order_independent :
  forall dflt g g', Permutation g g' -> merge_timeout dflt g = merge_timeout dflt g'.
Proof. exact merge_timeout_perm. Qed.
Print Assumptions C17_merge_timeout_order_independent.

Theorem C17_merge_header_limit_strictest :
  forall group, (forall v, In v group -> 0 <= v) ->
  let r := merge_header_limit group in
  ((forall v, In v group -> v = 0) -> r = 0) /\
  ((exists v, In v group /\ 0 < v) ->
     In r group /\ 0 < r /\ forall v, In v group -> v = 0 \/ r <= v).
Proof. exact strictest_spec. Qed.
Print Assumptions C17_merge_header_limit_strictest.

Theorem C17_merge_header_limit_order_independent :
  forall l l', Permutation l l' -> merge_header_limit l = merge_header_limit l'.
Proof. exact strictest_perm. Qed.
Print Assumptions C17_merge_header_limit_order_independent.

(* The merge as it was coded before the fix (plain minimum over set values) violates the
   property when a site says "none": kept as a refutation with its witness. *)
Theorem C17_merge_timeout_plain_min_refuted :
  exists dflt group, (forall v, In v (set_values group) -> 0 <= v) /\
    (exists v, In v (set_values group) /\ 0 < v) /\ merge_timeout_plain_min dflt group = 0.
Proof. exact merge_timeout_plain_min_refuted. Qed.
Print Assumptions C17_merge_timeout_plain_min_refuted.

(* ======================================================================================== *)
(* The reader with the arithmetic Go performs (int64, wrapping l.n+1 and l.n-n, panicking
   p[:l.n+1]): for EVERY remaining allowance 0 <= n <= 2^63-1 nothing wraps, the coded Read never
   panics and IS the ideal reader of C17_limit_exact.  Buffer lengths are Go ints (< 2^63); that is
   only needed at n = 2^63-1, where `int64(len(p))-1 > l.n` (fb48e01) must not hold. *)
Theorem C17_int64_read_refines_ideal :
  forall (A : Type) (s : @mbr A) m,
  0 <= m_n s <= max_int64 -> (m_n s < max_int64 \/ Z.of_nat m < two63) ->
  mbr_read64 s m = R_ok (mbr_read s m).
Proof. intros A. exact (@mbr_read64_refines A). Qed.
Print Assumptions C17_int64_read_refines_ideal.

Example C17_int64_read_refines_ideal_nonvacuous :
  mbr_read64 (mbr_init max_int64 [1;2;3]%N [] true) 8%nat
  = R_ok ([1;2;3]%N, Some EOF,
          {| m_n := max_int64 - 3; m_err := Some EOF;
             m_u := {| u_data := []; u_script := []; u_eof_with_data := true |} |}).
Proof. vm_compute. reflexivity. Qed.

(* FULL strength: the limit is exact for every limit the directive can configure, 0..2^63-1
   (`limits 9223372036854775807` included, which used to panic on the first Read: F-C17-2) *)
Theorem C17_limit_exact_all_int64 :
  forall (A : Type) (limit : Z) (body : list A) script eofd bufs,
  0 <= limit <= max_int64 -> (limit < max_int64 \/ forall m, In m bufs -> Z.of_nat m < two63) ->
  exists d e s', read_all64 (mbr_init limit body script eofd) bufs = R_ok (d, e, s') /\
  read_all (mbr_init limit body script eofd) bufs = (d, e, s') /\
  d = firstn (length d) body /\ Z.of_nat (length d) <= limit /\
  (e = Some EOF -> d = body /\ Z.of_nat (length body) <= limit) /\
  (e = Some TooLarge -> limit < Z.of_nat (length body) /\ d = firstn (Z.to_nat limit) body) /\
  e <> Some ErrOther.
Proof. intros A. exact (@limit_exact_int64 A). Qed.
Print Assumptions C17_limit_exact_all_int64.

Example C17_limit_exact_all_int64_nonvacuous :
  (forall m, In m [4;4]%nat -> Z.of_nat m < two63) /\
  read_all64 (mbr_init max_int64 [1;2;3]%N [] true) [4;4]%nat
  = R_ok ([1;2;3]%N, Some EOF,
          {| m_n := max_int64 - 3; m_err := Some EOF;
             m_u := {| u_data := []; u_script := []; u_eof_with_data := true |} |}).
Proof. split; [intros m [<-|[<-|[]]]; vm_compute; reflexivity | vm_compute; reflexivity]. Qed.

(* negative limits (never produced by the directive, see C17_parse_size_in_range) *)
Theorem C17_negative_limit_misbehaves :
  forall (A : Type) (s : @mbr A) m, m_err s = None -> (1 <= m)%nat ->
  (- two63 <= m_n s < -1 -> mbr_read64 s m = R_panic) /\
  (m_n s = -1 -> mbr_read64 s m = R_neg (-1)).
Proof. intros A. exact (@negative_limit_misbehaves A). Qed.
Print Assumptions C17_negative_limit_misbehaves.

Example C17_negative_limit_misbehaves_nonvacuous :
  mbr_read64 (mbr_init (-2) [1%N] [] true) 4%nat = R_panic /\
  mbr_read64 (mbr_init (-1) [1%N] [] true) 4%nat = R_neg (-1).
Proof. split; vm_compute; reflexivity. Qed.

(* Count level (the underlying reader may claim ANY counts 0..2^63-1, so the boundary is
   reachable): for every limit up to 2^63-1 and every caller that keeps reading, the counts
   handed out are non-negative and add up to min(limit, what the reader claimed); the remaining
   allowance never leaves [0, limit]; too-large is reported iff the claims exceed the limit. *)
Theorem C17_count_exact_int64 :
  forall limit bufs answers,
  0 <= limit <= max_int64 -> (limit < max_int64 \/ forall m, In m bufs -> m < two63) -> answers_ok answers ->
  exists outs s' consumed rest,
    cnt_run (cnt_init limit) bufs answers = R_ok (outs, s', rest) /\ answers = consumed ++ rest /\
    (forall o, In o outs -> 0 <= fst o) /\
    zsum (map fst outs) = Z.min limit (zsum (map fst consumed)) /\
    0 <= c_n s' <= limit /\
    (limit < zsum (map fst consumed) <-> c_err s' = Some TooLarge).
Proof. exact count_exact_int64. Qed.
Print Assumptions C17_count_exact_int64.

Example C17_count_exact_int64_nonvacuous :
  answers_ok [(max_int64 - 1, None); (1, None); (1, None)] /\
  (forall m, In m [4; 4; 4; 4] -> m < two63) /\
  cnt_run (cnt_init max_int64) [4; 4; 4; 4] [(max_int64 - 1, None); (1, None); (1, None)]
  = R_ok ([(max_int64 - 1, None); (1, None); (0, Some TooLarge); (0, Some TooLarge)],
          {| c_n := 0; c_err := Some TooLarge |}, []).
Proof.
  split; [|split; [|vm_compute; reflexivity]].
  - intros a [<-|[<-|[<-|[]]]]; cbn; unfold max_int64, two63; split; try lia; discriminate.
  - intros m [<-|[<-|[<-|[<-|[]]]]]; unfold two63; lia.
Qed.

(* ---- size strings of the limits directive ---- *)
(* whatever is accepted lies in 1..2^63-1: the reader is never set up with a zero or negative limit *)
Theorem C17_parse_size_in_range :
  forall s v, accept_size s = Some v -> 1 <= v <= max_int64.
Proof. exact accept_size_range. Qed.
Print Assumptions C17_parse_size_in_range.

Example C17_parse_size_in_range_nonvacuous :
  accept_size (bs "10MB"%string) = Some 10485760 /\ accept_size (bs "0"%string) = None /\
  accept_size (bs "-5"%string) = None /\ accept_size (bs "9223372036854775807"%string) = Some max_int64.
Proof. repeat split; vm_compute; reflexivity. Qed.

(* the parsed value is number*unit EXACTLY (unbounded integers), or an error: an accepted string
   denotes sign/digits/unit, its number is non-negative, and the configured value is the true product,
   which lies within 1..2^63-1 (parseSize forms the int64 product only when it fits: 0d07837) *)
Theorem C17_parse_size_exact :
  forall s v, accept_size s = Some v ->
  exists n u, denote s = Some (n, u) /\ v = n * u /\ 1 <= v <= max_int64 /\
    0 <= n < two63 /\ 1 <= u <= 1073741824.
Proof. exact accept_size_exact. Qed.
Print Assumptions C17_parse_size_exact.

Example C17_parse_size_exact_nonvacuous :
  accept_size (bs "8589934591GB"%string) = Some 9223372035781033984 /\
  accept_size (bs "8589934592GB"%string) = None /\
  accept_size (bs "18014398509481985KB"%string) = None /\
  accept_size (bs "-17179869181GB"%string) = None.
Proof. repeat split; vm_compute; reflexivity. Qed.

(* conversely every string that denotes a product within 1..2^63-1 is accepted with exactly that
   value, and a rejected string denotes nothing or a product outside that range: together with
   C17_parse_size_exact, a size is accepted IFF it denotes a product within 1..2^63-1 *)
Theorem C17_parse_size_complete :
  forall s n u, denote s = Some (n, u) -> 1 <= n * u <= max_int64 -> accept_size s = Some (n * u).
Proof. exact accept_size_complete. Qed.
Print Assumptions C17_parse_size_complete.

Example C17_parse_size_complete_nonvacuous :
  denote (bs "+8gB"%string) = Some (8, 1073741824) /\ accept_size (bs "+8gB"%string) = Some 8589934592.
Proof. split; vm_compute; reflexivity. Qed.

Theorem C17_parse_size_rejects :
  forall s, accept_size s = None ->
  match denote s with None => True | Some (n, u) => ~ (1 <= n * u <= max_int64) end.
Proof. exact accept_size_rejects. Qed.
Print Assumptions C17_parse_size_rejects.

(* ---- the handlers that read the (limited) body ---- *)
(* whatever the consumer's read pattern, the backend receives a prefix of the body never longer
   than the limit, and exactly the first [limit] bytes when the reader reported too-large *)
Theorem C17_backend_never_beyond_limit :
  forall limit body script eofd bufs d e,
  0 <= limit -> consumer_reads limit body script eofd bufs = (d, e) ->
  d = firstn (length d) body /\ Z.of_nat (length d) <= limit /\
  (e = Some TooLarge -> limit < Z.of_nat (length body) /\ d = firstn (Z.to_nat limit) body).
Proof. exact backend_never_beyond_limit. Qed.
Print Assumptions C17_backend_never_beyond_limit.

Example C17_backend_never_beyond_limit_nonvacuous :
  consumer_reads 3 [1;2;3;4;5]%N [2;1;5]%nat true [4;4;4;4]%nat = ([1;2;3]%N, Some TooLarge).
Proof. vm_compute. reflexivity. Qed.

(* FULL strength: whenever the reader reports too-large the client sees 413 — for every consumer
   the model covers (streaming proxy, proxy buffering for retries, fastcgi) and both framings
   (F-C17-4/5/6 repaired: casket 2f5115a, a49e1c0, 34218d7) *)
Theorem C17_too_large_is_413 :
  forall k clf bs, consumer_status k clf (Some TooLarge) bs = 413.
Proof. exact too_large_is_413. Qed.
Print Assumptions C17_too_large_is_413.

(* ... and 413 has no other source than the too-large error or the backend's own answer *)
Theorem C17_too_large_status_table :
  forall k clf e bs, consumer_status k clf e bs = 413 <-> e = Some TooLarge \/ bs = 413.
Proof. exact too_large_status_table. Qed.
Print Assumptions C17_too_large_status_table.

(* end to end: a consumer that reads the limited body to its end answers 413 exactly for bodies over
   the limit, having received exactly the first [limit] bytes; a body within the limit arrives
   whole and the backend's own status is relayed *)
Theorem C17_upload_status :
  forall limit (body : list N) script eofd bufs k clf bs d e,
  0 <= limit ->
  (forall m, In m bufs -> (1 <= m)%nat) -> (forall j, In j script -> (1 <= j)%nat) ->
  (length body + 2 <= length bufs)%nat ->
  consumer_reads limit body script eofd bufs = (d, e) ->
  (limit < Z.of_nat (length body) -> d = firstn (Z.to_nat limit) body /\ consumer_status k clf e bs = 413) /\
  (Z.of_nat (length body) <= limit -> d = body /\ consumer_status k clf e bs = bs).
Proof. exact upload_status. Qed.
Print Assumptions C17_upload_status.

Example C17_upload_status_nonvacuous :
  consumer_reads 3 [1;2;3;4;5]%N [2;1;5]%nat true [4;4;4;4;4;4;4]%nat = ([1;2;3]%N, Some TooLarge) /\
  consumer_status Fastcgi true (Some TooLarge) 200 = 413 /\
  consumer_reads 5 [1;2;3;4;5]%N [2;1;5]%nat true [4;4;4;4;4;4;4]%nat = ([1;2;3;4;5]%N, Some EOF) /\
  consumer_status Fastcgi true (Some EOF) 200 = 200.
Proof. repeat split; vm_compute; reflexivity. Qed.

(* ---- the listener's http.Server, all merged fields, as the loops are coded ---- *)
(* each field is the strictest-value merge of ITS OWN column of the group (so the specs
   C17_merge_timeout_strictest / C17_merge_header_limit_strictest apply to every field) *)
Theorem C17_listener_fields_are_strictest :
  forall dflt g, let sv := new_server dflt g in
  sv_read sv = merge_timeout (sv_read dflt) (map s_read g) /\
  sv_rhdr sv = merge_timeout (sv_rhdr dflt) (map s_rhdr g) /\
  sv_write sv = merge_timeout (sv_write dflt) (map s_write g) /\
  sv_idle sv = merge_timeout (sv_idle dflt) (map s_idle g) /\
  ((forall c, In c g -> 0 <= s_maxhdr c) -> sv_maxhdr sv = merge_header_limit (map s_maxhdr g)).
Proof. exact new_server_fields. Qed.
Print Assumptions C17_listener_fields_are_strictest.

Example C17_listener_fields_are_strictest_nonvacuous :
  let a := {| s_read := (true, 0); s_rhdr := (true, 20); s_write := (false, 0); s_idle := (true, 7); s_maxhdr := 0 |} in
  let b := {| s_read := (true, 10); s_rhdr := (true, 5); s_write := (false, 0); s_idle := (true, 0); s_maxhdr := 4096 |} in
  new_server {| sv_read := 100; sv_rhdr := 100; sv_write := 200; sv_idle := 300; sv_maxhdr := 0 |} [a; b]
  = {| sv_read := 10; sv_rhdr := 5; sv_write := 200; sv_idle := 7; sv_maxhdr := 4096 |}.
Proof. vm_compute. reflexivity. Qed.

Theorem C17_listener_order_independent :
  forall dflt g g', Permutation g g' -> new_server dflt g = new_server dflt g'.
Proof. exact new_server_perm. Qed.
Print Assumptions C17_listener_order_independent.

(* a site's own (positive) value is never relaxed by the sites it shares the listener with *)
Theorem C17_merge_never_relaxes :
  forall dflt g c, (forall c', In c' g -> site_ok c') -> In c g ->
  site_honoured (new_server dflt g) c = true.
Proof. exact merge_never_relaxes. Qed.
Print Assumptions C17_merge_never_relaxes.

Example C17_merge_never_relaxes_nonvacuous :
  let a := {| s_read := (true, 0); s_rhdr := (true, 20); s_write := (false, 0); s_idle := (true, 7); s_maxhdr := 0 |} in
  site_ok a /\ honours 5 20 = true /\ honours 0 20 = false /\ honours 30 20 = false.
Proof. cbv zeta. unfold site_ok. cbn. repeat split; lia. Qed.

(* ---- EVERY server object NewServer creates for one listener ---- *)
(* [new_servers] follows NewServer statement by statement: timeouts, header limit, then — TLS sites, HTTP/2 on,
   QUIC flag set — the HTTP/3 server as a copy of the TCP server's MaxHeaderBytes AT THAT MOMENT.  The TCP server
   is [new_server] (every theorem above applies to it) and the HTTP/3 server carries the same header limit: the
   strictest one the sites configure.  (C17-m8 merges the header limit after the copy: the HTTP/3 server keeps 0 =
   the library's 1 MiB.) *)
Theorem C17_all_servers_same_header_limit :
  forall dflt g tls h2 quic sv h3,
  new_servers dflt g tls h2 quic = (sv, Some h3) ->
  sv = new_server dflt g /\ h3_maxhdr h3 = sv_maxhdr sv /\
  ((forall c, In c g -> 0 <= s_maxhdr c) -> h3_maxhdr h3 = merge_header_limit (map s_maxhdr g)).
Proof. exact all_servers_same_header_limit. Qed.
Print Assumptions C17_all_servers_same_header_limit.

Example C17_all_servers_same_header_limit_nonvacuous :
  new_servers dflt_srv [site_idle7] true true true =
  ({| sv_read := 100; sv_rhdr := 100; sv_write := 200; sv_idle := 7; sv_maxhdr := 2048 |},
   Some {| h3_maxhdr := 2048; h3_idle := 7 |}).
Proof. vm_compute. reflexivity. Qed.

Theorem C17_tcp_server_is_new_server :
  forall dflt g tls h2 quic, fst (new_servers dflt g tls h2 quic) = new_server dflt g.
Proof. exact new_servers_tcp. Qed.
Print Assumptions C17_tcp_server_is_new_server.

Theorem C17_h3_server_exists_iff :
  forall dflt g tls h2 quic,
  snd (new_servers dflt g tls h2 quic) <> None <-> (tls = true /\ h2 = true /\ quic = true).
Proof. exact new_servers_h3_exists. Qed.
Print Assumptions C17_h3_server_exists_iff.

(* "all servers of one listener carry the same merged limits" holds for the header limit (above) and — since the
   repair of F-C17-7, /repo a99152d — for the idle timeout: the HTTP/3 server's QUICConfig.MaxIdleTimeout is the TCP
   server's IdleTimeout (0 = QUICConfig nil, exactly when the TCP server has no idle timeout), hence the strictest
   value the sites configure, the default only where no site sets one; no site's own idle timeout is relaxed on the
   HTTP/3 server.  (Before the repair the HTTP/3 server's idle timeout was always the library default.) *)
Theorem C17_all_servers_same_idle_timeout :
  forall dflt g tls h2 quic sv h3,
  new_servers dflt g tls h2 quic = (sv, Some h3) ->
  0 <= sv_idle dflt -> (forall c, In c g -> 0 <= snd (s_idle c)) ->
  h3_idle h3 = sv_idle sv /\
  h3_idle h3 = merge_timeout (sv_idle dflt) (map s_idle g) /\
  (forall c, In c g -> fst (s_idle c) = true -> honours (h3_idle h3) (snd (s_idle c)) = true).
Proof. exact all_servers_same_idle_timeout. Qed.
Print Assumptions C17_all_servers_same_idle_timeout.

Example C17_all_servers_same_idle_timeout_nonvacuous :
  let b := {| s_read := (false, 0); s_rhdr := (false, 0); s_write := (false, 0); s_idle := (true, 0); s_maxhdr := 0 |} in
  new_servers dflt_srv [b; site_idle7] true true true =
  ({| sv_read := 100; sv_rhdr := 100; sv_write := 200; sv_idle := 7; sv_maxhdr := 2048 |},
   Some {| h3_maxhdr := 2048; h3_idle := 7 |}) /\
  0 <= sv_idle dflt_srv /\ (forall c, In c [b; site_idle7] -> 0 <= snd (s_idle c)) /\
  (* no site sets one: the default on both; every setting site says none: none on both *)
  snd (new_servers dflt_srv [] true true true) = Some {| h3_maxhdr := 0; h3_idle := 300 |} /\
  snd (new_servers dflt_srv [b] true true true) = Some {| h3_maxhdr := 0; h3_idle := 0 |}.
Proof.
  cbv zeta. split; [vm_compute; reflexivity|]. split; [vm_compute; discriminate|]. split.
  - intros c [<-|[<-|[]]]; cbn; lia.
  - split; vm_compute; reflexivity.
Qed.

(* without any hypothesis: the HTTP/3 server's idle timeout is the TCP server's whenever that is positive *)
Theorem C17_h3_idle_is_tcp_idle :
  forall dflt g tls h2 quic sv h3,
  new_servers dflt g tls h2 quic = (sv, Some h3) ->
  h3_idle h3 = if 0 <? sv_idle sv then sv_idle sv else 0.
Proof. exact h3_idle_is_tcp_idle. Qed.
Print Assumptions C17_h3_idle_is_tcp_idle.

(* ---- sequences of uploads on one site whose proxy upstream counts failures ---- *)
(* Every request of a sequence is answered exactly as it would be alone — 413 over the limit, the backend's 200
   otherwise — and the upstream's failure counter stays 0: an upload the limit cut off is not a failure of the
   backend, so in-limit uploads that follow within fail_timeout still arrive.  (C17-m5 maps the too-large error
   to 413 only after the failure accounting: the over-limit upload takes the backend down and the next in-limit
   upload is answered 502 without reaching it.) *)
Theorem C17_upload_sequence_independent :
  forall k limit mf qs, 1 <= mf ->
  seq_run k limit mf 0 qs = map (fun q : bool * nat => (if limit <? Z.of_nat (snd q) then 413 else 200, 0)) qs.
Proof. exact upload_sequence_independent. Qed.
Print Assumptions C17_upload_sequence_independent.

Example C17_upload_sequence_independent_nonvacuous :
  seq_run ProxyStream 10 1 0 [(true, 11%nat); (false, 10%nat); (false, 12%nat); (true, 3%nat)] =
  [(413, 0); (200, 0); (413, 0); (200, 0)] /\
  (* were the too-large error counted, the second upload would find the backend down *)
  seq_step ProxyStream 10 1 1 false 10 = (502, 1).
Proof. vm_compute. split; reflexivity. Qed.

Theorem C17_too_large_never_counted_as_failure :
  forall bs, proxy_after_forward (Some TooLarge) bs = (413, false).
Proof. exact too_large_never_counted. Qed.
Print Assumptions C17_too_large_never_counted_as_failure.

(* ---- chunked request bodies: the limit counts DECODED bytes whatever the segmentation on the wire ---- *)
(* [dechunk] decodes every well-formed chunk sequence — any chunk sizes, any spelling of the size lines (case,
   leading zeros), any extensions, any trailer section — to the concatenation of the chunk data *)
Theorem C17_dechunk_any_chunking :
  forall cs size ext trailers fuel,
  (forall c, In c cs -> wf_chunk c) -> wf_size_line size ext -> hex_num size 0 = 0%N ->
  (length cs < fuel)%nat ->
  dechunk fuel (enc_chunks cs (enc_last size ext trailers)) = Some (concat (map wc_data cs)).
Proof. exact dechunk_enc. Qed.
Print Assumptions C17_dechunk_any_chunking.

(* ... and the limited reader above the decoder delivers the decoded body intact with EOF when it fits the limit,
   exactly its first [limit] bytes with the too-large error otherwise — for ALL chunkings (the underlying reader
   hands over one chunk's data at most per Read), all caller buffer sequences long enough to reach the end *)
Theorem C17_chunked_limit_counts_decoded_bytes :
  forall limit cs size ext trailers fuel eofd bufs d e s',
  (forall c, In c cs -> wf_chunk c) -> wf_size_line size ext -> hex_num size 0 = 0%N ->
  (length cs < fuel)%nat -> 0 <= limit ->
  (forall m, In m bufs -> (1 <= m)%nat) ->
  (length (concat (map wc_data cs)) + 2 <= length bufs)%nat ->
  exists body, dechunk fuel (enc_chunks cs (enc_last size ext trailers)) = Some body /\
    body = concat (map wc_data cs) /\
    (read_all (mbr_init limit body (map (fun c => length (wc_data c)) cs) eofd) bufs = (d, e, s') ->
     (Z.of_nat (length body) <= limit -> d = body /\ e = Some EOF) /\
     (limit < Z.of_nat (length body) -> d = firstn (Z.to_nat limit) body /\ e = Some TooLarge)).
Proof. exact chunked_limit_counts_decoded. Qed.
Print Assumptions C17_chunked_limit_counts_decoded_bytes.

Example C17_chunked_limit_counts_decoded_bytes_nonvacuous :
  let c1 := {| wc_size := [51]%N; wc_ext := [59; 120]%N; wc_data := [1; 2; 3]%N |} in   (* "3;x" *)
  let c2 := {| wc_size := [48; 50]%N; wc_ext := []; wc_data := [4; 5]%N |} in            (* "02" *)
  let wire := enc_chunks [c1; c2] (enc_last [48]%N [59; 108]%N [88; 58; 49; 13; 10; 13; 10]%N) in
  wf_chunk c1 /\ wf_chunk c2 /\ wf_size_line [48]%N [59; 108]%N /\ hex_num [48]%N 0 = 0%N /\
  length wire = 30%nat /\ dechunk 3 wire = Some [1; 2; 3; 4; 5]%N /\
  (* 30 bytes on the wire, 5 decoded: limit 5 lets everything through, limit 4 cuts after 4 *)
  (let '(d, e, _) := read_all (mbr_init 5 [1; 2; 3; 4; 5]%N [3; 2]%nat false) [4; 4; 4; 4; 4; 4; 4]%nat in (d, e))
    = ([1; 2; 3; 4; 5]%N, Some EOF) /\
  (let '(d, e, _) := read_all (mbr_init 4 [1; 2; 3; 4; 5]%N [3; 2]%nat false) [4; 4; 4; 4; 4; 4; 4]%nat in (d, e))
    = ([1; 2; 3; 4]%N, Some TooLarge).
Proof.
  cbv zeta. unfold wf_chunk, wf_size_line. cbn [wc_size wc_ext wc_data].
  repeat split; try (vm_compute; reflexivity); try discriminate;
    repeat (constructor; try (vm_compute; reflexivity); try discriminate).
Qed.
