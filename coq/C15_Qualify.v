(* C15 — the qualification predicate read declaratively over byte strings, for EVERY host and
   listener string: public_name (what certmagic.SubjectQualifiesForPublicCert accepts), the host
   part IsLoopback / IsInternal judge and what they call loopback / internal; the iff with the
   model's classifiers, and the never-managed corollaries.  Stdlib + Lia only. *)
Require Import V.Lib V.GoPath V.GoPathProofs V.Gen_C15 V.C15_Model V.C15_Proofs V.C15_Strings V.C15_IP.
From Coq Require Import Lia.
Open Scope N_scope.

(* ------------------------------------------------------------------ counting *)
Lemma count_byte_zero_iff c s : count_byte c s = 0%nat <-> ~ In c s.
Proof.
  unfold count_byte. induction s as [|x s IH]; simpl; [tauto|].
  destruct (c =? x) eqn:E; simpl.
  - apply N.eqb_eq in E. subst x. split; [discriminate|intros H; exfalso; apply H; left; reflexivity].
  - apply N.eqb_neq in E. rewrite IH. split; [intros H [->|H']; auto|intros H H'; apply H; right; exact H'].
Qed.

Lemma count_byte_cons c x s : count_byte c (x :: s) = ((if (c =? x)%N then 1 else 0) + count_byte c s)%nat.
Proof. unfold count_byte. simpl. destruct (c =? x); reflexivity. Qed.

(* ------------------------------------------------------------------ a name a public CA can certify *)
Definition blank (h : bytes) : Prop := forall c, In c h -> is_space c = true.

(* no '*' at all, or exactly one, as the whole left-most label, with at least two more labels *)
Definition wildcard_ok (h : bytes) : Prop :=
  ~ In STAR h \/ exists r, h = STAR :: DOT :: r /\ ~ In STAR r /\ In DOT r.

Definition public_name (h : bytes) : Prop :=
  ~ blank h /\                                              (* not empty, not white space *)
  (forall r, h <> DOT :: r) /\ (forall q, h <> q ++ [DOT]) /\   (* no leading / trailing dot *)
  (forall c, In c h -> ~ In c cert_special) /\               (* none of the special characters (brackets, space, quote, percent, ...) *)
  wildcard_ok h /\
  ~ In h gen_c15_cert_internal_eq /\                         (* not "localhost" *)
  (forall q suf, In suf gen_c15_cert_internal_suffixes -> h <> q ++ suf) /\  (* not under .localhost .local .home.arpa *)
  parse_ip h = None.                                         (* not an IP literal *)

Lemma blank_iff h : forallb is_space h = true <-> blank h.
Proof. unfold blank. apply forallb_forall. Qed.

Lemma wildcard_iff h :
  (negb (contains_byte STAR h) || has_prefix h [STAR; DOT] || beq h [STAR]) &&
  (negb (contains_byte STAR h)
   || (Nat.eqb (count_byte STAR h) 1 && Nat.ltb 1 (count_byte DOT h) && Nat.ltb 2 (length h)
       && has_prefix h [STAR; DOT])) = true <-> wildcard_ok h.
Proof.
  unfold wildcard_ok. destruct (contains_byte STAR h) eqn:C.
  - apply contains_byte_iff in C. cbn [negb orb]. split.
    + intros H. apply andb_true_iff in H as [_ H]. right.
      apply andb_true_iff in H as [H Hp]. apply andb_true_iff in H as [H Hl]. apply andb_true_iff in H as [Hs Hd].
      apply has_prefix_iff in Hp as (r & ->). exists r. split; [reflexivity|].
      apply Nat.eqb_eq in Hs. apply Nat.ltb_lt in Hd.
      cbn [app] in Hs, Hd. rewrite !count_byte_cons in Hs, Hd.
      change (STAR =? STAR) with true in Hs. change (STAR =? DOT) with false in Hs.
      change (DOT =? STAR) with false in Hd. change (DOT =? DOT) with true in Hd.
      cbv iota in Hs, Hd.
      split.
      * apply count_byte_zero_iff. lia.
      * destruct (count_byte DOT r) eqn:E; [lia|].
        destruct (in_dec N.eq_dec DOT r) as [I|I]; [exact I|]. apply count_byte_zero_iff in I. lia.
    + intros [H|(r & -> & Hs & Hd)]; [contradiction|].
      apply count_byte_zero_iff in Hs.
      assert (Hd' : count_byte DOT r <> 0%nat) by (intros E; apply count_byte_zero_iff in E; contradiction).
      cbn [has_prefix]. change (STAR =? STAR) with true. change (DOT =? DOT) with true. cbn [andb orb].
      rewrite !count_byte_cons, Hs.
      change (STAR =? STAR) with true. change (STAR =? DOT) with false.
      change (DOT =? STAR) with false. change (DOT =? DOT) with true.
      cbv iota. cbn [length].
      replace (Nat.eqb (1 + (0 + 0)) 1) with true by reflexivity.
      replace (Nat.ltb 1 (0 + (1 + count_byte DOT r))) with true by (symmetry; apply Nat.ltb_lt; lia).
      destruct r; [destruct Hd|]. reflexivity.
  - cbn [negb orb andb]. split; [intros _; left; apply contains_byte_false_iff; exact C|reflexivity].
Qed.

Lemma existsb_beq_false_iff s l : existsb (beq s) l = false <-> ~ In s l.
Proof.
  rewrite existsb_false_iff. split.
  - intros H I. specialize (H s I). rewrite beq_refl in H. discriminate.
  - intros H x I. apply beq_neq. intros ->. contradiction.
Qed.

Lemma existsb_suffix_false_iff s l :
  existsb (has_suffix s) l = false <-> forall q suf, In suf l -> s <> q ++ suf.
Proof.
  rewrite existsb_false_iff. split.
  - intros H q suf I. apply (proj1 (has_suffix_false_iff suf s) (H suf I)).
  - intros H suf I. apply has_suffix_false_iff. intros q. apply H. exact I.
Qed.

(* certmagic.SubjectQualifiesForPublicCert, for every byte string *)
Lemma subject_public_iff h : subject_public h = true <-> public_name h.
Proof.
  unfold subject_public, subject_qualifies_for_cert, subject_is_internal, subject_is_ip, public_name.
  set (W1 := negb (contains_byte STAR h) || has_prefix h [STAR; DOT] || beq h [STAR]).
  set (W2 := negb (contains_byte STAR h)
             || (Nat.eqb (count_byte STAR h) 1 && Nat.ltb 1 (count_byte DOT h) && Nat.ltb 2 (length h)
                 && has_prefix h [STAR; DOT])).
  pose proof (wildcard_iff h) as HW. fold W1 W2 in HW.
  rewrite !andb_true_iff, !negb_true_iff, orb_false_iff.
  rewrite (has_prefix_false_iff [DOT] h), (has_suffix_false_iff [DOT] h), contains_any_false_iff,
    existsb_beq_false_iff, existsb_suffix_false_iff.
  rewrite andb_true_iff in HW.
  assert (HB : forallb is_space h = false <-> ~ blank h).
  { rewrite <- blank_iff. destruct (forallb is_space h); split; congruence. }
  rewrite HB.
  assert (HI : match parse_ip h with Some _ => true | None => false end = false <-> parse_ip h = None)
    by (destruct (parse_ip h); split; congruence).
  rewrite HI. tauto.
Qed.

(* ------------------------------------------------------------------ which part of an address is judged *)
(* IsLoopback splits the LOWERED address; when that fails the address itself is judged, as written *)
Definition loopback_judges (a x : bytes) : Prop :=
  (exists p, splits (to_lower a) x p) \/ ((forall h p, ~ splits (to_lower a) h p) /\ x = a).
(* IsInternal splits the address as written; when that fails the brackets are trimmed off *)
Definition internal_judges (a x : bytes) : Prop :=
  (exists p, splits a x p) \/ ((forall h p, ~ splits a h p) /\ x = trim_brackets a).

Lemma loopback_judges_iff a x : loopback_judges a x <-> x = loopback_hostpart a.
Proof.
  unfold loopback_judges, loopback_hostpart. destruct (split_host_port (to_lower a)) as [[h p]|] eqn:E.
  - split.
    + intros [(p' & S)|(N & _)].
      * apply splits_complete in S. congruence.
      * exfalso. apply (N h p). apply splits_sound. exact E.
    + intros ->. left. exists p. apply splits_sound. exact E.
  - pose proof (proj1 (split_host_port_none_iff _) E) as N. split.
    + intros [(p' & S)|(_ & ->)]; [exfalso; exact (N _ _ S)|reflexivity].
    + intros ->. right. auto.
Qed.

Lemma internal_judges_iff a x : internal_judges a x <-> x = internal_hostpart a.
Proof.
  unfold internal_judges, internal_hostpart. destruct (split_host_port a) as [[h p]|] eqn:E.
  - split.
    + intros [(p' & S)|(N & _)].
      * apply splits_complete in S. congruence.
      * exfalso. apply (N h p). apply splits_sound. exact E.
    + intros ->. left. exists p. apply splits_sound. exact E.
  - pose proof (proj1 (split_host_port_none_iff _) E) as N. split.
    + intros [(p' & S)|(_ & ->)]; [exfalso; exact (N _ _ S)|reflexivity].
    + intros ->. right. auto.
Qed.

(* ------------------------------------------------------------------ what is called loopback / internal *)
Definition BRACKETS : bytes := [LBR; RBR].

Definition loopback_name (x : bytes) : Prop :=
  x = bs "localhost" \/
  (exists l r, all_in BRACKETS l /\ all_in BRACKETS r /\ x = l ++ bs "::1" ++ r) \/
  (exists r, x = bs "127." ++ r) \/
  (exists q, x = q ++ bs ".localhost").

Definition internal_name (x : bytes) : Prop :=
  (exists q tld, In tld gen_c15_private_tlds /\ x = q ++ tld) \/
  (exists ip, parse_ip x = Some ip /\ private_ip ip).

Lemma trim_brackets_v6loop x :
  trim_brackets x = bs "::1" <-> exists l r, all_in BRACKETS l /\ all_in BRACKETS r /\ x = l ++ bs "::1" ++ r.
Proof.
  unfold trim_brackets. fold BRACKETS. split.
  - intros H. destruct (trim_spec BRACKETS x) as (l & r & E & Hl & Hr). rewrite H in E. exists l, r. auto.
  - intros (l & r & Hl & Hr & ->).
    apply (trim_of_shape BRACKETS l (bs "::1") r COLON 49 (bs ":1")); try assumption; try reflexivity.
    + exists (bs "::"). reflexivity.
    + intros [H|[H|[]]]; discriminate H.
    + intros [H|[H|[]]]; discriminate H.
Qed.

Lemma is_loopback_host_iff x : is_loopback_host x = true <-> loopback_name x.
Proof.
  rewrite is_loopback_host_unfold. unfold loopback_name.
  rewrite !orb_true_iff, beq_eq, beq_eq, trim_brackets_v6loop, has_prefix_iff, has_suffix_iff. tauto.
Qed.

Lemma is_internal_host_iff x : is_internal_host x = true <-> internal_name x.
Proof.
  unfold is_internal_host, internal_name, private_tlds. rewrite orb_true_iff. split.
  - intros [H|H].
    + apply existsb_exists in H as (tld & I & S). apply has_suffix_iff in S as (q & ->). left. exists q, tld. auto.
    + destruct (parse_ip x) as [ip|] eqn:E; [|discriminate]. right. exists ip. split; [reflexivity|].
      apply (in_private_net_iff x ip E). exact H.
  - intros [(q & tld & I & ->)|(ip & E & P)].
    + left. apply existsb_exists. exists tld. split; [exact I|]. apply has_suffix_iff. exists q. reflexivity.
    + right. rewrite E. apply (in_private_net_iff x ip E). exact P.
Qed.

(* casket.IsLoopback and casket.IsInternal, for every address string *)
Lemma is_loopback_iff a : is_loopback a = true <-> exists x, loopback_judges a x /\ loopback_name x.
Proof.
  unfold is_loopback. rewrite is_loopback_host_iff. split.
  - intros H. exists (loopback_hostpart a). split; [apply loopback_judges_iff; reflexivity|exact H].
  - intros (x & J & H). apply loopback_judges_iff in J. subst x. exact H.
Qed.

Lemma is_internal_iff a : is_internal a = true <-> exists x, internal_judges a x /\ internal_name x.
Proof.
  unfold is_internal. rewrite is_internal_host_iff. split.
  - intros H. exists (internal_hostpart a). split; [apply internal_judges_iff; reflexivity|exact H].
  - intros (x & J & H). apply internal_judges_iff in J. subst x. exact H.
Qed.

Definition local_address (a : bytes) : Prop :=
  (exists x, loopback_judges a x /\ loopback_name x) \/ (exists x, internal_judges a x /\ internal_name x).

Lemma local_address_iff a : is_loopback a = false /\ is_internal a = false <-> ~ local_address a.
Proof.
  unfold local_address. rewrite <- is_loopback_iff, <- is_internal_iff.
  destruct (is_loopback a), (is_internal a); split; intros H;
    try (destruct H as [H1 H2]; discriminate);
    try (exfalso; apply H; solve [left; reflexivity|right; reflexivity]);
    try (intros [X|X]; discriminate X);
    try (split; reflexivity).
Qed.

(* ------------------------------------------------------------------ Managed <-> qualifies, declaratively *)
Definition tls_allows_managed (t : tlsf) : Prop :=
  (mn t = false \/ od t = true) /\ ss t = false /\ email t <> bs "off".

Definition site_qualifies (s : site) : Prop :=
  tls_allows_managed (tls s) /\ scheme s <> HTTP /\ port s <> P80 /\
  (od (tls s) = true \/ public_name (host s)) /\
  ~ local_address (host s) /\ ~ local_address (listen s).

Lemma qualifies_declarative s : qualifies s = true <-> site_qualifies s.
Proof.
  rewrite qualifies_iff. unfold site_qualifies, tls_allows_managed.
  rewrite <- !local_address_iff, <- subject_public_iff. tauto.
Qed.

Lemma managed_iff_declarative s : mg (tls s) = false ->
  (mg (tls (mark_one s)) = true <-> site_qualifies s).
Proof. intros Hm. rewrite mark_one_managed, Hm. simpl. apply qualifies_declarative. Qed.

(* what auto-HTTPS then does to the site: nothing unless it qualifies; if it does (and certificates
   are not obtained on demand), TLS on, scheme https, port 443 unless a port was given *)
Lemma after_callback_unqualified s : mg (tls s) = false -> qualifies s = false -> after_callback s = s.
Proof.
  intros Hm Hq. unfold after_callback. rewrite (mark_one_unqualified _ Hq). apply enable_one_unmanaged. exact Hm.
Qed.

Lemma after_callback_qualified s :
  qualifies s = true -> od (tls s) = false ->
  let s' := after_callback s in
  mg (tls s') = true /\ en (tls s') = true /\ scheme s' = HTTPS /\ host s' = host s /\
  port s' = match port s with [] => P443 | _ => port s end /\
  nr (tls s') = nr (tls s) /\ redir s' = redir s.
Proof.
  intros Hq Hod.
  pose proof (proj1 (qualifies_iff s) Hq) as (Hl & _ & _ & _ & Hmn & _ & _ & _ & _ & _).
  assert (Hmn' : mn (tls s) = false) by (destruct Hmn as [H|H]; [exact H|congruence]).
  assert (Hloc : beq (host s) (bs "localhost") = false).
  { destruct (beq (host s) (bs "localhost")) eqn:E; [|reflexivity]. apply beq_eq in E.
    rewrite E in Hl. vm_compute in Hl. discriminate. }
  unfold after_callback, mark_one. rewrite Hq. unfold enable_one.
  destruct s as [sc h p l t r]. destruct t as [e m n sf nrd o em].
  cbn [tls mg od mn set_mg with_tls scheme host port listen redir set_en with_scheme en nr] in *.
  subst o n. cbn [negb andb orb]. rewrite Hloc. cbn [negb andb].
  destruct p as [|c p']; cbn [beq andb with_port tls mg en scheme host port nr redir]; repeat split; reflexivity.
Qed.

(* ------------------------------------------------------------------ never-managed corollaries *)
Lemma not_public_never_qualifies s : od (tls s) = false -> subject_public (host s) = false -> qualifies s = false.
Proof.
  intros Hod Hp. unfold qualifies, qualifies_for_managed_tls. rewrite Hod, Hp. simpl.
  rewrite !andb_false_r. reflexivity.
Qed.

(* a character certmagic refuses anywhere in the name: brackets (IPv6 literals in URL form),
   '%' (IPv6 zones), spaces, ... *)
Lemma special_char_never_public h c : In c h -> In c cert_special -> subject_public h = false.
Proof.
  intros Hc Hs. destruct (subject_public h) eqn:E; [|reflexivity].
  apply subject_public_iff in E. destruct E as (_ & _ & _ & H & _). exfalso. exact (H c Hc Hs).
Qed.

Lemma trailing_dot_never_public q : subject_public (q ++ [DOT]) = false.
Proof.
  destruct (subject_public (q ++ [DOT])) eqn:E; [|reflexivity].
  apply subject_public_iff in E. destruct E as (_ & _ & H & _). exfalso. exact (H q eq_refl).
Qed.

Lemma leading_dot_never_public r : subject_public (DOT :: r) = false.
Proof.
  destruct (subject_public (DOT :: r)) eqn:E; [|reflexivity].
  apply subject_public_iff in E. destruct E as (_ & H & _). exfalso. exact (H r eq_refl).
Qed.

(* the private-TLD table is a list of dot-led suffixes that do not end in a bracket *)
Definition tld_wf (t : bytes) : bool :=
  match t, rev t with
  | a :: _, b :: _ => negb (contains_byte a BRACKETS) && negb (contains_byte b BRACKETS) && negb (contains_byte COLON t)
  | _, _ => false
  end.
Lemma private_tlds_wf : forallb tld_wf gen_c15_private_tlds = true.
Proof. vm_compute. reflexivity. Qed.

Lemma trim_left_keeps_suffix set q a t : ~ In a set -> exists q', trim_left set (q ++ a :: t) = q' ++ a :: t.
Proof.
  intros Ha. induction q as [|x q IH]; cbn [app].
  - exists []. apply trim_left_stops. exact Ha.
  - cbn [trim_left]. destruct (contains_byte x set); [exact IH|]. exists (x :: q). reflexivity.
Qed.

Lemma trim_keeps_suffix set q t : tld_wf t = true -> set = BRACKETS -> exists q', trim set (q ++ t) = q' ++ t.
Proof.
  intros W ->. unfold tld_wf in W.
  destruct t as [|a t']; [discriminate|]. destruct (rev (a :: t')) as [|b u] eqn:Er; [discriminate|].
  apply andb_true_iff in W as [W _]. apply andb_true_iff in W as [Wa Wb].
  apply negb_true_iff in Wa, Wb. apply contains_byte_false_iff in Wa, Wb.
  unfold trim. destruct (trim_left_keeps_suffix BRACKETS q a t' Wa) as (q' & ->).
  rewrite rev_app_distr, Er. cbn [app]. rewrite (trim_left_stops BRACKETS b _ Wb).
  exists q'. change (b :: u ++ rev q') with ((b :: u) ++ rev q'). rewrite <- Er, <- rev_app_distr. apply rev_involutive.
Qed.

(* IsInternal: a name (no colon) under a private TLD, whatever stands in front of the suffix —
   no label, one label, ten labels: the test is strings.HasSuffix on the whole host, not a
   comparison with what follows the first dot *)
Lemma private_tld_is_internal q tld :
  In tld gen_c15_private_tlds -> ~ In COLON q -> is_internal (q ++ tld) = true.
Proof.
  intros I Hc.
  pose proof private_tlds_wf as W. rewrite forallb_forall in W. specialize (W tld I).
  assert (Hct : ~ In COLON tld).
  { unfold tld_wf in W. destruct tld as [|a t']; [discriminate|]. destruct (rev (a :: t')); [discriminate|].
    apply andb_true_iff in W as [_ W]. apply negb_true_iff in W. apply contains_byte_false_iff. exact W. }
  unfold is_internal, internal_hostpart, split_host_port.
  rewrite last_index_none.
  2:{ apply contains_byte_false_iff. intros H. apply in_app_or in H. tauto. }
  destruct (trim_keeps_suffix BRACKETS q tld W eq_refl) as (q' & E).
  unfold trim_brackets. fold BRACKETS. rewrite E. unfold is_internal_host, private_tlds.
  apply orb_true_iff. left. apply existsb_exists. exists tld. split; [exact I|].
  apply has_suffix_iff. exists q'. reflexivity.
Qed.

Lemma internal_suffix_never_qualifies s q suf :
  host s = q ++ suf ->
  In suf (gen_c15_private_tlds ++ gen_c15_cert_internal_suffixes) ->
  ~ In COLON q -> od (tls s) = false -> qualifies s = false.
Proof.
  intros Hh I Hc Hod. apply in_app_or in I as [I|I].
  - unfold qualifies. rewrite Hh, (private_tld_is_internal q suf I Hc). rewrite !andb_false_r. reflexivity.
  - apply not_public_never_qualifies; [exact Hod|].
    destruct (subject_public (host s)) eqn:E; [|reflexivity].
    apply subject_public_iff in E. destruct E as (_ & _ & _ & _ & _ & _ & H & _). exfalso. exact (H q suf I Hh).
Qed.

(* an unqualified site (not yet managed) is left alone by the whole callback *)
Lemma never_qualifies_never_managed s : mg (tls s) = false -> qualifies s = false ->
  mg (tls (after_callback s)) = false /\ en (tls (after_callback s)) = en (tls s).
Proof. intros Hm Hq. rewrite (after_callback_unqualified s Hm Hq). auto. Qed.

(* ------------------------------------------------------------------ dotted quads *)
Lemma ip_dispatch_dot f r : (forall c, In c f -> is_digit c = true) -> ip_dispatch (f ++ DOT :: r) = 4.
Proof.
  intros H. induction f as [|c f IH]; cbn [app ip_dispatch].
  - reflexivity.
  - assert (Hc : is_digit c = true) by (apply H; left; reflexivity).
    unfold is_digit in Hc. apply andb_true_iff in Hc as [H1 H2]. apply N.leb_le in H1, H2.
    assert (E1 : (c =? DOT) = false) by (apply N.eqb_neq; unfold DOT; lia).
    assert (E2 : (c =? COLON) = false) by (apply N.eqb_neq; unfold COLON; lia).
    assert (E3 : (c =? PERCENT) = false) by (apply N.eqb_neq; unfold PERCENT; lia).
    rewrite E1, E2, E3. apply IH. intros x Hx. apply H. right. exact Hx.
Qed.

Lemma v4_field_digits f v : v4_field f = Some v -> (forall c, In c f -> is_digit c = true) /\ ~ In DOT f.
Proof.
  unfold v4_field. destruct f as [|c r]; [discriminate|].
  destruct (forallb is_digit (c :: r)) eqn:E; [|discriminate]. intros _.
  rewrite forallb_forall in E. split; [exact E|]. intros H. apply E in H. discriminate H.
Qed.

(* every canonical dotted quad is an IP literal for net.ParseIP *)
Lemma dotted_quad_is_ip fa fb fc fd a b c d :
  v4_field fa = Some a -> v4_field fb = Some b -> v4_field fc = Some c -> v4_field fd = Some d ->
  parse_ip (fa ++ DOT :: fb ++ DOT :: fc ++ DOT :: fd) = Some (v4_mapped [a; b; c; d]).
Proof.
  intros Ha Hb Hc Hd.
  destruct (v4_field_digits _ _ Ha) as [Da Na]. destruct (v4_field_digits _ _ Hb) as [Db Nb].
  destruct (v4_field_digits _ _ Hc) as [Dc Nc]. destruct (v4_field_digits _ _ Hd) as [Dd Nd].
  unfold parse_ip. rewrite (ip_dispatch_dot fa _ Da). unfold parse_ipv4, split.
  rewrite (split_on_app DOT fa _ [] Na). cbn [rev app].
  rewrite (split_on_app DOT fb _ [] Nb). cbn [rev app].
  rewrite (split_on_app DOT fc _ [] Nc). cbn [rev app].
  rewrite (split_on_no_sep DOT fd [] Nd). cbn [rev app].
  rewrite Ha, Hb, Hc, Hd. reflexivity.
Qed.

(* ------------------------------------------------------------------ IP literals in every written form *)
Lemma ip_literal_forms_never_qualify s h ip zone :
  parse_ip h = Some ip ->
  host s = h \/ host s = LBR :: h ++ [RBR] \/ host s = h ++ PERCENT :: zone \/ host s = LBR :: h ++ PERCENT :: zone ++ [RBR] ->
  od (tls s) = false -> qualifies s = false.
Proof.
  intros Hip Hh Hod. destruct Hh as [Hh|[Hh|[Hh|Hh]]].
  - rewrite <- Hh in Hip. exact (ip_never_qualifies s ip Hip Hod).
  - apply not_public_never_qualifies; [exact Hod|]. rewrite Hh.
    apply (special_char_never_public _ LBR); [left; reflexivity|vm_compute; tauto].
  - apply not_public_never_qualifies; [exact Hod|]. rewrite Hh.
    apply (special_char_never_public _ PERCENT); [apply in_or_app; right; left; reflexivity|vm_compute; tauto].
  - apply not_public_never_qualifies; [exact Hod|]. rewrite Hh.
    apply (special_char_never_public _ LBR); [left; reflexivity|vm_compute; tauto].
Qed.

(* ------------------------------------------------------------------ letter case *)
Lemma lower_byte_idem c : lower_byte (lower_byte c) = lower_byte c.
Proof.
  unfold lower_byte. destruct ((65 <=? c) && (c <=? 90)) eqn:E; [|rewrite E; reflexivity].
  apply andb_true_iff in E as [E1 E2]. apply N.leb_le in E1, E2.
  assert (F : (65 <=? c + 32) && (c + 32 <=? 90) = false).
  { apply andb_false_iff. right. apply N.leb_gt. lia. }
  rewrite F. reflexivity.
Qed.
Lemma to_lower_idem s : to_lower (to_lower s) = to_lower s.
Proof. unfold to_lower. rewrite map_map. apply map_ext. apply lower_byte_idem. Qed.

(* with a port the lowered host is judged: letter case does not matter ... *)
Lemma is_loopback_case_with_port a h p :
  splits (to_lower a) h p -> is_loopback a = is_loopback (to_lower a).
Proof.
  intros S. unfold is_loopback, loopback_hostpart. rewrite to_lower_idem.
  rewrite (splits_complete _ _ _ S). reflexivity.
Qed.
(* ... without one it does (the address is judged as written) *)
Lemma is_loopback_case_refuted :
  exists a, is_loopback (to_lower a) = true /\ is_loopback a = false /\ is_internal a = false /\ subject_public a = true.
Proof. exists (bs "LOCALHOST"). vm_compute. auto. Qed.

(* other spellings of the IPv6 loopback address are not recognised by IsLoopback (nor IsInternal) *)
Lemma loopback_v6_spelling_refuted :
  exists a, parse_ip a = parse_ip (bs "::1") /\ is_loopback a = false /\ is_internal a = false.
Proof. exists (bs "0:0:0:0:0:0:0:1"). vm_compute. auto. Qed.
Lemma loopback_v6_canonical l r :
  all_in BRACKETS l -> all_in BRACKETS r ->
  is_loopback_host (l ++ bs "::1" ++ r) = true.
Proof. intros Hl Hr. apply is_loopback_host_iff. right. left. exists l, r. auto. Qed.

(* every suffix the property text names is in one of the three tables *)
Lemma property_suffixes_in_tables :
  forallb (fun suf => existsb (beq suf) (gen_c15_private_tlds ++ gen_c15_cert_internal_suffixes ++ gen_c15_loopback_suffixes))
          [bs ".localhost"; bs ".local"; bs ".test"; bs ".example"; bs ".invalid"] = true.
Proof. vm_compute. reflexivity. Qed.

(* ------------------------------------------------------------------ statements as used in C15_Props *)
Lemma ip_literal_never_managed s h ip zone : mg (tls s) = false -> parse_ip h = Some ip ->
  host s = h \/ host s = LBR :: h ++ [RBR] \/ host s = h ++ PERCENT :: zone \/ host s = LBR :: h ++ PERCENT :: zone ++ [RBR] ->
  od (tls s) = false -> mg (tls (enable_one (mark_one s))) = false.
Proof.
  intros Hm Hip Hh Hod.
  exact (proj1 (never_qualifies_never_managed s Hm (ip_literal_forms_never_qualify s h ip zone Hip Hh Hod))).
Qed.

Lemma internal_suffix_never_managed s q suf : mg (tls s) = false ->
  host s = q ++ suf -> In suf (gen_c15_private_tlds ++ gen_c15_cert_internal_suffixes) ->
  ~ In COLON q -> od (tls s) = false ->
  mg (tls (enable_one (mark_one s))) = false /\ en (tls (enable_one (mark_one s))) = en (tls s).
Proof.
  intros Hm Hh Hi Hc Hod.
  exact (never_qualifies_never_managed s Hm (internal_suffix_never_qualifies s q suf Hh Hi Hc Hod)).
Qed.
