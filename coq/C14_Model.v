(* C14 — backend in-flight (Conns) and failure (Fails) accounting under concurrency:
   executable interleaving model.
   Mirrors caskethttp/proxy/proxy.go (Proxy.ServeHTTP: upstream.Select / acquireConn (load, then
   compare-and-swap +1 unless full, retried when the swap is lost) / forward / deferred AddInt64 -1 /
   Fails +1 / one sleeping goroutine per failure that does Fails -1; Down, Full, Available) and
   caskethttp/proxy/upstream.go (staticUpstream.Select: single-host shortcut, all-unavailable scan,
   then Policy.Select; the CheckDown closure of NewHost with max_fails and the Unhealthy flag that
   the health-check worker stores; parsing of max_fails / max_conns) and policy.go (First,
   RoundRobin with its counter kept below the pool length).

   Agents: any number of request goroutines, one expiry goroutine per recorded failure (it may run
   at ANY time at or after failure time + fail_timeout: no scheduler assumption), the clock, and the
   health-check worker (it may store any verdict for any host at any time).

   One atomic step of the model = one atomic operation of the Go code together with the
   thread-local code around it; upstream.Select is NOT atomic: it starts, evaluates host.Available()
   for one host after the other — each evaluation being up to three separate atomic loads (Unhealthy,
   then Fails, then Conns), each a step of its own — and returns.
   Definitions only; proofs are in C14_Proofs.v. *)
Require Import V.Lib.
Open Scope Z_scope.

(* ---- what the backend round trip of one attempt ends in ---- *)
Inductive outcome :=
| OSuccess      (* response relayed: ServeHTTP returns 0 *)
| OError        (* backend error: counted as a failure, 502 or another attempt *)
| OCancel       (* client went away: context.Canceled, 499, not a failure *)
| OTooLarge     (* body limit hit while uploading: 413, not a failure *)
| OPanic.       (* the forward call panics: the panic propagates, code -1 in the model *)

(* program counter of one request inside Proxy.ServeHTTP *)
Inductive pc :=
| Idle                                (* at the top of the for loop, about to call upstream.Select *)
| Selecting (obs : list (nat * bool)) (cur : option (nat * bool))
                                      (* inside upstream.Select: the answers of host.Available() obtained so far, newest
                                         first; cur = Some (h, st): in the middle of host h's Available(): Unhealthy was
                                         loaded and is 0 (st = false), Fails too and is below max_fails (st = true) *)
| Selected (h : option nat)           (* Select returned (or acquireConn found the host full: None), nothing counted yet:
                                         THE WINDOW *)
| Acquiring (h : nat) (n : Z)         (* inside acquireConn: Conns = n was loaded and is below the cap, the
                                         CompareAndSwap(&Conns, n, n+1) has not happened yet *)
| Forwarding (h : nat)                (* between the successful CompareAndSwap of acquireConn and the deferred
                                         AddInt64(&Conns,-1) *)
| Failed (h : nat)                    (* forward returned an error, Conns already decremented, Fails not yet incremented *)
| Done (code : Z).

Record config := {
  c_hosts : nat;             (* size of the pool *)
  c_max_conns : Z;           (* max_conns, 0 (or less) = unlimited *)
  c_max_fails : Z;           (* max_fails as stored (int32) *)
  c_fail_timeout : Z         (* fail_timeout in clock units; <= 0 disables failure counting *)
}.

(* one recorded failure and its own expiry event *)
Record frec := {
  f_host : nat;
  f_at : Z;                  (* clock when Fails was incremented *)
  f_fired : option Z         (* clock when its expiry goroutine did Fails -1; None = still asleep *)
}.

Record state := {
  conns : nat -> Z;              (* UpstreamHost.Conns *)
  fails : nat -> Z;              (* UpstreamHost.Fails *)
  unhealthy : nat -> bool;       (* UpstreamHost.Unhealthy != 0, written by the health-check worker *)
  flog : list frec;              (* ghost: every failure ever recorded, in order, each with its expiry event *)
  now : Z;                       (* clock *)
  threads : list pc;
  robin : N                      (* RoundRobin.robin *)
}.

Definition down (c : config) (s : state) (h : nat) : bool :=
  unhealthy s h || (c_max_fails c <=? fails s h).
Definition full (c : config) (s : state) (h : nat) : bool :=
  (0 <? c_max_conns c) && (c_max_conns c <=? conns s h).
Definition available (c : config) (s : state) (h : nat) : bool :=
  negb (down c s h) && negb (full c s h).

(* ---- small list utilities ---- *)
Fixpoint cnt {A} (P : A -> bool) (l : list A) : Z :=
  match l with
  | [] => 0
  | x :: r => (if P x then 1 else 0) + cnt P r
  end.

Fixpoint set_nth {A} (l : list A) (i : nat) (v : A) : list A :=
  match l, i with
  | [], _ => []
  | _ :: r, O => v :: r
  | x :: r, S k => x :: set_nth r k v
  end.

Definition bump (f : nat -> Z) (h : nat) (d : Z) : nat -> Z :=
  fun x => if Nat.eqb x h then f x + d else f x.
Definition setb (f : nat -> bool) (h : nat) (b : bool) : nat -> bool :=
  fun x => if Nat.eqb x h then b else f x.
Definition bool_eqb (a b : bool) : bool := if a then b else negb b.

Definition is_fwd (h : nat) (p : pc) : bool :=
  match p with Forwarding h' => Nat.eqb h h' | _ => false end.
Definition is_done (p : pc) : bool :=
  match p with Done _ => true | _ => false end.

Definition asleep (f : frec) : bool := match f_fired f with None => true | Some _ => false end.
Definition on_host (h : nat) (f : frec) : bool := Nat.eqb h (f_host f).
Definition fire (f : frec) (w : Z) : frec := {| f_host := f_host f; f_at := f_at f; f_fired := Some w |}.

(* record updates *)
Definition set_threads (s : state) (th : list pc) : state :=
  {| conns := conns s; fails := fails s; unhealthy := unhealthy s; flog := flog s; now := now s;
     threads := th; robin := robin s |}.
Definition set_conns (s : state) (f : nat -> Z) : state :=
  {| conns := f; fails := fails s; unhealthy := unhealthy s; flog := flog s; now := now s;
     threads := threads s; robin := robin s |}.
Definition set_fails (s : state) (f : nat -> Z) (l : list frec) : state :=
  {| conns := conns s; fails := f; unhealthy := unhealthy s; flog := l; now := now s;
     threads := threads s; robin := robin s |}.
Definition set_now (s : state) (t : Z) : state :=
  {| conns := conns s; fails := fails s; unhealthy := unhealthy s; flog := flog s; now := t;
     threads := threads s; robin := robin s |}.
Definition set_unhealthy (s : state) (u : nat -> bool) : state :=
  {| conns := conns s; fails := fails s; unhealthy := u; flog := flog s; now := now s;
     threads := threads s; robin := robin s |}.
Definition set_robin (s : state) (r : N) : state :=
  {| conns := conns s; fails := fails s; unhealthy := unhealthy s; flog := flog s; now := now s;
     threads := threads s; robin := r |}.

(* ---- the transition system ---- *)
Inductive label :=
| LSpawn                           (* a new request enters ServeHTTP *)
| LSelStart (t : nat)              (* the request enters upstream.Select(r) *)
| LSelRead (t : nat) (h : nat)     (* the next atomic load of host h's Available() inside Select (the scan of
                                      staticUpstream.Select or the policy): Unhealthy, then Fails, then Conns *)
| LSelEnd (t : nat) (ho : option nat) (r : N)
                                   (* Select returns ho; the policy's counter becomes r.  Which answers are
                                      possible after which reads is the policy's contract [pol] *)
| LLoad (t : nat)                  (* acquireConn: n := LoadInt64(&host.Conns); at the cap -> refused (no-host path) *)
| LCas (t : nat)                   (* acquireConn: CompareAndSwapInt64(&host.Conns, n, n+1); lost -> load again *)
| LNoHost (t : nat) (again : bool) (* Select returned nil / acquireConn returned false: keepRetrying decides *)
| LFinish (t : nat) (o : outcome)  (* forward returns/panics; deferred atomic.AddInt64(&host.Conns, -1) *)
| LRecord (t : nat) (again : bool) (* atomic.AddInt32(&host.Fails, 1) + go expiry goroutine; keepRetrying decides *)
| LFire (k : nat)                  (* the expiry goroutine of the k-th recorded failure runs: Fails -1.  Enabled from
                                      failure time + fail_timeout on, at any later moment *)
| LTick (d : Z)                    (* time passes *)
| LHealth (h : nat) (b : bool)     (* the health-check worker stores Unhealthy(h) := b *)
| LCancel (t : nat).               (* the client of request t goes away: the context of its outgoing request becomes
                                      context.Canceled — at ANY point of the request's life (before Select, inside it,
                                      in the window, inside acquireConn, during the forward, back in the retry loop).
                                      Proxy.ServeHTTP consults that context nowhere between its entry and the forward
                                      call (keepRetrying looks at the error of the previous ATTEMPT only), so the step
                                      moves no counter and no program counter: a request whose context is already
                                      cancelled when its attempt begins still selects, acquires its slot, enters the
                                      forward call — whose transport then answers context.Canceled: LFinish t OCancel —
                                      and gives the slot back in the deferred decrement *)

(* what a Select may answer after the reads it made: [pol obs ho] *)
Definition policy := list (nat * bool) -> option nat -> bool.

Definition after_forward (o : outcome) (h : nat) : pc :=
  match o with
  | OSuccess => Done 0
  | OError => Failed h
  | OCancel => Done 499
  | OTooLarge => Done 413
  | OPanic => Done (-1)
  end.

Definition retry_pc (again : bool) : pc := if again then Idle else Done 502.

(* host.Available() = !Down() && !Full(), Down() = Unhealthy != 0 || Fails >= MaxFails (short-circuit), one load at a time *)
Definition read_next (c : config) (s : state) (h : nat) (obs : list (nat * bool)) (cur : option (nat * bool)) : option pc :=
  match cur with
  | None =>                                   (* atomic.LoadInt32(&uh.Unhealthy) *)
      Some (if unhealthy s h then Selecting ((h, false) :: obs) None else Selecting obs (Some (h, false)))
  | Some (h', st) =>
      if Nat.eqb h h' then
        if st
        then                                  (* atomic.LoadInt64(&uh.Conns) in Full() *)
          Some (Selecting ((h, negb (full c s h)) :: obs) None)
        else                                  (* atomic.LoadInt32(&uh.Fails) >= u.MaxFails *)
          Some (if c_max_fails c <=? fails s h then Selecting ((h, false) :: obs) None else Selecting obs (Some (h, true)))
      else None
  end.

Definition step (c : config) (pol : policy) (s : state) (l : label) : option state :=
  match l with
  | LSpawn => Some (set_threads s (threads s ++ [Idle]))
  | LSelStart t =>
      match nth_error (threads s) t with
      | Some Idle => Some (set_threads s (set_nth (threads s) t (Selecting [] None)))
      | _ => None
      end
  | LSelRead t h =>
      match nth_error (threads s) t with
      | Some (Selecting obs cur) =>
          match read_next c s h obs cur with
          | Some p => Some (set_threads s (set_nth (threads s) t p))
          | None => None
          end
      | _ => None
      end
  | LSelEnd t ho r =>
      match nth_error (threads s) t with
      | Some (Selecting obs None) =>
          if pol obs ho then Some (set_robin (set_threads s (set_nth (threads s) t (Selected ho))) r) else None
      | _ => None
      end
  | LLoad t =>
      match nth_error (threads s) t with
      | Some (Selected (Some h)) =>
          Some (set_threads s (set_nth (threads s) t
                 (if full c s h then Selected None else Acquiring h (conns s h))))
      | _ => None
      end
  | LCas t =>
      match nth_error (threads s) t with
      | Some (Acquiring h n) =>
          if conns s h =? n
          then Some (set_conns (set_threads s (set_nth (threads s) t (Forwarding h))) (bump (conns s) h 1))
          else Some (set_threads s (set_nth (threads s) t (Selected (Some h))))
      | _ => None
      end
  | LNoHost t again =>
      match nth_error (threads s) t with
      | Some (Selected None) => Some (set_threads s (set_nth (threads s) t (retry_pc again)))
      | _ => None
      end
  | LFinish t o =>
      match nth_error (threads s) t with
      | Some (Forwarding h) =>
          Some (set_conns (set_threads s (set_nth (threads s) t (after_forward o h))) (bump (conns s) h (-1)))
      | _ => None
      end
  | LRecord t again =>
      match nth_error (threads s) t with
      | Some (Failed h) =>
          if 0 <? c_fail_timeout c then
            Some (set_fails (set_threads s (set_nth (threads s) t (retry_pc again)))
                            (bump (fails s) h 1)
                            (flog s ++ [{| f_host := h; f_at := now s; f_fired := None |}]))
          else Some (set_threads s (set_nth (threads s) t (retry_pc again)))
      | _ => None
      end
  | LFire k =>
      match nth_error (flog s) k with
      | Some f =>
          if asleep f && (f_at f + c_fail_timeout c <=? now s)
          then Some (set_fails s (bump (fails s) (f_host f) (-1)) (set_nth (flog s) k (fire f (now s))))
          else None
      | None => None
      end
  | LTick d => if 0 <=? d then Some (set_now s (now s + d)) else None
  | LHealth h b => Some (set_unhealthy s (setb (unhealthy s) h b))
  | LCancel t =>
      match nth_error (threads s) t with
      | Some (Done _) => None
      | Some _ => Some s
      | None => None
      end
  end.

Fixpoint run (c : config) (pol : policy) (s : state) (ls : list label) : option state :=
  match ls with
  | [] => Some s
  | l :: r => match step c pol s l with Some s' => run c pol s' r | None => None end
  end.

(* the idle server: no request, no failure; policy counter r and health verdicts u arbitrary *)
Definition init (r : N) (u : nat -> bool) : state :=
  {| conns := fun _ => 0; fails := fun _ => 0; unhealthy := u; flog := []; now := 0;
     threads := []; robin := r |}.

(* every state any scheduler can produce from the idle server, with any number of requests *)
Definition reachable (c : config) (pol : policy) (s : state) : Prop :=
  exists r u ls, run c pol (init r u) ls = Some s.

(* ---- contracts of Select ---- *)
Definition obs_has (obs : list (nat * bool)) (h : nat) (b : bool) : bool :=
  existsb (fun e : nat * bool => Nat.eqb (fst e) h && bool_eqb (snd e) b) obs.
(* no contract at all: Select may answer anything *)
Definition pol_any : policy := fun _ _ => true.
(* every policy of policy.go behind staticUpstream.Select: a host is returned only after one of this
   Select's own reads found it available; nil only after every host was read unavailable *)
Definition pol_std (hosts : nat) : policy :=
  fun obs ho =>
    match ho with
    | Some h => obs_has obs h true
    | None => forallb (fun h => obs_has obs h false) (seq 0 hosts)
    end.
Definition pol_sound (pol : policy) : Prop :=
  forall obs h, pol obs (Some h) = true -> In (h, true) obs.

(* ---- observables the property talks about ---- *)
(* failures of h whose expiry event has not fired *)
Definition pending (s : state) (h : nat) : Z := cnt (fun f => on_host h f && asleep f) (flog s).
(* failures recorded for h whose fail_timeout has not yet elapsed on the clock *)
Definition unexpired (c : config) (s : state) (h : nat) : Z :=
  cnt (fun f => on_host h f && (now s <? f_at f + c_fail_timeout c)) (flog s).
(* no expiry goroutine is overdue (timers run on time) — an ASSUMPTION of a few theorems only *)
Definition prompt (c : config) (s : state) : Prop :=
  forall f, In f (flog s) -> f_fired f = None -> now s < f_at f + c_fail_timeout c.
Definition promptb (c : config) (s : state) : bool :=
  forallb (fun f => negb (asleep f) || (now s <? f_at f + c_fail_timeout c)) (flog s).
Definition all_fired (s : state) : bool := forallb (fun f => negb (asleep f)) (flog s).
Definition is_spawn (l : label) : bool := match l with LSpawn => true | _ => false end.
Definition is_selstart (t : nat) (l : label) : bool :=
  match l with LSelStart t' => Nat.eqb t t' | _ => false end.
Definition is_heal (h : nat) (l : label) : bool :=
  match l with LHealth h' false => Nat.eqb h h' | _ => false end.

(* ---- Policy.Select as a function of the state it reads (used when nothing else moves during the
   call: the correspondence harness) ---- *)
Definition psel := state -> option nat * N.

(* First: lowest available index *)
Definition pol_first (c : config) : psel :=
  fun s => (find (available c s) (seq 0 (c_hosts c)), robin s).

(* RoundRobin: robin = (robin + 1) % poolLen, at most poolLen probes *)
Fixpoint rr_loop (c : config) (s : state) (n : N) (r : N) (fuel : nat) : option nat * N :=
  match fuel with
  | O => (None, r)
  | S f => let r' := ((r + 1) mod n)%N in
           let h := N.to_nat r' in
           if available c s h then (Some h, r') else rr_loop c s n r' f
  end.
Definition pol_rr (c : config) : psel :=
  fun s => rr_loop c s (N.of_nat (c_hosts c)) (robin s) (c_hosts c).

Definition psel_of (pol : N) (c : config) : psel :=
  if (pol =? 0)%N then pol_first c else pol_rr c.

(* Randomised and hashing policies are replayed from the answer that was observed; whether that
   answer was a legal one is decided by the contract [pol_std] inside [step] (and [oracle_ok]) *)
Definition psel_hint (ho : option nat) : psel := fun s => (ho, robin s).

Definition psel_sound (c : config) (ps : psel) : Prop :=
  forall s h r, ps s = (Some h, r) -> available c s h = true.

(* =====================================================================================
   Correspondence cases
   ===================================================================================== *)

(* one step of the harness driver: it releases exactly one blocked agent until its next
   blocking point (or sleeps) *)
Inductive hstep :=
| HSelect (t : nat)                              (* run upstream.Select from entry to return *)
| HSelScan (t : nat)                             (* gated policy: Select up to the call of Policy.Select (or to its
                                                    return when the policy is not consulted) *)
| HSelPol (t : nat)                              (* gated policy: Policy.Select and the return of Select *)
| HBegin (t : nat) (again : bool)                (* leave the window: acquireConn and enter the transport, or the no-host branch
                                                    (nil host, or the host has become full) *)
| HStream (t : nat)                              (* backend answers headers, body still streaming *)
| HFinish (t : nat) (o : outcome) (again : bool) (* the round trip ends with o *)
| HWait (d : Z)                                  (* d clock units pass; due expiry goroutines run *)
| HHealth (h : nat) (b : bool)                   (* the health-check worker finishes its check of host h with verdict
                                                    unhealthy = b *)
| HCancel (t : nat).                             (* the client of request t disconnects (its context is cancelled) while
                                                    the request is blocked wherever it is *)

Inductive ev :=
| EvSel (h : option nat)   (* Select returned host h / nil *)
| EvMid                    (* blocked at the entry of Policy.Select *)
| EvFwd (h : nat)          (* request arrived in the transport of host h *)
| EvDone (code : Z)        (* Proxy.ServeHTTP returned code (panic = -1) *)
| EvIdle                   (* back at the top of the retry loop *)
| EvNone.

Definition ev_eqb (a b : ev) : bool :=
  match a, b with
  | EvSel None, EvSel None => true
  | EvSel (Some x), EvSel (Some y) => Nat.eqb x y
  | EvMid, EvMid => true
  | EvFwd x, EvFwd y => Nat.eqb x y
  | EvDone x, EvDone y => x =? y
  | EvIdle, EvIdle => true
  | EvNone, EvNone => true
  | _, _ => false
  end.

(* per-host snapshot taken while every agent is blocked:
   (Conns, Fails, forwards measured inside the transport, Down(), Full(), Unhealthy != 0) *)
Definition hsnap := (Z * Z * Z * bool * bool * bool)%type.

Definition pc_ev (p : option pc) : ev :=
  match p with
  | Some (Done c) => EvDone c
  | Some Idle => EvIdle
  | Some (Selecting _ _) => EvMid
  | Some (Selected h) => EvSel h
  | Some (Forwarding h) => EvFwd h
  | _ => EvNone
  end.

(* index of the first failure whose expiry goroutine is due *)
Fixpoint first_due (ft : Z) (fl : list frec) (nw : Z) (k : nat) : option nat :=
  match fl with
  | [] => None
  | f :: r => if asleep f && (f_at f + ft <=? nw) then Some k else first_due ft r nw (S k)
  end.

Fixpoint fire_due (c : config) (pol : policy) (s : state) (fuel : nat) : option state :=
  match fuel with
  | O => Some s
  | S f => match first_due (c_fail_timeout c) (flog s) (now s) 0 with
           | None => Some s
           | Some k => match step c pol s (LFire k) with
                       | Some s' => fire_due c pol s' f
                       | None => None
                       end
           end
  end.

(* the loads of one host.Available() in a state that does not change meanwhile *)
Definition avail_labels (c : config) (s : state) (t : nat) (h : nat) : list label :=
  repeat (LSelRead t h) (if unhealthy s h then 1%nat else if c_max_fails c <=? fails s h then 2%nat else 3%nat).

(* the hosts read by the all-unavailable scan of staticUpstream.Select: up to the first available one *)
Fixpoint scan_reads (c : config) (s : state) (hs : list nat) : list nat :=
  match hs with
  | [] => []
  | h :: r => if available c s h then [h] else h :: scan_reads c s r
  end.

(* staticUpstream.Select up to the call of the policy: the single-host shortcut and the
   all-unavailable shortcut return without consulting it *)
Definition sel_scan (c : config) (pol : policy) (s : state) (t : nat) : option state :=
  match step c pol s (LSelStart t) with
  | Some s1 =>
      match c_hosts c with
      | 1%nat =>
          match run c pol s1 (avail_labels c s t 0%nat) with
          | Some s2 => step c pol s2 (LSelEnd t (if available c s 0%nat then Some 0%nat else None) (robin s))
          | None => None
          end
      | n =>
          match run c pol s1 (flat_map (avail_labels c s t) (scan_reads c s (seq 0 n))) with
          | Some s2 => if existsb (available c s) (seq 0 n) then Some s2
                       else step c pol s2 (LSelEnd t None (robin s))
          | None => None
          end
      end
  | None => None
  end.

(* Policy.Select [ps] on the pool as it is now, and the return of Select *)
Definition sel_policy (c : config) (pol : policy) (ps : psel) (s : state) (t : nat) : option state :=
  match nth_error (threads s) t with
  | Some (Selecting _ _) =>
      let '(ho, r) := ps s in
      match run c pol s (flat_map (avail_labels c s t) (seq 0 (c_hosts c))) with
      | Some s1 => step c pol s1 (LSelEnd t ho r)
      | None => None
      end
  | _ => None
  end.

(* acquireConn with nothing else moving: the load, then the compare-and-swap (which then succeeds) *)
Definition acquire (c : config) (pol : policy) (s : state) (t : nat) : option state :=
  match step c pol s (LLoad t) with
  | Some s1 =>
      match nth_error (threads s1) t with
      | Some (Acquiring _ _) => step c pol s1 (LCas t)
      | _ => Some s1
      end
  | None => None
  end.

Definition hexec (c : config) (pol : policy) (ps : psel) (s : state) (h : hstep) : option (state * ev) :=
  match h with
  | HSelect t =>
      match sel_scan c pol s t with
      | Some s1 =>
          match nth_error (threads s1) t with
          | Some (Selecting _ _) =>
              match sel_policy c pol ps s1 t with
              | Some s2 => Some (s2, pc_ev (nth_error (threads s2) t))
              | None => None
              end
          | p => Some (s1, pc_ev p)
          end
      | None => None
      end
  | HSelScan t =>
      match sel_scan c pol s t with
      | Some s1 => Some (s1, pc_ev (nth_error (threads s1) t))
      | None => None
      end
  | HSelPol t =>
      match sel_policy c pol ps s t with
      | Some s1 => Some (s1, pc_ev (nth_error (threads s1) t))
      | None => None
      end
  | HBegin t again =>
      match nth_error (threads s) t with
      | Some (Selected (Some _)) =>
          match acquire c pol s t with
          | Some s1 =>
              match nth_error (threads s1) t with
              | Some (Selected None) =>
                  (* acquireConn found the host full: the same path as a nil host *)
                  match step c pol s1 (LNoHost t again) with
                  | Some s2 => Some (s2, pc_ev (nth_error (threads s2) t))
                  | None => None
                  end
              | p => Some (s1, pc_ev p)
              end
          | None => None
          end
      | Some (Selected None) =>
          match step c pol s (LNoHost t again) with
          | Some s' => Some (s', pc_ev (nth_error (threads s') t))
          | None => None
          end
      | _ => None
      end
  | HStream t =>
      match nth_error (threads s) t with
      | Some (Forwarding _) => Some (s, EvNone)
      | _ => None
      end
  | HFinish t o again =>
      match step c pol s (LFinish t o) with
      | Some s1 =>
          match o with
          | OError => match step c pol s1 (LRecord t again) with
                      | Some s2 => Some (s2, pc_ev (nth_error (threads s2) t))
                      | None => None
                      end
          | _ => Some (s1, pc_ev (nth_error (threads s1) t))
          end
      | None => None
      end
  | HWait d =>
      match step c pol s (LTick d) with
      | Some s1 => match fire_due c pol s1 (length (flog s1)) with
                   | Some s2 => Some (s2, EvNone)
                   | None => None
                   end
      | None => None
      end
  | HHealth h b =>
      match step c pol s (LHealth h b) with
      | Some s1 => Some (s1, EvNone)
      | None => None
      end
  | HCancel t =>
      (* the request stays where it is *)
      match step c pol s (LCancel t) with
      | Some s1 => Some (s1, pc_ev (nth_error (threads s1) t))
      | None => None
      end
  end.

(* model state vs the observed snapshot (the transport's own count is not a model observable
   except that the model says it equals Conns in a blocked state) *)
Definition snap_agrees (c : config) (s : state) (sn : list hsnap) : bool :=
  (length sn =? c_hosts c)%nat &&
  forallb (fun hx : nat * hsnap =>
             let '(h, (oc, of, oi, od, ofl, ou)) := hx in
             (conns s h =? oc) && (fails s h =? of) && (cnt (is_fwd h) (threads s) =? oi) &&
             bool_eqb (down c s h) od && bool_eqb (full c s h) ofl && bool_eqb (unhealthy s h) ou)
          (combine (seq 0 (length sn)) sn).

(* extra contract of LeastConn on the state its policy call reads: an available host with the fewest
   connections (the rest — an available host, nil only when none is — is [pol_std] for every policy) *)
Definition oracle_ok (pol : N) (c : config) (s : state) (e : ev) : bool :=
  match e with
  | EvSel (Some h) =>
      (h <? c_hosts c)%nat &&
      (if (pol =? 3)%N
       then forallb (fun h' => negb (available c s h') || (conns s h <=? conns s h')) (seq 0 (c_hosts c))
       else true)
  | _ => true
  end.

Definition ev_choice (e : ev) : option nat := match e with EvSel ho => ho | _ => None end.

Fixpoint model_trace (pol : N) (c : config) (s : state) (tr : list (hstep * ev * list hsnap)) : bool :=
  match tr with
  | [] => true
  | (h, e, sn) :: r =>
      (match h with HSelect _ | HSelPol _ => oracle_ok pol c s e | _ => true end) &&
      match hexec c (pol_std (c_hosts c)) (if (pol <? 2)%N then psel_of pol c else psel_hint (ev_choice e)) s h with
      | Some (s', e') => ev_eqb e e' && snap_agrees c s' sn && model_trace pol c s' r
      | None => false
      end
  end.

(* ---- the property's executable statement, evaluated on the observed trace only.
   It keeps its own books from what the harness injected and saw (which transport each
   request arrived in, which outcomes and health verdicts were injected, how much time was slept)
   and never calls [step]. ---- *)
Record sbook := {
  b_fwd : list (nat * nat);      (* request t is being forwarded to host h *)
  b_sel : list (nat * nat);      (* request t holds host h handed out by Select and has not been counted yet *)
  b_log : list (nat * Z);        (* injected backend errors (host, time) while counting is enabled *)
  b_now : Z;
  b_prev : list hsnap;           (* previous snapshot *)
  b_unh : list bool;             (* verdicts the health-check worker was given / flags the harness stored *)
  b_since : list (nat * list bool); (* request t is inside Select: hosts unhealthy since before it entered *)
  b_gone : list nat              (* requests whose client has disconnected (context cancelled by the harness) *)
}.

Fixpoint lookup_t {A} (t : nat) (l : list (nat * A)) : option A :=
  match l with
  | [] => None
  | (t', h) :: r => if Nat.eqb t t' then Some h else lookup_t t r
  end.
Definition drop_t {A} (t : nat) (l : list (nat * A)) : list (nat * A) :=
  filter (fun e => negb (Nat.eqb (fst e) t)) l.

Definition sel_result (b : sbook) (t : nat) (e : ev) (sn : list hsnap) : sbook :=
  match e with
  | EvMid =>
      {| b_fwd := b_fwd b; b_sel := drop_t t (b_sel b); b_log := b_log b; b_now := b_now b; b_prev := sn;
         b_unh := b_unh b; b_since := (t, b_unh b) :: drop_t t (b_since b); b_gone := b_gone b |}
  | _ =>
      {| b_fwd := b_fwd b;
         b_sel := match e with EvSel (Some x) => (t, x) :: drop_t t (b_sel b) | _ => drop_t t (b_sel b) end;
         b_log := b_log b; b_now := b_now b; b_prev := sn; b_unh := b_unh b; b_since := drop_t t (b_since b); b_gone := b_gone b |}
  end.

Definition book_step (ft : Z) (b : sbook) (h : hstep) (e : ev) (sn : list hsnap) : sbook :=
  match h with
  | HSelect t | HSelScan t | HSelPol t => sel_result b t e sn
  | HBegin t _ =>
      {| b_fwd := match e with EvFwd x => (t, x) :: b_fwd b | _ => b_fwd b end;
         b_sel := drop_t t (b_sel b); b_log := b_log b; b_now := b_now b; b_prev := sn;
         b_unh := b_unh b; b_since := b_since b; b_gone := b_gone b |}
  | HFinish t o _ =>
      match lookup_t t (b_fwd b) with
      | Some x =>
          {| b_fwd := drop_t t (b_fwd b); b_sel := b_sel b;
             b_log := match o with OError => if 0 <? ft then (x, b_now b) :: b_log b else b_log b | _ => b_log b end;
             b_now := b_now b; b_prev := sn; b_unh := b_unh b; b_since := b_since b; b_gone := b_gone b |}
      | None => {| b_fwd := b_fwd b; b_sel := b_sel b; b_log := b_log b; b_now := b_now b; b_prev := sn;
                   b_unh := b_unh b; b_since := b_since b; b_gone := b_gone b |}
      end
  | HWait d => {| b_fwd := b_fwd b; b_sel := b_sel b; b_log := b_log b; b_now := b_now b + d; b_prev := sn;
                  b_unh := b_unh b; b_since := b_since b; b_gone := b_gone b |}
  | HHealth x v =>
      {| b_fwd := b_fwd b; b_sel := b_sel b; b_log := b_log b; b_now := b_now b; b_prev := sn;
         b_unh := set_nth (b_unh b) x v;
         (* a host declared healthy while a Select is running may be chosen by it from then on *)
         b_since := if v then b_since b
                    else map (fun tl : nat * list bool => (fst tl, set_nth (snd tl) x false)) (b_since b); b_gone := b_gone b |}
  | HStream _ => {| b_fwd := b_fwd b; b_sel := b_sel b; b_log := b_log b; b_now := b_now b; b_prev := sn;
                    b_unh := b_unh b; b_since := b_since b; b_gone := b_gone b |}
  | HCancel t => {| b_fwd := b_fwd b; b_sel := b_sel b; b_log := b_log b; b_now := b_now b; b_prev := sn;
                    b_unh := b_unh b; b_since := b_since b; b_gone := t :: b_gone b |}
  end.

Definition book_unexpired (ft : Z) (b : sbook) (h : nat) : Z :=
  cnt (fun e => Nat.eqb (fst e) h && (b_now b <? snd e + ft)) (b_log b).

(* a snapshot satisfies the property w.r.t. the books:
   Conns = requests actually in the transport = requests the books say are forwarded;
   the cap holds; Fails = unexpired injected failures; Unhealthy = the last verdict; Down exactly when
   unhealthy or max_fails unexpired failures; Full exactly when the cap is reached *)
Definition snap_spec (mc mf ft : Z) (b : sbook) (sn : list hsnap) : bool :=
  forallb (fun hx : nat * hsnap =>
             let '(h, (oc, of, oi, od, ofl, ou)) := hx in
             let u := book_unexpired ft b h in
             (oc =? oi) && (oi =? cnt (fun e => Nat.eqb (snd e) h) (b_fwd b)) &&
             ((mc <=? 0) || (oi <=? mc)) &&
             (of =? u) &&
             bool_eqb ou (nth h (b_unh b) false) &&
             bool_eqb od (nth h (b_unh b) false || (mf <=? u)) &&
             bool_eqb ofl ((0 <? mc) && (mc <=? oi)))
          (combine (seq 0 (length sn)) sn).

Definition snap_avail (x : hsnap) : bool := let '(_, _, _, od, ofl, _) := x in negb od && negb ofl.

(* the answer of a Select (or of its policy phase) that ran while nothing else moved: a host that
   was neither down nor full in the (stable) state it read; nil only when no host was available *)
Definition choice_spec (b : sbook) (e : ev) : bool :=
  match e with
  | EvSel (Some h) =>
      match nth_error (b_prev b) h with
      | Some x => snap_avail x
      | None => false
      end
  | EvSel None => negb (existsb snap_avail (b_prev b))
  | _ => true
  end.

(* a host that was marked unhealthy before the request entered Select, and has not been declared
   healthy since, is not the answer of that Select *)
Definition since_spec (b : sbook) (h : hstep) (e : ev) : bool :=
  match h, e with
  | HSelect _, EvSel (Some x) | HSelScan _, EvSel (Some x) => negb (nth x (b_unh b) false)
  | HSelPol t, EvSel (Some x) =>
      match lookup_t t (b_since b) with
      | Some l => negb (nth x l false)
      | None => false
      end
  | _, _ => true
  end.

(* leaving the window: a request that holds a host is forwarded to that very host, unless the host
   was full in the (stable) state before the step — only then may it take the no-host path; a
   request that holds no host is not forwarded *)
Definition begin_spec (b : sbook) (h : hstep) (e : ev) : bool :=
  match h with
  | HBegin t _ =>
      match lookup_t t (b_sel b), e with
      | Some x, EvFwd y => Nat.eqb x y
      | Some x, _ => match nth_error (b_prev b) x with
                     | Some (_, _, _, _, ofl, _) => ofl
                     | None => false
                     end
      | None, EvFwd _ => false
      | None, _ => true
      end
  | _ => true
  end.

Definition hsnap_eqb (x y : hsnap) : bool :=
  let '(c1, f1, i1, d1, l1, u1) := x in
  let '(c2, f2, i2, d2, l2, u2) := y in
  (c1 =? c2) && (f1 =? f2) && (i1 =? i2) && bool_eqb d1 d2 && bool_eqb l1 l2 && bool_eqb u1 u2.
Fixpoint snaps_eqb (a b : list hsnap) : bool :=
  match a, b with
  | [], [] => true
  | x :: r, y :: r' => hsnap_eqb x y && snaps_eqb r r'
  | _, _ => false
  end.

(* the client's disconnect itself moves nothing: the request stays where the books have it (waiting for
   Select, holding a host in the window, being forwarded) and every counter keeps its value.  What
   happens to a request whose client is gone is then stated by the clauses every request is under:
   holding a host that is not full it still takes its slot and ARRIVES IN THE TRANSPORT ([begin_spec]:
   ending in the window, slot taken, is the leak), Conns = requests inside the transport after every
   step ([snap_spec]), and zero at quiescence *)
Definition cancel_spec (b : sbook) (h : hstep) (e : ev) (sn : list hsnap) : bool :=
  match h with
  | HCancel t =>
      snaps_eqb sn (b_prev b) &&
      match lookup_t t (b_fwd b), lookup_t t (b_sel b) with
      | Some x, _ => ev_eqb e (EvFwd x)
      | None, Some x => ev_eqb e (EvSel (Some x))
      | None, None => match e with EvIdle | EvMid | EvSel None => true | _ => false end
      end
  | _ => true
  end.

(* the forward of a request whose client is gone ends in context.Canceled: the client is answered 499
   (and, by [snap_spec], no failure is recorded for it and the slot is given back) *)
Definition gone_spec (b : sbook) (h : hstep) (e : ev) : bool :=
  match h with
  | HFinish t OCancel _ => ev_eqb e (EvDone 499)
  | _ => true
  end.

Fixpoint spec_trace (mc mf ft : Z) (b : sbook) (tr : list (hstep * ev * list hsnap)) : bool :=
  match tr with
  | [] =>
      (* quiescence: every request has left; all in-flight counters are back to zero *)
      match b_fwd b with [] => forallb (fun x : hsnap => let '(oc, _, oi, _, _, _) := x in (oc =? 0) && (oi =? 0)) (b_prev b)
                    | _ => true end
  | (h, e, sn) :: r =>
      let b' := book_step ft b h e sn in
      (match h with HSelect _ | HSelScan _ | HSelPol _ => choice_spec b e | _ => true end) &&
      since_spec b h e && begin_spec b h e && cancel_spec b h e sn && gone_spec b h e &&
      snap_spec mc mf ft b' sn && spec_trace mc mf ft b' r
  end.

(* ---- parsing of max_fails (upstream.go parseBlock): strconv.ParseInt(s, 10, 32) — a range error
   for a literal that does not fit int32 —, then "must be at least 1", then stored as int32(n) ---- *)
Definition wrap_int32 (n : Z) : Z :=
  let m := n mod 4294967296 in if m <? 2147483648 then m else m - 4294967296.
Definition fits_int32 (n : Z) : bool := (-2147483648 <=? n) && (n <? 2147483648).
Definition parse_max_fails (n : Z) : option Z :=
  if fits_int32 n then (if n <? 1 then None else Some (wrap_int32 n)) else None.

(* free-running stress, per host: max simultaneous forwards seen in the transport; min and max of
   Conns read from inside the transport; number of such reads where Conns was below the number of
   requests inside the transport at that moment; final Conns; final Fails; backend errors injected *)
Definition sobs := (Z * Z * Z * Z * Z * Z * Z)%type.

Inductive case :=
| CSched (hosts : nat) (mc mf ft : Z) (unh : list bool) (pol : N) (nthreads : nat)
         (snap0 : list hsnap) (trace : list (hstep * ev * list hsnap))
  (* max_fails n in the Casketfile, Fails = k on a fresh host: accepted by setup? Down()? *)
| CMaxFails (n k : Z) (accepted : bool) (obs_down : bool)
| CMaxConns (n k : Z) (accepted : bool) (obs_full : bool)
  (* free-running stress: per host (max simultaneous forwards seen in the transport,
     min Conns read from inside the transport, final Conns, final Fails) *)
| CStress (hosts : nat) (mc : Z) (nthreads : nat) (obs : list (Z * Z * Z * Z)) (all_answered : bool)
  (* free-running stress with thousands of requests and random outcomes; [keep]: fail_timeout is 1h, so
     every recorded failure is still counted at the end *)
| CStress2 (hosts : nat) (mc : Z) (keep : bool) (nreq : Z) (obs : list sobs) (answered : Z)
  (* one request through the REAL http.Transport to a loopback backend that answers, drops the
     connection, or is abandoned by the client: status, Conns while the backend holds the request,
     Conns and Fails afterwards (max_fails 1, fail_timeout 1h, max_conns 5) *)
| CLive (o : outcome) (code conns_during conns_after fails_after : Z)
  (* the real retry loop and the real http.Transport (max_conns 1, try_duration set): request A holds the only
     slot, request B waits in keepRetrying's loop (Select answers nil, sleep try_interval, again), B's client goes
     away while it waits, A is answered; B's next attempt takes the slot with its context already cancelled:
     its status, Conns while A was held, Conns at quiescence, and the status of a request C sent afterwards *)
| CLiveGone (code_b conns_wait conns_after code_c : Z).

Fixpoint hrun (c : config) (pol : policy) (ps : psel) (s : state) (hs : list hstep) (e : ev) : option (state * ev) :=
  match hs with
  | [] => Some (s, e)
  | h :: r => match hexec c pol ps s h with
              | Some (s', e') => hrun c pol ps s' r e'
              | None => None
              end
  end.

Definition mk_config (hosts : nat) (mc mf ft : Z) : config :=
  {| c_hosts := hosts; c_max_conns := mc; c_max_fails := mf; c_fail_timeout := ft |}.

Definition init_threads (r : N) (u : nat -> bool) (n : nat) : state :=
  {| conns := fun _ => 0; fails := fun _ => 0; unhealthy := u; flog := []; now := 0;
     threads := repeat Idle n; robin := r |}.

Definition judge (c : case) : N :=
  match c with
  | CSched hosts mc mf ft unh pol nthreads snap0 trace =>
      let cfg := mk_config hosts mc mf ft in
      let s0 := init_threads 0 (fun h => nth h unh false) nthreads in
      let agree := snap_agrees cfg s0 snap0 && model_trace pol cfg s0 trace in
      let b0 := {| b_fwd := []; b_sel := []; b_log := []; b_now := 0; b_prev := snap0;
                   b_unh := unh ++ repeat false (hosts - length unh); b_since := []; b_gone := [] |} in
      let spec := (length snap0 =? hosts)%nat && snap_spec mc mf ft b0 snap0 &&
                  spec_trace mc mf ft b0 trace in
      verdict agree spec
  | CMaxFails n k accepted obs_down =>
      let m_acc := match parse_max_fails n with Some _ => true | None => false end in
      let m_down := match parse_max_fails n with Some m => m <=? k | None => false end in
      let agree := bool_eqb m_acc accepted && (negb accepted || bool_eqb m_down obs_down) in
      (* property: down exactly when at least max_fails failures are outstanding *)
      let spec := negb accepted || bool_eqb obs_down (n <=? k) in
      verdict agree spec
  | CMaxConns n k accepted obs_full =>
      let m_full := (0 <? n) && (n <=? k) in
      let agree := accepted && bool_eqb m_full obs_full in
      let spec := negb accepted || bool_eqb obs_full ((0 <? n) && (n <=? k)) in
      verdict agree spec
  | CStress hosts mc nthreads obs all_answered =>
      (* the model accepts: at most one forward per request at a time and never more than the cap,
         counters zero at quiescence *)
      let agree := (length obs =? hosts)%nat &&
                   forallb (fun x : Z * Z * Z * Z => let '(mx, mn, fc, ff) := x in
                              (mx <=? Z.of_nat nthreads) && ((mc <=? 0) || (mx <=? mc)) &&
                              (fc =? 0) && (ff =? 0)) obs in
      let spec := all_answered &&
                  forallb (fun x : Z * Z * Z * Z => let '(mx, mn, fc, ff) := x in
                             ((mc <=? 0) || (mx <=? mc)) && (1 <=? mn) && (fc =? 0) && (ff =? 0)) obs in
      verdict agree spec
  | CStress2 hosts mc keep nreq obs answered =>
      (* what the theorems say about the observables of ANY run: Conns counts the requests between
         acquire and release, so it is never below what is inside the transport, never above the cap,
         zero at quiescence; Fails is the number of failures whose expiry has not run: all of them while
         fail_timeout is an hour, none once every timer has run *)
      let ok := fun x : sobs =>
                  let '(mx, mn, mxc, low, fc, ff, ne) := x in
                  ((mc <=? 0) || ((mx <=? mc) && (mxc <=? mc))) && (1 <=? mn) && (low =? 0) &&
                  (mx <=? mxc) && (fc =? 0) && (ff =? (if keep then ne else 0)) in
      let agree := (length obs =? hosts)%nat && forallb ok obs in
      let spec := (answered =? nreq) && forallb ok obs in
      verdict agree spec
  | CLive o code cd ca fa =>
      let cfg := mk_config 1 5 1 1000000000 in
      let pol := pol_std 1 in
      let s0 := init_threads 0 (fun _ => false) 1 in
      let agree :=
        match hexec cfg pol (pol_first cfg) s0 (HSelect 0) with
        | Some (s0', _) =>
            match hexec cfg pol (pol_first cfg) s0' (HBegin 0 false) with
            | Some (s1, _) =>
                (conns s1 0%nat =? cd) &&
                match hexec cfg pol (pol_first cfg) s1 (HFinish 0 o false) with
                | Some (s2, e) => ev_eqb e (EvDone code) && (conns s2 0%nat =? ca) && (fails s2 0%nat =? fa)
                | None => false
                end
            | None => false
            end
        | None => false
        end in
      let spec := (cd =? 1) && (ca =? 0) && (fa =? match o with OError => 1 | _ => 0 end) in
      verdict agree spec
  | CLiveGone cb cw ca cc =>
      let cfg := mk_config 1 1 1 1000000000 in
      let pol := pol_std 1 in
      let ps := pol_first cfg in
      let s0 := init_threads 0 (fun _ => false) 3 in
      let agree :=
        match hrun cfg pol ps s0 [HSelect 0; HBegin 0 false; HSelect 1; HBegin 1 true; HCancel 1] EvNone with
        | Some (s1, e1) =>
            ev_eqb e1 EvIdle && (conns s1 0%nat =? cw) &&
            match hrun cfg pol ps s1 [HFinish 0 OSuccess false; HSelect 1; HBegin 1 true; HFinish 1 OCancel true] EvNone with
            | Some (s2, e2) =>
                ev_eqb e2 (EvDone cb) && (conns s2 0%nat =? ca) &&
                match hrun cfg pol ps s2 [HSelect 2; HBegin 2 false; HFinish 2 OSuccess false] EvNone with
                | Some (_, e3) => ev_eqb e3 (EvDone cc)
                | None => false
                end
            | None => false
            end
        | None => false
        end in
      (* the property: the slot is counted while A is forwarded, the request whose client left is answered
         499, nothing stays counted when traffic has stopped, and the idle backend serves the next request *)
      let spec := (cw =? 1) && (cb =? 499) && (ca =? 0) && (cc =? 0) in
      verdict agree spec
  end.
