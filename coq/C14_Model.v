(* C14 — backend in-flight (Conns) and failure (Fails) accounting under concurrency:
   executable interleaving model.
   Mirrors caskethttp/proxy/proxy.go (Proxy.ServeHTTP: select / acquireConn (load + compare-and-swap
   +1 unless full) / forward / deferred AddInt64 -1 / Fails +1 / timed Fails -1 goroutine; Down,
   Full, Available) and
   caskethttp/proxy/upstream.go (staticUpstream.Select shortcuts, the CheckDown closure of
   NewHost with max_fails, parsing of max_fails / max_conns) and policy.go (First, RoundRobin).

   One atomic step of the model = one atomic operation of the Go code together with the
   thread-local code around it.  Definitions only; proofs are in C14_Proofs.v. *)
Require Import V.Lib.
Open Scope Z_scope.

(* ---- what the backend round trip of one attempt ends in ---- *)
Inductive outcome :=
| OSuccess      (* response relayed: ServeHTTP returns 0 *)
| OError        (* backend error: counted as a failure, 502 or another attempt *)
| OCancel       (* client went away: context.Canceled, 499, not a failure *)
| OTooLarge     (* body limit hit while uploading: 413, not a failure *)
| OPanic.       (* the forward call panics: the panic propagates, code -1 in the model *)

(* program counter of one request inside Proxy.ServeHTTP *)
Inductive pc :=
| Idle                       (* at the top of the for loop, about to call upstream.Select *)
| Selected (h : option nat)  (* Select returned (or acquireConn found the host full: None), Conns not yet
                                incremented: THE WINDOW *)
| Forwarding (h : nat)       (* between the successful CompareAndSwap(&Conns, n, n+1) of acquireConn and the
                                deferred AddInt64(&Conns,-1) *)
| Failed (h : nat)           (* forward returned an error, Conns already decremented, Fails not yet incremented *)
| Done (code : Z).

Record config := {
  c_hosts : nat;             (* size of the pool *)
  c_max_conns : Z;           (* max_conns, 0 (or less) = unlimited *)
  c_max_fails : Z;           (* max_fails as stored (int32) *)
  c_fail_timeout : Z;        (* fail_timeout in clock units; <= 0 disables failure counting *)
  c_unhealthy : nat -> bool  (* health-check verdict, static here *)
}.

Record state := {
  conns : nat -> Z;              (* UpstreamHost.Conns *)
  fails : nat -> Z;              (* UpstreamHost.Fails *)
  timers : list (nat * Z);       (* sleeping expiry goroutines: (host, deadline) *)
  fired : list (nat * Z);        (* ghost: expiry goroutines that have run *)
  flog : list (nat * Z);         (* ghost: every recorded failure (host, time recorded) *)
  now : Z;                       (* clock *)
  threads : list pc;
  robin : N                      (* RoundRobin.robin *)
}.

Definition down (c : config) (s : state) (h : nat) : bool :=
  c_unhealthy c h || (c_max_fails c <=? fails s h).
Definition full (c : config) (s : state) (h : nat) : bool :=
  (0 <? c_max_conns c) && (c_max_conns c <=? conns s h).
Definition available (c : config) (s : state) (h : nat) : bool :=
  negb (down c s h) && negb (full c s h).

(* ---- small list utilities ---- *)
Fixpoint cnt {A} (P : A -> bool) (l : list A) : Z :=
  match l with
  | [] => 0
  | x :: r => (if P x then 1 else 0) + cnt P r
  end.

Fixpoint set_nth {A} (l : list A) (i : nat) (v : A) : list A :=
  match l, i with
  | [], _ => []
  | _ :: r, O => v :: r
  | x :: r, S k => x :: set_nth r k v
  end.

Fixpoint remove_nth {A} (l : list A) (k : nat) : list A :=
  match l, k with
  | [], _ => []
  | _ :: r, O => r
  | x :: r, S j => x :: remove_nth r j
  end.

Definition bump (f : nat -> Z) (h : nat) (d : Z) : nat -> Z :=
  fun x => if Nat.eqb x h then f x + d else f x.

Definition is_fwd (h : nat) (p : pc) : bool :=
  match p with Forwarding h' => Nat.eqb h h' | _ => false end.
Definition is_sel (h : nat) (p : pc) : bool :=
  match p with Selected (Some h') => Nat.eqb h h' | _ => false end.
Definition in_window (p : pc) : bool :=
  match p with Selected (Some _) => true | _ => false end.
Definition is_done (p : pc) : bool :=
  match p with Done _ => true | _ => false end.
Definition for_host (h : nat) (e : nat * Z) : bool := Nat.eqb h (fst e).

(* ---- the transition system ---- *)
Inductive label :=
| LSpawn                           (* a new request enters ServeHTTP *)
| LSelect (t : nat)                (* upstream.Select(r) *)
| LBegin (t : nat)                 (* host.acquireConn(): the load that sees the host full (-> no-host path), or the
                                      successful CompareAndSwapInt64(&host.Conns, n, n+1) with n below the cap, after
                                      which the request enters proxy.ServeHTTP; a failed CAS changes nothing and is
                                      retried, so it is not a step *)
| LNoHost (t : nat) (again : bool) (* Select returned nil / acquireConn returned false: keepRetrying decides *)
| LFinish (t : nat) (o : outcome)  (* forward returns/panics; deferred atomic.AddInt64(&host.Conns, -1) *)
| LRecord (t : nat) (again : bool) (* atomic.AddInt32(&host.Fails, 1) + go timer; keepRetrying decides *)
| LFire (k : nat)                  (* k-th sleeping goroutine wakes (its deadline has passed): Fails -1 *)
| LTick (d : Z).                   (* time passes *)

(* a selector stands for upstream.Select: it reads the state and may advance the policy's counter *)
Definition selector := state -> option nat * N.

Definition after_forward (o : outcome) (h : nat) : pc :=
  match o with
  | OSuccess => Done 0
  | OError => Failed h
  | OCancel => Done 499
  | OTooLarge => Done 413
  | OPanic => Done (-1)
  end.

Definition retry_pc (again : bool) : pc := if again then Idle else Done 502.

Definition step (c : config) (sel : selector) (s : state) (l : label) : option state :=
  match l with
  | LSpawn =>
      Some {| conns := conns s; fails := fails s; timers := timers s; fired := fired s; flog := flog s;
              now := now s; threads := threads s ++ [Idle]; robin := robin s |}
  | LSelect t =>
      match nth_error (threads s) t with
      | Some Idle =>
          let '(h, r) := sel s in
          Some {| conns := conns s; fails := fails s; timers := timers s; fired := fired s; flog := flog s;
                  now := now s; threads := set_nth (threads s) t (Selected h); robin := r |}
      | _ => None
      end
  | LBegin t =>
      match nth_error (threads s) t with
      | Some (Selected (Some h)) =>
          if full c s h
          then Some {| conns := conns s; fails := fails s; timers := timers s; fired := fired s;
                       flog := flog s; now := now s; threads := set_nth (threads s) t (Selected None);
                       robin := robin s |}
          else Some {| conns := bump (conns s) h 1; fails := fails s; timers := timers s; fired := fired s;
                       flog := flog s; now := now s; threads := set_nth (threads s) t (Forwarding h);
                       robin := robin s |}
      | _ => None
      end
  | LNoHost t again =>
      match nth_error (threads s) t with
      | Some (Selected None) =>
          Some {| conns := conns s; fails := fails s; timers := timers s; fired := fired s; flog := flog s;
                  now := now s; threads := set_nth (threads s) t (retry_pc again); robin := robin s |}
      | _ => None
      end
  | LFinish t o =>
      match nth_error (threads s) t with
      | Some (Forwarding h) =>
          Some {| conns := bump (conns s) h (-1); fails := fails s; timers := timers s; fired := fired s;
                  flog := flog s; now := now s; threads := set_nth (threads s) t (after_forward o h);
                  robin := robin s |}
      | _ => None
      end
  | LRecord t again =>
      match nth_error (threads s) t with
      | Some (Failed h) =>
          if 0 <? c_fail_timeout c then
            Some {| conns := conns s; fails := bump (fails s) h 1;
                    timers := timers s ++ [(h, now s + c_fail_timeout c)]; fired := fired s;
                    flog := flog s ++ [(h, now s)];
                    now := now s; threads := set_nth (threads s) t (retry_pc again); robin := robin s |}
          else
            Some {| conns := conns s; fails := fails s; timers := timers s; fired := fired s; flog := flog s;
                    now := now s; threads := set_nth (threads s) t (retry_pc again); robin := robin s |}
      | _ => None
      end
  | LFire k =>
      match nth_error (timers s) k with
      | Some (h, d) =>
          if d <=? now s then
            Some {| conns := conns s; fails := bump (fails s) h (-1); timers := remove_nth (timers s) k;
                    fired := (h, d) :: fired s; flog := flog s; now := now s; threads := threads s;
                    robin := robin s |}
          else None
      | None => None
      end
  | LTick d =>
      if 0 <=? d then
        Some {| conns := conns s; fails := fails s; timers := timers s; fired := fired s; flog := flog s;
                now := now s + d; threads := threads s; robin := robin s |}
      else None
  end.

Fixpoint run (c : config) (sel : selector) (s : state) (ls : list label) : option state :=
  match ls with
  | [] => Some s
  | l :: r => match step c sel s l with Some s' => run c sel s' r | None => None end
  end.

Definition init (r : N) : state :=
  {| conns := fun _ => 0; fails := fun _ => 0; timers := []; fired := []; flog := []; now := 0;
     threads := []; robin := r |}.

(* every state any scheduler can produce from the idle server, with any number of requests *)
Definition reachable (c : config) (sel : selector) (s : state) : Prop :=
  exists r ls, run c sel (init r) ls = Some s.

Definition sel_sound (c : config) (sel : selector) : Prop :=
  forall s h r, sel s = (Some h, r) -> available c s h = true.

(* ---- observables the property talks about ---- *)
(* failures recorded for h whose fail_timeout has not yet elapsed *)
Definition unexpired (c : config) (s : state) (h : nat) : Z :=
  cnt (fun e => Nat.eqb h (fst e) && (now s <? snd e + c_fail_timeout c)) (flog s).
(* no expiry goroutine is overdue (timers run on time) *)
Definition prompt (s : state) : Prop := forall e, In e (timers s) -> now s < snd e.
Definition promptb (s : state) : bool := forallb (fun e => now s <? snd e) (timers s).

(* ---- concrete selectors: staticUpstream.Select + policy ---- *)
Definition U32 : N := 4294967296%N.

(* First (and the single-host shortcut, and the all-unavailable shortcut): lowest available index *)
Definition sel_first (c : config) : selector :=
  fun s => (find (available c s) (seq 0 (c_hosts c)), robin s).

Fixpoint rr_loop (c : config) (s : state) (n : N) (r : N) (fuel : nat) : option nat * N :=
  match fuel with
  | O => (None, r)
  | S f => let r' := ((r + 1) mod U32)%N in
           let h := N.to_nat (r' mod n)%N in
           if available c s h then (Some h, r') else rr_loop c s n r' f
  end.

Definition sel_rr (c : config) : selector :=
  fun s =>
    match c_hosts c with
    | O => (None, robin s)
    | S O => (if available c s 0%nat then Some 0%nat else None, robin s)
    | n => if existsb (available c s) (seq 0 n)
           then rr_loop c s (N.of_nat n) (robin s) n
           else (None, robin s)
    end.

Definition sel_of (pol : N) (c : config) : selector :=
  if (pol =? 0)%N then sel_first c else sel_rr c.

(* Randomised policies (Random, LeastConn with its random tie-break) are replayed from the choices
   that were observed: the tape is indexed by the policy counter, so this is still ONE fixed
   selection function of the state and every theorem about [reachable c sel] applies to it.
   Whether each taped choice was a legal answer of the policy is checked by [oracle_ok]. *)
Definition sel_tape (tape : list (option nat)) : selector :=
  fun s => (nth (N.to_nat (robin s)) tape None, (robin s + 1)%N).

(* =====================================================================================
   Correspondence cases
   ===================================================================================== *)

(* one step of the harness driver: it releases exactly one blocked request until its next
   blocking point (or sleeps) *)
Inductive hstep :=
| HSelect (t : nat)                              (* run upstream.Select *)
| HBegin (t : nat) (again : bool)                (* leave the window: acquireConn and enter the transport, or the no-host branch
                                                    (nil host, or the host has become full) *)
| HStream (t : nat)                              (* backend answers headers, body still streaming *)
| HFinish (t : nat) (o : outcome) (again : bool) (* the round trip ends with o *)
| HWait (d : Z).                                 (* d clock units pass; due expiry goroutines run *)

Inductive ev :=
| EvSel (h : option nat)   (* Select returned host h / nil *)
| EvFwd (h : nat)          (* request arrived in the transport of host h *)
| EvDone (code : Z)        (* Proxy.ServeHTTP returned code (panic = -1) *)
| EvIdle                   (* back at the top of the retry loop *)
| EvNone.

Definition ev_eqb (a b : ev) : bool :=
  match a, b with
  | EvSel None, EvSel None => true
  | EvSel (Some x), EvSel (Some y) => Nat.eqb x y
  | EvFwd x, EvFwd y => Nat.eqb x y
  | EvDone x, EvDone y => x =? y
  | EvIdle, EvIdle => true
  | EvNone, EvNone => true
  | _, _ => false
  end.

(* per-host snapshot taken while every request is blocked:
   (Conns, Fails, forwards measured inside the transport, Down(), Full()) *)
Definition hsnap := (Z * Z * Z * bool * bool)%type.

Definition pc_ev (p : option pc) : ev :=
  match p with
  | Some (Done c) => EvDone c
  | Some Idle => EvIdle
  | Some (Selected h) => EvSel h
  | Some (Forwarding h) => EvFwd h
  | _ => EvNone
  end.

Fixpoint first_due (ts : list (nat * Z)) (nw : Z) (k : nat) : option nat :=
  match ts with
  | [] => None
  | (_, d) :: r => if d <=? nw then Some k else first_due r nw (S k)
  end.

Fixpoint fire_due (c : config) (sel : selector) (s : state) (fuel : nat) : option state :=
  match fuel with
  | O => Some s
  | S f => match first_due (timers s) (now s) 0 with
           | None => Some s
           | Some k => match step c sel s (LFire k) with
                       | Some s' => fire_due c sel s' f
                       | None => None
                       end
           end
  end.

Definition hexec (c : config) (sel : selector) (s : state) (h : hstep) : option (state * ev) :=
  match h with
  | HSelect t =>
      match step c sel s (LSelect t) with
      | Some s' => Some (s', pc_ev (nth_error (threads s') t))
      | None => None
      end
  | HBegin t again =>
      match nth_error (threads s) t with
      | Some (Selected (Some _)) =>
          match step c sel s (LBegin t) with
          | Some s1 =>
              match nth_error (threads s1) t with
              | Some (Selected None) =>
                  (* acquireConn found the host full: the same path as a nil host *)
                  match step c sel s1 (LNoHost t again) with
                  | Some s2 => Some (s2, pc_ev (nth_error (threads s2) t))
                  | None => None
                  end
              | p => Some (s1, pc_ev p)
              end
          | None => None
          end
      | Some (Selected None) =>
          match step c sel s (LNoHost t again) with
          | Some s' => Some (s', pc_ev (nth_error (threads s') t))
          | None => None
          end
      | _ => None
      end
  | HStream t =>
      match nth_error (threads s) t with
      | Some (Forwarding _) => Some (s, EvNone)
      | _ => None
      end
  | HFinish t o again =>
      match step c sel s (LFinish t o) with
      | Some s1 =>
          match o with
          | OError => match step c sel s1 (LRecord t again) with
                      | Some s2 => Some (s2, pc_ev (nth_error (threads s2) t))
                      | None => None
                      end
          | _ => Some (s1, pc_ev (nth_error (threads s1) t))
          end
      | None => None
      end
  | HWait d =>
      match step c sel s (LTick d) with
      | Some s1 => match fire_due c sel s1 (length (timers s1)) with
                   | Some s2 => Some (s2, EvNone)
                   | None => None
                   end
      | None => None
      end
  end.

Definition bool_eqb (a b : bool) : bool := if a then b else negb b.

(* model state vs the observed snapshot (the transport's own count is not a model observable
   except that the model says it equals Conns in a blocked state) *)
Definition snap_agrees (c : config) (s : state) (sn : list hsnap) : bool :=
  (length sn =? c_hosts c)%nat &&
  forallb (fun hx : nat * hsnap =>
             let '(h, (oc, of, oi, od, ofl)) := hx in
             (conns s h =? oc) && (fails s h =? of) && (cnt (is_fwd h) (threads s) =? oi) &&
             bool_eqb (down c s h) od && bool_eqb (full c s h) ofl)
          (combine (seq 0 (length sn)) sn).

(* contract of the randomised policies on the state they read: Random returns some available
   host, LeastConn an available host with the fewest connections, nil only when none is available *)
Definition oracle_ok (pol : N) (c : config) (s : state) (e : ev) : bool :=
  if (pol <? 2)%N then true else
  match e with
  | EvSel (Some h) =>
      (h <? c_hosts c)%nat && available c s h &&
      (if (pol =? 3)%N
       then forallb (fun h' => negb (available c s h') || (conns s h <=? conns s h')) (seq 0 (c_hosts c))
       else true)
  | EvSel None => negb (existsb (available c s) (seq 0 (c_hosts c)))
  | _ => true
  end.

Definition tape_of (tr : list (hstep * ev * list hsnap)) : list (option nat) :=
  flat_map (fun x : hstep * ev * list hsnap =>
              match x with
              | (HSelect _, EvSel h, _) => [h]
              | _ => []
              end) tr.

Fixpoint model_trace (pol : N) (c : config) (sel : selector) (s : state) (tr : list (hstep * ev * list hsnap)) : bool :=
  match tr with
  | [] => true
  | (h, e, sn) :: r =>
      (match h with HSelect _ => oracle_ok pol c s e | _ => true end) &&
      match hexec c sel s h with
      | Some (s', e') => ev_eqb e e' && snap_agrees c s' sn && model_trace pol c sel s' r
      | None => false
      end
  end.

(* ---- the property's executable statement, evaluated on the observed trace only.
   It keeps its own books from what the harness injected and saw (which transport each
   request arrived in, which outcomes were injected, how much time was slept) and never
   calls [step]. ---- *)
Record sbook := {
  b_fwd : list (nat * nat);      (* request t is being forwarded to host h *)
  b_sel : list (nat * nat);      (* request t holds host h handed out by Select and has not been counted yet *)
  b_log : list (nat * Z);        (* injected backend errors (host, time) while counting is enabled *)
  b_now : Z;
  b_prev : list hsnap            (* previous snapshot *)
}.

Fixpoint lookup_t (t : nat) (l : list (nat * nat)) : option nat :=
  match l with
  | [] => None
  | (t', h) :: r => if Nat.eqb t t' then Some h else lookup_t t r
  end.
Definition drop_t (t : nat) (l : list (nat * nat)) : list (nat * nat) :=
  filter (fun e => negb (Nat.eqb (fst e) t)) l.

Definition book_step (ft : Z) (b : sbook) (h : hstep) (e : ev) (sn : list hsnap) : sbook :=
  match h with
  | HSelect t =>
      {| b_fwd := b_fwd b;
         b_sel := match e with EvSel (Some x) => (t, x) :: drop_t t (b_sel b) | _ => drop_t t (b_sel b) end;
         b_log := b_log b; b_now := b_now b; b_prev := sn |}
  | HBegin t _ =>
      match e with
      | EvFwd x => {| b_fwd := (t, x) :: b_fwd b; b_sel := drop_t t (b_sel b); b_log := b_log b; b_now := b_now b; b_prev := sn |}
      | _ => {| b_fwd := b_fwd b; b_sel := drop_t t (b_sel b); b_log := b_log b; b_now := b_now b; b_prev := sn |}
      end
  | HFinish t o _ =>
      match lookup_t t (b_fwd b) with
      | Some x =>
          {| b_fwd := drop_t t (b_fwd b); b_sel := b_sel b;
             b_log := match o with OError => if 0 <? ft then (x, b_now b) :: b_log b else b_log b | _ => b_log b end;
             b_now := b_now b; b_prev := sn |}
      | None => {| b_fwd := b_fwd b; b_sel := b_sel b; b_log := b_log b; b_now := b_now b; b_prev := sn |}
      end
  | HWait d => {| b_fwd := b_fwd b; b_sel := b_sel b; b_log := b_log b; b_now := b_now b + d; b_prev := sn |}
  | _ => {| b_fwd := b_fwd b; b_sel := b_sel b; b_log := b_log b; b_now := b_now b; b_prev := sn |}
  end.

Definition book_unexpired (ft : Z) (b : sbook) (h : nat) : Z :=
  cnt (fun e => Nat.eqb (fst e) h && (b_now b <? snd e + ft)) (b_log b).

(* a snapshot satisfies the property w.r.t. the books:
   Conns = requests actually in the transport = requests the books say are forwarded;
   the cap holds; Fails = unexpired injected failures; Down exactly when unhealthy or
   max_fails unexpired failures; Full exactly when the cap is reached *)
Definition snap_spec (mc mf ft : Z) (unh : list bool) (b : sbook) (sn : list hsnap) : bool :=
  forallb (fun hx : nat * hsnap =>
             let '(h, (oc, of, oi, od, ofl)) := hx in
             let u := book_unexpired ft b h in
             (oc =? oi) && (oi =? cnt (fun e => Nat.eqb (snd e) h) (b_fwd b)) &&
             ((mc <=? 0) || (oi <=? mc)) &&
             (of =? u) &&
             bool_eqb od (nth h unh false || (mf <=? u)) &&
             bool_eqb ofl ((0 <? mc) && (mc <=? oi)))
          (combine (seq 0 (length sn)) sn).

(* the host handed out by Select was not down and not full in the (stable) state it was chosen in *)
Definition choice_spec (b : sbook) (e : ev) : bool :=
  match e with
  | EvSel (Some h) =>
      match nth_error (b_prev b) h with
      | Some (_, _, _, od, ofl) => negb od && negb ofl
      | None => false
      end
  | _ => true
  end.

(* leaving the window: a request that holds a host is forwarded to that very host, unless the host
   was full in the (stable) state before the step — only then may it take the no-host path; a
   request that holds no host is not forwarded *)
Definition begin_spec (b : sbook) (h : hstep) (e : ev) : bool :=
  match h with
  | HBegin t _ =>
      match lookup_t t (b_sel b), e with
      | Some x, EvFwd y => Nat.eqb x y
      | Some x, _ => match nth_error (b_prev b) x with
                     | Some (_, _, _, _, ofl) => ofl
                     | None => false
                     end
      | None, EvFwd _ => false
      | None, _ => true
      end
  | _ => true
  end.

Fixpoint spec_trace (mc mf ft : Z) (unh : list bool) (b : sbook) (tr : list (hstep * ev * list hsnap)) : bool :=
  match tr with
  | [] =>
      (* quiescence: every request has left; all in-flight counters are back to zero *)
      match b_fwd b with [] => forallb (fun x : hsnap => let '(oc, _, oi, _, _) := x in (oc =? 0) && (oi =? 0)) (b_prev b)
                    | _ => true end
  | (h, e, sn) :: r =>
      let b' := book_step ft b h e sn in
      (match h with HSelect _ => choice_spec b e | _ => true end) && begin_spec b h e &&
      snap_spec mc mf ft unh b' sn && spec_trace mc mf ft unh b' r
  end.

(* ---- parsing of max_fails (upstream.go parseBlock): strconv.ParseInt(s, 10, 32) — a range error
   for a literal that does not fit int32 —, then "must be at least 1", then stored as int32(n) ---- *)
Definition wrap_int32 (n : Z) : Z :=
  let m := n mod 4294967296 in if m <? 2147483648 then m else m - 4294967296.
Definition fits_int32 (n : Z) : bool := (-2147483648 <=? n) && (n <? 2147483648).
Definition parse_max_fails (n : Z) : option Z :=
  if fits_int32 n then (if n <? 1 then None else Some (wrap_int32 n)) else None.

Inductive case :=
| CSched (hosts : nat) (mc mf ft : Z) (unh : list bool) (pol : N) (nthreads : nat)
         (snap0 : list hsnap) (trace : list (hstep * ev * list hsnap))
  (* max_fails n in the Casketfile, Fails = k on a fresh host: accepted by setup? Down()? *)
| CMaxFails (n k : Z) (accepted : bool) (obs_down : bool)
| CMaxConns (n k : Z) (accepted : bool) (obs_full : bool)
  (* free-running stress: per host (max simultaneous forwards seen in the transport,
     min Conns read from inside the transport, final Conns, final Fails) *)
| CStress (hosts : nat) (mc : Z) (nthreads : nat) (obs : list (Z * Z * Z * Z)) (all_answered : bool)
  (* one request through the REAL http.Transport to a loopback backend that answers, drops the
     connection, or is abandoned by the client: status, Conns while the backend holds the request,
     Conns and Fails afterwards (max_fails 1, fail_timeout 1h, max_conns 5) *)
| CLive (o : outcome) (code conns_during conns_after fails_after : Z).

Definition mk_config (hosts : nat) (mc mf ft : Z) (unh : list bool) : config :=
  {| c_hosts := hosts; c_max_conns := mc; c_max_fails := mf; c_fail_timeout := ft;
     c_unhealthy := fun h => nth h unh false |}.

Definition init_threads (r : N) (n : nat) : state :=
  {| conns := fun _ => 0; fails := fun _ => 0; timers := []; fired := []; flog := []; now := 0;
     threads := repeat Idle n; robin := r |}.

Definition judge (c : case) : N :=
  match c with
  | CSched hosts mc mf ft unh pol nthreads snap0 trace =>
      let cfg := mk_config hosts mc mf ft unh in
      let s0 := init_threads 0 nthreads in
      let sel := if (pol <? 2)%N then sel_of pol cfg else sel_tape (tape_of trace) in
      let agree := snap_agrees cfg s0 snap0 && model_trace pol cfg sel s0 trace in
      let b0 := {| b_fwd := []; b_sel := []; b_log := []; b_now := 0; b_prev := snap0 |} in
      let spec := (length snap0 =? hosts)%nat && snap_spec mc mf ft unh b0 snap0 &&
                  spec_trace mc mf ft unh b0 trace in
      verdict agree spec
  | CMaxFails n k accepted obs_down =>
      let m_acc := match parse_max_fails n with Some _ => true | None => false end in
      let m_down := match parse_max_fails n with Some m => m <=? k | None => false end in
      let agree := bool_eqb m_acc accepted && (negb accepted || bool_eqb m_down obs_down) in
      (* property: down exactly when at least max_fails failures are outstanding *)
      let spec := negb accepted || bool_eqb obs_down (n <=? k) in
      verdict agree spec
  | CMaxConns n k accepted obs_full =>
      let m_full := (0 <? n) && (n <=? k) in
      let agree := accepted && bool_eqb m_full obs_full in
      let spec := negb accepted || bool_eqb obs_full ((0 <? n) && (n <=? k)) in
      verdict agree spec
  | CStress hosts mc nthreads obs all_answered =>
      (* the model accepts: at most one forward per request at a time and never more than the cap,
         counters zero at quiescence *)
      let agree := (length obs =? hosts)%nat &&
                   forallb (fun x : Z * Z * Z * Z => let '(mx, mn, fc, ff) := x in
                              (mx <=? Z.of_nat nthreads) && ((mc <=? 0) || (mx <=? mc)) &&
                              (fc =? 0) && (ff =? 0)) obs in
      let spec := all_answered &&
                  forallb (fun x : Z * Z * Z * Z => let '(mx, mn, fc, ff) := x in
                             ((mc <=? 0) || (mx <=? mc)) && (1 <=? mn) && (fc =? 0) && (ff =? 0)) obs in
      verdict agree spec
  | CLive o code cd ca fa =>
      let cfg := mk_config 1 5 1 1000000000 [] in
      let sel := sel_first cfg in
      let s0 := init_threads 0 1 in
      let agree :=
        match run cfg sel s0 [LSelect 0; LBegin 0] with
        | Some s1 =>
            (conns s1 0%nat =? cd) &&
            match hexec cfg sel s1 (HFinish 0 o false) with
            | Some (s2, e) => ev_eqb e (EvDone code) && (conns s2 0%nat =? ca) && (fails s2 0%nat =? fa)
            | None => false
            end
        | None => false
        end in
      let spec := (cd =? 1) && (ca =? 0) && (fa =? match o with OError => 1 | _ => 0 end) in
      verdict agree spec
  end.
