(* C15 — the pipeline under process-level settings (-port, -host, -http-port, -https-port): proofs. *)
Require Import V.Lib V.GoPath V.Gen_C15 V.C15_Model.
From Coq Require Import List Bool.
Import ListNotations.
Open Scope N_scope.

Lemma beq_true_eq (a b : bytes) : beq a b = true -> a = b.
Proof. intros H. apply beq_eq. exact H. Qed.

(* at the default settings the parametrised pipeline IS the pipeline of the other theorems *)
Lemma mpr_s_default n : forall i all, mpr_s settings0 n i all = mpr n i all.
Proof.
  induction n as [|n IH]; intros i all; simpl; [reflexivity|].
  destruct (nth_error all i) as [c|]; [|reflexivity].
  change (wants_redirect_s settings0 all i c) with (wants_redirect all i c).
  change (redir_site_s settings0 c) with (redir_site c). apply IH.
Qed.
Lemma stage_a_s_default init : stage_a_s settings0 init = stage_a init.
Proof.
  unfold stage_a_s, stage_a, make_plaintext_redirects_s, make_plaintext_redirects.
  rewrite mpr_s_default. reflexivity.
Qed.
Lemma stage_b_s_default a : stage_b_s settings0 a = stage_b a.
Proof. reflexivity. Qed.
Lemma std_addr_s_default sch prt : std_addr_s settings0 sch prt = std_addr sch prt.
Proof. reflexivity. Qed.
Lemma settings_default :
  (forall init, stage_a_s settings0 init = stage_a init) /\ (forall a, stage_b_s settings0 a = stage_b a)
  /\ (forall sch prt, std_addr_s settings0 sch prt = std_addr sch prt)
  /\ (forall h p, default_host_s settings0 h = h /\ default_port_s settings0 p = p).
Proof.
  split; [exact stage_a_s_default|]. split; [exact stage_b_s_default|]. split; [exact std_addr_s_default|].
  intros h p. split; [destruct h; reflexivity|destruct p; reflexivity].
Qed.

(* MakeServers' step on one site *)
Lemma ms_one_s_http_site st s :
  (port s = s_http st \/ scheme s = HTTP) ->
  en (tls (ms_one_s st s)) = false /\ scheme (ms_one_s st s) = scheme s.
Proof.
  intros H. unfold ms_one_s. destruct (en (tls s)) eqn:E; [|split; [exact E|reflexivity]].
  assert (T : beq (port s) (s_http st) || beq (scheme s) HTTP = true).
  { destruct H as [H|H]; rewrite H; rewrite beq_refl; [reflexivity|apply orb_true_r]. }
  rewrite T.
  destruct (beq (port (with_tls s (set_en false (tls s)))) [] && (negb (mn (tls s)) && negb (ss (tls s)) || od (tls s)));
    split; reflexivity.
Qed.

Lemma ms_one_s_result st s :
  s_http st <> s_https st ->
  (port (ms_one_s st s) = s_http st \/ scheme (ms_one_s st s) = HTTP) -> en (tls (ms_one_s st s)) = false.
Proof.
  intros D H. unfold ms_one_s in *. destruct (en (tls s)) eqn:E; [|exact E].
  destruct (beq (port s) (s_http st) || beq (scheme s) HTTP) eqn:T.
  - destruct (beq (port (with_tls s (set_en false (tls s)))) [] && (negb (mn (tls s)) && negb (ss (tls s)) || od (tls s)));
      reflexivity.
  - exfalso. apply orb_false_iff in T. destruct T as [Tp Ts].
    assert (NP : port s <> s_http st) by (intros X; rewrite X, beq_refl in Tp; discriminate).
    assert (NS : scheme s <> HTTP) by (intros X; rewrite X, beq_refl in Ts; discriminate).
    destruct (scheme s) as [|c sc] eqn:ES.
    + destruct (beq (port (with_scheme s HTTPS)) [] && (negb (mn (tls s)) && negb (ss (tls s)) || od (tls s))) eqn:B;
        simpl in H; destruct H as [H|H]; try discriminate H.
      * apply D. symmetry. exact H.
      * apply NP. exact H.
    + destruct (beq (port s) [] && (negb (mn (tls s)) && negb (ss (tls s)) || od (tls s))) eqn:B;
        simpl in H; destruct H as [H|H].
      * apply D. symmetry. exact H.
      * apply NS. rewrite ES in H. exact H.
      * apply NP. exact H.
      * apply NS. rewrite ES in H. exact H.
Qed.

(* after MakeServers (per-site loop and default-port pass), for all settings and all site lists *)
Lemma http_port_site_never_tls st a s :
  s_http st <> s_https st ->
  (s_port st <> s_http st \/ Forall (fun x => port x <> []) a) ->
  In s (stage_b_s st a) -> (port s = s_http st \/ scheme s = HTTP) -> en (tls s) = false.
Proof.
  intros D G I H. unfold stage_b_s in I. rewrite map_map in I. apply in_map_iff in I.
  destruct I as (x & <- & Ix).
  assert (K : forall y, group_one_s st y = y \/ (port y = [] /\ group_one_s st y = with_port y (s_port st))).
  { intros y. unfold group_one_s. destruct (port y); [right; split; reflexivity|left; reflexivity]. }
  destruct (K (ms_one_s st x)) as [K1|[K1 K2]].
  - rewrite K1 in *. apply ms_one_s_result; assumption.
  - rewrite K2 in *. simpl in *. destruct H as [H|H].
    + destruct G as [G|G]; [exfalso; apply G; exact H|].
      (* every port is non-empty: ms_one_s never empties a port *)
      exfalso. rewrite Forall_forall in G. specialize (G x Ix).
      unfold ms_one_s in K1. destruct (en (tls x)); [|exact (G K1)].
      destruct (beq (port x) (s_http st) || beq (scheme x) HTTP).
      * simpl in K1. destruct (beq (port x) [] && (negb (mn (tls x)) && negb (ss (tls x)) || od (tls x))) eqn:B; simpl in K1.
        -- apply andb_true_iff in B. destruct B as [B _]. apply beq_true_eq in B. exact (G B).
        -- exact (G K1).
      * destruct (scheme x); simpl in K1;
          destruct (beq (port x) [] && (negb (mn (tls x)) && negb (ss (tls x)) || od (tls x))) eqn:B; simpl in K1;
          try (apply andb_true_iff in B; destruct B as [B _]; apply beq_true_eq in B; exact (G B)); exact (G K1).
    + apply ms_one_s_result; [exact D|right; exact H].
Qed.

(* the default-port substitution makes a site without written port a site on the HTTP port when -port
   is the HTTP port; whatever TLS flags its directive left, MakeServers ends with TLS disabled *)
Lemma default_port_site_never_tls st sc h l t r :
  s_port st = s_http st -> s_port st <> P2015 -> s_http st <> [] ->
  let s := {| scheme := sc; host := h; port := default_port_s st []; listen := l; tls := t; redir := r |} in
  port s = s_http st /\ en (tls (ms_one_s st (enable_one_s st (mark_one s)))) = false.
Proof.
  intros E N NE s.
  assert (P : port s = s_http st).
  { unfold s, default_port_s. simpl. destruct (beq (s_port st) P2015) eqn:B; [apply beq_true_eq in B; contradiction|exact E]. }
  split; [exact P|].
  apply ms_one_s_http_site. left.
  assert (Pm : port (mark_one s) = port s) by (unfold mark_one; destruct (qualifies s); reflexivity).
  assert (Pm' : port (mark_one s) = s_http st) by (rewrite Pm; exact P).
  unfold enable_one_s. destruct (mg (tls (mark_one s)) && negb (od (tls (mark_one s)))); [|exact Pm'].
  cbn [port with_scheme with_tls]. rewrite Pm'.
  destruct (s_http st) as [|n b] eqn:X; [contradiction NE; reflexivity|]. simpl. exact Pm'.
Qed.

(* F-C15-4: as coded, a public site on a NON-default HTTP port is marked Managed and made https *)
Definition st_8080 : settings := {| s_port := bs "8080"; s_host := []; s_http := bs "8080"; s_https := P443 |}.
Definition w_site_8080 : site :=
  {| scheme := []; host := bs "example.com"; port := bs "8080"; listen := []; tls := tls0; redir := None |}.
Lemma managed_on_http_port_witness :
  exists st s, port s = s_http st /\
    mg (tls (enable_one_s st (mark_one s))) = true /\ scheme (enable_one_s st (mark_one s)) = HTTPS.
Proof. exists st_8080, w_site_8080. vm_compute. repeat split. Qed.
(* ... never with the default HTTP port *)
Lemma not_managed_on_port_80 st s : s_http st = P80 -> port s = s_http st -> mg (tls s) = false -> mg (tls (mark_one s)) = false.
Proof.
  intros E P M. unfold mark_one. destruct (qualifies s) eqn:Q; [|exact M].
  exfalso. unfold qualifies, qualifies_for_managed_tls in Q. rewrite P, E, beq_refl in Q.
  repeat rewrite andb_false_r in Q. simpl in Q. repeat rewrite andb_false_r in Q. discriminate.
Qed.

Lemma http_port_nonvacuous :
  exists st a s, s_http st <> s_https st /\ Forall (fun x => port x <> []) a /\ s_port st = s_http st /\
    In s (stage_b_s st a) /\ port s = s_http st /\ en (tls s) = false /\ exists x, In x a /\ en (tls x) = true.
Proof.
  exists {| s_port := P80; s_host := []; s_http := P80; s_https := P443 |},
    [ {| scheme := []; host := bs "example.com"; port := P80; listen := [];
         tls := {| en := true; mg := false; mn := false; ss := true; nr := false; od := false; email := bs "self_signed" |}; redir := None |} ].
  eexists. split; [vm_compute; discriminate|]. split; [constructor; [vm_compute; discriminate|constructor]|].
  split; [reflexivity|]. split; [left; reflexivity|]. split; [reflexivity|]. split; [reflexivity|].
  eexists. split; [left; reflexivity|reflexivity].
Qed.
