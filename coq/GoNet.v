(* GoNet.v — executable model of net.SplitHostPort (Go 1.23 net/ipsock.go); validated against
   Go by the LIB differential check. *)
Require Import V.Lib V.GoPath.
Open Scope N_scope.

Definition COLON : N := 58.
Definition LBR : N := 91.
Definition RBR : N := 93.

Fixpoint index_of (c : N) (s : bytes) : option nat :=
  match s with
  | [] => None
  | x :: r => if x =? c then Some 0%nat else option_map S (index_of c r)
  end.
Definition contains_byte (c : N) (s : bytes) : bool :=
  match index_of c s with Some _ => true | None => false end.
Definition last_index (c : N) (s : bytes) : option nat :=
  match index_of c (rev s) with None => None | Some k => Some (length s - 1 - k)%nat end.

Definition split_host_port (hp : bytes) : option (bytes * bytes) :=
  match last_index COLON hp with
  | None => None
  | Some i =>
    match hp with
    | [] => None
    | c0 :: _ =>
      if c0 =? LBR then
        match index_of RBR hp with
        | None => None
        | Some e =>
          if Nat.eqb (e + 1) (length hp) then None
          else if Nat.eqb (e + 1) i then
            if contains_byte LBR (skipn 1 hp) then None
            else if contains_byte RBR (skipn (e + 1) hp) then None
            else Some (firstn (e - 1) (skipn 1 hp), skipn (i + 1) hp)
          else None
        end
      else
        let host := firstn i hp in
        if contains_byte COLON host then None
        else if contains_byte LBR hp then None
        else if contains_byte RBR hp then None
        else Some (host, skipn (i + 1) hp)
    end
  end.

(* strip the port if the string parses as host:port (the idiom used all over casket) *)
Definition strip_port (hp : bytes) : bytes :=
  match split_host_port hp with Some (h, _) => h | None => hp end.
