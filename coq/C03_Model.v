(* C03 — protected paths: executable model of basicauth.BasicAuth.ServeHTTP's decision, of
   internalsrv.Internal's path test and of the path the static file resolver opens. *)
Require Import V.Lib V.GoPath V.GoPathProofs V.Gen_C09.
Open Scope N_scope.

Record rule := { r_resources : list bytes; r_exclude : list bytes; r_creds_ok : bool }.

(* inner loop over one rule's resources; (protected, authenticated) threaded through *)
Fixpoint rule_loop (cs : bool) (path : bytes) (excl : list bytes) (ok : bool)
         (ress : list bytes) (st : bool * bool) : bool * bool :=
  match ress with
  | [] => st
  | res :: r =>
      if negb (path_matches cs path res) then rule_loop cs path excl ok r st
      else if existsb (path_matches cs path) excl then st           (* continue ruleLoop *)
      else rule_loop cs path excl ok r (true, snd st || ok)
  end.

Definition rule_step (cs : bool) (path : bytes) (st : bool * bool) (ru : rule) : bool * bool :=
  rule_loop cs path (r_exclude ru) (r_creds_ok ru) (r_resources ru) st.

Inductive decision := Pass | Deny401.

Definition basicauth_decide (cs : bool) (is_options : bool) (path : bytes) (rules : list rule) : decision :=
  if is_options then Pass
  else let '(prot, auth) := fold_left (rule_step cs path) rules (false, false) in
       if prot && negb auth then Deny401 else Pass.

(* declarative: a rule protects the path when one of its resources matches and no exclusion does *)
Definition protects (cs : bool) (path : bytes) (ru : rule) : bool :=
  existsb (path_matches cs path) (r_resources ru) && negb (existsb (path_matches cs path) (r_exclude ru)).

(* internal: any listed prefix matches => 404 *)
Definition internal_blocks (cs : bool) (path : bytes) (paths : list bytes) : bool :=
  existsb (path_matches cs path) paths.

(* the file the static resolver opens for URL path p: http.Dir.Open cleans "/" ++ p *)
Definition resolved (p : bytes) : bytes := clean (SLASH :: p).


(* ====================================================================================
   The middleware chain (DESIGN §4 C03 "CHAIN")
   ==================================================================================== *)

(* what Path.Matches compares: the cleaned path, its trailing slash remembered *)
Definition matcher_form (p : bytes) : bytes := clean p ++ (if ends_with_slash p then [SLASH] else []).
Definition trivial_scope (b : bytes) : bool := beq b [SLASH] || beq b [].
Definition fold_case (cs : bool) (s : bytes) : bytes := if cs then s else to_lower s.

(* a canonical resource name f (a cleaned file name, or a directory name as the matcher spells it)
   lies in scope [base]: Path.Matches' comparison without re-normalising the canonical name *)
Definition under (cs : bool) (f base : bytes) : bool :=
  trivial_scope base || has_prefix (fold_case cs f) (fold_case cs (matcher_form base)).

(* ---- requests, handlers, results ---- *)
Record request := { q_path : bytes;       (* r.URL.Path *)
                    q_options : bool;     (* r.Method == OPTIONS *)
                    q_xaccel : bytes }.   (* X-Accel-Redirect REQUEST header sent by the client *)
Definition set_path (q : request) (p : bytes) : request :=
  {| q_path := p; q_options := q_options q; q_xaccel := q_xaccel q |}.
Definition with_xaccel (q : request) (x : bytes) : request :=
  {| q_path := q_path q; q_options := q_options q; q_xaccel := x |}.

(* a content handler's effect on the X-Accel-Redirect RESPONSE header: value after the call as a
   function of the request it saw (all of it: path, the client's own headers) and the value before *)
Definition hdrfun := request -> bytes -> bytes.

Record result := { o_status : N;                (* 401 / 404 / 500 / 200 (a content handler answered) *)
                   o_touched : list bytes;      (* request paths content handlers were run with *)
                   o_hdr : bytes }.             (* X-Accel-Redirect in the response header map afterwards *)
Definition deny (st : N) (w : bytes) : result := {| o_status := st; o_touched := []; o_hdr := w |}.
Definition touch (h : hdrfun) (q : request) (w : bytes) : result :=
  {| o_status := 200; o_touched := [q_path q]; o_hdr := h q w |}.

(* internalsrv.Internal.ServeHTTP: the redirect loop. [cur] is the outcome of the previous call of the
   inner chain; while the response header map carries X-Accel-Redirect (at most 10 times) the path is
   replaced by the header value, the header is cleared and the inner chain runs again. *)
Fixpoint accel_loop (fuel : nat) (inner : request -> bytes -> result) (q : request) (cur : result) : result :=
  match o_hdr cur with
  | [] => cur
  | t :: ts =>
      match fuel with
      | O => {| o_status := 500; o_touched := o_touched cur; o_hdr := [] |}
      | S k => let q' := set_path q (t :: ts) in
               let nxt := inner q' [] in
               accel_loop k inner q' {| o_status := o_status nxt;
                                        o_touched := o_touched cur ++ o_touched nxt;
                                        o_hdr := o_hdr nxt |}
      end
  end.

Definition internal_serve (cs : bool) (paths : list bytes) (inner : request -> bytes -> result)
           (q : request) (w : bytes) : result :=
  if internal_blocks cs (q_path q) paths then deny 404 w
  else accel_loop 10 inner q (inner q w).

(* ---- middlewares ---- *)
Inductive mw :=
| MWriter (f : bytes -> bytes)                 (* tryfiles / rewrite / ext: ANY function of the path *)
| MAuth (rules : list rule)                    (* basicauth *)
| MInternal (paths : list bytes)               (* internal *)
| MNeutral                                     (* a directive that never assigns r.URL.Path *)
| MContent (takes : bytes -> bool) (h : hdrfun).   (* a content handler: answers the paths it takes *)

Fixpoint run (cs : bool) (stk : list mw) (leaf : hdrfun) (q : request) (w : bytes) : result :=
  match stk with
  | [] => touch leaf q w                                        (* the static file server *)
  | MWriter f :: r => run cs r leaf (set_path q (f (q_path q))) w
  | MAuth rules :: r =>
      match basicauth_decide cs (q_options q) (q_path q) rules with
      | Deny401 => deny 401 w
      | Pass => run cs r leaf q w
      end
  | MInternal paths :: r => internal_serve cs paths (run cs r leaf) q w
  | MNeutral :: r => run cs r leaf q w
  | MContent takes h :: r => if takes (q_path q) then touch h q w else run cs r leaf q w
  end.

(* ---- directive roles and the stack of a site ---- *)
Inductive role := RWriter | RAuth | RInternal | RContent | RNeutral.
Definition kind (m : mw) : role :=
  match m with MWriter _ => RWriter | MAuth _ => RAuth | MInternal _ => RInternal
             | MNeutral => RNeutral | MContent _ _ => RContent end.

Fixpoint memb (x : bytes) (l : list bytes) : bool :=
  match l with [] => false | y :: r => beq x y || memb x r end.

Definition writer_names : list bytes := map bs ["tryfiles"; "rewrite"; "ext"]%string.
Definition content_names : list bytes :=
  map bs ["pprof"; "expvar"; "templates"; "proxy"; "fastcgi"; "cgi"; "websocket"; "filebrowser";
          "webdav"; "markdown"; "browse"]%string.
Definition role_of (name : bytes) : role :=
  if memb name writer_names then RWriter
  else if beq name (bs "basicauth"%string) then RAuth
  else if beq name (bs "internal"%string) then RInternal
  else if memb name content_names then RContent
  else RNeutral.

(* the source files under caskethttp/ that assign r.URL.Path (harness source scan, CAssigners):
   ext, rewrite.To (used by rewrite and tryfiles), internal's redirect loop; server.go strips the
   site's path prefix before the chain, log.go restores the URL for its error handler after the
   chain, reverseproxy.go edits the OUTGOING copy only. *)
Definition path_assigners : list bytes :=
  map bs ["extensions/ext.go"; "httpserver/server.go"; "internalsrv/internal.go"; "log/log.go";
          "proxy/reverseproxy.go"; "rewrite/to.go"]%string.

(* a site configures at most one middleware per directive name; its role is the name's role *)
Definition site := bytes -> option mw.
Definition wf_site (s : site) : Prop := forall n m, s n = Some m -> kind m = role_of n.
Fixpoint stack (s : site) (dirs : list bytes) : list mw :=
  match dirs with
  | [] => []
  | n :: r => match s n with Some m => m :: stack s r | None => stack s r end
  end.

(* phase discipline: writers, then basicauth (once), then internal (once), then content handlers;
   neutral directives anywhere.  [k] = lowest phase still allowed. *)
Fixpoint sorted_from (k : nat) (rs : list role) : bool :=
  match rs with
  | [] => true
  | RNeutral :: r => sorted_from k r
  | RWriter :: r => Nat.leb k 0 && sorted_from 0 r
  | RAuth :: r => Nat.leb k 1 && sorted_from 2 r
  | RInternal :: r => Nat.leb k 2 && sorted_from 3 r
  | RContent :: r => Nat.leb k 3 && sorted_from 3 r
  end.

(* ---- the normal form of an ordered chain ---- *)
Fixpoint final_path (stk : list mw) (p : bytes) : bytes :=
  match stk with
  | MWriter f :: r => final_path r (f p)
  | MNeutral :: r => final_path r p
  | _ => p
  end.
Fixpoint auth_rules (stk : list mw) : list rule :=
  match stk with
  | MAuth rules :: _ => rules
  | MWriter _ :: r => auth_rules r
  | MNeutral :: r => auth_rules r
  | _ => []
  end.
Fixpoint internal_paths (stk : list mw) : option (list bytes) :=
  match stk with
  | [] => None
  | MInternal ps :: _ => Some ps
  | MContent _ _ :: _ => None
  | _ :: r => internal_paths r
  end.
Fixpoint answer (stk : list mw) (leaf : hdrfun) : hdrfun :=
  match stk with
  | [] => leaf
  | MContent takes h :: r => fun q w => if takes (q_path q) then h q w else answer r leaf q w
  | _ :: r => answer r leaf
  end.

Definition serve_part (cs : bool) (stk : list mw) (leaf : hdrfun) (q : request) (w : bytes) : result :=
  match internal_paths stk with
  | Some ps => internal_serve cs ps (touch (answer stk leaf)) q w
  | None => touch (answer stk leaf) q w
  end.

Definition chain_nf (cs : bool) (stk : list mw) (leaf : hdrfun) (q : request) (w : bytes) : result :=
  let q' := set_path q (final_path stk (q_path q)) in
  match basicauth_decide cs (q_options q) (q_path q') (auth_rules stk) with
  | Deny401 => deny 401 w
  | Pass => serve_part cs stk leaf q' w
  end.

(* ---- what the content handlers can read for the (final) request path p ---- *)
Definition dir_slash (c : bytes) : bytes := if beq c [SLASH] then c else c ++ [SLASH].

Inductive read_kind := KFile | KSibling | KIndex | KIndexSibling | KListing | KArchive | KBackend.

(* idx: index page names, exts: precompressed-sibling extensions.  File names are canonical
   (http.Dir.Open cleans "/" ++ path); a listing is the content of the directory as the request
   names it, a backend (proxy, fastcgi) is handed the request path itself. *)
Inductive reads (idx exts : list bytes) (p : bytes) : read_kind -> bytes -> Prop :=
| RdFile : ends_with_slash p = false -> reads idx exts p KFile (resolved p)
| RdSibling e : ends_with_slash p = false -> In e exts -> reads idx exts p KSibling (resolved p ++ e)
| RdIndex i : ends_with_slash p = true -> In i idx -> reads idx exts p KIndex (dir_slash (resolved p) ++ i)
| RdIndexSibling i e : ends_with_slash p = true -> In i idx -> In e exts ->
    reads idx exts p KIndexSibling (dir_slash (resolved p) ++ i ++ e)
| RdListing : ends_with_slash p = true -> reads idx exts p KListing (matcher_form p)
| RdArchive d : ends_with_slash p = true -> d <> [] -> reads idx exts p KArchive (dir_slash (resolved p) ++ d)
| RdBackend : reads idx exts p KBackend (matcher_form p).

(* the part of a read's name that the request path itself spells out *)
Definition vis (p : bytes) (k : read_kind) : bytes :=
  match k with
  | KFile | KSibling => resolved p
  | KIndex | KIndexSibling | KArchive => dir_slash (resolved p)
  | KListing | KBackend => matcher_form p
  end.
(* the scope does not reach below that part (into an index file's name, a sibling's extension,
   a descendant of the archived directory) *)
Definition scope_within (p : bytes) (k : read_kind) (b : bytes) : bool :=
  trivial_scope b || Nat.leb (length (matcher_form b)) (length (vis p k)).

(* declarative protection of a canonical resource name by a rule *)
Definition protects_res (cs : bool) (f : bytes) (ru : rule) : bool :=
  existsb (under cs f) (r_resources ru) && negb (existsb (under cs f) (r_exclude ru)).

(* a site given as an association list directive name -> middleware *)
Fixpoint site_of (l : list (bytes * mw)) : site :=
  fun n => match l with
           | [] => None
           | (a, m) :: r => if beq a n then Some m else site_of r n
           end.
Definition role_eqb (a b : role) : bool :=
  match a, b with
  | RWriter, RWriter | RAuth, RAuth | RInternal, RInternal | RContent, RContent | RNeutral, RNeutral => true
  | _, _ => false
  end.
Definition wf_list (l : list (bytes * mw)) : bool :=
  forallb (fun e => role_eqb (kind (snd e)) (role_of (fst e))) l.

(* a site used by the non-vacuity examples *)
Definition example_site : list (bytes * mw) :=
  [ (bs "rewrite"%string, MWriter (fun p => if beq p (bs "/alias"%string) then bs "/secret/f.txt"%string else p));
    (bs "ext"%string, MWriter (fun p => p));
    (bs "gzip"%string, MNeutral);
    (bs "basicauth"%string, MAuth [ {| r_resources := [bs "/secret"%string];
                                       r_exclude := [bs "/secret/pub"%string]; r_creds_ok := false |} ]);
    (bs "internal"%string, MInternal [bs "/int"%string]);
    (bs "browse"%string, MContent (fun p => ends_with_slash p) (fun _ w => w)) ].

(* ---- the statement of the chain theorem ---- *)
Definition chain_of (s : site) : list mw := stack s gen_directives.
Definition writers_rooted (stk : list mw) : Prop :=
  forall f, In (MWriter f) stk -> forall x, rooted x -> rooted (f x).

(* request q, sent without valid credentials, makes the content handlers of chain stk read resource
   f (kind k), and f lies under resource [res] of basicauth rule [ru] and outside ru's exclusions *)
Record protected_read (cs : bool) (idx exts : list bytes) (stk : list mw) (q : request)
       (k : read_kind) (f : bytes) (ru : rule) (res : bytes) : Prop := {
  pr_rooted : rooted (q_path q);
  pr_writers : writers_rooted stk;
  pr_not_options : q_options q = false;
  pr_no_creds : forall r0, In r0 (auth_rules stk) -> r_creds_ok r0 = false;
  pr_reads : reads idx exts (final_path stk (q_path q)) k f;
  pr_rule : In ru (auth_rules stk);
  pr_res : In res (r_resources ru);
  pr_under : under cs f res = true;
  pr_not_excl : forall e, In e (r_exclude ru) -> under cs f e = false /\ matcher_form e <> [SLASH; SLASH] }.

(* the same for an internal location [pre] *)
Record internal_read (cs : bool) (idx exts : list bytes) (stk : list mw) (q : request)
       (k : read_kind) (f : bytes) (pre : bytes) : Prop := {
  ir_rooted : rooted (q_path q);
  ir_writers : writers_rooted stk;
  ir_reads : reads idx exts (final_path stk (q_path q)) k f;
  ir_paths : exists ps, internal_paths stk = Some ps /\ In pre ps;
  ir_under : under cs f pre = true }.

(* ---- scripted handler used by the correspondence cases ---- *)
Definition ECHO : bytes := bs "ECHO"%string.
Fixpoint lookup (k : bytes) (l : list (bytes * bytes)) : option bytes :=
  match l with [] => None | (a, v) :: r => if beq a k then Some v else lookup k r end.
(* path -> header value the handler sets ("ECHO": copies the client's request header); no entry: untouched *)
Definition script_h (script : list (bytes * bytes)) : hdrfun :=
  fun q w => match lookup (q_path q) script with
             | Some v => if beq v ECHO then q_xaccel q else v
             | None => w
             end.

Fixpoint list_bytes_eqb (a b : list bytes) : bool :=
  match a, b with
  | [], [] => true
  | x :: a', y :: b' => beq x y && list_bytes_eqb a' b'
  | _, _ => false
  end.

(* ====================================================================================
   The hide list (DESIGN §4 C03 "HIDE"): internal locations in listings, archives and the
   static file server's own lookups
   ==================================================================================== *)

(* staticfiles.FileServer.IsHidden: the file is the one some hide-list entry opens
   (http.Dir.Open cleans "/" ++ entry; identity of files = canonical name: no links) *)
Definition is_hidden (hide : list bytes) (f : bytes) : bool :=
  existsb (fun h => beq (resolved h) f) hide.

(* a directory tree as it is on disk *)
Inductive node := Node (name : bytes) (is_dir : bool) (kids : list node).
Definition node_name (n : node) : bytes := match n with Node a _ _ => a end.
Definition child_path (d name : bytes) : bytes := dir_slash d ++ name.

(* browse.loadDirectoryContents: every entry of the directory except the hidden ones *)
Definition listing (hide : list bytes) (d : bytes) (kids : list node) : list bytes :=
  filter (fun f => negb (is_hidden hide f)) (map (fun k => child_path d (node_name k)) kids).

(* browse.ServeArchive's walk below directory d: a hidden file is left out, a hidden directory
   is skipped with everything below it (filepath.SkipDir).  Each member is returned with its
   chain: itself and the directories between the archived directory and it. *)
Fixpoint walk (hide : list bytes) (chain : list bytes) (d : bytes) (n : node) {struct n}
  : list (bytes * list bytes) :=
  match n with
  | Node name isd kids =>
      let f := child_path d name in
      if is_hidden hide f then []
      else (f, f :: chain) :: (if isd then flat_map (walk hide (f :: chain) f) kids else [])
  end.
Definition archive (hide : list bytes) (d : bytes) (kids : list node) : list (bytes * list bytes) :=
  flat_map (walk hide [] d) kids.

(* ---- when the hide lists are taken ----
   The directives' setup functions run in the order of plugin.go's list.  internal's setup appends
   its paths to the site's HiddenFiles; browse's setup COPIES HiddenFiles into its own file
   server; httpserver.NewServer copies HiddenFiles into the default file server after all setups
   and before any middleware constructor runs. *)
Record hide_site := { hs_initial : list bytes;             (* HiddenFiles before the setups (the Casketfile) *)
                      hs_internal : option (list bytes);   (* `internal` configured, with these paths *)
                      hs_browse : bool }.                  (* `browse` configured *)
Record setup_state := { ss_hidden : list bytes; ss_browse : option (list bytes) }.
Definition setup_step (s : hide_site) (st : setup_state) (name : bytes) : setup_state :=
  if beq name (bs "internal"%string) then
    match hs_internal s with
    | Some ps => {| ss_hidden := ss_hidden st ++ ps; ss_browse := ss_browse st |}
    | None => st
    end
  else if beq name (bs "browse"%string) then
    (if hs_browse s then {| ss_hidden := ss_hidden st; ss_browse := Some (ss_hidden st) |} else st)
  else st.
Definition run_setups (dirs : list bytes) (s : hide_site) : setup_state :=
  fold_left (setup_step s) dirs {| ss_hidden := hs_initial s; ss_browse := None |}.
Definition browse_hide (s : hide_site) : option (list bytes) := ss_browse (run_setups gen_directives s).
Definition fs_hide (s : hide_site) : list bytes := ss_hidden (run_setups gen_directives s).

(* ---- staticfiles.FileServer.serveFile: which file's bytes are sent for URL path p ----
   files/dirs: canonical names of the regular files / directories under the root; idx: index page
   names; exts: the extensions of the precompressed encodings the client accepts, in the server's
   priority order. *)
Fixpoint first_index (files dirs : list bytes) (c : bytes) (idx : list bytes) : option bytes :=
  match idx with
  | [] => None
  | i :: r => let f := child_path c i in
              if memb f files || memb f dirs then Some f else first_index files dirs c r
  end.
Fixpoint pick_sibling (hide files : list bytes) (f : bytes) (exts : list bytes) : bytes :=
  match exts with
  | [] => f
  | e :: r => if memb (f ++ e) files && negb (is_hidden hide (f ++ e)) then f ++ e
              else pick_sibling hide files f r
  end.
Definition fs_serve (hide idx exts files dirs : list bytes) (p : bytes) : option bytes :=
  let c := resolved p in
  let target := if memb c dirs then (if ends_with_slash p then first_index files dirs c idx else None)
                else if memb c files then (if ends_with_slash p then None else Some c)
                else None in
  match target with
  | Some f => if memb f dirs || is_hidden hide f then None else Some (pick_sibling hide files f exts)
  | None => None
  end.

(* a canonical name is the location h or lies below it (whole segments) *)
Definition at_or_below (f h : bytes) : bool := beq f h || has_prefix f (dir_slash h).
Definition outside_internal (ipaths : list bytes) (f : bytes) : bool :=
  negb (existsb (fun ip => at_or_below f (resolved ip)) ipaths).
Definition same_set (a b : list bytes) : bool :=
  forallb (fun x => memb x b) a && forallb (fun x => memb x a) b.

(* a tree used by the non-vacuity examples: /int/h.txt, /pub/a.txt, /top.txt *)
Definition example_tree : list node :=
  [ Node (bs "int"%string) true [Node (bs "h.txt"%string) false []];
    Node (bs "pub"%string) true [Node (bs "a.txt"%string) false []];
    Node (bs "top.txt"%string) false [] ].

(* ---- cases ---- *)
Inductive case :=
| CMatches (cs : bool) (p base : bytes) (obs : bool)
| CAuth (cs : bool) (is_options : bool) (path : bytes) (rules : list rule) (obs_denied : bool)
| CInternal (cs : bool) (path : bytes) (paths : list bytes) (obs_blocked : bool)
(* full site: which protection scopes cover the canonical file (computed by the harness from
   the fixture), did the request carry valid credentials, was a protected token disclosed *)
| CSite (unauth : bool) (disclosed : bool)
(* full site, the spec clause evaluated here: canonical names of the resources whose planted
   tokens appeared in the decoded body; rules carry which credentials the request presented *)
| CDisc (cs : bool) (is_options : bool) (rules : list rule) (ipaths : list bytes) (leaked : list bytes)
(* internalsrv.Internal alone over a scripted inner handler *)
| CAccel (cs : bool) (paths : list bytes) (script : list (bytes * bytes)) (w0 : bytes)
         (p : bytes) (xreq : bytes) (obs_status : N) (obs_touched : list bytes)
(* full site in canonical order: rewriters (their result [pfinal] measured on the unprotected twin
   site), basicauth, internal (when configured), proxy to a backend that records the paths it sees *)
| CChain (cs : bool) (is_options : bool) (pfinal : bytes) (rules : list rule) (has_internal : bool)
         (ipaths : list bytes) (script : list (bytes * bytes)) (xreq : bytes)
         (obs_status : N) (obs_touched : list bytes)
(* source scan: files under caskethttp/ assigning r.URL.Path *)
| CAssigners (obs : list bytes)
(* full site with `internal ipaths` and browse: the entries a listing (HTML or JSON) of the
   directory named by URL path p shows / the members of its archive, as names relative to that
   directory; kids = what is on disk below it *)
| CHide (ipaths : list bytes) (p : bytes) (is_archive : bool) (kids : list node) (obs : list bytes)
(* full site with `internal ipaths` and no content handler but the static file server: canonical
   names of the files whose planted tokens the decoded answer to GET p contains *)
| CServe (ipaths idx exts files dirs : list bytes) (p : bytes) (obs : list bytes).

Definition res_violation (cs opt : bool) (rules : list rule) (ipaths : list bytes) (f : bytes) : bool :=
  (negb opt && existsb (protects_res cs f) rules &&
   negb (existsb (fun ru => protects_res cs f ru && r_creds_ok ru) rules))
  || existsb (under cs f) ipaths.

Definition judge (c : case) : N :=
  match c with
  | CMatches cs p base obs => verdict (Bool.eqb (path_matches cs p base) obs) true
  | CAuth cs opt path rules obs =>
      let m := match basicauth_decide cs opt path rules with Deny401 => true | Pass => false end in
      let spec := Bool.eqb obs (negb opt && existsb (protects cs path) rules &&
                                negb (existsb (fun ru => protects cs path ru && r_creds_ok ru) rules)) in
      verdict (Bool.eqb m obs) spec
  | CInternal cs path paths obs =>
      verdict (Bool.eqb (internal_blocks cs path paths) obs) (Bool.eqb obs (existsb (path_matches cs path) paths))
  | CSite unauth disclosed => verdict true (negb (unauth && disclosed))
  | CDisc cs opt rules ipaths leaked =>
      verdict true (negb (existsb (res_violation cs opt rules ipaths) leaked))
  | CAccel cs paths script w0 p xreq st tr =>
      let q := {| q_path := p; q_options := false; q_xaccel := xreq |} in
      let r := internal_serve cs paths (touch (script_h script)) q w0 in
      let blocked := existsb (path_matches cs p) paths in
      let named t := negb (beq t []) &&
                     (existsb (fun e => beq (snd e) t) script || beq t w0 ||
                      (existsb (fun e => beq (snd e) ECHO) script && beq t xreq)) in
      let spec := if blocked then (st =? 404) && list_bytes_eqb tr []
                  else match tr with
                       | first :: rest => beq first p && forallb named rest && Nat.leb (length rest) 10 &&
                                          ((st =? 200) || ((st =? 500) && Nat.eqb (length rest) 10))
                       | [] => false
                       end in
      verdict ((o_status r =? st) && list_bytes_eqb (o_touched r) tr) spec
  | CChain cs opt pfinal rules has_int ipaths script xreq st tr =>
      let q := {| q_path := pfinal; q_options := opt; q_xaccel := xreq |} in
      let stk := [MWriter (fun _ => pfinal); MAuth rules] ++ (if has_int then [MInternal ipaths] else []) in
      let r := run cs stk (script_h script) q [] in
      let denied := negb opt && existsb (protects cs pfinal) rules &&
                    negb (existsb (fun ru => protects cs pfinal ru && r_creds_ok ru) rules) in
      let blocked := has_int && existsb (path_matches cs pfinal) ipaths in
      let spec := if denied then (st =? 401) && list_bytes_eqb tr []
                  else if blocked then (st =? 404) && list_bytes_eqb tr []
                  else match tr with first :: rest => beq first pfinal && (has_int || list_bytes_eqb rest [])
                                   | [] => false end in
      verdict ((o_status r =? st) && list_bytes_eqb (o_touched r) tr) spec
  | CAssigners obs => verdict (list_bytes_eqb obs path_assigners) (list_bytes_eqb obs path_assigners)
  | CHide ipaths p is_arc kids obs =>
      let s := {| hs_initial := []; hs_internal := Some ipaths; hs_browse := true |} in
      let d := resolved p in
      let full := map (child_path d) obs in
      let spec := forallb (outside_internal ipaths) full in
      match browse_hide s with
      | Some h => let exp := if is_arc then map fst (archive h d kids) else listing h d kids in
                  verdict (same_set exp full) spec
      | None => verdict false spec
      end
  | CServe ipaths idx exts files dirs p obs =>
      let s := {| hs_initial := []; hs_internal := Some ipaths; hs_browse := false |} in
      let exp := if internal_blocks false p ipaths then []
                 else match fs_serve (fs_hide s) idx exts files dirs p with Some f => [f] | None => [] end in
      verdict (same_set exp obs) (forallb (outside_internal ipaths) obs)
  end.
