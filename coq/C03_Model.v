(* C03 — protected paths: executable model of basicauth.BasicAuth.ServeHTTP's decision, of
   internalsrv.Internal's path test and of the path the static file resolver opens. *)
Require Import V.Lib V.GoPath V.GoPathProofs V.Gen_C09.
Open Scope N_scope.

Record rule := { r_resources : list bytes; r_exclude : list bytes; r_creds_ok : bool }.

(* inner loop over one rule's resources; (protected, authenticated) threaded through *)
Fixpoint rule_loop (cs : bool) (path : bytes) (excl : list bytes) (ok : bool)
         (ress : list bytes) (st : bool * bool) : bool * bool :=
  match ress with
  | [] => st
  | res :: r =>
      if negb (path_matches cs path res) then rule_loop cs path excl ok r st
      else if existsb (path_matches cs path) excl then st           (* continue ruleLoop *)
      else rule_loop cs path excl ok r (true, snd st || ok)
  end.

Definition rule_step (cs : bool) (path : bytes) (st : bool * bool) (ru : rule) : bool * bool :=
  rule_loop cs path (r_exclude ru) (r_creds_ok ru) (r_resources ru) st.

Inductive decision := Pass | Deny401.

Definition basicauth_decide (cs : bool) (is_options : bool) (path : bytes) (rules : list rule) : decision :=
  if is_options then Pass
  else let '(prot, auth) := fold_left (rule_step cs path) rules (false, false) in
       if prot && negb auth then Deny401 else Pass.

(* declarative: a rule protects the path when one of its resources matches and no exclusion does *)
Definition protects (cs : bool) (path : bytes) (ru : rule) : bool :=
  existsb (path_matches cs path) (r_resources ru) && negb (existsb (path_matches cs path) (r_exclude ru)).

(* internal: any listed prefix matches => 404 *)
Definition internal_blocks (cs : bool) (path : bytes) (paths : list bytes) : bool :=
  existsb (path_matches cs path) paths.

(* the file the static resolver opens for URL path p: http.Dir.Open cleans "/" ++ p *)
Definition resolved (p : bytes) : bytes := clean (SLASH :: p).


(* ====================================================================================
   The middleware chain (DESIGN §4 C03 "CHAIN")
   ==================================================================================== *)

(* what Path.Matches compares: the cleaned path, its trailing slash remembered *)
Definition matcher_form (p : bytes) : bytes := clean p ++ (if ends_with_slash p then [SLASH] else []).
Definition trivial_scope (b : bytes) : bool := beq b [SLASH] || beq b [].
Definition fold_case (cs : bool) (s : bytes) : bytes := if cs then s else to_lower s.

(* a canonical resource name f (a cleaned file name, or a directory name as the matcher spells it)
   lies in scope [base]: Path.Matches' comparison without re-normalising the canonical name *)
Definition under (cs : bool) (f base : bytes) : bool :=
  trivial_scope base || has_prefix (fold_case cs f) (fold_case cs (matcher_form base)).

(* ---- requests, handlers, results ---- *)
Record request := { q_path : bytes;       (* r.URL.Path *)
                    q_options : bool;     (* r.Method == OPTIONS *)
                    q_xaccel : bytes }.   (* X-Accel-Redirect REQUEST header sent by the client *)
Definition set_path (q : request) (p : bytes) : request :=
  {| q_path := p; q_options := q_options q; q_xaccel := q_xaccel q |}.
Definition with_xaccel (q : request) (x : bytes) : request :=
  {| q_path := q_path q; q_options := q_options q; q_xaccel := x |}.

(* a content handler's effect on the X-Accel-Redirect RESPONSE header: value after the call as a
   function of the request it saw (all of it: path, the client's own headers) and the value before *)
Definition hdrfun := request -> bytes -> bytes.

Record result := { o_status : N;                (* 401 / 404 / 500 / 200 (a content handler answered) *)
                   o_touched : list bytes;      (* request paths content handlers were run with *)
                   o_hdr : bytes }.             (* X-Accel-Redirect in the response header map afterwards *)
Definition deny (st : N) (w : bytes) : result := {| o_status := st; o_touched := []; o_hdr := w |}.
Definition touch (h : hdrfun) (q : request) (w : bytes) : result :=
  {| o_status := 200; o_touched := [q_path q]; o_hdr := h q w |}.

(* internalsrv.Internal.ServeHTTP: the redirect loop. [cur] is the outcome of the previous call of the
   inner chain; while the response header map carries X-Accel-Redirect (at most 10 times) the path is
   replaced by the header value, the header is cleared and the inner chain runs again. *)
Fixpoint accel_loop (fuel : nat) (inner : request -> bytes -> result) (q : request) (cur : result) : result :=
  match o_hdr cur with
  | [] => cur
  | t :: ts =>
      match fuel with
      | O => {| o_status := 500; o_touched := o_touched cur; o_hdr := [] |}
      | S k => let q' := set_path q (t :: ts) in
               let nxt := inner q' [] in
               accel_loop k inner q' {| o_status := o_status nxt;
                                        o_touched := o_touched cur ++ o_touched nxt;
                                        o_hdr := o_hdr nxt |}
      end
  end.

Definition internal_serve (cs : bool) (paths : list bytes) (inner : request -> bytes -> result)
           (q : request) (w : bytes) : result :=
  if internal_blocks cs (q_path q) paths then deny 404 w
  else accel_loop 10 inner q (inner q w).

(* ---- middlewares ---- *)
Inductive mw :=
| MWriter (f : bytes -> bytes)                 (* tryfiles / rewrite / ext: ANY function of the path *)
| MAuth (rules : list rule)                    (* basicauth *)
| MInternal (paths : list bytes)               (* internal *)
| MNeutral                                     (* a directive that never assigns r.URL.Path *)
| MContent (takes : bytes -> bool) (h : hdrfun).   (* a content handler: answers the paths it takes *)

Fixpoint run (cs : bool) (stk : list mw) (leaf : hdrfun) (q : request) (w : bytes) : result :=
  match stk with
  | [] => touch leaf q w                                        (* the static file server *)
  | MWriter f :: r => run cs r leaf (set_path q (f (q_path q))) w
  | MAuth rules :: r =>
      match basicauth_decide cs (q_options q) (q_path q) rules with
      | Deny401 => deny 401 w
      | Pass => run cs r leaf q w
      end
  | MInternal paths :: r => internal_serve cs paths (run cs r leaf) q w
  | MNeutral :: r => run cs r leaf q w
  | MContent takes h :: r => if takes (q_path q) then touch h q w else run cs r leaf q w
  end.

(* ---- directive roles and the stack of a site ---- *)
Inductive role := RWriter | RAuth | RInternal | RContent | RNeutral.
Definition kind (m : mw) : role :=
  match m with MWriter _ => RWriter | MAuth _ => RAuth | MInternal _ => RInternal
             | MNeutral => RNeutral | MContent _ _ => RContent end.

Fixpoint memb (x : bytes) (l : list bytes) : bool :=
  match l with [] => false | y :: r => beq x y || memb x r end.

Definition writer_names : list bytes := map bs ["tryfiles"; "rewrite"; "ext"]%string.
Definition content_names : list bytes :=
  map bs ["pprof"; "expvar"; "templates"; "proxy"; "fastcgi"; "cgi"; "websocket"; "filebrowser";
          "webdav"; "markdown"; "browse"]%string.
Definition role_of (name : bytes) : role :=
  if memb name writer_names then RWriter
  else if beq name (bs "basicauth"%string) then RAuth
  else if beq name (bs "internal"%string) then RInternal
  else if memb name content_names then RContent
  else RNeutral.

(* the source files under caskethttp/ that assign r.URL.Path (harness source scan, CAssigners):
   ext, rewrite.To (used by rewrite and tryfiles), internal's redirect loop; server.go strips the
   site's path prefix before the chain, log.go restores the URL for its error handler after the
   chain, reverseproxy.go edits the OUTGOING copy only. *)
Definition path_assigners : list bytes :=
  map bs ["extensions/ext.go"; "httpserver/server.go"; "internalsrv/internal.go"; "log/log.go";
          "proxy/reverseproxy.go"; "rewrite/to.go"]%string.

(* a site configures at most one middleware per directive name; its role is the name's role *)
Definition site := bytes -> option mw.
Definition wf_site (s : site) : Prop := forall n m, s n = Some m -> kind m = role_of n.
Fixpoint stack (s : site) (dirs : list bytes) : list mw :=
  match dirs with
  | [] => []
  | n :: r => match s n with Some m => m :: stack s r | None => stack s r end
  end.

(* phase discipline: writers, then basicauth (once), then internal (once), then content handlers;
   neutral directives anywhere.  [k] = lowest phase still allowed. *)
Fixpoint sorted_from (k : nat) (rs : list role) : bool :=
  match rs with
  | [] => true
  | RNeutral :: r => sorted_from k r
  | RWriter :: r => Nat.leb k 0 && sorted_from 0 r
  | RAuth :: r => Nat.leb k 1 && sorted_from 2 r
  | RInternal :: r => Nat.leb k 2 && sorted_from 3 r
  | RContent :: r => Nat.leb k 3 && sorted_from 3 r
  end.

(* ---- the normal form of an ordered chain ---- *)
Fixpoint final_path (stk : list mw) (p : bytes) : bytes :=
  match stk with
  | MWriter f :: r => final_path r (f p)
  | MNeutral :: r => final_path r p
  | _ => p
  end.
Fixpoint auth_rules (stk : list mw) : list rule :=
  match stk with
  | MAuth rules :: _ => rules
  | MWriter _ :: r => auth_rules r
  | MNeutral :: r => auth_rules r
  | _ => []
  end.
Fixpoint internal_paths (stk : list mw) : option (list bytes) :=
  match stk with
  | [] => None
  | MInternal ps :: _ => Some ps
  | MContent _ _ :: _ => None
  | _ :: r => internal_paths r
  end.
Fixpoint answer (stk : list mw) (leaf : hdrfun) : hdrfun :=
  match stk with
  | [] => leaf
  | MContent takes h :: r => fun q w => if takes (q_path q) then h q w else answer r leaf q w
  | _ :: r => answer r leaf
  end.

Definition serve_part (cs : bool) (stk : list mw) (leaf : hdrfun) (q : request) (w : bytes) : result :=
  match internal_paths stk with
  | Some ps => internal_serve cs ps (touch (answer stk leaf)) q w
  | None => touch (answer stk leaf) q w
  end.

Definition chain_nf (cs : bool) (stk : list mw) (leaf : hdrfun) (q : request) (w : bytes) : result :=
  let q' := set_path q (final_path stk (q_path q)) in
  match basicauth_decide cs (q_options q) (q_path q') (auth_rules stk) with
  | Deny401 => deny 401 w
  | Pass => serve_part cs stk leaf q' w
  end.

(* ---- what the content handlers can read for the (final) request path p ---- *)
Definition dir_slash (c : bytes) : bytes := if beq c [SLASH] then c else c ++ [SLASH].

Inductive read_kind := KFile | KSibling | KIndex | KIndexSibling | KListing | KArchive | KBackend.

(* idx: index page names, exts: precompressed-sibling extensions.  File names are canonical
   (http.Dir.Open cleans "/" ++ path); a listing is the content of the directory as the request
   names it, a backend (proxy, fastcgi) is handed the request path itself. *)
Inductive reads (idx exts : list bytes) (p : bytes) : read_kind -> bytes -> Prop :=
| RdFile : ends_with_slash p = false -> reads idx exts p KFile (resolved p)
| RdSibling e : ends_with_slash p = false -> In e exts -> reads idx exts p KSibling (resolved p ++ e)
| RdIndex i : ends_with_slash p = true -> In i idx -> reads idx exts p KIndex (dir_slash (resolved p) ++ i)
| RdIndexSibling i e : ends_with_slash p = true -> In i idx -> In e exts ->
    reads idx exts p KIndexSibling (dir_slash (resolved p) ++ i ++ e)
| RdListing : ends_with_slash p = true -> reads idx exts p KListing (matcher_form p)
| RdArchive d : ends_with_slash p = true -> d <> [] -> reads idx exts p KArchive (dir_slash (resolved p) ++ d)
| RdBackend : reads idx exts p KBackend (matcher_form p).

(* the part of a read's name that the request path itself spells out *)
Definition vis (p : bytes) (k : read_kind) : bytes :=
  match k with
  | KFile | KSibling => resolved p
  | KIndex | KIndexSibling | KArchive => dir_slash (resolved p)
  | KListing | KBackend => matcher_form p
  end.
(* the scope does not reach below that part (into an index file's name, a sibling's extension,
   a descendant of the archived directory) *)
Definition scope_within (p : bytes) (k : read_kind) (b : bytes) : bool :=
  trivial_scope b || Nat.leb (length (matcher_form b)) (length (vis p k)).

(* declarative protection of a canonical resource name by a rule *)
Definition protects_res (cs : bool) (f : bytes) (ru : rule) : bool :=
  existsb (under cs f) (r_resources ru) && negb (existsb (under cs f) (r_exclude ru)).

(* a site given as an association list directive name -> middleware *)
Fixpoint site_of (l : list (bytes * mw)) : site :=
  fun n => match l with
           | [] => None
           | (a, m) :: r => if beq a n then Some m else site_of r n
           end.
Definition role_eqb (a b : role) : bool :=
  match a, b with
  | RWriter, RWriter | RAuth, RAuth | RInternal, RInternal | RContent, RContent | RNeutral, RNeutral => true
  | _, _ => false
  end.
Definition wf_list (l : list (bytes * mw)) : bool :=
  forallb (fun e => role_eqb (kind (snd e)) (role_of (fst e))) l.

(* a site used by the non-vacuity examples *)
Definition example_site : list (bytes * mw) :=
  [ (bs "rewrite"%string, MWriter (fun p => if beq p (bs "/alias"%string) then bs "/secret/f.txt"%string else p));
    (bs "ext"%string, MWriter (fun p => p));
    (bs "gzip"%string, MNeutral);
    (bs "basicauth"%string, MAuth [ {| r_resources := [bs "/secret"%string];
                                       r_exclude := [bs "/secret/pub"%string]; r_creds_ok := false |} ]);
    (bs "internal"%string, MInternal [bs "/int"%string]);
    (bs "browse"%string, MContent (fun p => ends_with_slash p) (fun _ w => w)) ].

(* ---- the statement of the chain theorem ---- *)
Definition chain_of (s : site) : list mw := stack s gen_directives.
Definition writers_rooted (stk : list mw) : Prop :=
  forall f, In (MWriter f) stk -> forall x, rooted x -> rooted (f x).

(* request q, sent without valid credentials, makes the content handlers of chain stk read resource
   f (kind k), and f lies under resource [res] of basicauth rule [ru] and outside ru's exclusions *)
Record protected_read (cs : bool) (idx exts : list bytes) (stk : list mw) (q : request)
       (k : read_kind) (f : bytes) (ru : rule) (res : bytes) : Prop := {
  pr_rooted : rooted (q_path q);
  pr_writers : writers_rooted stk;
  pr_not_options : q_options q = false;
  pr_no_creds : forall r0, In r0 (auth_rules stk) -> r_creds_ok r0 = false;
  pr_reads : reads idx exts (final_path stk (q_path q)) k f;
  pr_rule : In ru (auth_rules stk);
  pr_res : In res (r_resources ru);
  pr_under : under cs f res = true;
  pr_not_excl : forall e, In e (r_exclude ru) -> under cs f e = false /\ matcher_form e <> [SLASH; SLASH] }.

(* the same for an internal location [pre] *)
Record internal_read (cs : bool) (idx exts : list bytes) (stk : list mw) (q : request)
       (k : read_kind) (f : bytes) (pre : bytes) : Prop := {
  ir_rooted : rooted (q_path q);
  ir_writers : writers_rooted stk;
  ir_reads : reads idx exts (final_path stk (q_path q)) k f;
  ir_paths : exists ps, internal_paths stk = Some ps /\ In pre ps;
  ir_under : under cs f pre = true }.

(* ---- scripted handler used by the correspondence cases ---- *)
Definition ECHO : bytes := bs "ECHO"%string.
Fixpoint lookup (k : bytes) (l : list (bytes * bytes)) : option bytes :=
  match l with [] => None | (a, v) :: r => if beq a k then Some v else lookup k r end.
(* path -> header value the handler sets ("ECHO": copies the client's request header); no entry: untouched *)
Definition script_h (script : list (bytes * bytes)) : hdrfun :=
  fun q w => match lookup (q_path q) script with
             | Some v => if beq v ECHO then q_xaccel q else v
             | None => w
             end.

Fixpoint list_bytes_eqb (a b : list bytes) : bool :=
  match a, b with
  | [], [] => true
  | x :: a', y :: b' => beq x y && list_bytes_eqb a' b'
  | _, _ => false
  end.

(* ====================================================================================
   The hide list (DESIGN §4 C03 "HIDE"): internal locations in listings, archives and the
   static file server's own lookups
   ==================================================================================== *)

(* staticfiles.FileServer.IsHidden: the file is the one some hide-list entry opens
   (http.Dir.Open cleans "/" ++ entry; identity of files = canonical name: no links) *)
Definition is_hidden (hide : list bytes) (f : bytes) : bool :=
  existsb (fun h => beq (resolved h) f) hide.

(* a directory tree as it is on disk *)
Inductive node := Node (name : bytes) (is_dir : bool) (kids : list node).
Definition node_name (n : node) : bytes := match n with Node a _ _ => a end.
Definition child_path (d name : bytes) : bytes := dir_slash d ++ name.

(* browse.loadDirectoryContents: every entry of the directory except the hidden ones *)
Definition listing (hide : list bytes) (d : bytes) (kids : list node) : list bytes :=
  filter (fun f => negb (is_hidden hide f)) (map (fun k => child_path d (node_name k)) kids).

(* browse.ServeArchive's walk below directory d: a hidden file is left out, a hidden directory
   is skipped with everything below it (filepath.SkipDir).  Each member is returned with its
   chain: itself and the directories between the archived directory and it. *)
Fixpoint walk (hide : list bytes) (chain : list bytes) (d : bytes) (n : node) {struct n}
  : list (bytes * list bytes) :=
  match n with
  | Node name isd kids =>
      let f := child_path d name in
      if is_hidden hide f then []
      else (f, f :: chain) :: (if isd then flat_map (walk hide (f :: chain) f) kids else [])
  end.
Definition archive (hide : list bytes) (d : bytes) (kids : list node) : list (bytes * list bytes) :=
  flat_map (walk hide [] d) kids.

(* ---- when the hide lists are taken ----
   The directives' setup functions run in the order of plugin.go's list.  internal's setup appends
   its paths to the site's HiddenFiles; browse's setup COPIES HiddenFiles into its own file
   server; httpserver.NewServer copies HiddenFiles into the default file server after all setups
   and before any middleware constructor runs. *)
Record hide_site := { hs_initial : list bytes;             (* HiddenFiles before the setups (the Casketfile) *)
                      hs_internal : option (list bytes);   (* `internal` configured, with these paths *)
                      hs_browse : bool }.                  (* `browse` configured *)
Record setup_state := { ss_hidden : list bytes; ss_browse : option (list bytes) }.
Definition setup_step (s : hide_site) (st : setup_state) (name : bytes) : setup_state :=
  if beq name (bs "internal"%string) then
    match hs_internal s with
    | Some ps => {| ss_hidden := ss_hidden st ++ ps; ss_browse := ss_browse st |}
    | None => st
    end
  else if beq name (bs "browse"%string) then
    (if hs_browse s then {| ss_hidden := ss_hidden st; ss_browse := Some (ss_hidden st) |} else st)
  else st.
Definition run_setups (dirs : list bytes) (s : hide_site) : setup_state :=
  fold_left (setup_step s) dirs {| ss_hidden := hs_initial s; ss_browse := None |}.
Definition browse_hide (s : hide_site) : option (list bytes) := ss_browse (run_setups gen_directives s).
Definition fs_hide (s : hide_site) : list bytes := ss_hidden (run_setups gen_directives s).

(* ---- staticfiles.FileServer.serveFile: which file's bytes are sent for URL path p ----
   files/dirs: canonical names of the regular files / directories under the root; idx: index page
   names; exts: the extensions of the precompressed encodings the client accepts, in the server's
   priority order. *)
Fixpoint first_index (files dirs : list bytes) (c : bytes) (idx : list bytes) : option bytes :=
  match idx with
  | [] => None
  | i :: r => let f := child_path c i in
              if memb f files || memb f dirs then Some f else first_index files dirs c r
  end.
Fixpoint pick_sibling (hide files : list bytes) (f : bytes) (exts : list bytes) : bytes :=
  match exts with
  | [] => f
  | e :: r => if memb (f ++ e) files && negb (is_hidden hide (f ++ e)) then f ++ e
              else pick_sibling hide files f r
  end.
Definition fs_serve (hide idx exts files dirs : list bytes) (p : bytes) : option bytes :=
  let c := resolved p in
  let target := if memb c dirs then (if ends_with_slash p then first_index files dirs c idx else None)
                else if memb c files then (if ends_with_slash p then None else Some c)
                else None in
  match target with
  | Some f => if memb f dirs || is_hidden hide f then None else Some (pick_sibling hide files f exts)
  | None => None
  end.

(* a canonical name is the location h or lies below it (whole segments) *)
Definition at_or_below (f h : bytes) : bool := beq f h || has_prefix f (dir_slash h).
Definition outside_internal (ipaths : list bytes) (f : bytes) : bool :=
  negb (existsb (fun ip => at_or_below f (resolved ip)) ipaths).
Definition same_set (a b : list bytes) : bool :=
  forallb (fun x => memb x b) a && forallb (fun x => memb x a) b.

(* ---- histories of browse requests on one running site ----
   Between requests the files below the root change in any way (a directory replaced by another
   one — a new inode — is simply another tree): a request carries the directory asked for and what
   is below it on disk WHEN IT ARRIVES.  browse keeps nothing between requests and
   FileServer.IsHidden opens the hide-list entries anew on every call, so the answers of a
   history are the answers to its requests one by one. *)
Record breq := { bq_arc : bool; bq_dir : bytes; bq_kids : list node }.
Definition browse_answer (hide : list bytes) (q : breq) : list bytes :=
  if bq_arc q then map fst (archive hide (bq_dir q) (bq_kids q)) else listing hide (bq_dir q) (bq_kids q).
Definition browse_history (hide : list bytes) (qs : list breq) : list (breq * list bytes) :=
  map (fun q => (q, browse_answer hide q)) qs.

(* a tree used by the non-vacuity examples: /int/h.txt, /pub/a.txt, /top.txt *)
Definition example_tree : list node :=
  [ Node (bs "int"%string) true [Node (bs "h.txt"%string) false []];
    Node (bs "pub"%string) true [Node (bs "a.txt"%string) false []];
    Node (bs "top.txt"%string) false [] ].

(* ====================================================================================
   BLOCK: a server block with several addresses (keys).  casket.executeDirectives runs, for each
   directive of plugin.go's list, the directive's setup once per KEY of the block; every key has
   its own SiteConfig (InspectServerBlocks makes one per key, HiddenFiles empty), so what a setup
   does to "the" config it does to the config of the key it was called for.
   ==================================================================================== *)
Record block_site := { bk_hide : hide_site;                 (* internal / browse tokens of the block *)
                       bk_rules : option (list rule) }.     (* basicauth tokens of the block, parsed *)
(* what one address ends up with: its hide lists, the Internal{Paths} and BasicAuth{Rules} installed *)
Record addr_state := { as_setup : setup_state;
                       as_internal : option (list bytes);
                       as_rules : option (list rule) }.
Definition addr_init (b : block_site) : addr_state :=
  {| as_setup := {| ss_hidden := hs_initial (bk_hide b); ss_browse := None |};
     as_internal := None; as_rules := None |}.
Definition addr_step (b : block_site) (st : addr_state) (name : bytes) : addr_state :=
  {| as_setup := setup_step (bk_hide b) (as_setup st) name;
     as_internal := if beq name (bs "internal"%string)
                    then match hs_internal (bk_hide b) with Some ps => Some ps | None => as_internal st end
                    else as_internal st;
     as_rules := if beq name (bs "basicauth"%string)
                 then match bk_rules b with Some rs => Some rs | None => as_rules st end
                 else as_rules st |}.
(* the loop over the keys for one directive: each key's setup works on that key's own state *)
Definition keys_loop (b : block_site) (name : bytes) (sts : list addr_state) : list addr_state :=
  map (fun st => addr_step b st name) sts.
Definition block_setups (dirs : list bytes) (b : block_site) (n : nat) : list addr_state :=
  fold_left (fun sts name => keys_loop b name sts) dirs (repeat (addr_init b) n).
(* a site with a single address *)
Definition addr_run (dirs : list bytes) (b : block_site) : addr_state :=
  fold_left (addr_step b) dirs (addr_init b).

(* the variant in which internal's setup appends its paths under c.OncePerServerBlock (a sync.Once
   shared by the keys of the block): the append happens for the first key only.  NOT the code. *)
Definition addr_step_once (b : block_site) (first : bool) (st : addr_state) (name : bytes) : addr_state :=
  if beq name (bs "internal"%string) && negb first
  then {| as_setup := as_setup st; as_internal := as_internal (addr_step b st name); as_rules := as_rules st |}
  else addr_step b st name.
Fixpoint keys_loop_once (b : block_site) (name : bytes) (first : bool) (sts : list addr_state) : list addr_state :=
  match sts with
  | [] => []
  | st :: r => addr_step_once b first st name :: keys_loop_once b name false r
  end.
Definition block_setups_once (dirs : list bytes) (b : block_site) (n : nat) : list addr_state :=
  fold_left (fun sts name => keys_loop_once b name true sts) dirs (repeat (addr_init b) n).

(* the hide lists of the site a case was observed on: a single-address site, or address j of a
   block of n addresses *)
Definition hide_state (blk : option (nat * nat)) (s : hide_site) : option setup_state :=
  match blk with
  | None => Some (run_setups gen_directives s)
  | Some (n, j) => option_map as_setup
                     (nth_error (block_setups gen_directives {| bk_hide := s; bk_rules := None |} n) j)
  end.

(* ====================================================================================
   CRED: htpasswd files and the credential check over request sequences
   (basicauth.GetHtpasswdMatcher, parseHtpasswd, github.com/jimstudt/http-authentication/basic)
   ==================================================================================== *)
Inductive enc := EPlain (d : bytes) | ESha (b64 : bytes) | EApr1 (salt hashed : bytes).
(* the hash functions are parameters: h_sha pw = base64 text of SHA-1(pw); h_apr1 salt pw = the 22
   characters of Apache's MD5 scheme *)
Record hashes := { h_sha : bytes -> bytes; h_apr1 : bytes -> bytes -> bytes }.
Definition PLAIN_TAG : bytes := bs "{PLAIN}"%string.
Definition enc_accepts (H : hashes) (e : enc) (pw : bytes) : bool :=
  match e with
  | EPlain d => beq pw d || beq (PLAIN_TAG ++ pw) d
  | ESha b => beq (h_sha H pw) b
  | EApr1 salt hashed => beq (h_apr1 H salt pw) hashed
  end.

Fixpoint index_of (c : N) (s : bytes) : option nat :=
  match s with
  | [] => None
  | x :: r => if x =? c then Some O else option_map S (index_of c r)
  end.
Definition b64_char (c : N) : bool :=
  ((65 <=? c) && (c <=? 90)) || ((97 <=? c) && (c <=? 122)) || ((48 <=? c) && (c <=? 57)) || (c =? 43) || (c =? 47).
(* base64 text of exactly 20 bytes: 27 alphabet characters and one '=' *)
Definition sha_wellformed (b : bytes) : bool :=
  Nat.eqb (length b) 28 && forallb b64_char (firstn 27 b) && beq (skipn 27 b) [61].
(* basic.DefaultSystems = AcceptMd5, AcceptSha, RejectBcrypt, AcceptPlain; None = the line is an error *)
Definition classify (e : bytes) : option enc :=
  if has_prefix e (bs "$apr1$"%string) then
    let rest := skipn 6 e in
    match index_of 36 rest with
    | Some i => Some (EApr1 (firstn i rest) (skipn (S i) rest))
    | None => None
    end
  else if has_prefix e (bs "{SHA}"%string) then
    (if sha_wellformed (skipn 5 e) then Some (ESha (skipn 5 e)) else None)
  else if has_prefix e (bs "$2y$"%string) then None
  else Some (EPlain e).

Definition is_space (c : N) : bool := (c =? 32) || ((9 <=? c) && (c <=? 13)).
Fixpoint trim_left (s : bytes) : bytes :=
  match s with
  | c :: r => if is_space c then trim_left r else s
  | [] => []
  end.
Definition trim (s : bytes) : bytes := rev (trim_left (rev (trim_left s))).

(* parseHtpasswd: the entries in file order (a map in Go: the LAST line of a user counts) *)
Fixpoint parse_lines (ls : list bytes) : option (list (bytes * enc)) :=
  match ls with
  | [] => Some []
  | l0 :: r =>
      let l := trim l0 in
      match l with
      | [] => parse_lines r
      | c :: _ =>
          if c =? 35 then parse_lines r
          else match index_of 58 l with
               | None | Some O => None
               | Some i => match classify (skipn (S i) l), parse_lines r with
                           | Some e, Some es => Some ((firstn i l, e) :: es)
                           | _, _ => None
                           end
               end
      end
  end.
Definition parse_htpasswd (text : bytes) : option (list (bytes * enc)) := parse_lines (split 10 text).
Fixpoint last_entry (u : bytes) (es : list (bytes * enc)) (acc : option enc) : option enc :=
  match es with
  | [] => acc
  | (a, e) :: r => last_entry u r (if beq a u then Some e else acc)
  end.

(* THE pure function: what (file contents, user, password) decide.  None = no matcher (unparsable
   file or unknown user: the site does not start) *)
Definition file_accepts (H : hashes) (text user pw : bytes) : option bool :=
  match parse_htpasswd text with
  | None => None
  | Some es => match last_entry user es None with
               | None => None
               | Some e => Some (enc_accepts H e pw)
               end
  end.

(* ---- the state GetHtpasswdMatcher keeps between calls: parsed files by name, each with the
   stamp (modification time, size) the file had when it was read ---- *)
Record disk_file := { df_stamp : N; df_text : bytes }.
Definition disk := list (bytes * disk_file).
Record parsed := { pf_stamp : N; pf_entries : list (bytes * enc) }.
Definition cache := list (bytes * parsed).
Fixpoint assoc {A} (k : bytes) (l : list (bytes * A)) : option A :=
  match l with [] => None | (a, v) :: r => if beq a k then Some v else assoc k r end.

(* GetHtpasswdMatcher(filename, username): the matcher handed to the rule, and the cache afterwards *)
Definition get_matcher (H : hashes) (d : disk) (c : cache) (fname user : bytes)
  : option (bytes -> bool) * cache :=
  match assoc fname d with
  | None => (None, c)                                           (* open error *)
  | Some f =>
      let fresh := match assoc fname c with
                   | Some p => if pf_stamp p =? df_stamp f then Some p else None
                   | None => None
                   end in
      let got := match fresh with
                 | Some p => Some (p, c)
                 | None => match parse_htpasswd (df_text f) with
                           | Some es => let p := {| pf_stamp := df_stamp f; pf_entries := es |} in
                                        Some (p, (fname, p) :: c)
                           | None => None
                           end
                 end in
      match got with
      | None => (None, c)
      | Some (p, c') => match last_entry user (pf_entries p) None with
                        | Some e => (Some (enc_accepts H e), c')
                        | None => (None, c')
                        end
      end
  end.

(* a basicauth rule as the Casketfile gives it: password in the clear, or htpasswd=<file> *)
Inductive pwsrc := PwPlain (pw : bytes) | PwFile (fname : bytes).
Record cfg_rule := { cr_resources : list bytes; cr_exclude : list bytes; cr_user : bytes; cr_pw : pwsrc }.
(* the rule as installed: the matcher is bound when the site is set up *)
Record live_rule := { lr_resources : list bytes; lr_exclude : list bytes; lr_user : bytes;
                      lr_accept : bytes -> bool }.

(* basicAuthParse over the rules of a site; None = setup error (the site does not start) *)
Fixpoint setup_rules (H : hashes) (d : disk) (c : cache) (rs : list cfg_rule)
  : option (list live_rule) * cache :=
  match rs with
  | [] => (Some [], c)
  | r :: rest =>
      let '(m, c1) := match cr_pw r with
                      | PwPlain p => (Some (beq p), c)       (* PlainMatcher: equality (of SHA-1 digests) *)
                      | PwFile f => get_matcher H d c f (cr_user r)
                      end in
      match m with
      | None => (None, c1)
      | Some acc =>
          let '(ls, c2) := setup_rules H d c1 rest in
          (option_map (cons {| lr_resources := cr_resources r; lr_exclude := cr_exclude r;
                               lr_user := cr_user r; lr_accept := acc |}) ls, c2)
      end
  end.

(* a request's credentials *)
Record creds := { c_user : bytes; c_pw : bytes }.
Definition rule_for (auth : option creds) (lr : live_rule) : rule :=
  {| r_resources := lr_resources lr; r_exclude := lr_exclude lr;
     r_creds_ok := match auth with
                   | Some a => beq (c_user a) (lr_user lr) && lr_accept lr (c_pw a)
                   | None => false
                   end |}.
Definition live_decide (cs opt : bool) (path : bytes) (auth : option creds) (ls : list live_rule) : decision :=
  basicauth_decide cs opt path (map (rule_for auth) ls).

(* the same decision as a function of the file contents alone (no cache, no history) *)
Definition pure_accept (H : hashes) (d : disk) (r : cfg_rule) (pw : bytes) : bool :=
  match cr_pw r with
  | PwPlain p => beq p pw
  | PwFile f => match assoc f d with
                | Some df => match file_accepts H (df_text df) (cr_user r) pw with Some b => b | None => false end
                | None => false
                end
  end.
Definition pure_rule (H : hashes) (d : disk) (auth : option creds) (r : cfg_rule) : rule :=
  {| r_resources := cr_resources r; r_exclude := cr_exclude r;
     r_creds_ok := match auth with
                   | Some a => beq (c_user a) (cr_user r) && pure_accept H d r (c_pw a)
                   | None => false
                   end |}.
Definition pure_decide (H : hashes) (d : disk) (rs : list cfg_rule) (cs opt : bool) (path : bytes)
           (auth : option creds) : decision :=
  basicauth_decide cs opt path (map (pure_rule H d auth) rs).
Definition rules_loadable (H : hashes) (d : disk) (rs : list cfg_rule) : bool :=
  forallb (fun r => match cr_pw r with
                    | PwPlain _ => true
                    | PwFile f => match assoc f d with
                                  | Some df => match file_accepts H (df_text df) (cr_user r) [] with Some _ => true | None => false end
                                  | None => false
                                  end
                    end) rs.

(* what happens to a running site *)
Inductive event :=
| EReq (opt : bool) (path : bytes) (auth : option creds)      (* a request *)
| EWrite (fname : bytes) (f : disk_file)                      (* the file is replaced on disk *)
| EReload.                                                    (* the site is set up again (restart) *)

(* the server: the disk, the process-wide cache, the rules as installed at the last (successful)
   setup, and the disk as it was at that setup (ghost: what "the current file" means) *)
Record srv := { sv_disk : disk; sv_cache : cache; sv_live : list live_rule; sv_loaded : disk }.
Fixpoint set_assoc {A} (k : bytes) (v : A) (l : list (bytes * A)) : list (bytes * A) :=
  match l with
  | [] => [(k, v)]
  | (a, x) :: r => if beq a k then (k, v) :: r else (a, x) :: set_assoc k v r
  end.
Definition srv_step (H : hashes) (cs : bool) (rs : list cfg_rule) (s : srv) (e : event) : srv * option decision :=
  match e with
  | EReq opt path auth => (s, Some (live_decide cs opt path auth (sv_live s)))
  | EWrite fname f => ({| sv_disk := set_assoc fname f (sv_disk s); sv_cache := sv_cache s;
                          sv_live := sv_live s; sv_loaded := sv_loaded s |}, None)
  | EReload => match setup_rules H (sv_disk s) (sv_cache s) rs with
               | (Some ls, c) => ({| sv_disk := sv_disk s; sv_cache := c; sv_live := ls; sv_loaded := sv_disk s |}, None)
               | (None, c) => ({| sv_disk := sv_disk s; sv_cache := c; sv_live := sv_live s; sv_loaded := sv_loaded s |}, None)
               end
  end.
Fixpoint srv_run (H : hashes) (cs : bool) (rs : list cfg_rule) (s : srv) (evs : list event) : list decision :=
  match evs with
  | [] => []
  | e :: r => let '(s', o) := srv_step H cs rs s e in
              match o with Some dcn => dcn :: srv_run H cs rs s' r | None => srv_run H cs rs s' r end
  end.
(* the reference: every request decided from its own credentials and the files as they were at the
   last successful setup; nothing else is remembered *)
Fixpoint ref_run (H : hashes) (cs : bool) (rs : list cfg_rule) (cur loaded : disk) (evs : list event) : list decision :=
  match evs with
  | [] => []
  | EReq opt path auth :: r => pure_decide H loaded rs cs opt path auth :: ref_run H cs rs cur loaded r
  | EWrite fname f :: r => ref_run H cs rs (set_assoc fname f cur) loaded r
  | EReload :: r => ref_run H cs rs cur (if rules_loadable H cur rs then cur else loaded) r
  end.

(* the cache is consistent with the disk's history: a parse kept under a stamp is the parse of every
   text that file name ever had on disk under that stamp ("the stamp changes when the content does") *)
Definition cache_honest (c : cache) (d : disk) : Prop :=
  forall fname p f, assoc fname c = Some p -> assoc fname d = Some f -> pf_stamp p = df_stamp f ->
                    parse_htpasswd (df_text f) = Some (pf_entries p).
(* every write of the sequence brings a stamp that file never had before (in the cache or on disk) *)
Fixpoint fresh_stamps (used : list (bytes * N)) (evs : list event) : Prop :=
  match evs with
  | [] => True
  | EWrite fname f :: r => ~ In (fname, df_stamp f) used /\ fresh_stamps ((fname, df_stamp f) :: used) r
  | _ :: r => fresh_stamps used r
  end.

(* every stamp a file name has (on disk) or is remembered with (in the cache) is in [used] *)
Definition stamps_known (used : list (bytes * N)) (c : cache) (d : disk) : Prop :=
  (forall fname p, assoc fname c = Some p -> In (fname, pf_stamp p) used) /\
  (forall fname f, assoc fname d = Some f -> In (fname, df_stamp f) used).
Definition stamps_of (d : disk) : list (bytes * N) := map (fun e => (fst e, df_stamp (snd e))) d.
(* a server state the code can be in: the cache is honest, and the installed rules are those the
   files gave at the last successful setup *)
Record srv_ok (H : hashes) (rs : list cfg_rule) (used : list (bytes * N)) (s : srv) : Prop := {
  ok_honest : cache_honest (sv_cache s) (sv_disk s);
  ok_known : stamps_known used (sv_cache s) (sv_disk s);
  ok_live : forall auth, map (rule_for auth) (sv_live s) = map (pure_rule H (sv_loaded s) auth) rs }.
(* what GetHtpasswdMatcher hands out stands for file_accepts on the file's text *)
Definition matcher_ok (H : hashes) (text user : bytes) (m : option (bytes -> bool)) : Prop :=
  match m with
  | Some acc => forall pw, file_accepts H text user pw = Some (acc pw)
  | None => forall pw, file_accepts H text user pw = None
  end.

(* hash functions given by a finite table (salt or "{SHA}", password) -> digest text *)
Fixpoint tbl_find (k1 k2 : bytes) (t : list (bytes * bytes * bytes)) : bytes :=
  match t with
  | [] => []
  | (a, b, v) :: r => if beq a k1 && beq b k2 then v else tbl_find k1 k2 r
  end.
Definition tbl_hashes (t : list (bytes * bytes * bytes)) : hashes :=
  {| h_sha := fun pw => tbl_find (bs "{SHA}"%string) pw t; h_apr1 := fun salt pw => tbl_find salt pw t |}.

(* one step of a CSeq case, with what was observed *)
Inductive seq_step :=
| QReq (opt : bool) (path : bytes) (auth : option creds)
       (truth : list bool)              (* per rule of the site: by the GENERATOR's knowledge of who has which password
                                           now, are the request's credentials that rule's user's *)
       (own : bytes)                    (* canonical name of the planted resource the request asks for ([]: none) *)
       (obs_status : N) (obs_leaked : list bytes)   (* status; resources whose planted tokens the answer contains *)
| QWrite (fname : bytes) (f : disk_file)
| QReload.
Definition seq_event (q : seq_step) : event :=
  match q with
  | QReq opt path auth _ _ _ _ => EReq opt path auth
  | QWrite fname f => EWrite fname f
  | QReload => EReload
  end.
Fixpoint seq_obs (qs : list seq_step) : list bool :=       (* per request: answered 401 *)
  match qs with
  | [] => []
  | QReq _ _ _ _ _ st _ :: r => (st =? 401) :: seq_obs r
  | _ :: r => seq_obs r
  end.
Fixpoint bool_list_eqb (a b : list bool) : bool :=
  match a, b with
  | [], [] => true
  | x :: a', y :: b' => Bool.eqb x y && bool_list_eqb a' b'
  | _, _ => false
  end.

(* ---- cases ---- *)
Inductive case :=
| CMatches (cs : bool) (p base : bytes) (obs : bool)
| CAuth (cs : bool) (is_options : bool) (path : bytes) (rules : list rule) (obs_denied : bool)
| CInternal (cs : bool) (path : bytes) (paths : list bytes) (obs_blocked : bool)
(* full site: which protection scopes cover the canonical file (computed by the harness from
   the fixture), did the request carry valid credentials, was a protected token disclosed *)
| CSite (unauth : bool) (disclosed : bool)
(* full site, the spec clause evaluated here: canonical names of the resources whose planted
   tokens appeared in the decoded body; rules carry which credentials the request presented *)
| CDisc (cs : bool) (is_options : bool) (rules : list rule) (ipaths : list bytes) (leaked : list bytes)
(* internalsrv.Internal alone over a scripted inner handler *)
| CAccel (cs : bool) (paths : list bytes) (script : list (bytes * bytes)) (w0 : bytes)
         (p : bytes) (xreq : bytes) (obs_status : N) (obs_touched : list bytes)
(* full site in canonical order: rewriters (their result [pfinal] measured on the unprotected twin
   site), basicauth, internal (when configured), proxy to a backend that records the paths it sees *)
| CChain (cs : bool) (is_options : bool) (pfinal : bytes) (rules : list rule) (has_internal : bool)
         (ipaths : list bytes) (script : list (bytes * bytes)) (xreq : bytes)
         (obs_status : N) (obs_touched : list bytes)
(* source scan: files under caskethttp/ assigning r.URL.Path *)
| CAssigners (obs : list bytes)
(* full site with `internal ipaths` and browse: the entries a listing (HTML or JSON) of the
   directory named by URL path p shows / the members of its archive, as names relative to that
   directory; kids = what is on disk below it *)
| CHide (ipaths : list bytes) (p : bytes) (is_archive : bool) (kids : list node) (obs : list bytes)
(* full site with `internal ipaths` and no content handler but the static file server: canonical
   names of the files whose planted tokens the decoded answer to GET p contains *)
| CServe (ipaths idx exts files dirs : list bytes) (p : bytes) (obs : list bytes)
(* a server block with n addresses: the same request sent to every address, each address's answer
   judged as a single site's would be (CDisc / CHide / CServe), in the order of the block's keys *)
| CBlock (n : nat) (per_addr : list case)
(* basicauth.GetHtpasswdMatcher on a file with this text, for this user, applied to these passwords;
   truth: what the generator knows (None: it wrote a file that cannot be loaded for this user) *)
| CHtMatch (text user : bytes) (tbl : list (bytes * bytes * bytes)) (pws : list bytes)
           (truth obs : option (list bool))
(* a running site with htpasswd-file rules: a sequence of requests, file replacements and restarts *)
| CSeq (cs : bool) (rules : list cfg_rule) (tbl : list (bytes * bytes * bytes)) (disk0 : disk)
       (steps : list seq_step).

Definition res_violation (cs opt : bool) (rules : list rule) (ipaths : list bytes) (f : bytes) : bool :=
  (negb opt && existsb (protects_res cs f) rules &&
   negb (existsb (fun ru => protects_res cs f ru && r_creds_ok ru) rules))
  || existsb (under cs f) ipaths.

Definition opt_bools_eqb (a b : option (list bool)) : bool :=
  match a, b with
  | None, None => true
  | Some x, Some y => bool_list_eqb x y
  | _, _ => false
  end.
Fixpoint all_some (l : list (option bool)) : option (list bool) :=
  match l with
  | [] => Some []
  | Some b :: r => option_map (cons b) (all_some r)
  | None :: _ => None
  end.
Definition is_deny (d : decision) : bool := match d with Deny401 => true | Pass => false end.

(* the clause of the property a request of a sequence is held to, on the implementation's own answer:
   [truth] = the rules with the generator's knowledge of whether THIS request's credentials are the
   rule's user's current ones (truth_rules).  Not entitled: 401 and nothing of a protected resource; entitled (and
   not OPTIONS): served normally, 200 with the resource asked for *)
Fixpoint truth_rules (rs : list cfg_rule) (bits : list bool) : list rule :=
  match rs, bits with
  | r :: rs', b :: bits' => {| r_resources := cr_resources r; r_exclude := cr_exclude r; r_creds_ok := b |}
                            :: truth_rules rs' bits'
  | r :: rs', [] => {| r_resources := cr_resources r; r_exclude := cr_exclude r; r_creds_ok := false |}
                    :: truth_rules rs' []
  | [], _ => []
  end.
Definition step_ok (cs : bool) (rs : list cfg_rule) (q : seq_step) : bool :=
  match q with
  | QReq opt path auth bits own st leaked =>
      let truth := truth_rules rs bits in
      let denied := negb opt && existsb (protects cs path) truth &&
                    negb (existsb (fun ru => protects cs path ru && r_creds_ok ru) truth) in
      negb (existsb (res_violation cs opt truth []) leaked) &&
      (if denied then (st =? 401) else opt || beq own [] || ((st =? 200) && memb own leaked))
  | _ => true
  end.

Definition judge_at (blk : option (nat * nat)) (c : case) : N :=
  match c with
  | CMatches cs p base obs => verdict (Bool.eqb (path_matches cs p base) obs) true
  | CAuth cs opt path rules obs =>
      let m := match basicauth_decide cs opt path rules with Deny401 => true | Pass => false end in
      let spec := Bool.eqb obs (negb opt && existsb (protects cs path) rules &&
                                negb (existsb (fun ru => protects cs path ru && r_creds_ok ru) rules)) in
      verdict (Bool.eqb m obs) spec
  | CInternal cs path paths obs =>
      verdict (Bool.eqb (internal_blocks cs path paths) obs) (Bool.eqb obs (existsb (path_matches cs path) paths))
  | CSite unauth disclosed => verdict true (negb (unauth && disclosed))
  | CDisc cs opt rules ipaths leaked =>
      verdict true (negb (existsb (res_violation cs opt rules ipaths) leaked))
  | CAccel cs paths script w0 p xreq st tr =>
      let q := {| q_path := p; q_options := false; q_xaccel := xreq |} in
      let r := internal_serve cs paths (touch (script_h script)) q w0 in
      let blocked := existsb (path_matches cs p) paths in
      let named t := negb (beq t []) &&
                     (existsb (fun e => beq (snd e) t) script || beq t w0 ||
                      (existsb (fun e => beq (snd e) ECHO) script && beq t xreq)) in
      let spec := if blocked then (st =? 404) && list_bytes_eqb tr []
                  else match tr with
                       | first :: rest => beq first p && forallb named rest && Nat.leb (length rest) 10 &&
                                          ((st =? 200) || ((st =? 500) && Nat.eqb (length rest) 10))
                       | [] => false
                       end in
      verdict ((o_status r =? st) && list_bytes_eqb (o_touched r) tr) spec
  | CChain cs opt pfinal rules has_int ipaths script xreq st tr =>
      let q := {| q_path := pfinal; q_options := opt; q_xaccel := xreq |} in
      let stk := [MWriter (fun _ => pfinal); MAuth rules] ++ (if has_int then [MInternal ipaths] else []) in
      let r := run cs stk (script_h script) q [] in
      let denied := negb opt && existsb (protects cs pfinal) rules &&
                    negb (existsb (fun ru => protects cs pfinal ru && r_creds_ok ru) rules) in
      let blocked := has_int && existsb (path_matches cs pfinal) ipaths in
      let spec := if denied then (st =? 401) && list_bytes_eqb tr []
                  else if blocked then (st =? 404) && list_bytes_eqb tr []
                  else match tr with first :: rest => beq first pfinal && (has_int || list_bytes_eqb rest [])
                                   | [] => false end in
      verdict ((o_status r =? st) && list_bytes_eqb (o_touched r) tr) spec
  | CAssigners obs => verdict (list_bytes_eqb obs path_assigners) (list_bytes_eqb obs path_assigners)
  | CHide ipaths p is_arc kids obs =>
      let s := {| hs_initial := []; hs_internal := Some ipaths; hs_browse := true |} in
      let d := resolved p in
      let full := map (child_path d) obs in
      let spec := forallb (outside_internal ipaths) full in
      match option_map ss_browse (hide_state blk s) with
      | Some (Some h) => let exp := if is_arc then map fst (archive h d kids) else listing h d kids in
                         verdict (same_set exp full) spec
      | _ => verdict false spec
      end
  | CServe ipaths idx exts files dirs p obs =>
      let s := {| hs_initial := []; hs_internal := Some ipaths; hs_browse := false |} in
      let spec := forallb (outside_internal ipaths) obs in
      match hide_state blk s with
      | Some st =>
          let exp := if internal_blocks false p ipaths then []
                     else match fs_serve (ss_hidden st) idx exts files dirs p with Some f => [f] | None => [] end in
          verdict (same_set exp obs) spec
      | None => verdict false spec
      end
  | CBlock _ _ => 1                                   (* blocks do not nest *)
  | CHtMatch text user tbl pws truth obs =>
      let m := all_some (map (file_accepts (tbl_hashes tbl) text user) pws) in
      verdict (opt_bools_eqb m obs) (opt_bools_eqb truth obs)
  | CSeq cs rules tbl d0 steps =>
      let H := tbl_hashes tbl in
      let spec := forallb (step_ok cs rules) steps in
      match setup_rules H d0 [] rules with
      | (Some ls, c) =>
          let s0 := {| sv_disk := d0; sv_cache := c; sv_live := ls; sv_loaded := d0 |} in
          let m := srv_run H cs rules s0 (map seq_event steps) in
          verdict (bool_list_eqb (map is_deny m) (seq_obs steps)) spec
      | (None, _) => verdict false spec               (* the case is emitted for a site that started *)
      end
  end.

Fixpoint judge_addrs (n j : nat) (l : list case) : N :=
  match l with
  | [] => 0
  | c :: r => N.lor (judge_at (Some (n, j)) c) (judge_addrs n (S j) r)
  end.

Definition judge (c : case) : N :=
  match c with
  | CBlock n l => if Nat.eqb (length l) n && Nat.leb 2 n then judge_addrs n 0 l else 1
  | _ => judge_at None c
  end.
