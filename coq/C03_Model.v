(* C03 — protected paths: executable model of basicauth.BasicAuth.ServeHTTP's decision, of
   internalsrv.Internal's path test and of the path the static file resolver opens. *)
Require Import V.Lib V.GoPath.
Open Scope N_scope.

Record rule := { r_resources : list bytes; r_exclude : list bytes; r_creds_ok : bool }.

(* inner loop over one rule's resources; (protected, authenticated) threaded through *)
Fixpoint rule_loop (cs : bool) (path : bytes) (excl : list bytes) (ok : bool)
         (ress : list bytes) (st : bool * bool) : bool * bool :=
  match ress with
  | [] => st
  | res :: r =>
      if negb (path_matches cs path res) then rule_loop cs path excl ok r st
      else if existsb (path_matches cs path) excl then st           (* continue ruleLoop *)
      else rule_loop cs path excl ok r (true, snd st || ok)
  end.

Definition rule_step (cs : bool) (path : bytes) (st : bool * bool) (ru : rule) : bool * bool :=
  rule_loop cs path (r_exclude ru) (r_creds_ok ru) (r_resources ru) st.

Inductive decision := Pass | Deny401.

Definition basicauth_decide (cs : bool) (is_options : bool) (path : bytes) (rules : list rule) : decision :=
  if is_options then Pass
  else let '(prot, auth) := fold_left (rule_step cs path) rules (false, false) in
       if prot && negb auth then Deny401 else Pass.

(* declarative: a rule protects the path when one of its resources matches and no exclusion does *)
Definition protects (cs : bool) (path : bytes) (ru : rule) : bool :=
  existsb (path_matches cs path) (r_resources ru) && negb (existsb (path_matches cs path) (r_exclude ru)).

(* internal: any listed prefix matches => 404 *)
Definition internal_blocks (cs : bool) (path : bytes) (paths : list bytes) : bool :=
  existsb (path_matches cs path) paths.

(* the file the static resolver opens for URL path p: http.Dir.Open cleans "/" ++ p *)
Definition resolved (p : bytes) : bytes := clean (SLASH :: p).

(* ---- cases ---- *)
Inductive case :=
| CMatches (cs : bool) (p base : bytes) (obs : bool)
| CAuth (cs : bool) (is_options : bool) (path : bytes) (rules : list rule) (obs_denied : bool)
| CInternal (cs : bool) (path : bytes) (paths : list bytes) (obs_blocked : bool)
(* full site: which protection scopes cover the canonical file (computed by the harness from
   the fixture), did the request carry valid credentials, was a protected token disclosed *)
| CSite (unauth : bool) (disclosed : bool).

Definition judge (c : case) : N :=
  match c with
  | CMatches cs p base obs => verdict (Bool.eqb (path_matches cs p base) obs) true
  | CAuth cs opt path rules obs =>
      let m := match basicauth_decide cs opt path rules with Deny401 => true | Pass => false end in
      let spec := Bool.eqb obs (negb opt && existsb (protects cs path) rules &&
                                negb (existsb (fun ru => protects cs path ru && r_creds_ok ru) rules)) in
      verdict (Bool.eqb m obs) spec
  | CInternal cs path paths obs =>
      verdict (Bool.eqb (internal_blocks cs path paths) obs) (Bool.eqb obs (existsb (path_matches cs path) paths))
  | CSite unauth disclosed => verdict true (negb (unauth && disclosed))
  end.
