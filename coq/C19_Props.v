(* C19 — property theorems only.  Each is closed by [exact] of a lemma proved in C19_Proofs.v
   and followed by Print Assumptions.  "No panic" is stated over the models with CHECKED
   indexing/slicing (an out-of-range index or slice, or running out of loop fuel, is [Panic]). *)
Require Import V.Lib V.C19_Model V.C19_Proofs V.C19_ProofsHello V.C19_ProofsWire V.C19_ProofsSeq.
Open Scope N_scope.

(* ---- TLS ClientHello parser: total on every byte string ---- *)
Theorem C19_parse_raw_client_hello_no_panic :
  forall data : bytes, parse_raw_client_hello data <> Panic.
Proof. exact parse_no_panic. Qed.
Print Assumptions C19_parse_raw_client_hello_no_panic.

(* ---- interception heuristics ---- *)
Theorem C19_looks_like_chrome_edge_safari_tor_no_panic :
  forall inf : info,
    looks_like_chrome inf <> Panic /\ looks_like_edge inf <> Panic /\
    looks_like_safari inf <> Panic /\ looks_like_tor inf <> Panic.
Proof. exact chrome_edge_safari_tor_no_panic. Qed.
Print Assumptions C19_looks_like_chrome_edge_safari_tor_no_panic.

(* looksLikeFirefox (repaired: the optional extra curves 256, 257 are compared only after the
   length of the curve list is checked) is total as well *)
Theorem C19_looks_like_firefox_no_panic : forall inf : info, looks_like_firefox inf <> Panic.
Proof. exact looks_like_firefox_no_panic. Qed.
Print Assumptions C19_looks_like_firefox_no_panic.

(* the former panic witness (Firefox extension order, curves 29,23,24,25,256) is now "not Firefox" *)
Example C19_looks_like_firefox_five_curves : looks_like_firefox ff_witness = Ok false.
Proof. exact ff_witness_false. Qed.

(* tlsHandler.ServeHTTP's decision, for every hello info, User-Agent string, header flags and
   version oracle *)
Theorem C19_mitm_check_no_panic :
  forall inf ua bluecoat fcckv2 torver, mitm_check inf ua bluecoat fcckv2 torver <> Panic.
Proof. exact mitm_check_no_panic. Qed.
Print Assumptions C19_mitm_check_no_panic.

(* getVersion on every User-Agent / software name *)
Theorem C19_get_version_no_panic : forall ua name : bytes, get_version_str ua name <> Panic.
Proof. exact get_version_no_panic. Qed.
Print Assumptions C19_get_version_no_panic.

(* ---- clientHelloConn.Read ---- *)
(* total from every state, for every sequence of reads *)
Theorem C19_client_hello_conn_no_panic :
  forall (c : conn) (segs : list bytes), conn_run c segs <> Panic.
Proof. exact conn_no_panic. Qed.
Print Assumptions C19_client_hello_conn_no_panic.

(* clientHelloConn.Read (repaired: the 5-byte record header is peeked and stays in the tee buffer
   until the body it announces has arrived).  What is recorded is a function of the bytes
   delivered, whatever the reads they arrived in: ANY two read sequences that deliver the same
   bytes (arbitrary bytes, not only well-formed records; empty reads included) record the same *)
Theorem C19_hello_info_segmentation_independent :
  forall segs1 segs2 : list bytes,
    concat segs1 = concat segs2 ->
    exists st1 st2, conn_run conn0 segs1 = Ok st1 /\ conn_run conn0 segs2 = Ok st2 /\
                    c_recorded st1 = c_recorded st2.
Proof. exact segmentation_independent. Qed.
Print Assumptions C19_hello_info_segmentation_independent.

Example C19_hello_info_segmentation_independent_nonvacuous :
  concat [seg_hdr ++ firstn 5 seg_body; skipn 5 seg_body] = concat [seg_hdr ++ seg_body].
Proof. reflexivity. Qed.

(* ... namely [recorded_of] of the bytes: nothing before a complete record, then its parse *)
Theorem C19_hello_info_is_function_of_bytes :
  forall segs : list bytes,
    exists st, conn_run conn0 segs = Ok st /\ c_recorded st = recorded_of (concat segs).
Proof. exact conn_run_recorded. Qed.
Print Assumptions C19_hello_info_is_function_of_bytes.

(* for every record (5-byte header whose length field matches the body, arbitrary trailing bytes)
   and EVERY segmentation of it, the recorded info is the parse of the body *)
Theorem C19_hello_info_every_segmentation :
  forall (hdr body rest : bytes) (segs : list bytes),
    length hdr = 5%nat ->
    N.to_nat (u16 (nth 3 hdr 0) (nth 4 hdr 0)) = length body ->
    concat segs = hdr ++ body ++ rest ->
    exists st inf, conn_run conn0 segs = Ok st /\ parse_raw_client_hello body = Ok inf /\
                   c_recorded st = Some inf.
Proof. exact segmentation_full. Qed.
Print Assumptions C19_hello_info_every_segmentation.

(* the segmentation that refuted the statement for the unrepaired code (a read ending 5 bytes
   into the body) is covered *)
Example C19_hello_info_every_segmentation_nonvacuous :
  let segs := [seg_hdr ++ firstn 5 seg_body; skipn 5 seg_body ++ [7; 7]] in
  length seg_hdr = 5%nat /\
  N.to_nat (u16 (nth 3 seg_hdr 0) (nth 4 seg_hdr 0)) = length seg_body /\
  concat segs = seg_hdr ++ seg_body ++ [7; 7].
Proof. vm_compute. repeat split; reflexivity. Qed.

(* and as long as the record is incomplete nothing is recorded *)
Theorem C19_hello_info_incomplete_record :
  forall (hdr body : bytes) (segs : list bytes) (k : nat),
    length hdr = 5%nat ->
    N.to_nat (u16 (nth 3 hdr 0) (nth 4 hdr 0)) = length body ->
    (k < 5 + length body)%nat ->
    concat segs = firstn k (hdr ++ body) ->
    exists st, conn_run conn0 segs = Ok st /\ c_recorded st = None.
Proof. exact segmentation_incomplete. Qed.
Print Assumptions C19_hello_info_incomplete_record.

Example C19_hello_info_incomplete_record_nonvacuous :
  concat [seg_hdr; firstn 5 seg_body] = firstn 10 (seg_hdr ++ seg_body) /\ (10 < 5 + length seg_body)%nat.
Proof. vm_compute. split; [reflexivity|]. repeat constructor. Qed.

(* ---- Link headers coming from upstream (push middleware) ---- *)
(* parseLinkHeader (repaired: a comma piece whose '>' precedes its first '<' is skipped like a
   piece without brackets) is total on every header value *)
Theorem C19_parse_link_header_no_panic : forall h : bytes, parse_link_header h <> Panic.
Proof. exact parse_link_header_no_panic. Qed.
Print Assumptions C19_parse_link_header_no_panic.

(* ... and so is the push middleware's loop over all Link values, for every pusher failure point *)
Theorem C19_serve_preload_links_no_panic :
  forall (values : list bytes) (n : nat) (failat : option nat),
    serve_preload_links values n failat <> Panic.
Proof. exact serve_preload_links_no_panic. Qed.
Print Assumptions C19_serve_preload_links_no_panic.

(* the former panic class yields no resource *)
Theorem C19_parse_link_skips_gt_before_lt :
  forall link : bytes, gt_before_lt link = true -> parse_link link = Ok None.
Proof. exact parse_link_skips. Qed.
Print Assumptions C19_parse_link_skips_gt_before_lt.

Example C19_parse_link_skips_gt_before_lt_nonvacuous : gt_before_lt [GT; LT] = true.
Proof. reflexivity. Qed.

(* ---- FastCGI bytes coming from the backend ---- *)
Theorem C19_record_read_no_panic : forall s : bytes, record_read s <> Panic.
Proof. exact record_read_no_panic. Qed.
Print Assumptions C19_record_read_no_panic.

Theorem C19_stream_read_no_panic : forall s : bytes, stream_read_all s <> Panic.
Proof. exact stream_read_no_panic. Qed.
Print Assumptions C19_stream_read_no_panic.

(* ... and what the reader hands on is exactly the backend's stdout: for EVERY list of well-formed
   records (any types, stderr diverted, any padding, empty records included), ended by an
   end-request record or by closing the connection, the caller gets the concatenated contents
   followed by io.EOF (error class 1) *)
Theorem C19_stream_decodes_records :
  forall (rs : list frec) (closed : bool), forallb frec_wf rs = true ->
    stream_read_all (flat_map enc_rec rs ++ (if closed then [] else end_request)) = Ok (stdout_of rs, 1).
Proof. exact stream_decodes. Qed.
Print Assumptions C19_stream_decodes_records.

Example C19_stream_decodes_records_nonvacuous :
  forallb frec_wf [mkRec 6 [104; 105] 6; mkRec 7 [33] 7; mkRec 6 [] 0] = true.
Proof. reflexivity. Qed.

(* the Status header (repaired: FCGIClient.Request returns an error for a code outside 100..999,
   which the handler answers with 502): serving never reaches WriteHeader's panic, and a header
   is only written with a code in 100..999 *)
Theorem C19_fcgi_status_no_panic : forall v : bytes, fcgi_status v <> Panic.
Proof. exact fcgi_status_no_panic. Qed.
Print Assumptions C19_fcgi_status_no_panic.

Theorem C19_fcgi_status_written_in_range :
  forall (v : bytes) (c : Z), fcgi_status v = Ok (Some c) -> (100 <= c <= 999)%Z.
Proof. exact fcgi_status_written. Qed.
Print Assumptions C19_fcgi_status_written_in_range.

Example C19_fcgi_status_written_in_range_nonvacuous :
  fcgi_status [52; 48; 52; 32; 78] = Ok (Some 404%Z) /\ fcgi_status [57; 57] = Ok None.
Proof. split; reflexivity. Qed.

(* ---- request-derived FastCGI params, request path ---- *)
(* writePairs (repaired: the cut length is clamped at 0 when the name leaves no room; the size
   test is on the encoded pair) *)
Theorem C19_write_pair_no_panic :
  forall klen vlen : Z, (0 <= klen)%Z -> (0 <= vlen)%Z -> write_pair_len klen vlen <> Panic.
Proof. exact write_pair_no_panic. Qed.
Print Assumptions C19_write_pair_no_panic.

(* a pair that fits one record is sent whole; otherwise the value is cut so that
   8+len(k)+len(v') = 65500, or to nothing when the name is longer than 65492 bytes *)
Theorem C19_write_pair_truncation :
  forall klen vlen l : Z, (0 <= klen)%Z -> (0 <= vlen)%Z ->
    write_pair_len klen vlen = Ok l ->
    (0 <= l <= vlen)%Z /\
    ((enc_pair_len klen vlen <= 65500)%Z -> l = vlen) /\
    ((65500 < enc_pair_len klen vlen)%Z -> (8 + klen + l = 65500)%Z \/ ((65492 < klen)%Z /\ l = 0%Z)).
Proof. exact write_pair_spec. Qed.
Print Assumptions C19_write_pair_truncation.

Example C19_write_pair_truncation_nonvacuous :
  write_pair_len 20 70000 = Ok 65472%Z /\ write_pair_len 65493 5 = Ok 0%Z /\
  write_pair_len 10 65485 = Ok 65485%Z.
Proof. repeat split; reflexivity. Qed.

(* the path gate (repaired: strings.HasSuffix(fpath, "/") instead of fpath[len(fpath)-1]) *)
Theorem C19_fcgi_path_gate_no_panic :
  forall fpath file_exists suffix_ok, fcgi_path_gate fpath file_exists suffix_ok <> Panic.
Proof. exact fcgi_path_gate_no_panic. Qed.
Print Assumptions C19_fcgi_path_gate_no_panic.

(* ---- placeholders: Replace's scanning loops and getSubstitution's indexing are total for
   EVERY template and EVERY substitution values (request headers, cookies, query, host labels) ---- *)
Theorem C19_replace_no_panic :
  forall (subst : N -> bytes -> bytes) (template : bytes), replace subst template <> Panic.
Proof. exact replace_no_panic. Qed.
Print Assumptions C19_replace_no_panic.

(* getSubstitution's index expressions (key[1], key[2:len-1], key[6:len-1]) are in range on every
   key that ends in an unescaped closing brace — the only keys Replace produces *)
Theorem C19_subst_key_no_panic :
  forall (t : bytes) (x : N), x <> BSL -> subst_key (t ++ [x; RB]) <> Panic.
Proof. exact subst_key_no_panic. Qed.
Print Assumptions C19_subst_key_no_panic.

Example C19_subst_key_no_panic_nonvacuous :
  subst_key [123; 62; 125] = Ok (1, []) /\ subst_key (lit_label_13 ++ [125]) = Ok (6, []).
Proof. split; reflexivity. Qed.

(* ============================================================================================ *)
(* what is recorded is EXACTLY the peer's hello                                                 *)
(* ============================================================================================ *)
(* the functional theorem of parseRawClientHello: for EVERY structured hello (version, random,
   session id, cipher suites, compression methods, extensions: supported_groups, ec_point_formats
   and ANY other extension type with ANY body — server_name, ALPN, unknown ones) whose lengths fit
   their 1/2-byte prefixes, parsing the encoding returns the fields it was built from (the LAST
   supported_groups / ec_point_formats extension wins).  Proved by induction over the extension list *)
Theorem C19_parse_encode_roundtrip :
  forall h : hello, hello_wf h = true -> parse_raw_client_hello (encode_hello h) = Ok (info_of h).
Proof. exact parse_encode_roundtrip. Qed.
Print Assumptions C19_parse_encode_roundtrip.

Example C19_parse_encode_roundtrip_nonvacuous :
  let h := mkHello 771 (repeat 7 32) [1; 2; 3] [4865; 49195; 2570] [0]
             [e_server_name (bs "a.test"%string); EOther 23 []; ECurves [2570; 29; 23; 24]; EPoints [0];
              e_alpn [(bs "h2"%string); (bs "http/1.1"%string)]; EOther 65281 [0]; ECurves [29]; EOther 4660 [255; 0; 1]] in
  hello_wf h = true /\
  info_of h = mkInfo 771 [4865; 49195; 2570] [0; 23; 10; 11; 16; 65281; 10; 4660] [0] [29] [0].
Proof. split; reflexivity. Qed.

(* the well-formedness guard is what makes the encoding a BYTE string (every element < 256) *)
Theorem C19_encode_hello_is_bytes :
  forall h : hello, hello_wf h = true -> forallb byte_ok (encode_hello h) = true.
Proof. exact encode_hello_bytes. Qed.
Print Assumptions C19_encode_hello_is_bytes.

(* bytes AFTER the hello in the buffer handed to the parser are NOT ignored in general ... *)
Theorem C19_parse_ignores_trailing_garbage_refuted :
  exists (h : hello) (g : bytes), hello_wf h = true /\
    parse_raw_client_hello (encode_hello h ++ g) <> Ok (info_of h).
Proof.
  exists (mkHello 771 (repeat 7 32) [] [4865] [0] [EOther 15 [1]]), [0].
  split; [reflexivity|]. vm_compute. discriminate.
Qed.
Print Assumptions C19_parse_ignores_trailing_garbage_refuted.

(* ... precisely: with ANY non-empty trailing bytes, version / suites / compression methods are
   still the hello's and the extension list, curves and points come out EMPTY (the parser
   requires the extensions length to cover the rest of its input) — so a peer that puts a second
   handshake message into the record of its ClientHello is recorded as a hello WITHOUT extensions *)
Theorem C19_parse_ignores_trailing_garbage_partial :
  forall (h : hello) (g : bytes), hello_wf h = true -> g <> [] ->
    parse_raw_client_hello (encode_hello h ++ g) = Ok (info_of (without_exts h)).
Proof. exact parse_trailing_garbage. Qed.
Print Assumptions C19_parse_ignores_trailing_garbage_partial.

(* and trailing bytes ARE ignored exactly when the hello has no extensions *)
Theorem C19_parse_ignores_trailing_garbage_without_extensions :
  forall (h : hello) (g : bytes), hello_wf h = true -> h_exts h = [] ->
    parse_raw_client_hello (encode_hello h ++ g) = Ok (info_of h).
Proof. exact parse_trailing_garbage_noexts. Qed.
Print Assumptions C19_parse_ignores_trailing_garbage_without_extensions.

Example C19_parse_ignores_trailing_garbage_nonvacuous :
  hello_wf (mkHello 771 (repeat 7 32) [] [4865] [0] []) = true /\ [0; 1] <> @nil N.
Proof. split; [reflexivity|discriminate]. Qed.

(* TRUNCATION: every strict prefix of the encoding of a well-formed hello is recorded as one of
   four prefixes of the peer's fields, decided by where the cut falls: nothing (< 42 bytes), the
   version, version + cipher suites, version + suites + compression methods — never extensions,
   curves or points, and never a value that is not the peer's *)
Theorem C19_parse_prefix_stages :
  forall (h : hello) (k : nat), hello_wf h = true -> (k < length (encode_hello h))%nat ->
    parse_raw_client_hello (firstn k (encode_hello h)) = Ok (stage_info h (cut_stage h k)).
Proof. exact parse_prefix. Qed.
Print Assumptions C19_parse_prefix_stages.

Example C19_parse_prefix_stages_nonvacuous :
  let h := mkHello 771 (repeat 7 32) [1; 2; 3; 4; 5] [4865; 49195] [0] [ECurves [29]] in
  hello_wf h = true /\ length (encode_hello h) = 62%nat /\
  map (cut_stage h) [41; 42; 43; 49; 50; 51; 52; 61]%nat = [0; 1; 1; 1; 2; 2; 3; 3]%nat.
Proof. vm_compute. repeat split. Qed.

(* END TO END: for every well-formed hello, every 3 leading record-header bytes, ANY bytes
   following the record and EVERY way the network splits all of that into reads (empty reads
   included), clientHelloConn records info_of h — exactly the peer's hello *)
Theorem C19_recorded_is_peer_hello :
  forall (h : hello) (hdr3 rest : bytes) (segs : list bytes),
    hello_wf h = true -> length hdr3 = 3%nat -> nlen (encode_hello h) < 65536 ->
    concat segs = tls_record hdr3 (encode_hello h) ++ rest ->
    exists st, conn_run conn0 segs = Ok st /\ c_recorded st = Some (info_of h).
Proof. exact recorded_is_peer_hello. Qed.
Print Assumptions C19_recorded_is_peer_hello.

Example C19_recorded_is_peer_hello_nonvacuous :
  let h := pool_hello_b in
  let w := tls_record [22; 3; 1] (encode_hello h) ++ [23; 3; 3] in
  hello_wf h = true /\ nlen (encode_hello h) < 65536 /\
  concat [firstn 3 w; []; firstn 40 (skipn 3 w); skipn 43 w] = w.
Proof. vm_compute. repeat split. Qed.

(* ... and nothing at all while the record is incomplete *)
Theorem C19_recorded_nothing_before_hello_complete :
  forall (h : hello) (hdr3 : bytes) (segs : list bytes) (k : nat),
    length hdr3 = 3%nat -> nlen (encode_hello h) < 65536 ->
    (k < 5 + length (encode_hello h))%nat ->
    concat segs = firstn k (tls_record hdr3 (encode_hello h)) ->
    exists st, conn_run conn0 segs = Ok st /\ c_recorded st = None.
Proof. exact recorded_nothing_before_complete. Qed.
Print Assumptions C19_recorded_nothing_before_hello_complete.

Example C19_recorded_nothing_before_hello_complete_nonvacuous :
  let w := tls_record [22; 3; 1] (encode_hello pool_hello_b) in
  concat [firstn 9 w; firstn 20 (skipn 9 w)] = firstn 29 w /\ (29 < 5 + length (encode_hello pool_hello_b))%nat.
Proof. vm_compute. split; [reflexivity|]. repeat constructor. Qed.

(* ---- bytes of ANOTHER connection are never recorded for this one ---- *)
(* tlsHelloListener.Accept draws the tee buffer from a pool and empties it (buf.Reset()).  For
   EVERY initial pool contents (whatever earlier connections left in their buffers), EVERY
   interleaving of Accepts and Reads of any number of connections and EVERY choice of pooled
   buffer, what is recorded for a connection is recorded_of of the bytes THAT connection delivered
   since it was accepted *)
Theorem C19_accept_isolates_connections :
  forall (pool : list bytes) (evs : list ev),
    exists st, l_run true (l_init pool) evs = Ok st /\
      forall id, recorded_for st id =
                 match own_segs evs id with
                 | Some segs => recorded_of (concat segs)
                 | None => None
                 end.
Proof. exact accept_isolates. Qed.
Print Assumptions C19_accept_isolates_connections.

Example C19_accept_isolates_connections_witness :
  exists st, l_run true (l_init []) pool_witness = Ok st /\
             recorded_for st 2%nat = Some (info_of pool_hello_b) /\
             recorded_for st 1%nat = Some (info_of pool_hello_a).
Proof. exact reset_witness. Qed.

(* WHY the Reset matters (the seeded change C19-m3 removes it): the same schedule without it
   records for connection 2 the hello that connection 1 appended to its own — not the hello
   connection 2 sent *)
Theorem C19_accept_without_reset_leaks :
  exists st, l_run false (l_init []) pool_witness = Ok st /\
             own_segs pool_witness 2%nat = Some [pool_rec pool_hello_b] /\
             recorded_of (pool_rec pool_hello_b) = Some (info_of pool_hello_b) /\
             recorded_for st 2%nat = Some (info_of pool_hello_x).
Proof. exact no_reset_leaks. Qed.
Print Assumptions C19_accept_without_reset_leaks.

(* in general a connection that starts on a buffer holding [stale] bytes records a function of
   stale ++ its own bytes as soon as it reads *)
Theorem C19_stale_buffer_is_recorded :
  forall (stale seg : bytes) (segs : list bytes),
    exists st, conn_run (mkConn false stale None) (seg :: segs) = Ok st /\
               c_recorded st = recorded_of (stale ++ concat (seg :: segs)).
Proof. exact stale_buffer_recorded. Qed.
Print Assumptions C19_stale_buffer_is_recorded.

(* ============================================================================================ *)
(* FastCGI: ANY byte string from the backend in ANY read segmentation (short reads)             *)
(* ============================================================================================ *)
(* record.read over a connection that delivers the bytes in arbitrary pieces behaves exactly as on
   the whole byte string: same error class, same type and content, and what is left on the
   connection is the same bytes *)
Theorem C19_record_read_short_reads :
  forall segs : list bytes,
    match record_read (concat segs) with
    | Ok (RErr e) => record_read_seg false segs = Ok (SErr e)
    | Ok (RRec t c rest) => exists segs', record_read_seg false segs = Ok (SRec t c segs') /\ concat segs' = rest
    | Panic => False
    end.
Proof. exact record_read_seg_flat. Qed.
Print Assumptions C19_record_read_short_reads.

Theorem C19_stream_short_reads_no_panic :
  forall segs : list bytes, stream_read_segs false segs <> Panic.
Proof. exact stream_segs_no_panic. Qed.
Print Assumptions C19_stream_short_reads_no_panic.

Theorem C19_stream_short_reads_exact :
  forall segs : list bytes, stream_read_segs false segs = stream_read_all (concat segs).
Proof. exact stream_segs_flat. Qed.
Print Assumptions C19_stream_short_reads_exact.

(* the backend's stdout, exactly, for every list of well-formed records (content up to 65535,
   padding up to 255: sums above 65535 included) in every read segmentation *)
Theorem C19_stream_short_reads_decode_records :
  forall (rs : list frec) (closed : bool) (segs : list bytes), forallb frec_wf rs = true ->
    concat segs = flat_map enc_rec rs ++ (if closed then [] else end_request) ->
    stream_read_segs false segs = Ok (stdout_of rs, 1).
Proof. exact stream_segs_decodes. Qed.
Print Assumptions C19_stream_short_reads_decode_records.

Example C19_stream_short_reads_decode_records_nonvacuous :
  let rs := [mkRec 6 [104; 105] 6; mkRec 7 [33] 7] in
  let w := flat_map enc_rec rs ++ end_request in
  forallb frec_wf rs = true /\ concat [firstn 3 w; firstn 6 (skipn 3 w); []; skipn 9 w] = w.
Proof. vm_compute. split; reflexivity. Qed.

(* a record that is read consumes exactly 8 + ContentLength + PaddingLength bytes and returns
   exactly the ContentLength bytes after the header — for EVERY header, the sum is not wrapped *)
Theorem C19_record_read_consumes_exactly :
  forall (s : bytes) (t : N) (c rest : bytes), record_read s = Ok (RRec t c rest) ->
    exists pre pad, s = pre ++ c ++ pad ++ rest /\ length pre = 8%nat /\
      length c = N.to_nat (u16 (nth 4 s 0) (nth 5 s 0)) /\ length pad = N.to_nat (nth 6 s 0).
Proof. exact record_read_consumes. Qed.
Print Assumptions C19_record_read_consumes_exactly.

Example C19_record_read_consumes_exactly_nonvacuous :
  record_read (enc_rec (mkRec 6 [104; 105] 3) ++ [9]) = Ok (RRec 6 [104; 105] [9]).
Proof. reflexivity. Qed.

(* WHY the sum must be taken in int (seeded C19-m2 / C19-m4 take it in uint16): with the wrapped
   sum a record with ContentLength 65535 and PaddingLength 1 makes rec.rbuf[:ContentLength]
   panic; the code as it is reads it whole *)
Theorem C19_record_read_wrapped_sum_panics :
  is_panic (record_read_seg true [wrap_witness]) = true /\
  reads_whole (record_read_seg false [wrap_witness]) 6 (rep 97 65535) = true.
Proof. exact wrapped_sum_panics. Qed.
Print Assumptions C19_record_read_wrapped_sum_panics.

(* ============================================================================================ *)
(* the remaining casket-owned index expressions on peer bytes                                   *)
(* ============================================================================================ *)
(* {labelN}: labels[n-1] of strings.Split(Host, ".") for EVERY Host header and EVERY N text *)
Theorem C19_label_subst_no_panic : forall host nstr : bytes, label_subst host nstr <> Panic.
Proof. exact label_subst_no_panic. Qed.
Print Assumptions C19_label_subst_no_panic.

(* proxy createUpstreamRequest folds the peer's X-Forwarded-For values (ANY number of ANY byte
   strings: commas, spaces, empty values) in front of the connection's address: the last
   comma-separated element of what is forwarded is always that address *)
Theorem C19_xff_last_is_client_ip :
  forall (prior : option (list bytes)) (ip : bytes), ~ In COMMA ip ->
    last (split COMMA (xff_fold prior ip)) [] = match prior with None => ip | Some _ => 32 :: ip end.
Proof. exact xff_last_is_ip. Qed.
Print Assumptions C19_xff_last_is_client_ip.

Example C19_xff_last_is_client_ip_nonvacuous :
  ~ In COMMA (bs "192.0.2.7"%string) /\
  xff_fold (Some [(bs "1.1.1.1, evil"%string); []; (bs ","%string)]) (bs "192.0.2.7"%string) = (bs "1.1.1.1, evil, , ,, 192.0.2.7"%string).
Proof. split; [|reflexivity]. vm_compute. intuition discriminate. Qed.

(* websocket findIncompleteRuneLength(out, len) with len <= len(out): total, and the result is at
   most 3 and at most len, so out[len-remainLen:len] and out[0:len-remainLen] are in range *)
Theorem C19_find_incomplete_rune_length_total :
  forall (p : bytes) (len : nat), (len <= length p)%nat ->
    exists r, find_incomplete_rune_length p len = Ok r /\ (r <= 3)%nat /\ (r <= len)%nat.
Proof. exact firl_ok. Qed.
Print Assumptions C19_find_incomplete_rune_length_total.

Example C19_find_incomplete_rune_length_total_nonvacuous :
  find_incomplete_rune_length [97; 240; 159; 146] 4 = Ok 3%nat /\
  find_incomplete_rune_length [97; 240; 159; 146] 1 = Ok 0%nat.
Proof. split; reflexivity. Qed.

(* HISTORY INDEPENDENCE: the recorded ClientHello of a connection is a function of THAT connection's
   byte stream only — two arbitrary listener histories (any initial pool contents, any other
   connections leaving anything behind, any interleaving, any choice of pooled buffer, any
   segmentation) in which two connections delivered the same bytes record the same thing for them,
   namely recorded_of of those bytes *)
Theorem C19_recorded_independent_of_history :
  forall (pool1 pool2 : list bytes) (evs1 evs2 : list ev) (id1 id2 : nat) (segs1 segs2 : list bytes),
    own_segs evs1 id1 = Some segs1 -> own_segs evs2 id2 = Some segs2 ->
    concat segs1 = concat segs2 ->
    exists st1 st2, l_run true (l_init pool1) evs1 = Ok st1 /\ l_run true (l_init pool2) evs2 = Ok st2 /\
                    recorded_for st1 id1 = recorded_for st2 id2 /\
                    recorded_for st1 id1 = recorded_of (concat segs1).
Proof. exact recorded_history_independent. Qed.
Print Assumptions C19_recorded_independent_of_history.

Example C19_recorded_independent_of_history_nonvacuous :
  own_segs pool_witness 2%nat = Some [pool_rec pool_hello_b] /\
  (own_segs [EvAccept 7 3; EvRead 7 (firstn 9 (pool_rec pool_hello_b)); EvRead 7 (skipn 9 (pool_rec pool_hello_b))] 7%nat
    = Some [firstn 9 (pool_rec pool_hello_b); skipn 9 (pool_rec pool_hello_b)]) /\
  concat [pool_rec pool_hello_b] = concat [firstn 9 (pool_rec pool_hello_b); skipn 9 (pool_rec pool_hello_b)].
Proof. repeat split; reflexivity. Qed.

(* whatever happened on the listener before a connection is accepted (connections that put buffers
   with ANY leftover bytes into the pool, ANY pool to start with) and whichever pooled buffer it is
   handed, the connection records what it would record on a fresh listener *)
Theorem C19_earlier_connections_irrelevant :
  forall (pool : list bytes) (pre evs : list ev) (id k : nat),
    exists st st', l_run true (l_init pool) (pre ++ EvAccept id k :: evs) = Ok st /\
                   l_run true (l_init []) (EvAccept id 0 :: evs) = Ok st' /\
                   recorded_for st id = recorded_for st' id.
Proof. exact earlier_history_irrelevant. Qed.
Print Assumptions C19_earlier_connections_irrelevant.

(* {hostonly} is a contiguous piece of the peer's Host and {server_port} the default or a suffix of
   it, for EVERY Host (empty labels, trailing dots, dots or colons in the port, IPv6 literals,
   unbalanced brackets): the SplitHostPort model (GoNet, firstn/skipn only) has no failing index *)
Theorem C19_hostonly_is_piece_of_host :
  forall host : bytes, exists a b, host = a ++ host_only host ++ b.
Proof. exact host_only_piece. Qed.
Print Assumptions C19_hostonly_is_piece_of_host.

Theorem C19_server_port_is_suffix_of_host :
  forall host : bytes, server_port host = lit_80 \/ exists a, host = a ++ server_port host.
Proof. exact server_port_suffix. Qed.
Print Assumptions C19_server_port_is_suffix_of_host.

(* {labelN} VALUE, full strength: for EVERY Host header and EVERY N text, the model with checked
   indexing (labels[n-1] = Lib.idx) never panics and yields exactly label_spec — the N-th
   dot-separated piece of the Host AS SENT (a port containing dots, empty labels, trailing dots,
   IPv6 literals are split like any other text), the empty value when N is not in 1..#pieces;
   the number of pieces is 1 + the number of dots, whatever else the Host contains *)
Theorem C19_label_subst_value :
  forall host nstr : bytes, label_subst host nstr = Ok (label_spec host nstr).
Proof. exact label_subst_value. Qed.
Print Assumptions C19_label_subst_value.

Theorem C19_label_pieces_count :
  forall host : bytes, length (split 46 host) = S (length (filter (fun c => N.eqb c 46) host)).
Proof. exact label_pieces_count. Qed.
Print Assumptions C19_label_pieces_count.
