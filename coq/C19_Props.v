Require Import V.Lib V.C19_Model V.C19_Proofs.
