(* C19 — property theorems only.  Each is closed by [exact] of a lemma proved in C19_Proofs.v
   and followed by Print Assumptions.  "No panic" is stated over the models with CHECKED
   indexing/slicing (an out-of-range index or slice, or running out of loop fuel, is [Panic]). *)
Require Import V.Lib V.C19_Model V.C19_Proofs.
Open Scope N_scope.

(* ---- TLS ClientHello parser: total on every byte string ---- *)
Theorem C19_parse_raw_client_hello_no_panic :
  forall data : bytes, parse_raw_client_hello data <> Panic.
Proof. exact parse_no_panic. Qed.
Print Assumptions C19_parse_raw_client_hello_no_panic.

(* ---- interception heuristics ---- *)
Theorem C19_looks_like_chrome_edge_safari_tor_no_panic :
  forall inf : info,
    looks_like_chrome inf <> Panic /\ looks_like_edge inf <> Panic /\
    looks_like_safari inf <> Panic /\ looks_like_tor inf <> Panic.
Proof. exact chrome_edge_safari_tor_no_panic. Qed.
Print Assumptions C19_looks_like_chrome_edge_safari_tor_no_panic.

(* looksLikeFirefox (repaired: the optional extra curves 256, 257 are compared only after the
   length of the curve list is checked) is total as well *)
Theorem C19_looks_like_firefox_no_panic : forall inf : info, looks_like_firefox inf <> Panic.
Proof. exact looks_like_firefox_no_panic. Qed.
Print Assumptions C19_looks_like_firefox_no_panic.

(* the former panic witness (Firefox extension order, curves 29,23,24,25,256) is now "not Firefox" *)
Example C19_looks_like_firefox_five_curves : looks_like_firefox ff_witness = Ok false.
Proof. exact ff_witness_false. Qed.

(* tlsHandler.ServeHTTP's decision, for every hello info, User-Agent string, header flags and
   version oracle *)
Theorem C19_mitm_check_no_panic :
  forall inf ua bluecoat fcckv2 torver, mitm_check inf ua bluecoat fcckv2 torver <> Panic.
Proof. exact mitm_check_no_panic. Qed.
Print Assumptions C19_mitm_check_no_panic.

(* getVersion on every User-Agent / software name *)
Theorem C19_get_version_no_panic : forall ua name : bytes, get_version_str ua name <> Panic.
Proof. exact get_version_no_panic. Qed.
Print Assumptions C19_get_version_no_panic.

(* ---- clientHelloConn.Read ---- *)
(* total from every state, for every sequence of reads *)
Theorem C19_client_hello_conn_no_panic :
  forall (c : conn) (segs : list bytes), conn_run c segs <> Panic.
Proof. exact conn_no_panic. Qed.
Print Assumptions C19_client_hello_conn_no_panic.

(* clientHelloConn.Read (repaired: the 5-byte record header is peeked and stays in the tee buffer
   until the body it announces has arrived).  What is recorded is a function of the bytes
   delivered, whatever the reads they arrived in: ANY two read sequences that deliver the same
   bytes (arbitrary bytes, not only well-formed records; empty reads included) record the same *)
Theorem C19_hello_info_segmentation_independent :
  forall segs1 segs2 : list bytes,
    concat segs1 = concat segs2 ->
    exists st1 st2, conn_run conn0 segs1 = Ok st1 /\ conn_run conn0 segs2 = Ok st2 /\
                    c_recorded st1 = c_recorded st2.
Proof. exact segmentation_independent. Qed.
Print Assumptions C19_hello_info_segmentation_independent.

Example C19_hello_info_segmentation_independent_nonvacuous :
  concat [seg_hdr ++ firstn 5 seg_body; skipn 5 seg_body] = concat [seg_hdr ++ seg_body].
Proof. reflexivity. Qed.

(* ... namely [recorded_of] of the bytes: nothing before a complete record, then its parse *)
Theorem C19_hello_info_is_function_of_bytes :
  forall segs : list bytes,
    exists st, conn_run conn0 segs = Ok st /\ c_recorded st = recorded_of (concat segs).
Proof. exact conn_run_recorded. Qed.
Print Assumptions C19_hello_info_is_function_of_bytes.

(* for every record (5-byte header whose length field matches the body, arbitrary trailing bytes)
   and EVERY segmentation of it, the recorded info is the parse of the body *)
Theorem C19_hello_info_every_segmentation :
  forall (hdr body rest : bytes) (segs : list bytes),
    length hdr = 5%nat ->
    N.to_nat (u16 (nth 3 hdr 0) (nth 4 hdr 0)) = length body ->
    concat segs = hdr ++ body ++ rest ->
    exists st inf, conn_run conn0 segs = Ok st /\ parse_raw_client_hello body = Ok inf /\
                   c_recorded st = Some inf.
Proof. exact segmentation_full. Qed.
Print Assumptions C19_hello_info_every_segmentation.

(* the segmentation that refuted the statement for the unrepaired code (a read ending 5 bytes
   into the body) is covered *)
Example C19_hello_info_every_segmentation_nonvacuous :
  let segs := [seg_hdr ++ firstn 5 seg_body; skipn 5 seg_body ++ [7; 7]] in
  length seg_hdr = 5%nat /\
  N.to_nat (u16 (nth 3 seg_hdr 0) (nth 4 seg_hdr 0)) = length seg_body /\
  concat segs = seg_hdr ++ seg_body ++ [7; 7].
Proof. vm_compute. repeat split; reflexivity. Qed.

(* and as long as the record is incomplete nothing is recorded *)
Theorem C19_hello_info_incomplete_record :
  forall (hdr body : bytes) (segs : list bytes) (k : nat),
    length hdr = 5%nat ->
    N.to_nat (u16 (nth 3 hdr 0) (nth 4 hdr 0)) = length body ->
    (k < 5 + length body)%nat ->
    concat segs = firstn k (hdr ++ body) ->
    exists st, conn_run conn0 segs = Ok st /\ c_recorded st = None.
Proof. exact segmentation_incomplete. Qed.
Print Assumptions C19_hello_info_incomplete_record.

Example C19_hello_info_incomplete_record_nonvacuous :
  concat [seg_hdr; firstn 5 seg_body] = firstn 10 (seg_hdr ++ seg_body) /\ (10 < 5 + length seg_body)%nat.
Proof. vm_compute. split; [reflexivity|]. repeat constructor. Qed.

(* ---- Link headers coming from upstream (push middleware) ---- *)
(* parseLinkHeader (repaired: a comma piece whose '>' precedes its first '<' is skipped like a
   piece without brackets) is total on every header value *)
Theorem C19_parse_link_header_no_panic : forall h : bytes, parse_link_header h <> Panic.
Proof. exact parse_link_header_no_panic. Qed.
Print Assumptions C19_parse_link_header_no_panic.

(* ... and so is the push middleware's loop over all Link values, for every pusher failure point *)
Theorem C19_serve_preload_links_no_panic :
  forall (values : list bytes) (n : nat) (failat : option nat),
    serve_preload_links values n failat <> Panic.
Proof. exact serve_preload_links_no_panic. Qed.
Print Assumptions C19_serve_preload_links_no_panic.

(* the former panic class yields no resource *)
Theorem C19_parse_link_skips_gt_before_lt :
  forall link : bytes, gt_before_lt link = true -> parse_link link = Ok None.
Proof. exact parse_link_skips. Qed.
Print Assumptions C19_parse_link_skips_gt_before_lt.

Example C19_parse_link_skips_gt_before_lt_nonvacuous : gt_before_lt [GT; LT] = true.
Proof. reflexivity. Qed.

(* ---- FastCGI bytes coming from the backend ---- *)
Theorem C19_record_read_no_panic : forall s : bytes, record_read s <> Panic.
Proof. exact record_read_no_panic. Qed.
Print Assumptions C19_record_read_no_panic.

Theorem C19_stream_read_no_panic : forall s : bytes, stream_read_all s <> Panic.
Proof. exact stream_read_no_panic. Qed.
Print Assumptions C19_stream_read_no_panic.

(* ... and what the reader hands on is exactly the backend's stdout: for EVERY list of well-formed
   records (any types, stderr diverted, any padding, empty records included), ended by an
   end-request record or by closing the connection, the caller gets the concatenated contents
   followed by io.EOF (error class 1) *)
Theorem C19_stream_decodes_records :
  forall (rs : list frec) (closed : bool), forallb frec_wf rs = true ->
    stream_read_all (flat_map enc_rec rs ++ (if closed then [] else end_request)) = Ok (stdout_of rs, 1).
Proof. exact stream_decodes. Qed.
Print Assumptions C19_stream_decodes_records.

Example C19_stream_decodes_records_nonvacuous :
  forallb frec_wf [mkRec 6 [104; 105] 6; mkRec 7 [33] 7; mkRec 6 [] 0] = true.
Proof. reflexivity. Qed.

(* the Status header (repaired: FCGIClient.Request returns an error for a code outside 100..999,
   which the handler answers with 502): serving never reaches WriteHeader's panic, and a header
   is only written with a code in 100..999 *)
Theorem C19_fcgi_status_no_panic : forall v : bytes, fcgi_status v <> Panic.
Proof. exact fcgi_status_no_panic. Qed.
Print Assumptions C19_fcgi_status_no_panic.

Theorem C19_fcgi_status_written_in_range :
  forall (v : bytes) (c : Z), fcgi_status v = Ok (Some c) -> (100 <= c <= 999)%Z.
Proof. exact fcgi_status_written. Qed.
Print Assumptions C19_fcgi_status_written_in_range.

Example C19_fcgi_status_written_in_range_nonvacuous :
  fcgi_status [52; 48; 52; 32; 78] = Ok (Some 404%Z) /\ fcgi_status [57; 57] = Ok None.
Proof. split; reflexivity. Qed.

(* ---- request-derived FastCGI params, request path ---- *)
(* writePairs (repaired: the cut length is clamped at 0 when the name leaves no room; the size
   test is on the encoded pair) *)
Theorem C19_write_pair_no_panic :
  forall klen vlen : Z, (0 <= klen)%Z -> (0 <= vlen)%Z -> write_pair_len klen vlen <> Panic.
Proof. exact write_pair_no_panic. Qed.
Print Assumptions C19_write_pair_no_panic.

(* a pair that fits one record is sent whole; otherwise the value is cut so that
   8+len(k)+len(v') = 65500, or to nothing when the name is longer than 65492 bytes *)
Theorem C19_write_pair_truncation :
  forall klen vlen l : Z, (0 <= klen)%Z -> (0 <= vlen)%Z ->
    write_pair_len klen vlen = Ok l ->
    (0 <= l <= vlen)%Z /\
    ((enc_pair_len klen vlen <= 65500)%Z -> l = vlen) /\
    ((65500 < enc_pair_len klen vlen)%Z -> (8 + klen + l = 65500)%Z \/ ((65492 < klen)%Z /\ l = 0%Z)).
Proof. exact write_pair_spec. Qed.
Print Assumptions C19_write_pair_truncation.

Example C19_write_pair_truncation_nonvacuous :
  write_pair_len 20 70000 = Ok 65472%Z /\ write_pair_len 65493 5 = Ok 0%Z /\
  write_pair_len 10 65485 = Ok 65485%Z.
Proof. repeat split; reflexivity. Qed.

(* the path gate (repaired: strings.HasSuffix(fpath, "/") instead of fpath[len(fpath)-1]) *)
Theorem C19_fcgi_path_gate_no_panic :
  forall fpath file_exists suffix_ok, fcgi_path_gate fpath file_exists suffix_ok <> Panic.
Proof. exact fcgi_path_gate_no_panic. Qed.
Print Assumptions C19_fcgi_path_gate_no_panic.

(* ---- placeholders: Replace's scanning loops and getSubstitution's indexing are total for
   EVERY template and EVERY substitution values (request headers, cookies, query, host labels) ---- *)
Theorem C19_replace_no_panic :
  forall (subst : N -> bytes -> bytes) (template : bytes), replace subst template <> Panic.
Proof. exact replace_no_panic. Qed.
Print Assumptions C19_replace_no_panic.

(* getSubstitution's index expressions (key[1], key[2:len-1], key[6:len-1]) are in range on every
   key that ends in an unescaped closing brace — the only keys Replace produces *)
Theorem C19_subst_key_no_panic :
  forall (t : bytes) (x : N), x <> BSL -> subst_key (t ++ [x; RB]) <> Panic.
Proof. exact subst_key_no_panic. Qed.
Print Assumptions C19_subst_key_no_panic.

Example C19_subst_key_no_panic_nonvacuous :
  subst_key [123; 62; 125] = Ok (1, []) /\ subst_key (lit_label_13 ++ [125]) = Ok (6, []).
Proof. split; reflexivity. Qed.
