(* C19 — property theorems only.  Each is closed by [exact] of a lemma proved in C19_Proofs.v
   and followed by Print Assumptions.  "No panic" is stated over the models with CHECKED
   indexing/slicing (an out-of-range index or slice, or running out of loop fuel, is [Panic]). *)
Require Import V.Lib V.C19_Model V.C19_Proofs.
Open Scope N_scope.

(* ---- TLS ClientHello parser: total on every byte string ---- *)
Theorem C19_parse_raw_client_hello_no_panic :
  forall data : bytes, parse_raw_client_hello data <> Panic.
Proof. exact parse_no_panic. Qed.
Print Assumptions C19_parse_raw_client_hello_no_panic.

(* ---- interception heuristics ---- *)
Theorem C19_looks_like_chrome_edge_safari_tor_no_panic :
  forall inf : info,
    looks_like_chrome inf <> Panic /\ looks_like_edge inf <> Panic /\
    looks_like_safari inf <> Panic /\ looks_like_tor inf <> Panic.
Proof. exact chrome_edge_safari_tor_no_panic. Qed.
Print Assumptions C19_looks_like_chrome_edge_safari_tor_no_panic.

(* looksLikeFirefox: the statement "never panics" is false of the code as it is *)
Theorem C19_looks_like_firefox_no_panic_refuted : exists inf : info, looks_like_firefox inf = Panic.
Proof. exact looks_like_firefox_refuted. Qed.
Print Assumptions C19_looks_like_firefox_no_panic_refuted.

(* ... and it panics exactly on hellos with the Firefox extension order whose curve list is
   29,23,24,25,256 (five curves): everywhere else it is total *)
Theorem C19_looks_like_firefox_no_panic_partial :
  forall inf : info,
    looks_like_firefox inf = Panic <->
    (assert_presence_and_ordering ff_exts (i_exts inf) true = true /\
     i_curves inf = [29; 23; 24; 25; 256]).
Proof. exact looks_like_firefox_panic_iff. Qed.
Print Assumptions C19_looks_like_firefox_no_panic_partial.

(* tlsHandler.ServeHTTP's decision, for every User-Agent string, header flags and version oracle *)
Theorem C19_mitm_check_no_panic_refuted :
  exists inf ua, mitm_check inf ua false false false = Panic.
Proof. exact mitm_check_refuted. Qed.
Print Assumptions C19_mitm_check_no_panic_refuted.

Theorem C19_mitm_check_no_panic_partial :
  forall inf ua bluecoat fcckv2 torver,
    ~ (assert_presence_and_ordering ff_exts (i_exts inf) true = true /\
       i_curves inf = [29; 23; 24; 25; 256]) ->
    mitm_check inf ua bluecoat fcckv2 torver <> Panic.
Proof. exact mitm_check_no_panic_partial. Qed.
Print Assumptions C19_mitm_check_no_panic_partial.

Example C19_mitm_check_no_panic_partial_nonvacuous :
  ~ (assert_presence_and_ordering ff_exts (i_exts info0) true = true /\
     i_curves info0 = [29; 23; 24; 25; 256]).
Proof. intros [H _]. vm_compute in H. discriminate. Qed.

(* getVersion on every User-Agent / software name *)
Theorem C19_get_version_no_panic : forall ua name : bytes, get_version_str ua name <> Panic.
Proof. exact get_version_no_panic. Qed.
Print Assumptions C19_get_version_no_panic.

(* ---- clientHelloConn.Read ---- *)
(* total from every state, for every sequence of reads *)
Theorem C19_client_hello_conn_no_panic :
  forall (c : conn) (segs : list bytes), conn_run c segs <> Panic.
Proof. exact conn_no_panic. Qed.
Print Assumptions C19_client_hello_conn_no_panic.

(* "what is recorded does not depend on the segmentation" is false of the code as it is:
   a record, a segmentation of it, and the info recorded differs from the parse of the record *)
Theorem C19_hello_info_segmentation_independent_refuted :
  exists hdr body segs,
    length hdr = 5%nat /\ N.to_nat (u16 (nth 3 hdr 0) (nth 4 hdr 0)) = length body /\
    concat segs = hdr ++ body /\
    exists st inf, conn_run conn0 segs = Ok st /\ parse_raw_client_hello body = Ok inf /\
                   c_recorded st <> Some inf.
Proof. exact segmentation_refuted. Qed.
Print Assumptions C19_hello_info_segmentation_independent_refuted.

(* strongest true statement: for every record (5-byte header whose length field matches the
   body, arbitrary trailing bytes) and EVERY segmentation in which no read ends after the header
   is complete and before the body is, the recorded info is the parse of the body *)
Theorem C19_hello_info_segmentation_independent_partial :
  forall (hdr body rest : bytes) (segs : list bytes),
    length hdr = 5%nat ->
    N.to_nat (u16 (nth 3 hdr 0) (nth 4 hdr 0)) = length body ->
    concat segs = hdr ++ body ++ rest ->
    forallb (safe_cut (length body)) (cuts segs) = true ->
    exists st inf, conn_run conn0 segs = Ok st /\ parse_raw_client_hello body = Ok inf /\
                   c_recorded st = Some inf.
Proof. exact segmentation_partial. Qed.
Print Assumptions C19_hello_info_segmentation_independent_partial.

Example C19_hello_info_segmentation_independent_partial_nonvacuous :
  let segs := [[22; 3]; [1; 0]; seg_body_tail] in
  concat segs = seg_hdr ++ seg_body ++ [7; 7] /\
  forallb (safe_cut (length seg_body)) (cuts segs) = true.
Proof. vm_compute. split; reflexivity. Qed.

(* in particular the whole record in one read, and any two safe segmentations agree *)
Theorem C19_hello_info_one_read :
  forall hdr body rest : bytes,
    length hdr = 5%nat ->
    N.to_nat (u16 (nth 3 hdr 0) (nth 4 hdr 0)) = length body ->
    exists st inf, conn_run conn0 [hdr ++ body ++ rest] = Ok st /\
                   parse_raw_client_hello body = Ok inf /\ c_recorded st = Some inf.
Proof. exact one_read. Qed.
Print Assumptions C19_hello_info_one_read.

Theorem C19_hello_info_safe_segmentations_agree :
  forall (hdr body rest : bytes) (segs1 segs2 : list bytes),
    length hdr = 5%nat ->
    N.to_nat (u16 (nth 3 hdr 0) (nth 4 hdr 0)) = length body ->
    concat segs1 = hdr ++ body ++ rest -> concat segs2 = hdr ++ body ++ rest ->
    forallb (safe_cut (length body)) (cuts segs1) = true ->
    forallb (safe_cut (length body)) (cuts segs2) = true ->
    exists st1 st2, conn_run conn0 segs1 = Ok st1 /\ conn_run conn0 segs2 = Ok st2 /\
                    c_recorded st1 = c_recorded st2.
Proof. exact safe_segmentations_agree. Qed.
Print Assumptions C19_hello_info_safe_segmentations_agree.

(* ---- Link headers coming from upstream (push middleware) ---- *)
Theorem C19_parse_link_header_no_panic_refuted : exists h : bytes, parse_link_header h = Panic.
Proof. exact parse_link_header_refuted. Qed.
Print Assumptions C19_parse_link_header_no_panic_refuted.

(* it panics exactly when some comma-separated piece has a '>' before its first '<' *)
Theorem C19_parse_link_header_no_panic_partial :
  forall h : bytes, parse_link_header h = Panic <-> existsb gt_before_lt (split COMMA h) = true.
Proof. exact parse_link_header_panic_iff. Qed.
Print Assumptions C19_parse_link_header_no_panic_partial.

Theorem C19_serve_preload_links_no_panic_partial :
  forall (values : list bytes) (n : nat) (failat : option nat),
    (forall v, In v values -> existsb gt_before_lt (split COMMA v) = false) ->
    serve_preload_links values n failat <> Panic.
Proof. exact serve_preload_links_no_panic. Qed.
Print Assumptions C19_serve_preload_links_no_panic_partial.

Example C19_serve_preload_links_no_panic_partial_nonvacuous :
  forall v, In v [[60; 47; 97; 62; 59; 32; 110; 111; 112; 117; 115; 104]] ->
            existsb gt_before_lt (split COMMA v) = false.
Proof. intros v [<-|[]]. vm_compute. reflexivity. Qed.

(* ---- FastCGI bytes coming from the backend ---- *)
Theorem C19_record_read_no_panic : forall s : bytes, record_read s <> Panic.
Proof. exact record_read_no_panic. Qed.
Print Assumptions C19_record_read_no_panic.

Theorem C19_stream_read_no_panic : forall s : bytes, stream_read_all s <> Panic.
Proof. exact stream_read_no_panic. Qed.
Print Assumptions C19_stream_read_no_panic.

(* ... and what the reader hands on is exactly the backend's stdout: for EVERY list of well-formed
   records (any types, stderr diverted, any padding, empty records included), ended by an
   end-request record or by closing the connection, the caller gets the concatenated contents
   followed by io.EOF (error class 1) *)
Theorem C19_stream_decodes_records :
  forall (rs : list frec) (closed : bool), forallb frec_wf rs = true ->
    stream_read_all (flat_map enc_rec rs ++ (if closed then [] else end_request)) = Ok (stdout_of rs, 1).
Proof. exact stream_decodes. Qed.
Print Assumptions C19_stream_decodes_records.

Example C19_stream_decodes_records_nonvacuous :
  forallb frec_wf [mkRec 6 [104; 105] 6; mkRec 7 [33] 7; mkRec 6 [] 0] = true.
Proof. reflexivity. Qed.

Theorem C19_fcgi_status_no_panic_refuted : exists v : bytes, fcgi_status v = Panic.
Proof. exact fcgi_status_refuted. Qed.
Print Assumptions C19_fcgi_status_no_panic_refuted.

(* the handler panics exactly when the Status header's first token is an integer outside 100..999 *)
Theorem C19_fcgi_status_no_panic_partial :
  forall v : bytes,
    fcgi_status v = Panic <->
    v <> [] /\ exists c, atoi (match index_of [32] v with Some i => firstn i v | None => v end) = Some c /\
                         (c < 100 \/ 999 < c)%Z.
Proof. exact fcgi_status_panic_iff. Qed.
Print Assumptions C19_fcgi_status_no_panic_partial.

(* ---- request-derived FastCGI params, request path ---- *)
Theorem C19_write_pair_no_panic_refuted :
  exists klen vlen, (0 <= klen)%Z /\ (0 <= vlen)%Z /\ write_pair_len klen vlen = Panic.
Proof. exact write_pair_refuted. Qed.
Print Assumptions C19_write_pair_no_panic_refuted.

Theorem C19_write_pair_no_panic_partial :
  forall klen vlen : Z, (0 <= klen)%Z -> (0 <= vlen)%Z ->
    (write_pair_len klen vlen = Panic <-> (65492 < klen)%Z).
Proof. exact write_pair_panic_iff. Qed.
Print Assumptions C19_write_pair_no_panic_partial.

Theorem C19_write_pair_truncation :
  forall klen vlen l : Z, (0 <= klen)%Z -> (0 <= vlen)%Z ->
    write_pair_len klen vlen = Ok l ->
    (0 <= l <= vlen)%Z /\ (8 + klen + l <= 65500)%Z /\ ((8 + klen + vlen <= 65500)%Z -> l = vlen).
Proof. exact write_pair_spec. Qed.
Print Assumptions C19_write_pair_truncation.

Example C19_write_pair_truncation_nonvacuous : write_pair_len 20 70000 = Ok 65472%Z.
Proof. reflexivity. Qed.

Theorem C19_fcgi_path_gate_no_panic_refuted : exists p, fcgi_path_gate (fcgi_fpath p) true true = Panic.
Proof. exact fcgi_path_gate_refuted. Qed.
Print Assumptions C19_fcgi_path_gate_no_panic_refuted.

Theorem C19_fcgi_path_gate_no_panic_partial :
  forall fpath file_exists suffix_ok,
    fcgi_path_gate fpath file_exists suffix_ok = Panic <-> (file_exists = true /\ fpath = []).
Proof. exact fcgi_path_gate_panic_iff. Qed.
Print Assumptions C19_fcgi_path_gate_no_panic_partial.

(* ---- placeholders: Replace's scanning loops and getSubstitution's indexing are total for
   EVERY template and EVERY substitution values (request headers, cookies, query, host labels) ---- *)
Theorem C19_replace_no_panic :
  forall (subst : N -> bytes -> bytes) (template : bytes), replace subst template <> Panic.
Proof. exact replace_no_panic. Qed.
Print Assumptions C19_replace_no_panic.

(* getSubstitution's index expressions (key[1], key[2:len-1], key[6:len-1]) are in range on every
   key that ends in an unescaped closing brace — the only keys Replace produces *)
Theorem C19_subst_key_no_panic :
  forall (t : bytes) (x : N), x <> BSL -> subst_key (t ++ [x; RB]) <> Panic.
Proof. exact subst_key_no_panic. Qed.
Print Assumptions C19_subst_key_no_panic.

Example C19_subst_key_no_panic_nonvacuous :
  subst_key [123; 62; 125] = Ok (1, []) /\ subst_key (lit_label_13 ++ [125]) = Ok (6, []).
Proof. split; reflexivity. Qed.
