(* C02 — static file serving: executable model of staticfiles.FileServer.serveFile over a concrete
   file-system snapshot (what http.Dir(root) shows), plus the observable contract of browse
   listings / archives / redirects. *)
Require Import V.Lib V.GoPath V.Gen_C02.
Open Scope N_scope.

(* a node of the jailed file system: cleaned rooted path, directory?, identity (inode) *)
Record node := { n_path : bytes; n_dir : bool; n_id : N }.
Definition fsys := list node.

(* http.Dir(root).Open(name): path.Clean("/" ++ name) inside the root *)
Definition jail (name : bytes) : bytes := clean (SLASH :: name).
Definition fs_open (fs : fsys) (name : bytes) : option node :=
  find (fun n => beq (n_path n) (jail name)) fs.

(* path.Join(a, b) for two elements: Clean(a ++ "/" ++ b) (empty elements ignored) *)
Definition path_join2 (a b : bytes) : bytes :=
  match a, b with
  | [], [] => []
  | [], _ => clean b
  | _, [] => clean a
  | _, _ => clean (a ++ SLASH :: b)
  end.

(* the "//"-prefix trimming loop *)
Fixpoint trim_dslash (p : bytes) : bytes :=
  match p with
  | c :: ((d :: _) as r) => if (c =? SLASH) && (d =? SLASH) then trim_dslash r else p
  | _ => p
  end.

Definition last_is_slash (p : bytes) : bool :=
  match rev p with c :: _ => c =? SLASH | [] => false end.
Definition drop_last (p : bytes) : bytes := rev (tl (rev p)).

Inductive outcome :=
| Status (code : N)                       (* returned without serving a file: 404 / 405 *)
| Redirect (location_path : bytes)        (* 307 to this (unescaped) path *)
| Serve (id : N) (encoding : option bytes).

Definition is_hidden (fs : fsys) (hide : list bytes) (n : node) : bool :=
  existsb (fun h => match fs_open fs h with Some hn => n_id hn =? n_id n | None => false end) hide.

(* Accept-Encoding: split on ',', TrimSpace, exact token match *)
Definition trim_spaces (s : bytes) : bytes :=
  let is_sp c := (c =? 32) || (c =? 9) || (c =? 10) || (c =? 13) || (c =? 11) || (c =? 12) in
  let fix dropw (l : bytes) := match l with c :: r => if is_sp c then dropw r else l | [] => [] end in
  rev (dropw (rev (dropw s))).
Definition accepts (accept_encoding name : bytes) : bool :=
  existsb (fun t => beq (trim_spaces t) name) (split 44 accept_encoding).

Fixpoint first_index (fs : fsys) (req : bytes) (pages : list bytes) : option (bytes * node) :=
  match pages with
  | [] => None
  | p :: r => let ip := path_join2 req p in
              match fs_open fs ip with
              | Some n => Some (ip, n)
              | None => first_index fs req r
              end
  end.

Fixpoint first_sibling (fs : fsys) (req ae : bytes) (encs : list (bytes * bytes)) : option (node * bytes) :=
  match encs with
  | [] => None
  | (name, ext) :: r =>
      if accepts ae name then
        match fs_open fs (req ++ ext) with
        | Some n => Some (n, name)
        | None => first_sibling fs req ae r
        end
      else first_sibling fs req ae r
  end.

Definition serve_file (fs : fsys) (hide pages : list bytes) (prefix : bytes)
           (is_get_or_head : bool) (req ae : bytes) : outcome :=
  if negb is_get_or_head then Status 405 else
  match fs_open fs req with
  | None => Status 404
  | Some d =>
    let up0 := if beq prefix [SLASH] then req else prefix ++ req in
    let up := match up0 with [] => [SLASH] | _ => up0 end in
    if n_dir d && negb (last_is_slash up) then Redirect (trim_dslash up ++ [SLASH])
    else if negb (n_dir d) && last_is_slash up then Redirect (trim_dslash (drop_last up))
    else
      let '(req1, d1) := if n_dir d then match first_index fs req pages with
                                         | Some (ip, n) => (ip, n)
                                         | None => (req, d)
                                         end
                         else (req, d) in
      if n_dir d1 || is_hidden fs hide d1 then Status 404
      else match first_sibling fs req1 ae gen_static_encodings with
           | Some (n, enc) => Serve (n_id n) (Some enc)
           | None => Serve (n_id d1) None
           end
  end.

(* ---- cases ---- *)
Inductive case :=
(* static file server alone (FileServer.ServeHTTP through a real site without browse):
   observed status, Location (raw header bytes, empty if none), Content-Encoding, and the
   identity of the file whose token was found in the body (None = none of the fixture's tokens) *)
| CStatic (fs : fsys) (hide pages : list bytes) (get_or_head head : bool) (req ae : bytes)
          (obs_status : N) (obs_location obs_ce : bytes) (obs_file : option N)
          (outside_leak hidden_leak : bool)
(* browse in front: only the contract is judged *)
| CBrowse (obs_status : N) (obs_location : bytes) (outside_leak hidden_leak : bool).

Definition same_origin (loc : bytes) : bool :=
  match loc with
  | [] => true                                   (* no redirect *)
  | c :: r => (c =? SLASH) && match r with d :: _ => negb (d =? SLASH) && negb (d =? 92) | [] => true end
  end.

Definition opt_N_eqb (a b : option N) : bool :=
  match a, b with Some x, Some y => x =? y | None, None => true | _, _ => false end.

(* unescape %XX in a Location path (the harness passes the raw header) *)
Definition hexv (c : N) : option N :=
  if (48 <=? c) && (c <=? 57) then Some (c - 48)
  else if (65 <=? c) && (c <=? 70) then Some (c - 55)
  else if (97 <=? c) && (c <=? 102) then Some (c - 87) else None.
Fixpoint unescape (s : bytes) : bytes :=
  match s with
  | [] => []
  | c :: r =>
      if c =? 37 then
        match r with
        | a :: b :: r' => match hexv a, hexv b with
                          | Some x, Some y => (16 * x + y) :: unescape r'
                          | _, _ => c :: unescape r
                          end
        | _ => c :: unescape r
        end
      else c :: unescape r
  end.
Fixpoint strip_query (s : bytes) : bytes :=
  match s with [] => [] | c :: r => if c =? 63 then [] else c :: strip_query r end.

Definition judge (c : case) : N :=
  match c with
  | CStatic fs hide pages goh head req ae ost oloc oce ofile outside hidden =>
      let m := serve_file fs hide pages [SLASH] goh req ae in
      let agree :=
        match m with
        | Status code => (ost =? code) && beq oloc [] && opt_N_eqb ofile None
        | Redirect p => (ost =? 307) && beq (unescape (strip_query oloc)) p
        | Serve id enc => (ost =? 200) && beq oloc [] &&
                          (head || opt_N_eqb ofile (Some id)) &&
                          beq oce (match enc with Some e => e | None => [] end)
        end in
      let spec := negb outside && negb hidden && same_origin oloc &&
                  (* a body is only ever a regular, non-hidden file inside the jail *)
                  match ofile with
                  | Some id => existsb (fun n => (n_id n =? id) && negb (n_dir n) &&
                                                 negb (is_hidden fs hide n)) fs
                  | None => true
                  end in
      verdict agree spec
  | CBrowse ost oloc outside hidden =>
      verdict true (negb outside && negb hidden && same_origin oloc)
  end.
