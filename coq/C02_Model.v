(* C02 — served file content stays inside the root and never includes hidden files.

   Executable model of the file-serving handlers over an explicit finite file-system tree
   (what http.Dir(root) shows: cleaned rooted path, directory bit, identity = what os.SameFile
   compares; no symlinks — the jail is lexical, exactly as http.Dir's is):

     staticfiles.FileServer.serveFile   -> serve_file
     http.Redirect / URL.String         -> http_redirect / escape_path
     internalsrv.Internal.ServeHTTP     -> internal_blocks (it also feeds the hide list)
     browse.Browse.ServeHTTP            -> browse (scope, redirect, listing, archive walk)
     httpserver.hideCasketfile          -> hide_casketfile (one site config), hide_casketfile_all (its
                                           one pass over the list of ALL site configs of a Casketfile)
     strconv.Atoi (browse's ?limit=)    -> atoi / limit_of

   A site with a path prefix (address host/pre): [q_path] is the path the handlers see, i.e. after
   httpserver.trimPathPrefix (the harness computes it as the server does: TrimPrefix on the escaped
   path, then url.ParseRequestURI); the static file server puts the prefix back in its redirects.

   Definitions only; proofs are in C02_Proofs.v, the property theorems in C02_Props.v. *)
Require Import V.Lib V.GoPath V.Gen_C02 V.Gen_C02b.
Open Scope N_scope.

(* ---- the jailed file system ---- *)
Record node := { n_path : bytes; n_dir : bool; n_id : N }.
Definition fsys := list node.

(* http.Dir(root).Open(name) opens root ++ path.Clean("/" ++ name) *)
Definition jail (name : bytes) : bytes := clean (SLASH :: name).
Definition has_nul (name : bytes) : bool := existsb (N.eqb 0) name.
Definition fs_at (fs : fsys) (p : bytes) : option node := find (fun n => beq (n_path n) p) fs.
(* a NUL byte left in the cleaned path is refused ("invalid or unsafe file path") *)
Definition bad_name (name : bytes) : bool := has_nul (jail name).
Definition fs_open (fs : fsys) (name : bytes) : option node :=
  if bad_name name then None else fs_at fs (jail name).

(* path.Join(a, b): non-empty elements joined by "/" and cleaned *)
Definition path_join2 (a b : bytes) : bytes :=
  match a, b with
  | [], [] => []
  | [], _ => clean b
  | _, [] => clean a
  | _, _ => clean (a ++ SLASH :: b)
  end.

(* for strings.HasPrefix(p, "//") { p = strings.TrimPrefix(p, "/") } *)
Fixpoint trim_dslash (p : bytes) : bytes :=
  match p with
  | c :: ((d :: _) as r) => if (c =? SLASH) && (d =? SLASH) then trim_dslash r else p
  | _ => p
  end.

Definition drop_last (p : bytes) : bytes := rev (tl (rev p)).

(* ---- URL.String() of a URL without scheme/host: escape(Path, encodePath) ---- *)
Definition is_alnum (c : N) : bool :=
  ((48 <=? c) && (c <=? 57)) || ((65 <=? c) && (c <=? 90)) || ((97 <=? c) && (c <=? 122)).
Definition path_safe (c : N) : bool :=
  is_alnum c || existsb (N.eqb c) [45; 95; 46; 126 (* -_.~ *); 36; 38; 43; 44; 47; 58; 59; 61; 64 (* $&+,/:;=@ *)].
Definition hexdig (n : N) : N := if n <? 10 then 48 + n else 55 + n.
Fixpoint escape_path (s : bytes) : bytes :=
  match s with
  | [] => []
  | c :: r => if path_safe c then c :: escape_path r
              else 37 :: hexdig ((c / 16) mod 16) :: hexdig (c mod 16) :: escape_path r
  end.

(* ---- http.Redirect(w, r, url, code): the Location header it sets (query part left out) ----
   url.Parse finds an authority iff the string starts with "//" followed by a byte other than
   '/' (or fails on it): then the string is used verbatim.  Otherwise it is made absolute
   against the directory of the request path and path.Clean-ed, keeping a trailing slash. *)
Definition has_authority (url : bytes) : bool :=
  match url with
  | a :: b :: c :: _ => (a =? SLASH) && (b =? SLASH) && negb (c =? SLASH)
  | _ => false
  end.
Fixpoint olddir_rev (r : bytes) : bytes :=        (* path.Split(p): everything through the last '/' *)
  match r with [] => [] | c :: r' => if c =? SLASH then r else olddir_rev r' end.
Definition olddir (p : bytes) : bytes := rev (olddir_rev (rev p)).
Definition clean_keep_slash (url : bytes) : bytes :=
  let c := clean url in
  if ends_with_slash url && negb (ends_with_slash c) then c ++ [SLASH] else c.
Definition http_redirect (reqpath url : bytes) : bytes :=
  if has_authority url then url else
  let old := match reqpath with [] => [SLASH] | _ => reqpath end in
  let abs := match url with
             | c :: _ => if c =? SLASH then url else olddir old ++ url
             | [] => olddir old
             end in
  clean_keep_slash abs.

(* ---- requests and outcomes ---- *)
(* method codes: 0 GET, 1 HEAD, 2 OPTIONS, 3 PROPFIND, 4 anything else *)
Definition is_get_head (m : N) : bool := (m =? 0) || (m =? 1).

Inductive outcome :=
| Status (code : N)                         (* status returned without content (404 405 501 503) *)
| Redirect (code : N) (location : bytes)    (* Location header, without the query *)
| Serve (n : node) (enc : option bytes)     (* 200 with the bytes of n, Content-Encoding enc *)
| Listing (entries : list node)             (* 200, directory listing naming these children *)
| Archive (members : list node).            (* 200, archive of these descendants *)

(* ---- IsHidden: os.SameFile against every hide-list entry that can be opened ---- *)
Definition hidden_id (fs : fsys) (hide : list bytes) (id : N) : bool :=
  existsb (fun h => match fs_open fs h with Some hn => n_id hn =? id | None => false end) hide.
Definition is_hidden (fs : fsys) (hide : list bytes) (n : node) : bool := hidden_id fs hide (n_id n).

(* the same test with the hide list opened ONCE: the identities of the hide-list entries that can be
   opened; [mem_N (hidden_ids fs hide) id = hidden_id fs hide id] (C02_Proofs.hidden_ids_spec).
   Loops over many entries (listing, archive walk, the executable spec) bind it with [let], so
   that evaluation does not re-open the hide list for every entry. *)
Definition mem_N (l : list N) (x : N) : bool := existsb (N.eqb x) l.
Definition hidden_ids (fs : fsys) (hide : list bytes) : list N :=
  flat_map (fun h => match fs_open fs h with Some hn => [n_id hn] | None => [] end) hide.

(* Accept-Encoding: strings.Split(",") then strings.Trim(acc, " \t") (SP / HTAB, the optional
   white space HTTP allows around a list element) then exact comparison *)
Definition is_space (c : N) : bool := (c =? 32) || (c =? 9).
Fixpoint drop_spaces (l : bytes) : bytes :=
  match l with c :: r => if is_space c then drop_spaces r else l | [] => [] end.
Definition trim_spaces (s : bytes) : bytes := rev (drop_spaces (rev (drop_spaces s))).
Definition accepts (accept_encoding name : bytes) : bool :=
  existsb (fun t => beq (trim_spaces t) name) (split 44 accept_encoding).

(* the index-page loop: the first page that can be opened wins, whatever it is *)
Fixpoint first_index (fs : fsys) (req : bytes) (pages : list bytes) : option (bytes * node) :=
  match pages with
  | [] => None
  | p :: r => let ip := path_join2 req p in
              match fs_open fs ip with
              | Some n => Some (ip, n)
              | None => first_index fs req r
              end
  end.

(* the precompressed-sibling loop over staticEncodingPriority: a directory of that name and a
   sibling that is on the hide list are passed over *)
Fixpoint first_sibling (fs : fsys) (hide : list bytes) (req ae : bytes) (encs : list (bytes * bytes))
  : option (node * bytes) :=
  match encs with
  | [] => None
  | (name, ext) :: r =>
      if accepts ae name then
        match fs_open fs (req ++ ext) with
        | Some n => if n_dir n || is_hidden fs hide n then first_sibling fs hide req ae r else Some (n, name)
        | None => first_sibling fs hide req ae r
        end
      else first_sibling fs hide req ae r
  end.

(* staticfiles.FileServer.ServeHTTP / serveFile; [prefix] is the site's path prefix ("/" if none),
   [req] the request path the handler sees *)
Definition serve_file (fs : fsys) (hide pages : list bytes) (prefix : bytes)
           (meth : N) (req ae : bytes) : outcome :=
  if negb (is_get_head meth) then Status 405 else
  if bad_name req then Status 503 else         (* http.Dir: "invalid or unsafe file path" *)
  match fs_open fs req with
  | None => Status 404
  | Some d =>
    let up0 := if beq prefix [SLASH] then req else prefix ++ req in
    let up := match up0 with [] => [SLASH] | _ => up0 end in
    if n_dir d && negb (ends_with_slash up)
    then Redirect 307 (http_redirect req (escape_path (trim_dslash up ++ [SLASH])))
    else if negb (n_dir d) && ends_with_slash up
    then Redirect 307 (http_redirect req (escape_path (trim_dslash (drop_last up))))
    else
      let '(req1, d1) := if n_dir d then match first_index fs req pages with
                                         | Some (ip, n) => (ip, n)
                                         | None => (req, d)
                                         end
                         else (req, d) in
      if n_dir d1 || is_hidden fs hide d1 then Status 404
      else match first_sibling fs hide req1 ae gen_static_encodings with
           | Some (n, enc) => Serve n (Some enc)
           | None => Serve d1 None
           end
  end.

(* ---- internal: requests whose path matches one of its paths are answered 404 ---- *)
Definition internal_blocks (paths : list bytes) (req : bytes) : bool :=
  existsb (fun p => path_matches false req p) paths.

(* ---- browse ---- *)
Record bconf := { b_scope : bytes; b_types : list bytes }.

Definition dir_prefix (d : bytes) : bytes := if beq d [SLASH] then d else d ++ [SLASH].
Definition is_desc (d p : bytes) : bool :=
  has_prefix p (dir_prefix d) && (N.of_nat (length (dir_prefix d)) <? N.of_nat (length p)).
Definition rel_name (d p : bytes) : bytes := skipn (length (dir_prefix d)) p.
Definition is_child (d p : bytes) : bool := is_desc d p && negb (existsb (N.eqb SLASH) (rel_name d p)).
Definition children (fs : fsys) (d : bytes) : list node := filter (fun n => is_child d (n_path n)) fs.
Definition descendants (fs : fsys) (d : bytes) : list node := filter (fun n => is_desc d (n_path n)) fs.

(* the archive walker (fs.Walk below the directory, the directory itself left out): an entry that
   is hidden is passed over, and a hidden directory is not descended into (filepath.SkipDir) —
   a descendant is archived iff neither it nor a directory between [d] and it is hidden *)
Definition cut_by (k : node) (a : node) : bool :=
  beq (n_path a) (n_path k) || (n_dir a && is_desc (n_path a) (n_path k)).
(* the hidden entries below [d] (computed once per walk) *)
Definition archive_cuts (fs : fsys) (hide : list bytes) (d : bytes) : list node :=
  let hid := hidden_ids fs hide in
  filter (fun a => mem_N hid (n_id a) && is_desc d (n_path a)) fs.
Definition archive_members (fs : fsys) (hide : list bytes) (d : bytes) : list node :=
  let cuts := archive_cuts fs hide d in
  filter (fun k => negb (existsb (cut_by k) cuts)) (descendants fs d).

(* the listing filter: children that are not hidden *)
Definition visible_kids (fs : fsys) (hide : list bytes) (kids : list node) : list node :=
  let hid := hidden_ids fs hide in
  filter (fun k => negb (mem_N hid (n_id k))) kids.

(* strconv.Atoi (64-bit int): an optional sign, then one or more decimal digits, the value within
   the int64 range; None = the error browse answers 400 for *)
Definition is_digit (c : N) : bool := (48 <=? c) && (c <=? 57).
Definition digits_val (ds : bytes) : N := fold_left (fun a c => a * 10 + (c - 48)) ds 0.
Definition atoi (s : bytes) : option Z :=
  let '(neg, ds) := match s with
                    | c :: r => if c =? 43 then (false, r) else if c =? 45 then (true, r) else (false, s)
                    | [] => (false, s)
                    end in
  match ds with
  | [] => None
  | _ => if forallb is_digit ds then
           let v := digits_val ds in
           if neg then (if v <=? 9223372036854775808 then Some (- Z.of_N v)%Z else None)
           else (if v <? 9223372036854775808 then Some (Z.of_N v) else None)
         else None
  end.
(* handleSortOrder's limit: 0 if the parameter is absent or empty; a negative limit limits nothing *)
Definition limit_of (s : bytes) : option N :=
  match s with
  | [] => Some 0
  | _ => match atoi s with Some z => Some (Z.to_N z) | None => None end
  end.

Definition browse (fs : fsys) (hide pages : list bytes) (prefix : bytes) (confs : list bconf)
           (meth : N) (req ae archive limit : bytes) : outcome :=
  let next := serve_file fs hide pages prefix meth req ae in
  match find (fun bc => path_matches false req (b_scope bc)) confs with
  | None => next
  | Some bc =>
    match fs_open fs req with
    | None => next
    | Some d =>
      if negb (n_dir d) then next
      else if (meth =? 2) || (meth =? 3) then Status 501
      else if negb (is_get_head meth) then next
      else
        let u := match req with [] => [SLASH] | _ => req end in   (* r.URL.Path: the site's path prefix is not put back *)
        if negb (ends_with_slash u)
        then Redirect 301 (http_redirect req (escape_path (trim_dslash u ++ [SLASH])))
        else
          let dirp := jail req in
          let kids := children fs dirp in
          if existsb (fun k => existsb (beq (rel_name dirp (n_path k))) pages) kids then next
          else match archive with
               | [] => match limit_of limit with       (* sort, order, limit: after the archive test *)
                       | None => Status 400
                       | Some _ => Listing (visible_kids fs hide kids)   (* cut to `limit` entries AFTER the filter: see [agree] *)
                       end
               | _ => if existsb (beq archive) (b_types bc)
                      then Archive (archive_members fs hide dirp)
                      else Status 404
               end
    end
  end.

(* ---- hideCasketfile: strings.HasPrefix(absOrigin, absRoot) -> TrimPrefix ---- *)
Definition hide_casketfile (abs_root abs_origin : bytes) : option bytes :=
  match abs_origin with
  | [] => None
  | _ => if has_prefix abs_origin abs_root then Some (skipn (length abs_root) abs_origin) else None
  end.

(* hideCasketfile is a parsing callback that runs ONCE, after the `root` directives of the whole
   Casketfile, over the list of ALL site configs (one per address of every server block, in
   declaration order): [sc_root] is filepath.Abs(cfg.Root), [sc_origin] filepath.Abs of the path the
   Casketfile was loaded from ("" if it was not loaded from a file: the loop RETURNS there).  The
   result lists, per site config, what is appended to its HiddenFiles. *)
Record sconf := { sc_root : bytes; sc_origin : bytes }.
Definition hide_entry (c : sconf) : list bytes :=
  match hide_casketfile (sc_root c) (sc_origin c) with Some h => [h] | None => [] end.
Fixpoint hide_casketfile_all (cfgs : list sconf) : list (list bytes) :=
  match cfgs with
  | [] => []
  | c :: r => match sc_origin c with
              | [] => map (fun _ => []) cfgs                       (* return nil *)
              | _ => hide_entry c :: hide_casketfile_all r
              end
  end.

(* filepath.Abs of an absolute path is filepath.Clean of it (= path.Clean on this platform) *)
Definition abs_path (p : bytes) : bytes := match p with [] => [] | _ => clean p end.

(* ---- a site: internal in front of browse in front of the static file server ---- *)
Record site := { s_fs : fsys; s_hide : list bytes; s_pages : list bytes; s_prefix : bytes;
                 s_internal : list bytes; s_browse : list bconf }.
Record request := mkreq { q_meth : N; q_path : bytes; q_ae : bytes; q_archive : bytes; q_limit : bytes }.

Definition handle (s : site) (r : request) : outcome :=
  if internal_blocks (s_internal s) (q_path r) then Status 404
  else browse (s_fs s) (s_hide s) (s_pages s) (s_prefix s) (s_browse s) (q_meth r) (q_path r) (q_ae r) (q_archive r) (q_limit r).

(* ---- histories on one running site ----------------------------------------------------------
   Requests interleaved with changes of the files below the root (any change: [EDisk fs] says
   what the tree is afterwards; a file replaced by a new inode is a node with a new identity).
   The handlers keep nothing between requests: FileServer.IsHidden opens and stats every
   hide-list entry on every call, so the answer to a request is [handle] on the file system as it
   is when the request arrives. *)
Inductive event := EReq (r : request) | EDisk (fs : fsys).
Definition with_fs (s : site) (fs : fsys) : site :=
  {| s_fs := fs; s_hide := s_hide s; s_pages := s_pages s; s_prefix := s_prefix s;
     s_internal := s_internal s; s_browse := s_browse s |}.
Fixpoint run_history (s : site) (h : list event) : list (fsys * request * outcome) :=
  match h with
  | [] => []
  | EReq r :: t => (s_fs s, r, handle s r) :: run_history s t
  | EDisk fs :: t => run_history (with_fs s fs) t
  end.
Fixpoint current_fs (fs : fsys) (h : list event) : fsys :=
  match h with
  | [] => fs
  | EReq _ :: t => current_fs fs t
  | EDisk fs' :: t => current_fs fs' t
  end.
(* a file (or directory) replaced by a new inode: the node at [p] gets the identity [id] *)
Definition reinode (fs : fsys) (p : bytes) (id : N) : fsys :=
  map (fun n => if beq (n_path n) p then {| n_path := n_path n; n_dir := n_dir n; n_id := id |} else n) fs.

(* ---- the fixture the harness writes to disk (Gen_C02b is regenerated from the same tables) ---- *)
Definition fs_of_table (t : list (bytes * bool * N)) : fsys :=
  map (fun t => match t with (p, d, i) => {| n_path := p; n_dir := d; n_id := i |} end) t.
Definition fixture_fs : fsys := fs_of_table gen_c02_fixture.
Definition mtree_fs : fsys := fs_of_table gen_c02_mtree.
Definition stree_fs : fsys := fs_of_table gen_c02_stree.
(* the hide list a site ends up with: hideCasketfile's entry (from the absolute root and origin
   paths the instance was started with), then the paths of the `internal` directives *)
Definition site_hide_on (abs_root abs_origin : bytes) (internal : list bytes) : list bytes :=
  match hide_casketfile abs_root abs_origin with Some h => [h] | None => [] end ++ internal.
Definition site_hide (abs_root abs_origin : bytes) : list bytes := site_hide_on abs_root abs_origin gen_c02_internal.
(* prefix = the path of the site's address ("/" if none); scope = "" : no browse directive *)
Definition mksite_on (fs : fsys) (abs_root abs_origin : bytes) (internal : list bytes) (prefix scope : bytes)
           (types : list bytes) : site :=
  {| s_fs := fs; s_hide := site_hide_on abs_root abs_origin internal; s_pages := gen_default_index_pages;
     s_prefix := prefix; s_internal := internal;
     s_browse := match scope with [] => [] | _ => [{| b_scope := scope; b_types := types |}] end |}.
Definition mksite (abs_root abs_origin prefix scope : bytes) (types : list bytes) : site :=
  mksite_on fixture_fs abs_root abs_origin gen_c02_internal prefix scope types.

(* ---- a site of a multi-site Casketfile ----
   The roots of the sites are sub-trees of one tree ([mtree_fs], on disk at [base]).  [subtree fs d]
   is what http.Dir(base ++ d) shows: the nodes at and below d, re-rooted. *)
Definition reroot (d p : bytes) : option bytes :=
  if beq d [SLASH] then Some p
  else if beq p d then Some [SLASH]
  else if is_desc d p then Some (SLASH :: rel_name d p)
  else None.
Definition subtree (fs : fsys) (d : bytes) : fsys :=
  flat_map (fun n => match reroot d (n_path n) with
                     | Some p => [{| n_path := p; n_dir := n_dir n; n_id := n_id n |}]
                     | None => []
                     end) fs.
Definition abs_of (base rel : bytes) : bytes := if beq rel [SLASH] then base else base ++ rel.

(* [roots]: the `root` argument of every site config, in the order of httpContext.siteConfigs, as
   written in the Casketfile (absolute, not necessarily cleaned); [origin]: where the Casketfile
   was loaded from; [pos]: the site config the request goes to.  Its hide list is ITS entry of
   hideCasketfile's pass over the whole list, then its `internal` paths. *)
Definition msite_confs (roots : list bytes) (origin : bytes) : list sconf :=
  map (fun r => {| sc_root := abs_path r; sc_origin := abs_path origin |}) roots.
Definition msite (roots : list bytes) (origin : bytes) (pos : nat) (rootrel scope : bytes)
           (types : list bytes) : site :=
  {| s_fs := subtree mtree_fs rootrel;
     s_hide := nth pos (hide_casketfile_all (msite_confs roots origin)) [] ++ gen_c02_minternal;
     s_pages := gen_default_index_pages; s_prefix := [SLASH]; s_internal := gen_c02_minternal;
     s_browse := match scope with [] => [] | _ => [{| b_scope := scope; b_types := types |}] end |}.


(* ---- http.ServeContent: conditional requests and byte ranges (go1.23 net/http fs.go) --------
   A file answer of serve_file ends in http.ServeContent(w, r, name, modtime, f) with the ETag header
   set from the file that is sent.  checkPreconditions, checkIfRange, parseRange, sumRangesSize and
   the choice between 200 / 206 single / 206 multipart / 304 / 416 are modelled; what the validators
   compare (entity tags, dates) is abstracted to the outcome of the comparison:
     c_inm  If-None-Match:     0 absent, 1 "*" or a tag that weakly matches the ETag, 2 no tag matches
     c_ims  If-Modified-Since: 0 absent or not a date, 1 the file was NOT modified after it, 2 it was
     c_ifr  If-Range:          0 absent, 1 the ETag (strong comparison) or exactly the mod time, 2 other
   A range is (start, length) in bytes of the file that is sent. *)
Record cond := mkcond { c_range : bytes; c_inm : N; c_ims : N; c_ifr : N }.
Definition no_cond : cond := mkcond [] 0 0 0.

Fixpoint cut_at (c : N) (s : bytes) : option (bytes * bytes) :=          (* strings.Cut *)
  match s with
  | [] => None
  | x :: r => if x =? c then Some ([], r)
              else match cut_at c r with Some (a, b) => Some (x :: a, b) | None => None end
  end.

(* one byte-range-spec: None = "invalid range"; Some None = begins at or after the end (skipped,
   noOverlap); ParseInt(s, 10, 64) is [atoi] *)
Definition parse_one (ra : bytes) (size : N) : option (option (N * N)) :=
  match cut_at 45 ra with
  | None => None
  | Some (st0, en0) =>
    let st := trim_spaces st0 in
    let en := trim_spaces en0 in
    match st with
    | [] =>                                                  (* suffix-length *)
        match en with
        | [] => None
        | c :: _ => if c =? 45 then None else
            match atoi en with
            | Some z => if (z <? 0)%Z then None
                        else let i := N.min (Z.to_N z) size in Some (Some (size - i, i))
            | None => None
            end
        end
    | _ =>
        match atoi st with
        | None => None
        | Some z =>
            if (z <? 0)%Z then None else
            let i := Z.to_N z in
            if size <=? i then Some None else
            match en with
            | [] => Some (Some (i, size - i))
            | _ => match atoi en with
                   | None => None
                   | Some e => if (e <? Z.of_N i)%Z then None
                               else let j := if size <=? Z.to_N e then size - 1 else Z.to_N e in
                                    Some (Some (i, j - i + 1))
                   end
            end
        end
    end
  end.

Inductive rparse := RErr | RNoOverlap | RRanges (rs : list (N * N)).

Fixpoint parse_specs (specs : list bytes) (size : N) (acc : list (N * N)) (noov : bool) : rparse :=
  match specs with
  | [] => match acc with
          | [] => if noov then RNoOverlap else RRanges []
          | _ => RRanges (rev acc)
          end
  | s :: r =>
      match trim_spaces s with
      | [] => parse_specs r size acc noov
      | ra => match parse_one ra size with
              | None => RErr
              | Some None => parse_specs r size acc true
              | Some (Some x) => parse_specs r size (x :: acc) noov
              end
      end
  end.

Definition bytes_eq_prefix : bytes := [98; 121; 116; 101; 115; 61].       (* "bytes=" *)
Definition parse_range (s : bytes) (size : N) : rparse :=
  match s with
  | [] => RRanges []
  | _ => if has_prefix s bytes_eq_prefix then parse_specs (split 44 (skipn 6 s)) size [] false else RErr
  end.

Definition sum_lens (rs : list (N * N)) : N := fold_right (fun r a => snd r + a) 0 rs.

Inductive canswer :=
| CNotModified                    (* 304, no body *)
| CUnsat                          (* 416, an error text, no content *)
| CFull                           (* 200, the whole file *)
| CParts (rs : list (N * N)).     (* 206: one range = the slice itself; several = multipart/byteranges, in this order *)

(* serveContent for GET / HEAD (serve_file lets nothing else through), no If-Match / If-Unmodified-Since *)
Definition not_modified (q : cond) : bool :=
  match c_inm q with
  | 0 => c_ims q =? 1            (* If-Modified-Since is consulted only without If-None-Match *)
  | 1 => true
  | _ => false
  end.
Definition range_req (q : cond) : bytes := if c_ifr q =? 2 then [] else c_range q.
Definition serve_content (size : N) (q : cond) : canswer :=
  if not_modified q then CNotModified else
  match parse_range (range_req q) size with
  | RErr => CUnsat
  | RNoOverlap => if size =? 0 then CFull else CUnsat
  | RRanges rs => if size <? sum_lens rs then CFull       (* "probably an attack": the Range header is ignored *)
                  else match rs with [] => CFull | _ => CParts rs end
  end.

(* the bytes sent *)
Definition piece (cnt : bytes) (r : N * N) : bytes := firstn (N.to_nat (snd r)) (skipn (N.to_nat (fst r)) cnt).
Definition content_body (cnt : bytes) (a : canswer) : list bytes :=
  match a with
  | CFull => [cnt]
  | CParts rs => map (piece cnt) rs
  | CNotModified | CUnsat => []
  end.
Definition blen (b : bytes) : N := N.of_nat (length b).

(* a site answering a request that carries Range / conditional headers: only file answers look at them *)
Inductive answer := AOther (o : outcome) | AContent (n : node) (enc : option bytes) (a : canswer).
Definition respond (size_of : N -> N) (s : site) (r : request) (q : cond) : answer :=
  match handle s r with
  | Serve n enc => AContent n enc (serve_content (size_of (n_id n)) q)
  | o => AOther o
  end.
(* the file content an answer carries ([content id]: the bytes of the file of that identity) *)
Definition answer_body (content : N -> bytes) (r : request) (a : answer) : list bytes :=
  match a with
  | AContent n _ ca => if q_meth r =? 1 then [] else content_body (content (n_id n)) ca
  | AOther _ => []
  end.
Definition answer_status (a : answer) : N :=
  match a with
  | AContent _ _ CNotModified => 304
  | AContent _ _ CUnsat => 416
  | AContent _ _ CFull => 200
  | AContent _ _ (CParts _) => 206
  | AOther (Status c) => c
  | AOther (Redirect c _) => c
  | AOther _ => 200
  end.

(* ---- observations ---- *)
(* kind: 0 plain response, 1 directory listing, 2 archive.  ids: identities of the fixture files
   whose token occurs in the fully decoded / un-archived body (1 = a file OUTSIDE the root,
   2 = unknown token).  names: listed names / archive member paths relative to the directory. *)
(* hids: identities of the files the response HEADERS describe (ETag, Last-Modified, and on a file
   answer Content-Length: every regular file of the fixture has a size and a modification time of
   its own), on HEAD as on GET.  counts: the numbers of directories and of files an HTML listing
   announces ([] if it announces none). *)
Record obs := mkobs { o_status : N; o_loc : bytes; o_ce : bytes; o_kind : N;
                      o_ids : list N; o_names : list bytes; o_hids : list N; o_counts : list N }.

Inductive case :=
| CSkip                                   (* net/http rejected the request line; nothing to judge *)
| CReq (s : site) (r : request) (o : obs)
(* a request that did not reach the site's handlers (a site with a path prefix that the request
   path does not start with: the server answers "no such site"): only the executable property
   is judged *)
| CContract (s : site) (r : request) (o : obs)
(* a request to the site config at position [pos] of a multi-site Casketfile loaded from
   [origin]; [base]: where [mtree_fs] is on disk; [rootrel]: that site's root relative to [base] *)
| CMulti (base : bytes) (roots : list bytes) (origin : bytes) (pos : nat) (rootrel scope : bytes)
         (types : list bytes) (r : request) (o : obs)
(* a request with Range / conditional headers that got a FILE answer (ETag header, or 206 / 304 / 416).
   [sizes]: identity -> size of every regular file of the tree, as stat reports it.  [o]: the ordinary
   observation (o_ids: token scan of the body).  [parts]: the body pieces of a 200 / 206 answer in
   order — (start, length, ids): start and total from Content-Range (0 and the body length on 200),
   length = the number of bytes of the piece, ids = the identities of the files (of all fixture
   trees; 1 = outside the root; [2] if none) whose size is the stated total and whose bytes
   [start, start+length) are exactly the piece *)
| CRange (s : site) (r : request) (q : cond) (sizes : list (N * N)) (o : obs) (parts : list (N * N * list N)).

Definition mem_b (l : list bytes) (x : bytes) : bool := existsb (beq x) l.
Definition seteq_N (a b : list N) : bool := forallb (mem_N b) a && forallb (mem_N a) b.
Definition seteq_b (a b : list bytes) : bool := forallb (mem_b b) a && forallb (mem_b a) b.

Definition count_kind (dir : bool) (l : list node) : N :=
  N.of_nat (length (filter (fun k => Bool.eqb (n_dir k) dir) l)).

(* what an HTML listing of directory d announces: directoryListing passes over the hidden entries
   of the directory first and counts the ones it lists (dirCount / fileCount are incremented in
   the same loop pass that appends the entry) *)
Definition announced_counts (fs : fsys) (hide : list bytes) (d : bytes) : N * N :=
  let vis := visible_kids fs hide (children fs d) in
  (count_kind true vis, count_kind false vis).

Definition agree (s : site) (r : request) (o : obs) : bool :=
  let body := negb (q_meth r =? 1) in                     (* HEAD answers carry no body *)
  match handle s r with
  | Status c => (o_status o =? c) && beq (o_loc o) [] && seteq_N (o_ids o) [] && (o_kind o =? 0) &&
                seteq_N (o_hids o) []
  | Redirect c l => (o_status o =? c) && beq (o_loc o) l && seteq_N (o_ids o) [] && seteq_N (o_hids o) []
  | Serve n enc =>
      (o_status o =? 200) && beq (o_loc o) [] && (o_kind o =? 0) &&
      beq (o_ce o) (match enc with Some e => e | None => [] end) &&
      seteq_N (o_ids o) (if body && negb (n_dir n) then [n_id n] else []) &&
      (* on HEAD as on GET the headers describe that file: ETag and Content-Length are the served
         file's; Last-Modified is the plain file's when a precompressed sibling is served in its place *)
      match enc with
      | None => seteq_N (o_hids o) [n_id n]
      | Some e =>
          mem_N (o_hids o) (n_id n) &&
          forallb (fun id => (id =? n_id n) ||
                     existsb (fun b => (n_id b =? id) &&
                                existsb (fun x => beq (fst x) e && beq (n_path b ++ snd x) (n_path n))
                                        gen_static_encodings) (s_fs s)) (o_hids o)
      end
  | Listing kids =>
      let d := jail (q_path r) in
      (o_status o =? 200) && beq (o_loc o) [] && seteq_N (o_ids o) [] && seteq_N (o_hids o) [] &&
      (if body then
         (o_kind o =? 1) &&
         (* sorted by ?sort/?order (an oracle), then cut to the first `limit` entries if
            0 < limit <= their number: that many of the visible entries, or all of them *)
         (let names := map (fun k => rel_name d (n_path k)) kids in
          let lim := match limit_of (q_limit r) with Some n => n | None => 0 end in
          if (0 <? lim) && (lim <=? N.of_nat (length names))
          then forallb (mem_b names) (o_names o) && (N.of_nat (length (o_names o)) =? lim)
          else seteq_b (o_names o) names) &&
         (* the numbers an HTML listing announces are counted AFTER the IsHidden test *)
         match o_counts o with
         | [] => true
         | [nd; nf] => let ac := announced_counts (s_fs s) (s_hide s) d in (nd =? fst ac) && (nf =? snd ac)
         | _ => false
         end
       else (o_kind o =? 0) && seteq_b (o_names o) [])
  | Archive ms =>
      let d := jail (q_path r) in
      (o_status o =? 200) && beq (o_loc o) [] && seteq_N (o_hids o) [] &&
      (if body then (o_kind o =? 2) &&
                    seteq_b (o_names o) (map (fun k => rel_name d (n_path k)) ms) &&
                    seteq_N (o_ids o) (map n_id (filter (fun k => negb (n_dir k)) ms))
       else (o_kind o =? 0) && seteq_N (o_ids o) [] && seteq_b (o_names o) [])
  end.

(* ---- the executable statement of the property, evaluated on the observation alone ---- *)
(* a redirect stays on the origin: Location starts with exactly one '/' (and no '\', which user
   agents treat like '/') *)
Definition same_origin (loc : bytes) : bool :=
  match loc with
  | [] => true
  | c :: r => (c =? SLASH) && match r with d :: _ => negb (d =? SLASH) && negb (d =? 92) | [] => true end
  end.

(* starts with exactly one '/' *)
Definition one_slash (p : bytes) : bool :=
  match p with
  | c :: r => (c =? SLASH) && match r with d :: _ => negb (d =? SLASH) | [] => true end
  | [] => false
  end.

(* the names serve_file may have opened for the body: the request path or one of its index pages,
   or such a name extended by the extension of an accepted encoding *)
Definition served_from (pages : list bytes) (req ae : bytes) (enc : option bytes) (p : bytes) : Prop :=
  exists base, (base = req \/ exists pg, In pg pages /\ base = path_join2 req pg) /\
    match enc with
    | None => p = jail base
    | Some e => exists ext, In (e, ext) gen_static_encodings /\ accepts ae e = true /\ p = jail (base ++ ext)
    end.

(* the files a plain answer to [req] may consist of: the file the cleaned path names, an index
   page of that directory, or a precompressed sibling of one of these that the client accepts *)
Definition child_path (d name : bytes) : bytes := dir_prefix d ++ name.
Definition allowed_static (pages : list bytes) (req ae p : bytes) : bool :=
  let c := jail req in
  let bases := c :: map (child_path c) pages in
  mem_b bases p ||
  existsb (fun e => accepts ae (fst e) && mem_b (map (fun b => b ++ snd e) bases) p) gen_static_encodings.

(* identities 1 and 2 stand for content that is NOT a file of the tree (a token or a header of a file
   outside the root, an unknown one): never "a regular file located inside the site root" *)
Definition inside_id (id : N) : bool := 2 <? id.

Definition counts_ok (counts : list N) (vis : list node) : bool :=
  match counts with
  | [] => true
  | [nd; nf] => (nd =? count_kind true vis) && (nf =? count_kind false vis)
  | _ => false
  end.

Definition spec_ok_ref (s : site) (r : request) (o : obs) : bool :=
  let fs := s_fs s in
  let c := jail (q_path r) in
  (* id is the identity of a regular, non-hidden file inside the root at a permitted place *)
  let ok_file (where_ : bytes -> bool) (id : N) :=
    inside_id id &&
    existsb (fun n => (n_id n =? id) && negb (n_dir n) && negb (hidden_id fs (s_hide s) id) &&
                      where_ (n_path n)) fs in
  let visible (p : bytes) :=
    match fs_at fs p with Some n => negb (hidden_id fs (s_hide s) (n_id n)) | None => false end in
  (* p lies below a hidden directory that is itself below the archived directory *)
  let below_hidden (p : bytes) :=
    existsb (fun a => n_dir a && hidden_id fs (s_hide s) (n_id a) && is_desc c (n_path a) && is_desc (n_path a) p) fs in
  same_origin (o_loc o) &&
  match o_kind o with
  | 0 => forallb (ok_file (allowed_static (s_pages s) (q_path r) (q_ae r))) (o_ids o) &&
         (* what the HEADERS describe (HEAD as well as GET) is subject to the same rule as a body *)
         forallb (ok_file (allowed_static (s_pages s) (q_path r) (q_ae r))) (o_hids o) &&
         (* a 200 answer to GET is exactly one file, and its headers describe that file *)
         (if (o_status o =? 200) && (q_meth r =? 0)
          then (N.of_nat (length (o_ids o)) =? 1) && forallb (mem_N (o_hids o)) (o_ids o) else true)
  | 1 => seteq_N (o_ids o) [] && seteq_N (o_hids o) [] &&
         forallb (fun nm => visible (child_path c nm)) (o_names o) &&
         (* the numbers of directories and files a listing announces count what it lists *)
         counts_ok (o_counts o) (filter (fun k => negb (hidden_id fs (s_hide s) (n_id k))) (children fs c))
  | _ => forallb (ok_file (fun p => is_desc c p && negb (below_hidden p))) (o_ids o) && seteq_N (o_hids o) [] &&
         forallb (fun nm => visible (child_path c nm) && negb (below_hidden (child_path c nm))) (o_names o)
  end.

(* [spec_ok_ref] evaluated without recomputation ([spec_ok s r o = spec_ok_ref s r o] for all
   arguments: C02_Props.C02_spec_ok_is_reference): the hide list is opened once, the hidden
   directories below the archived directory are collected once, the set of names a plain answer
   may come from is built once, and [where_] is only asked for nodes of the right identity. *)
Definition allowed_static_set (pages : list bytes) (req ae : bytes) : list bytes :=
  let c := jail req in
  let bases := c :: map (child_path c) pages in
  bases ++ flat_map (fun e => if accepts ae (fst e) then map (fun b => b ++ snd e) bases else [])
                    gen_static_encodings.

Definition spec_ok (s : site) (r : request) (o : obs) : bool :=
  let fs := s_fs s in
  let c := jail (q_path r) in
  let hid := hidden_ids fs (s_hide s) in
  let ok_file (where_ : bytes -> bool) (id : N) :=
    inside_id id && negb (mem_N hid id) &&
    existsb (fun n => if (n_id n =? id) && negb (n_dir n) then where_ (n_path n) else false) fs in
  let visible (p : bytes) :=
    match fs_at fs p with Some n => negb (mem_N hid (n_id n)) | None => false end in
  let hdirs := filter (fun a => n_dir a && mem_N hid (n_id a) && is_desc c (n_path a)) fs in
  let below_hidden (p : bytes) := existsb (fun a => is_desc (n_path a) p) hdirs in
  same_origin (o_loc o) &&
  match o_kind o with
  | 0 => (let allowed := allowed_static_set (s_pages s) (q_path r) (q_ae r) in
          forallb (ok_file (mem_b allowed)) (o_ids o) && forallb (ok_file (mem_b allowed)) (o_hids o)) &&
         (if (o_status o =? 200) && (q_meth r =? 0)
          then (N.of_nat (length (o_ids o)) =? 1) && forallb (mem_N (o_hids o)) (o_ids o) else true)
  | 1 => seteq_N (o_ids o) [] && seteq_N (o_hids o) [] &&
         forallb (fun nm => visible (child_path c nm)) (o_names o) &&
         counts_ok (o_counts o) (filter (fun k => negb (mem_N hid (n_id k))) (children fs c))
  | _ => forallb (ok_file (fun p => is_desc c p && negb (below_hidden p))) (o_ids o) && seteq_N (o_hids o) [] &&
         forallb (fun nm => visible (child_path c nm) && negb (below_hidden (child_path c nm))) (o_names o)
  end.

(* ---- multi-site Casketfiles: the clause about the origin Casketfile, stated WITHOUT the model of
   hideCasketfile.  If the file the configuration was loaded from lies inside this site's root
   (component-wise: [reroot], not a string-prefix test), then no body, no header, no listing or
   archive entry of any answer of the site is that file (by identity: hard links included). *)
Definition origin_in_root (base origin rootrel : bytes) : option bytes :=
  if has_prefix origin base then reroot rootrel (skipn (length base) origin) else None.
Definition origin_clause (base origin rootrel : bytes) (fs : fsys) (r : request) (o : obs) : bool :=
  let c := jail (q_path r) in
  match origin_in_root base origin rootrel with
  | None => true
  | Some p =>
    match fs_at fs p with
    | None => true
    | Some cf =>
        negb (mem_N (o_ids o) (n_id cf)) && negb (mem_N (o_hids o) (n_id cf)) &&
        ((o_kind o =? 0) ||
         forallb (fun nm => match fs_at fs (child_path c nm) with
                            | Some n => negb (n_id n =? n_id cf)
                            | None => true
                            end) (o_names o))
    end
  end.

(* ---- range / conditional cases ---- *)
Definition size_in (sizes : list (N * N)) (id : N) : N :=
  match find (fun p => fst p =? id) sizes with Some p => snd p | None => 0 end.
Fixpoint dedup_N (l : list N) : list N :=
  match l with [] => [] | x :: r => if mem_N r x then dedup_N r else x :: dedup_N r end.
Definition part_ids (parts : list (N * N * list N)) : list N := flat_map snd parts.
(* the observation the ordinary property is evaluated on: the identities found by the token scan
   together with the identities of the pieces *)
Definition range_obs (o : obs) (parts : list (N * N * list N)) : obs :=
  mkobs (o_status o) (o_loc o) (o_ce o) 0 (dedup_N (o_ids o ++ part_ids parts)) [] (o_hids o) [].

Definition agree_range (s : site) (r : request) (q : cond) (sizes : list (N * N)) (o : obs)
           (parts : list (N * N * list N)) : bool :=
  let head := q_meth r =? 1 in
  match respond (size_in sizes) s r q with
  | AOther _ => false
  | AContent n enc ca =>
      let size := size_in sizes (n_id n) in
      let ce_ok := beq (o_ce o) (match enc with Some e => e | None => [] end) in
      let sent (rs : list (N * N)) :=
        if head then match parts with [] => true | _ => false end
        else list_beq (fun a b => (fst a =? fst b) && (snd a =? snd b)) (map fst parts) rs &&
             forallb (fun p => seteq_N (snd p) [n_id n]) parts in
      beq (o_loc o) [] &&
      match ca with
      | CNotModified => (o_status o =? 304) && seteq_N (o_ids o) [] && sent [] && mem_N (o_hids o) (n_id n)
      | CUnsat => (o_status o =? 416) && seteq_N (o_ids o) [] && sent []
      | CFull => (o_status o =? 200) && ce_ok && sent [(0, size)] && mem_N (o_hids o) (n_id n)
      | CParts rs => (o_status o =? 206) && ce_ok && sent rs && mem_N (o_hids o) (n_id n)
      end
  end.

(* the property on a range / conditional answer, WITHOUT the model of ServeContent: everything the
   body consists of (tokens, pieces) and everything the headers describe is ONE regular, visible
   file at a permitted place (the ordinary [spec_ok] on [range_obs]); 200 and 206 answers to GET have
   a body, all of it from that file, every piece inside it; any other status carries no content *)
Definition spec_range (s : site) (r : request) (sizes : list (N * N)) (o : obs)
           (parts : list (N * N * list N)) : bool :=
  let ro := range_obs o parts in
  spec_ok s r ro &&
  if (o_status o =? 200) || (o_status o =? 206) then
    (if q_meth r =? 0
     then (N.of_nat (length (o_ids ro)) =? 1) && forallb (mem_N (o_hids o)) (o_ids ro) &&
          negb (match parts with [] => true | _ => false end)
     else match parts with [] => true | _ => false end) &&
    forallb (fun p => match p with (st, l, ids) => forallb (fun id => st + l <=? size_in sizes id) ids end) parts
  else seteq_N (o_ids ro) [] && match parts with [] => true | _ => false end.

Definition judge (c : case) : N :=
  match c with
  | CSkip => 0
  | CReq s r o => verdict (agree s r o) (spec_ok s r o)
  | CContract s r o => verdict true (spec_ok s r o)
  | CMulti base roots origin pos rootrel scope types r o =>
      let s := msite roots origin pos rootrel scope types in
      verdict (agree s r o && beq (abs_path (nth pos roots [])) (abs_of base rootrel))
              (spec_ok s r o && origin_clause base origin rootrel (s_fs s) r o)
  | CRange s r q sizes o parts => verdict (agree_range s r q sizes o parts) (spec_range s r sizes o parts)
  end.
